// Harness for C19: drives the real middlewares of message/router/middleware.
//
//	REQ stack <mws> <message> <script>     OBS <result> calls=<per call> after=<message afterwards>
//	REQ delay <init>:<max>:<num>:<den> <pre> <seq>    OBS <delay metadata after each call>
//	REQ stackn <mws> <message> <script>    the same, executed with GODEBUG=panicnil=1 (recover() returns nil for panic(nil))
//	REQ throttle <n> <count> <duration ns> <callers> <ctx>  OBS starts=<n> spaced=<1|0>
//	    ctx: live | cancelled (every message arrives with a cancelled context) | timeout (Timeout(period/8) outside the Throttle)
//
// mws    : "-" or comma separated, outermost first: T (Timeout 1h) T0 (Timeout 0) C (CorrelationID) R (Recoverer)
//
//	I:<hex>/<hex>… (IgnoreErrors with the listed error texts) A (InstantAck) H (Throttle) B (CircuitBreaker, never trips)
//	D:<init>:<max>:<num>:<den> (DelayOnError, ns, Multiplier=num/den)  Y:<MaxRetries> (Retry)
//
// message: <ctx>/<cid>/<delay>/<hcid>
// ctx    : live | cancelled | deadline (now+1h) | far (a deadline beyond every Timeout: now+1000h), optionally followed by
//          !a (the message was acked before it enters the chain) or !k (nacked before)      cid: n (no key) | <hex> ("-" = key present, empty)
// delay  : n | ns<int> | raw<hex>             (the _watermill_delayed_for metadata before the call)
// hcid   : n | <hex>                          (the handler overwrites the incoming correlation id with this value)
// script : results of the handler per attempt, ';' separated, the last one repeats:
//
//	ok/<outs>   er/<err>/<outs>   pn/<pval>
//	outs: "-" or '+' separated <idhex>~<meta>     err: '>' separated layers p<hex> (pkg/errors.Wrap) f<hex> (fmt %w) … b<hex>
//	pval: s<hex> | e<hex> | n | l<hex> ([]string{…}: a value of a non-comparable type)
//	err base: b<hex> (errors.New) | u<hex> (an error of a slice type – not comparable, not hashable)
//	          | d- (context.DeadlineExceeded) | k- (context.Canceled): what a handler honouring msg.Context() reports
//
// Observation of a stack case:
//
//	ret/<outs>/<err> | panic/<pval> | hang
//	calls=<dl><done><settled>/<delay>,…    (what the handler saw at each invocation; dl: 0 no deadline, 1 deadline within
//	                                        2h, 2 later; settled: 0 no, 1 acked, 2 nacked)
//	after=<same><dl><done>/<acked>/<delay>/<until>/<meta>
package main

import (
	"context"
	stderrors "errors"
	"fmt"
	"os"
	"runtime"
	"sort"
	"strconv"
	"strings"
	"sync"
	"sync/atomic"
	"time"

	"github.com/ThreeDotsLabs/watermill/components/delay"
	"github.com/ThreeDotsLabs/watermill/message"
	"github.com/ThreeDotsLabs/watermill/message/router/middleware"
	pkgerrors "github.com/pkg/errors"
	"github.com/sony/gobreaker"

	"wmverif/wh"
)

// ---------------------------------------------------------------- shared throttle (its ticker cannot be stopped)

const throttlePeriod = 100 * time.Microsecond

var (
	sharedThrottleOnce sync.Once
	sharedThrottle     *middleware.Throttle
)

func getThrottle() *middleware.Throttle {
	sharedThrottleOnce.Do(func() { sharedThrottle = middleware.NewThrottle(1, throttlePeriod) })
	return sharedThrottle
}

// ---------------------------------------------------------------- parsing helpers

func unhex(s string) (string, error) {
	if s == "-" {
		return "", nil
	}
	b := make([]byte, len(s)/2)
	if len(s)%2 != 0 {
		return "", fmt.Errorf("odd hex")
	}
	for i := 0; i < len(b); i++ {
		v, err := strconv.ParseUint(s[2*i:2*i+2], 16, 8)
		if err != nil {
			return "", err
		}
		b[i] = byte(v)
	}
	return string(b), nil
}

type result struct {
	kind string // ok er pn
	outs []*message.Message
	err  error
	pval interface{}
	spec string // canonical spec of err / pval
}

type caseEnv struct {
	errSpecs  map[error]string
	pvalSpecs []pvalSpec
	// tag (conc cases): appended to the uuids of this call's outputs and to its panic strings, so that a result that
	// belongs to another call is recognisable; the canonical form strips the call's own tag only
	tag string
	// valid (conc cases): every output message built for the case; a returned pointer outside this set (possible when the
	// code under test races on a slice) is reported without being dereferenced
	valid map[*message.Message]bool
	built []*message.Message
	// error values that cannot be map keys, identified by the address of their first element
	sliceErrs []sliceErrSpec
}

type pvalSpec struct {
	v    interface{}
	spec string
}

func parseMeta(s string) (message.Metadata, error) {
	m := message.Metadata{}
	if s == "-" {
		return m, nil
	}
	for _, kv := range strings.Split(s, ",") {
		p := strings.SplitN(kv, "=", 2)
		if len(p) != 2 {
			return nil, fmt.Errorf("bad meta")
		}
		k, err := unhex(p[0])
		if err != nil {
			return nil, err
		}
		v, err := unhex(p[1])
		if err != nil {
			return nil, err
		}
		m[k] = v
	}
	return m, nil
}

func parseOuts(s string, env *caseEnv) ([]*message.Message, error) {
	tag := env.tag
	if s == "-" {
		return nil, nil
	}
	var outs []*message.Message
	for _, o := range strings.Split(s, "+") {
		p := strings.SplitN(o, "~", 2)
		if len(p) != 2 {
			return nil, fmt.Errorf("bad out")
		}
		id, err := unhex(p[0])
		if err != nil {
			return nil, err
		}
		md, err := parseMeta(p[1])
		if err != nil {
			return nil, err
		}
		m := message.NewMessage(id+tag, []byte("payload-"+id))
		for k, v := range md {
			m.Metadata.Set(k, v)
		}
		outs = append(outs, m)
		env.built = append(env.built, m)
	}
	return outs, nil
}

func parseErr(s string, env *caseEnv) (error, error) {
	layers := strings.Split(s, ">")
	last := layers[len(layers)-1]
	if len(last) < 2 || (last[0] != 'b' && last[0] != 'u' && last != "d-" && last != "k-") {
		return nil, fmt.Errorf("bad err base")
	}
	txt, err := unhex(last[1:])
	if err != nil {
		return nil, err
	}
	var e error = stderrors.New(txt)
	switch last {
	case "d-":
		e = context.DeadlineExceeded
	case "k-":
		e = context.Canceled
	}
	if last[0] == 'u' {
		se := sliceErr{txt}
		e = se
		if len(layers) == 1 {
			env.sliceErrs = append(env.sliceErrs, sliceErrSpec{&se[0], s})
			return e, nil
		}
	}
	for i := len(layers) - 2; i >= 0; i-- {
		l := layers[i]
		if len(l) < 2 {
			return nil, fmt.Errorf("bad err layer")
		}
		msg, err := unhex(l[1:])
		if err != nil {
			return nil, err
		}
		switch l[0] {
		case 'p':
			e = pkgerrors.Wrap(e, msg)
		case 'f':
			e = fmt.Errorf("%s: %w", msg, e)
		default:
			return nil, fmt.Errorf("bad err layer kind")
		}
	}
	env.errSpecs[e] = s
	return e, nil
}

// sliceErr is an error whose dynamic type is not comparable (like validator.ValidationErrors or multi-error slices):
// using it as a map key or comparing two of them with == panics at run time.
type sliceErr []string

func (e sliceErr) Error() string { return strings.Join(e, "; ") }

type sliceErrSpec struct {
	first *string
	spec  string
}

type panicErr struct{ s string }

func (p *panicErr) Error() string { return p.s }

func parseScript(s string, env *caseEnv) ([]result, error) {
	var rs []result
	for _, r := range strings.Split(s, ";") {
		p := strings.Split(r, "/")
		switch {
		case p[0] == "ok" && len(p) == 2:
			outs, err := parseOuts(p[1], env)
			if err != nil {
				return nil, err
			}
			rs = append(rs, result{kind: "ok", outs: outs})
		case p[0] == "er" && len(p) == 3:
			e, err := parseErr(p[1], env)
			if err != nil {
				return nil, err
			}
			outs, err := parseOuts(p[2], env)
			if err != nil {
				return nil, err
			}
			rs = append(rs, result{kind: "er", outs: outs, err: e})
		case p[0] == "pn" && len(p) == 2:
			var v interface{}
			switch {
			case p[1] == "n":
				v = nil
			case strings.HasPrefix(p[1], "s"):
				t, err := unhex(p[1][1:])
				if err != nil {
					return nil, err
				}
				v = t + env.tag
			case strings.HasPrefix(p[1], "l"):
				t, err := unhex(p[1][1:])
				if err != nil {
					return nil, err
				}
				v = []string{t + env.tag}
			case strings.HasPrefix(p[1], "e"):
				t, err := unhex(p[1][1:])
				if err != nil {
					return nil, err
				}
				v = &panicErr{t}
			default:
				return nil, fmt.Errorf("bad pval")
			}
			env.pvalSpecs = append(env.pvalSpecs, pvalSpec{v, p[1]})
			rs = append(rs, result{kind: "pn", pval: v, spec: p[1]})
		default:
			return nil, fmt.Errorf("bad result %q", r)
		}
	}
	if len(rs) == 0 {
		return nil, fmt.Errorf("empty script")
	}
	return rs, nil
}

// ---------------------------------------------------------------- canonical forms

func delayCanon(md message.Metadata) string {
	v, ok := md[delay.DelayedForKey]
	if !ok {
		return "n"
	}
	d, err := time.ParseDuration(v)
	if err != nil || v == "" {
		return "raw" + wh.HexS(v)
	}
	if d.String() != v {
		// not in the canonical form time.Duration.String() produces
		return "odd" + wh.HexS(v)
	}
	return "ns" + strconv.FormatInt(int64(d), 10)
}

func untilCanon(md message.Metadata) string {
	v, ok := md[delay.DelayedUntilKey]
	if !ok {
		return "0"
	}
	if _, err := time.Parse(time.RFC3339, v); err != nil {
		return "x"
	}
	return "1"
}

func metaCanon(md message.Metadata) string {
	m := map[string]string{}
	for k, v := range md {
		if k == delay.DelayedForKey || k == delay.DelayedUntilKey {
			continue
		}
		m[k] = v
	}
	return wh.Meta(m)
}

func outsCanon(outs []*message.Message) string { return outsCanonEnv(outs, &caseEnv{}) }

func outsCanonEnv(outs []*message.Message, env *caseEnv) (res string) {
	// a slice header torn by a data race in the code under test (nil data pointer with a length, foreign length) must not
	// kill the harness: reading it may fault
	defer func() {
		if recover() != nil {
			res = "corrupt-slice"
		}
	}()
	tag := env.tag
	if len(outs) == 0 {
		return "-"
	}
	if len(outs) > 64 {
		return "corrupt-slice"
	}
	parts := make([]string, len(outs))
	for i, o := range outs {
		if o == nil {
			parts[i] = "nil"
			continue
		}
		if env.valid != nil && !env.valid[o] {
			parts[i] = "not-an-output"
			continue
		}
		parts[i] = wh.HexS(strings.TrimSuffix(o.UUID, tagOrNone(tag))) + "~" + wh.Meta(o.Metadata)
	}
	return strings.Join(parts, "+")
}

// tagOrNone: TrimSuffix with an empty suffix is the identity; a non-empty tag is only stripped when it is the call's own
func tagOrNone(tag string) string { return tag }

func isNilPanic(v interface{}) bool {
	if v == nil {
		return true
	}
	_, ok := v.(*runtime.PanicNilError)
	return ok
}

func pvalCanon(v interface{}, env *caseEnv) string {
	if isNilPanic(v) {
		return "n"
	}
	switch x := v.(type) {
	case string:
		return "s" + wh.HexS(strings.TrimSuffix(x, tagOrNone(env.tag)))
	case []string:
		if len(x) == 1 {
			return "l" + wh.HexS(strings.TrimSuffix(x[0], tagOrNone(env.tag)))
		}
	case *panicErr:
		for _, ps := range env.pvalSpecs {
			if ps.v == v {
				return ps.spec
			}
		}
		return "e?" + wh.HexS(x.s)
	}
	return "other(" + wh.HexS(fmt.Sprint(v)) + ")"
}

func errCanon(err error, env *caseEnv) string {
	if err == nil {
		return "none"
	}
	if se, ok := err.(sliceErr); ok && len(se) > 0 {
		for _, sp := range env.sliceErrs {
			if sp.first == &se[0] {
				return sp.spec
			}
		}
	}
	if s, ok := lookupErr(err, env); ok {
		return s
	}
	var rpe middleware.RecoveredPanicError
	if stderrors.As(err, &rpe) {
		// "carrying the panic value": the value itself in V and its %#v rendering in the text
		txt := "0"
		want := fmt.Sprintf("%#v", rpe.V)
		if strings.Contains(err.Error(), want) && rpe.Stacktrace != "" {
			txt = "1"
		}
		return "recovered(" + pvalCanon(rpe.V, env) + "," + txt + ")"
	}
	t := err.Error()
	if len(t) > 40 {
		t = t[:40]
	}
	return "other(" + wh.HexS(t) + ")"
}

func lookupErr(err error, env *caseEnv) (s string, ok bool) {
	defer func() {
		if recover() != nil { // uncomparable dynamic type
			ok = false
		}
	}()
	s, ok = env.errSpecs[err]
	return
}

// ---------------------------------------------------------------- building the chain

type stackInfo struct {
	retrySeesDone bool // Retry will find the message context done (so that it must stop)
}

func buildMws(spec string, ctxKind string, env *caseEnv) ([]message.HandlerMiddleware, stackInfo, error) {
	var mws []message.HandlerMiddleware
	info := stackInfo{}
	if spec == "-" {
		return nil, info, nil
	}
	ctxKind = strings.SplitN(ctxKind, "!", 2)[0]
	done := ctxKind == "cancelled"
	toks := strings.Split(spec, ",")
	// first pass: does a Retry see a done context?
	d := done
	for _, t := range toks {
		if t == "T0" {
			d = true
		}
		if strings.HasPrefix(t, "Y:") && d {
			info.retrySeesDone = true
		}
	}
	for _, t := range toks {
		switch {
		case t == "T":
			mws = append(mws, middleware.Timeout(time.Hour))
		case t == "T0":
			mws = append(mws, middleware.Timeout(0))
		case t == "C":
			mws = append(mws, middleware.CorrelationID)
		case t == "R":
			mws = append(mws, middleware.Recoverer)
		case t == "A":
			mws = append(mws, middleware.InstantAck)
		case t == "H":
			mws = append(mws, getThrottle().Middleware)
		case t == "B":
			cb := middleware.NewCircuitBreaker(gobreaker.Settings{
				Name:        "c19",
				ReadyToTrip: func(gobreaker.Counts) bool { return false },
			})
			mws = append(mws, cb.Middleware)
		case strings.HasPrefix(t, "I:"):
			var errs []error
			if t != "I:" {
				for _, h := range strings.Split(t[2:], "/") {
					txt, err := unhex(h)
					if err != nil {
						return nil, info, err
					}
					errs = append(errs, stderrors.New(txt))
				}
			}
			mws = append(mws, middleware.NewIgnoreErrors(errs).Middleware)
		case strings.HasPrefix(t, "D:"):
			cfg, err := parseDelayCfg(t[2:])
			if err != nil {
				return nil, info, err
			}
			mws = append(mws, cfg.Middleware)
		case strings.HasPrefix(t, "Y:"):
			n, err := strconv.Atoi(t[2:])
			if err != nil || n < 0 {
				return nil, info, fmt.Errorf("bad retry")
			}
			iv := 100 * time.Microsecond
			if info.retrySeesDone {
				// the select between ctx.Done() and the timer must not be a coin toss under load
				iv = time.Hour
			}
			r := middleware.Retry{MaxRetries: n, InitialInterval: iv, MaxInterval: iv, Multiplier: 1, RandomizationFactor: 0}
			mws = append(mws, r.Middleware)
		default:
			return nil, info, fmt.Errorf("bad middleware %q", t)
		}
	}
	return mws, info, nil
}

// multipliers are small dyadic rationals and durations small enough for exact float64 arithmetic
func parseDelayCfg(s string) (*middleware.DelayOnError, error) {
	p := strings.Split(s, ":")
	if len(p) != 4 {
		return nil, fmt.Errorf("bad delay cfg")
	}
	var v [4]int64
	for i := range p {
		x, err := strconv.ParseInt(p[i], 10, 64)
		if err != nil || x < 0 {
			return nil, fmt.Errorf("bad delay cfg number")
		}
		v[i] = x
	}
	if v[3] == 0 || (v[3] != 1 && v[3] != 2 && v[3] != 4) || v[2] > 64 || v[0] >= 1<<44 || v[1] >= 1<<44 {
		return nil, fmt.Errorf("delay cfg outside the exact-float range")
	}
	return &middleware.DelayOnError{
		InitialInterval: time.Duration(v[0]),
		MaxInterval:     time.Duration(v[1]),
		Multiplier:      float64(v[2]) / float64(v[3]),
	}, nil
}

func setDelayPre(md message.Metadata, pre string) error {
	switch {
	case pre == "n":
	case strings.HasPrefix(pre, "ns"):
		n, err := strconv.ParseInt(pre[2:], 10, 64)
		if err != nil || n < 0 || n >= 1<<44 {
			return fmt.Errorf("bad delay pre")
		}
		md[delay.DelayedForKey] = time.Duration(n).String()
	case strings.HasPrefix(pre, "raw"):
		t, err := unhex(pre[3:])
		if err != nil {
			return err
		}
		if _, perr := time.ParseDuration(t); perr == nil && t != "" {
			return fmt.Errorf("raw delay parses")
		}
		md[delay.DelayedForKey] = t
	default:
		return fmt.Errorf("bad delay pre")
	}
	return nil
}

// ---------------------------------------------------------------- one stack case

// callState is what one handler call (one incoming message) carries: its script, what the handler saw, the values
// built for it.
type callState struct {
	env     *caseEnv
	script  []result
	calls   []string
	attempt int
	setHcid bool
	hcid    string
	msg     *message.Message
	orig    context.Context
	cancel  func()
}

type outcome struct {
	outs     []*message.Message
	err      error
	panicked bool
	pv       interface{}
}

// newCall builds the incoming message of a case from its spec <ctx>/<cid>/<delay>/<hcid> and parses its script.
func newCall(msgSpec, scriptSpec, tag string) (*callState, bool) {
	cs := &callState{env: &caseEnv{errSpecs: map[error]string{}, tag: tag}, cancel: func() {}}
	mp := strings.Split(msgSpec, "/")
	if len(mp) != 4 {
		return nil, false
	}
	cs.setHcid = mp[3] != "n"
	if cs.setHcid {
		v, err := unhex(mp[3])
		if err != nil {
			return nil, false
		}
		cs.hcid = v
	}
	script, err := parseScript(scriptSpec, cs.env)
	if err != nil {
		return nil, false
	}
	cs.script = script
	msg := message.NewMessage("in"+tag, []byte("payload"))
	ck := strings.SplitN(mp[0], "!", 2)
	if len(ck) == 2 {
		// settled before the message enters the chain
		switch ck[1] {
		case "a":
			msg.Ack()
		case "k":
			msg.Nack()
		default:
			return nil, false
		}
	}
	switch ck[0] {
	case "far":
		c, cancel := context.WithDeadline(context.Background(), time.Now().Add(1000*time.Hour))
		cs.cancel = cancel
		cs.orig = c
	case "live":
		cs.orig = context.WithValue(context.Background(), ctxKeyT{}, 1)
	case "cancelled":
		c, cancel := context.WithCancel(context.Background())
		cancel()
		cs.orig = c
	case "deadline":
		c, cancel := context.WithDeadline(context.Background(), time.Now().Add(time.Hour))
		cs.cancel = cancel
		cs.orig = c
	default:
		return nil, false
	}
	msg.SetContext(cs.orig)
	if mp[1] != "n" {
		v, err := unhex(mp[1])
		if err != nil {
			return nil, false
		}
		msg.Metadata.Set(middleware.CorrelationIDMetadataKey, v)
	}
	msg.Metadata.Set("in_key", "in_val")
	if err := setDelayPre(msg.Metadata, mp[2]); err != nil {
		return nil, false
	}
	cs.msg = msg
	return cs, true
}

// dlDigit classifies the deadline a context carries: 0 none, 1 within two hours (every Timeout of the harness is at most one
// hour), 2 later (only a caller-set "far" deadline of 1000h).
func dlDigit(ctx context.Context) string {
	d, ok := ctx.Deadline()
	switch {
	case !ok:
		return "0"
	case time.Until(d) <= 2*time.Hour:
		return "1"
	}
	return "2"
}

// settleDigit: 0 not settled, 1 acked, 2 nacked.
func settleDigit(m *message.Message) string {
	select {
	case <-m.Acked():
		return "1"
	default:
	}
	select {
	case <-m.Nacked():
		return "2"
	default:
	}
	return "0"
}

// handle is the scripted handler's behaviour for the call cs.
func (cs *callState) handle(m *message.Message) ([]*message.Message, error) {
	ctx := m.Context()
	cs.calls = append(cs.calls, dlDigit(ctx)+b01(ctx.Err() != nil)+settleDigit(m)+"/"+delayCanon(m.Metadata))
	if cs.setHcid {
		m.Metadata.Set(middleware.CorrelationIDMetadataKey, cs.hcid)
	}
	r := cs.script[len(cs.script)-1]
	if cs.attempt < len(cs.script) {
		r = cs.script[cs.attempt]
	}
	cs.attempt++
	switch r.kind {
	case "ok":
		return r.outs, nil
	case "er":
		return r.outs, r.err
	}
	panic(r.pval)
}

// invoke calls the wrapped chain on the call's message, recovering a panic into the outcome.
func (cs *callState) invoke(h message.HandlerFunc) (o outcome) {
	defer func() {
		if o.panicked {
			o.pv = recover()
		}
	}()
	o.panicked = true
	o.outs, o.err = h(cs.msg)
	o.panicked = false
	return o
}

// observe renders the canonical observation of a finished call.
func (cs *callState) observe(o outcome) string {
	env, msg := cs.env, cs.msg
	var sb strings.Builder
	if o.panicked {
		sb.WriteString("panic/" + pvalCanon(o.pv, env))
	} else {
		sb.WriteString("ret/" + outsCanonEnv(o.outs, env) + "/" + errCanon(o.err, env))
	}
	sb.WriteString(" calls=")
	if len(cs.calls) == 0 {
		sb.WriteString("-")
	} else {
		sb.WriteString(strings.Join(cs.calls, ","))
	}
	ctx := msg.Context()
	sb.WriteString(" after=" + b01(ctx == cs.orig) + dlDigit(ctx) + b01(ctx.Err() != nil) + "/" + settleDigit(msg) + "/" +
		delayCanon(msg.Metadata) + "/" + untilCanon(msg.Metadata) + "/" + metaCanon(msg.Metadata))
	return sb.String()
}

var hangs int32

func wrap(mws []message.HandlerMiddleware, h message.HandlerFunc) message.HandlerFunc {
	// outermost first
	for i := len(mws) - 1; i >= 0; i-- {
		h = mws[i](h)
	}
	return h
}

func runStack(req string) string {
	f := strings.Fields(req)
	if len(f) != 4 || (f[0] != "stack" && f[0] != "stackn") {
		return "bad-request"
	}
	cs, ok := newCall(f[2], f[3], "")
	if !ok {
		return "bad-request"
	}
	defer cs.cancel()
	mws, info, err := buildMws(f[1], strings.Split(f[2], "/")[0], cs.env)
	if err != nil {
		return "bad-request"
	}
	h := wrap(mws, cs.handle)
	doneCh := make(chan outcome, 1)
	go func() { doneCh <- cs.invoke(h) }()
	// A Retry that is to find its context done was given a one-hour interval (see buildMws): if the code under test
	// does not stop there the call sleeps for an hour.  Such a call must return at once, so it is given 3 s instead of 20,
	// and after a few hangs the remaining calls of that kind are not waited for at all (a changed tree would otherwise
	// spend the whole time budget in watchdogs).
	limit := 20 * time.Second
	if info.retrySeesDone {
		limit = 3 * time.Second
		if atomic.LoadInt32(&hangs) >= 8 {
			limit = 200 * time.Millisecond
		}
	}
	var o outcome
	select {
	case o = <-doneCh:
	case <-time.After(limit):
		atomic.AddInt32(&hangs, 1)
		return "hang"
	}
	return cs.observe(o)
}

// ---------------------------------------------------------------- concurrent calls through ONE wrapped handler value
//
//	REQ conc <mws> <message> <templates> <goroutines> <n>
//
// One chain is built once (as Router.AddHandler does) around one handler function; n messages, message i scripted with
// template i mod t and all its values tagged "#i", are pushed through it by g goroutines at the same time.  Every call
// must return its own handler's outputs and error.  OBS: per template the distinct canonical observations with their
// counts ("<count>* <observation>", several joined by " ;; " when calls of one kind disagree), templates joined by " || ".
func runConc(req string) string {
	f := strings.Fields(req)
	if len(f) != 6 || f[0] != "conc" {
		return "bad-request"
	}
	g, e1 := strconv.Atoi(f[4])
	n, e2 := strconv.Atoi(f[5])
	templates := strings.Split(f[3], ";")
	if e1 != nil || e2 != nil || g < 1 || g > 64 || n < 1 || n > 200000 || len(templates) == 0 {
		return "bad-request"
	}
	ctxKind := strings.Split(f[2], "/")[0]
	calls := make([]*callState, n)
	var byMsg sync.Map
	for i := range calls {
		cs, ok := newCall(f[2], templates[i%len(templates)], "#"+strconv.Itoa(i))
		if !ok {
			return "bad-request"
		}
		defer cs.cancel()
		calls[i] = cs
		byMsg.Store(cs.msg, cs)
	}
	valid := map[*message.Message]bool{}
	for _, cs := range calls {
		for _, m := range cs.env.built {
			valid[m] = true
		}
	}
	for _, cs := range calls {
		cs.env.valid = valid
	}
	mws, _, err := buildMws(f[1], ctxKind, &caseEnv{errSpecs: map[error]string{}})
	if err != nil {
		return "bad-request"
	}
	// the one wrapped handler: the handler function finds the call by the message it is given
	h := wrap(mws, func(m *message.Message) ([]*message.Message, error) {
		v, ok := byMsg.Load(m)
		if !ok {
			return nil, stderrors.New("handler called with a message that is not one of the incoming messages")
		}
		return v.(*callState).handle(m)
	})
	outs := make([]outcome, n)
	start := make(chan struct{})
	var wg sync.WaitGroup
	for w := 0; w < g; w++ {
		w := w
		wg.Add(1)
		go func() {
			defer wg.Done()
			<-start
			for i := w; i < n; i += g {
				outs[i] = calls[i].invoke(h)
			}
		}()
	}
	finished := make(chan struct{})
	go func() { wg.Wait(); close(finished) }()
	close(start)
	select {
	case <-finished:
	case <-time.After(120 * time.Second):
		return "hang"
	}
	groups := make([]string, len(templates))
	for k := range templates {
		cnt := map[string]int{}
		for i := k; i < n; i += len(templates) {
			cnt[calls[i].observe(outs[i])]++
		}
		keys := make([]string, 0, len(cnt))
		for c := range cnt {
			keys = append(keys, c)
		}
		sort.Strings(keys)
		parts := make([]string, len(keys))
		for j, c := range keys {
			parts[j] = strconv.Itoa(cnt[c]) + "* " + c
		}
		groups[k] = strings.Join(parts, " ;; ")
	}
	return strings.Join(groups, " || ")
}

type ctxKeyT struct{}

func b01(b bool) string {
	if b {
		return "1"
	}
	return "0"
}

// ---------------------------------------------------------------- DelayOnError sequences

func runDelay(req string) string {
	f := strings.Fields(req)
	if len(f) != 4 || f[0] != "delay" {
		return "bad-request"
	}
	cfg, err := parseDelayCfg(f[1])
	if err != nil {
		return "bad-request"
	}
	msg := message.NewMessage("in", nil)
	if err := setDelayPre(msg.Metadata, f[2]); err != nil {
		return "bad-request"
	}
	seq := f[3]
	if seq == "-" {
		seq = ""
	}
	fail := false
	boom := stderrors.New("boom")
	out := message.NewMessage("o", nil)
	h := cfg.Middleware(func(m *message.Message) ([]*message.Message, error) {
		if fail {
			return []*message.Message{out}, boom
		}
		return []*message.Message{out}, nil
	})
	var parts []string
	for i := 0; i < len(seq); i++ {
		switch seq[i] {
		case 'F':
			fail = true
		case 'S':
			fail = false
		default:
			return "bad-request"
		}
		beforeUntil := untilCanon(msg.Metadata)
		outs, err := h(msg)
		ok := len(outs) == 1 && outs[0] == out && ((fail && err == boom) || (!fail && err == nil))
		// delayed_until: written together with delayed_for on a failure, untouched on a success
		u := untilCanon(msg.Metadata)
		if !fail && u != beforeUntil {
			u = "t" // touched on success
		}
		parts = append(parts, delayCanon(msg.Metadata)+"/"+u+b01(ok))
	}
	if len(parts) == 0 {
		return "-"
	}
	return strings.Join(parts, ",")
}

// ---------------------------------------------------------------- Throttle timing (lower bound only)

func runThrottle(req string) string {
	f := strings.Fields(req)
	if len(f) != 6 || f[0] != "throttle" || (f[5] != "live" && f[5] != "cancelled" && f[5] != "timeout") {
		return "bad-request"
	}
	ctxKind := f[5]
	n, e1 := strconv.Atoi(f[1])
	count, e2 := strconv.ParseInt(f[2], 10, 64)
	dur, e3 := strconv.ParseInt(f[3], 10, 64)
	callers, e4 := strconv.Atoi(f[4])
	if e1 != nil || e2 != nil || e3 != nil || e4 != nil || n < 1 || n > 1000 || count < 1 || dur < 1 || dur/count < 1 || callers < 1 || callers > n {
		return "bad-request"
	}
	period := time.Duration(dur) / time.Duration(count)
	// t0 is taken before the ticker exists, `last` inside the handler (≥ the last start).  n starts consume n
	// distinct ticks and tick i is never delivered before creation + i·period, so last - t0 ≥ n·period whatever
	// the load of the machine, however late the runtime fires the timer and however the callers (one Throttle is
	// shared by several handlers) interleave.  Judged with two periods to spare: (n-2)·period.
	t0 := time.Now()
	th := middleware.NewThrottle(count, time.Duration(dur))
	var mu sync.Mutex
	starts := 0
	var last time.Time
	h := th.Middleware(func(m *message.Message) ([]*message.Message, error) {
		now := time.Now()
		mu.Lock()
		starts++
		if now.After(last) {
			last = now
		}
		mu.Unlock()
		return nil, nil
	})
	if ctxKind == "timeout" {
		// Timeout outside the Throttle, much shorter than the period: the context expires while the message waits
		// for its tick – it still has to wait for it
		d := period / 8
		if d < time.Microsecond {
			d = time.Microsecond
		}
		h = middleware.Timeout(d)(h)
	}
	var wg sync.WaitGroup
	for c := 0; c < callers; c++ {
		k := n / callers
		if c < n%callers {
			k++
		}
		wg.Add(1)
		go func() {
			defer wg.Done()
			for i := 0; i < k; i++ {
				msg := message.NewMessage("in", nil)
				if ctxKind == "cancelled" {
					cctx, cancel := context.WithCancel(context.Background())
					cancel()
					msg.SetContext(cctx)
				}
				h(msg)
			}
		}()
	}
	wg.Wait()
	bound := time.Duration(0)
	if n > 2 {
		bound = time.Duration(n-2) * period
	}
	return "starts=" + strconv.Itoa(starts) + " spaced=" + b01(last.Sub(t0) >= bound)
}

// withPanicNil runs f with GODEBUG=panicnil=1 (the setting of programs whose go.mod says go < 1.21): recover() then
// returns nil for panic(nil).  The runtime re-reads GODEBUG when the variable changes; the setting is process wide,
// so nothing else may run meanwhile.
func withPanicNil(f func()) {
	old, had := os.LookupEnv("GODEBUG")
	v := "panicnil=1"
	if had && old != "" {
		v = old + ",panicnil=1"
	}
	os.Setenv("GODEBUG", v)
	defer func() {
		if had {
			os.Setenv("GODEBUG", old)
		} else {
			os.Unsetenv("GODEBUG")
		}
	}()
	f()
}

// panicNilActive reports whether recover() really returns nil for panic(nil) right now.
func panicNilActive() (nilSeen bool) {
	defer func() { nilSeen = recover() == nil }()
	panic(nil)
}

func runReq(req string) string {
	switch {
	case strings.HasPrefix(req, "stackn "):
		res := ""
		withPanicNil(func() {
			if !panicNilActive() {
				res = "bad-request"
				return
			}
			res = runStack(req)
		})
		return res
	case strings.HasPrefix(req, "stack "):
		return runStack(req)
	case strings.HasPrefix(req, "delay "):
		return runDelay(req)
	case strings.HasPrefix(req, "throttle "):
		return runThrottle(req)
	case strings.HasPrefix(req, "conc "):
		return runConc(req)
	}
	return "bad-request"
}

func main() {
	a := wh.ParseArgs()
	out := wh.NewOut(a.Out)
	defer out.Close()
	if a.Replay != "" {
		out.Case(a.Replay, runReq(a.Replay))
		return
	}
	reqs := generate(a, out)
	obs := make([]string, len(reqs))
	// independent cases in parallel; output in generation order
	workers := runtime.NumCPU()
	if workers > 16 {
		workers = 16
	}
	var wg sync.WaitGroup
	idx := make(chan int, 1024)
	for w := 0; w < workers; w++ {
		wg.Add(1)
		go func() {
			defer wg.Done()
			for i := range idx {
				if strings.HasPrefix(reqs[i], "throttle ") || strings.HasPrefix(reqs[i], "stackn ") || strings.HasPrefix(reqs[i], "conc ") {
					continue // timing and concurrency cases run alone, afterwards; panicnil cases in their own phase
				}
				obs[i] = runReq(reqs[i])
			}
		}()
	}
	for i := range reqs {
		idx <- i
	}
	close(idx)
	wg.Wait()
	// second phase: the cases that run under GODEBUG=panicnil=1 (process-wide setting), in parallel among themselves
	withPanicNil(func() {
		active := panicNilActive()
		var wg2 sync.WaitGroup
		idx2 := make(chan int, 1024)
		for w := 0; w < workers; w++ {
			wg2.Add(1)
			go func() {
				defer wg2.Done()
				for i := range idx2 {
					if !active {
						obs[i] = "bad-request"
						continue
					}
					obs[i] = runStack(reqs[i])
				}
			}()
		}
		for i := range reqs {
			if strings.HasPrefix(reqs[i], "stackn ") {
				idx2 <- i
			}
		}
		close(idx2)
		wg2.Wait()
	})
	for i := range reqs {
		if strings.HasPrefix(reqs[i], "throttle ") || strings.HasPrefix(reqs[i], "conc ") {
			obs[i] = runReq(reqs[i])
		}
	}
	for i := range reqs {
		if obs[i] == "bad-request" {
			fmt.Fprintln(os.Stderr, "generator produced a request the harness rejects:", reqs[i])
			out.Count("rejected")
			continue
		}
		out.Case(reqs[i], obs[i])
	}
}
