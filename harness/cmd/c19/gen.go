package main

import (
	"flag"
	"strconv"
	"strings"

	"wmverif/wh"
)

// -breaker-panicnil adds the cases of the candidate finding "breaker+panicnil" (CircuitBreaker under GODEBUG=panicnil=1
// reports a handler that called panic(nil) as success: gobreaker v1.0.0 re-panics only when recover() != nil).  The check
// passes the flag only while known-findings.json lists that pattern as open (see checks/c19.py).
var withBreakerPanicNil = flag.Bool("breaker-panicnil", false, "generate the CircuitBreaker cases under GODEBUG=panicnil=1")

func hx(s string) string { return wh.HexS(s) }

const cidKeyHex = "636f7272656c6174696f6e5f6964" // "correlation_id"

func out(id string, kv ...string) string {
	m := map[string]string{}
	for i := 0; i+1 < len(kv); i += 2 {
		m[kv[i]] = kv[i+1]
	}
	return hx(id) + "~" + wh.Meta(m)
}

func outs(os ...string) string {
	if len(os) == 0 {
		return "-"
	}
	return strings.Join(os, "+")
}

var (
	outsNone  = "-"
	outsLack  = outs(out("a", "x", "1"))
	outsMixed = outs(out("a", "x", "1"), out("b", "correlation_id", "own", "y", "2"), out("c", "correlation_id", ""), out("d"))
)

// single handler results: outputs, errors (plain, pkg/errors-wrapped, fmt %w-wrapped, nested), panics (string, error, nil)
func resultPool() []string {
	boom := "b" + hx("boom")
	return []string{
		"ok/" + outsNone,
		"ok/" + outsLack,
		"ok/" + outsMixed,
		"er/" + boom + "/" + outsNone,
		"er/" + boom + "/" + outsMixed,
		"er/p" + hx("ctx") + ">" + boom + "/" + outsLack,
		"er/f" + hx("ctx") + ">" + boom + "/" + outsNone,
		"er/p" + hx("outer") + ">p" + hx("ctx") + ">" + boom + "/" + outsNone,
		"er/f" + hx("outer") + ">p" + hx("ctx") + ">" + boom + "/" + outsNone,
		"er/p" + hx("outer") + ">f" + hx("ctx") + ">" + boom + "/" + outsLack,
		"er/b" + hx("other") + "/" + outsNone,
		"er/b" + hx("") + "/" + outsNone,
		"pn/s" + hx("boom"),
		"pn/s" + hx(""),
		"pn/e" + hx("boom"),
		"pn/n",
		// values of non-comparable dynamic types (a slice-typed error, a panic with a slice): results like any other
		"er/u" + hx("boom") + "/" + outsNone,
		"er/p" + hx("ctx") + ">u" + hx("boom") + "/" + outsLack,
		"er/u" + hx("fields") + "/" + outsMixed,
		"pn/l" + hx("boom"),
		// the handler reports the error of its (per-call) context, plain and wrapped
		"er/d-/" + outsNone,
		"er/p" + hx("ctx") + ">d-/" + outsLack,
		"er/f" + hx("ctx") + ">k-/" + outsNone,
	}
}

func isOK(r string) bool  { return strings.HasPrefix(r, "ok/") }
func isErr(r string) bool { return strings.HasPrefix(r, "er/") }

var delayCfgs = []string{
	"1000:10000:3:2", "1000:1000000:2:1", "1000000000:60000000000:3:2", "7:100:5:2", "1:1000:3:2", "500:500:3:1", "250:4000:1:1",
}

// configurations of finding D17 (InitialInterval > MaxInterval; MaxInterval left unset)
var delayCfgsInitGtMax = []string{"5000:1000:2:1", "1000000000:0:3:2"}

func mwPool() []string {
	p := []string{
		"T", "T0", "C", "R", "A", "H", "B",
		"I:" + hx("boom"), "I:" + hx("ctx: boom") + "/" + hx("other"), "I:", "I:-/" + hx("boom"),
		"D:" + delayCfgs[0], "D:" + delayCfgs[1], "D:" + delayCfgs[3],
	}
	return p
}

var retryPool = []string{"Y:0", "Y:1", "Y:2", "Y:3"}

func msgPool() []string {
	var ms []string
	for _, c := range []string{"live", "cancelled", "deadline"} {
		for _, cid := range []string{"n", "-", hx("in-cid")} {
			for _, d := range []string{"n", "ns2000", "raw-", "raw" + hx("soon")} {
				for _, hc := range []string{"n", hx("h-cid")} {
					ms = append(ms, c+"/"+cid+"/"+d+"/"+hc)
				}
			}
		}
	}
	// a caller-set deadline beyond every Timeout of the chain; messages that were settled before they enter the chain
	// (acked: !a, nacked: !k - Ack() is then a no-op that returns false)
	ms = append(ms,
		"far/n/n/n", "far/-/ns2000/n", "far/"+hx("in-cid")+"/raw-/"+hx("h-cid"),
		"live!k/n/n/n", "live!a/n/n/n", "deadline!k/"+hx("in-cid")+"/ns2000/n", "cancelled!k/n/n/n",
		"far!k/n/n/n", "far!a/-/n/n", "cancelled!a/n/n/n", "live!k/"+hx("in-cid")+"/raw-/"+hx("h-cid"), "deadline!a/n/n/n")
	return ms
}

// multi-attempt scripts (for Retry): the last result repeats
func scriptPool(rs []string) []string {
	F, W, P, S, SO, FO := rs[3], rs[5], rs[12], rs[0], rs[2], rs[4]
	return []string{
		F,                          // always fails
		F + ";" + SO,               // fails once
		FO + ";" + F + ";" + SO,    // fails twice, outputs on a failure
		F + ";" + W + ";" + F + ";" + S,
		F + ";" + P,                // panics on the second attempt
		P + ";" + S,
		W + ";" + rs[10] + ";" + SO, // listed / unlisted mix
		F + ";" + F + ";" + F + ";" + F + ";" + SO,
		SO,
		rs[15] + ";" + F + ";" + S,
		rs[16] + ";" + SO,                   // an error of a non-comparable type, then success
		rs[19] + ";" + rs[17] + ";" + S,     // a panic with a slice value, then a wrapped slice-typed error
		rs[18],                              // always fails with an unlisted slice-typed error
		rs[20],                              // every attempt ends at its deadline: context.DeadlineExceeded
		rs[21] + ";" + rs[22] + ";" + rs[20] + ";" + SO, // wrapped context errors, success on the fourth attempt
		rs[20] + ";" + rs[20] + ";" + S,
	}
}

func countRetry(stack []string) int {
	n := 0
	for _, m := range stack {
		if strings.HasPrefix(m, "Y:") {
			n++
		}
	}
	return n
}

func stackReq(stack []string, msg, script string) string {
	s := "-"
	if len(stack) > 0 {
		s = strings.Join(stack, ",")
	}
	return "stack " + s + " " + msg + " " + script
}

func kindOf(m string) string {
	if i := strings.Index(m, ":"); i >= 0 {
		return m[:i]
	}
	return m
}

func generate(a wh.Args, o *wh.Out) []string {
	rng := wh.NewRng(a.Seed)
	var reqs []string
	add := func(r string, tag string) {
		reqs = append(reqs, r)
		o.Count(tag)
	}
	rs := resultPool()
	mws := mwPool()
	msgs := msgPool()
	scripts := scriptPool(rs)
	all := append(append([]string{}, mws...), retryPool...)
	var rareCfgs []string // configurations of the open finding D17 (InitialInterval > MaxInterval): kept to a small share
	for _, c := range delayCfgsInitGtMax {
		rareCfgs = append(rareCfgs, "D:"+c)
	}

	// 1. bare handler and every single middleware x every result x every message variant (exhaustive)
	for _, r := range rs {
		for _, m := range msgs {
			add(stackReq(nil, m, r), "stack.depth0")
		}
	}
	for _, mw := range all {
		for _, r := range rs {
			for _, m := range msgs {
				add(stackReq([]string{mw}, m, r), "stack.depth1."+kindOf(mw))
			}
		}
	}
	for _, mw := range rareCfgs {
		for _, r := range rs {
			for i, m := range msgs {
				if i%12 == 0 {
					add(stackReq([]string{mw}, m, r), "stack.init_gt_max")
				}
			}
		}
	}
	nRare := 150
	if a.Thorough() {
		nRare = 1500
	}
	for i := 0; i < nRare; i++ {
		n := 2 + rng.Intn(2)
		st := make([]string, n)
		for {
			for j := range st {
				st[j] = all[rng.Intn(len(all))]
			}
			st[rng.Intn(n)] = rareCfgs[rng.Intn(len(rareCfgs))]
			if countRetry(st) <= 1 {
				break
			}
		}
		add(stackReq(st, msgs[rng.Intn(len(msgs))], scripts[rng.Intn(len(scripts))]), "stack.init_gt_max")
	}
	// single middleware x multi-attempt scripts (matters for Retry)
	for _, mw := range all {
		for _, sc := range scripts {
			add(stackReq([]string{mw}, msgs[rng.Intn(len(msgs))], sc), "stack.depth1.script")
		}
	}

	// 2. every ordered pair (at most one Retry), scripts and messages drawn per pair
	perPair := 10
	if a.Thorough() {
		perPair = 40
	}
	for _, m1 := range all {
		for _, m2 := range all {
			st := []string{m1, m2}
			if countRetry(st) > 1 {
				continue
			}
			for k := 0; k < perPair; k++ {
				var sc string
				if countRetry(st) == 1 || k%2 == 0 {
					sc = scripts[rng.Intn(len(scripts))]
				} else {
					sc = rs[rng.Intn(len(rs))]
				}
				add(stackReq(st, msgs[rng.Intn(len(msgs))], sc), "stack.depth2")
				if countRetry(st) == 1 {
					o.Count("stack.with_retry")
				}
			}
		}
	}

	// 3. ordered triples: all kinds in every order with Retry at each position, configurations drawn
	nTriples := 30000
	if a.Thorough() {
		nTriples = 400000
	}
	kinds := map[string][]string{}
	var kindList []string
	for _, m := range all {
		k := kindOf(m)
		if _, ok := kinds[k]; !ok {
			kindList = append(kindList, k)
		}
		kinds[k] = append(kinds[k], m)
	}
	pick := func(k string) string { v := kinds[k]; return v[rng.Intn(len(v))] }
	// every ordered triple of kinds with at most one Retry: enumerated
	for _, k1 := range kindList {
		for _, k2 := range kindList {
			for _, k3 := range kindList {
				ks := []string{k1, k2, k3}
				ny := 0
				for _, k := range ks {
					if k == "Y" {
						ny++
					}
				}
				if ny > 1 {
					continue
				}
				st := []string{pick(k1), pick(k2), pick(k3)}
				if ny == 0 {
					add(stackReq(st, msgs[rng.Intn(len(msgs))], rs[rng.Intn(len(rs))]), "stack.depth3.kinds_enum")
					continue
				}
				add(stackReq(st, msgs[rng.Intn(len(msgs))], scripts[rng.Intn(len(scripts))]), "stack.depth3.retry_enum")
				o.Count("stack.with_retry")
			}
		}
	}
	for i := 0; i < nTriples; i++ {
		var st []string
		for {
			st = []string{all[rng.Intn(len(all))], all[rng.Intn(len(all))], all[rng.Intn(len(all))]}
			if countRetry(st) <= 1 {
				break
			}
		}
		var sc string
		if countRetry(st) == 1 || rng.Intn(2) == 0 {
			sc = scripts[rng.Intn(len(scripts))]
		} else {
			sc = rs[rng.Intn(len(rs))]
		}
		add(stackReq(st, msgs[rng.Intn(len(msgs))], sc), "stack.depth3")
		if countRetry(st) == 1 {
			o.Count("stack.with_retry")
		}
	}

	// 4. DelayOnError: every failure/success sequence up to the tier's length, every configuration
	maxLen := 6
	if a.Thorough() {
		maxLen = 8
	}
	pres := []string{"n", "ns0", "ns3", "ns2000", "ns999999", "raw-", "raw" + hx("soon"), "raw" + hx("5 s")}
	var seqs []string
	var rec func(p string)
	rec = func(p string) {
		if p != "" {
			seqs = append(seqs, p)
		}
		if len(p) == maxLen {
			return
		}
		rec(p + "F")
		rec(p + "S")
	}
	rec("")
	for _, c := range delayCfgs {
		for _, s := range seqs {
			add("delay "+c+" n "+s, "delay.fresh")
			add("delay "+c+" "+pres[1+rng.Intn(len(pres)-1)]+" "+s, "delay.pre")
		}
	}
	for _, c := range delayCfgsInitGtMax {
		for _, s := range seqs {
			if len(s) <= 4 {
				add("delay "+c+" n "+s, "delay.init_gt_max")
			}
		}
	}
	// random configurations (exactly representable multipliers, exact float range)
	nRand := 1500
	if a.Thorough() {
		nRand = 100000
	}
	mults := [][2]int{{1, 1}, {3, 2}, {2, 1}, {5, 2}, {3, 1}, {5, 4}, {7, 4}, {9, 2}}
	for i := 0; i < nRand; i++ {
		m := mults[rng.Intn(len(mults))]
		init := int64(rng.Intn(1 << uint(1+rng.Intn(30))))
		max := init + int64(rng.Intn(1<<uint(1+rng.Intn(34))))
		c := strconv.FormatInt(init, 10) + ":" + strconv.FormatInt(max, 10) + ":" + strconv.Itoa(m[0]) + ":" + strconv.Itoa(m[1])
		n := 1 + rng.Intn(maxLen)
		b := make([]byte, n)
		for j := range b {
			if rng.Intn(4) == 0 {
				b[j] = 'S'
			} else {
				b[j] = 'F'
			}
		}
		add("delay "+c+" "+pres[rng.Intn(len(pres))]+" "+string(b), "delay.random")
	}

	// 5. the same chains in a program running with GODEBUG=panicnil=1 (go.mod go < 1.21): recover() returns nil for
	// panic(nil).  Every panic value, nil included, must still become an error under a Recoverer and escape as a panic
	// elsewhere.  The CircuitBreaker is left out: gobreaker v1.0.0 itself swallows a nil panic in that mode (library).
	var allN []string
	for _, m := range all {
		if m != "B" {
			allN = append(allN, m)
		}
	}
	pn, ps, F, S := rs[15], rs[12], rs[3], rs[0]
	scriptsN := []string{pn, pn + ";" + S, F + ";" + pn, pn + ";" + pn + ";" + rs[2], ps + ";" + pn, pn + ";" + F + ";" + S, F + ";" + pn + ";" + S}
	for _, mw := range allN {
		for _, r := range []string{pn, ps, rs[13], rs[14], F, rs[5], S, rs[2]} {
			for i, m := range msgs {
				if i%9 == 0 {
					add("stackn "+stackReq([]string{mw}, m, r)[6:], "stackn.depth1")
				}
			}
		}
	}
	for _, m1 := range allN {
		for _, m2 := range allN {
			st := []string{m1, m2}
			if countRetry(st) > 1 || (m1 != "R" && m2 != "R" && rng.Intn(4) != 0) {
				continue
			}
			for _, sc := range scriptsN {
				add("stackn "+stackReq(st, msgs[rng.Intn(len(msgs))], sc)[6:], "stackn.depth2")
			}
		}
	}
	nN := 1500
	if a.Thorough() {
		nN = 20000
	}
	for i := 0; i < nN; i++ {
		var st []string
		for {
			st = []string{allN[rng.Intn(len(allN))], allN[rng.Intn(len(allN))], allN[rng.Intn(len(allN))]}
			if rng.Intn(3) != 0 {
				st[rng.Intn(3)] = "R"
			}
			if countRetry(st) <= 1 {
				break
			}
		}
		add("stackn "+stackReq(st, msgs[rng.Intn(len(msgs))], scriptsN[rng.Intn(len(scriptsN))])[6:], "stackn.depth3")
	}

	if *withBreakerPanicNil {
		for _, r := range []string{pn, ps, F, S} {
			for i, m := range msgs {
				if i%18 == 0 {
					add("stackn "+stackReq([]string{"B"}, m, r)[6:], "stackn.breaker")
				}
			}
		}
		for _, st := range [][]string{{"R", "B"}, {"B", "R"}, {"Y:2", "B"}, {"B", "Y:1"}, {"T", "B"}, {"Y:2", "R", "B"}} {
			for _, sc := range scriptsN {
				add("stackn "+stackReq(st, msgs[rng.Intn(len(msgs))], sc)[6:], "stackn.breaker")
			}
		}
	}

	// 6. concurrent messages through ONE wrapped handler value (the Router calls the wrapped handler from one goroutine
	// per message): every call must return its own handler's outputs and error.  Each single middleware, and seeded
	// stacks of 2-3, with 2..16 goroutines; message i is scripted with template i mod 5, its values tagged with i.
	templates := rs[2] + ";" + rs[4] + ";" + rs[5] + ";" + rs[12] + ";" + rs[0]
	gs := []int{2, 4, 8, 16}
	concN := func(st []string) int {
		n := 1600
		if a.Thorough() {
			n = 8000
		}
		for _, m := range st {
			if m == "H" || strings.HasPrefix(m, "Y:") {
				n /= 4 // every call waits for a tick / sleeps between attempts
			}
		}
		return n
	}
	addConc := func(st []string, g int, tag string) {
		s := "-"
		if len(st) > 0 {
			s = strings.Join(st, ",")
		}
		add("conc "+s+" "+msgs[rng.Intn(len(msgs))]+" "+templates+" "+strconv.Itoa(g)+" "+strconv.Itoa(concN(st)), tag)
	}
	for i, mw := range all {
		addConc([]string{mw}, gs[i%len(gs)], "conc.depth1")
	}
	addConc([]string{"B"}, 8, "conc.depth1")
	addConc([]string{"B"}, 16, "conc.depth1")
	addConc(nil, 8, "conc.depth0")
	nConc := 30
	if a.Thorough() {
		nConc = 150
	}
	for i := 0; i < nConc; i++ {
		n := 2 + rng.Intn(2)
		st := make([]string, n)
		for {
			for j := range st {
				st[j] = all[rng.Intn(len(all))]
			}
			if i%3 == 0 {
				st[rng.Intn(n)] = "B"
			}
			if countRetry(st) <= 1 {
				break
			}
		}
		addConc(st, gs[rng.Intn(len(gs))], "conc.stack")
	}

	// 7. Throttle against the real clock: lower bound on the time n starts take; one Throttle shared by k callers;
	// messages with a live context, with an already cancelled context, and under a Timeout (outside the Throttle)
	// that expires while the message waits for its tick
	add("throttle 12 1000 2000000000 1 live", "throttle") // 2ms period
	add("throttle 6 2 10000000 1 live", "throttle")       // 5ms period
	add("throttle 30 1000 500000000 1 live", "throttle")  // 0.5ms period
	add("throttle 2 1 1000000 1 live", "throttle")
	add("throttle 1 1 1000000 1 live", "throttle")
	add("throttle 12 1000 2000000000 12 live", "throttle.concurrent")
	add("throttle 20 1000 1000000000 4 live", "throttle.concurrent")
	add("throttle 12 1000 2000000000 1 cancelled", "throttle.ctx_done")
	add("throttle 12 1000 2000000000 12 cancelled", "throttle.ctx_done")
	add("throttle 10 1000 2000000000 1 timeout", "throttle.ctx_done")
	add("throttle 12 1000 2000000000 4 timeout", "throttle.ctx_done")
	if a.Thorough() {
		add("throttle 200 1000 1000000000 1 live", "throttle")
		add("throttle 50 10 100000000 1 live", "throttle")
		add("throttle 100 1000 1000000000 16 live", "throttle.concurrent")
		add("throttle 100 1000 1000000000 8 cancelled", "throttle.ctx_done")
		add("throttle 60 1000 1000000000 3 timeout", "throttle.ctx_done")
		add("throttle 8 4 1000000000 2 timeout", "throttle.ctx_done") // the README's rate: 1 per 250ms
	}
	return reqs
}
