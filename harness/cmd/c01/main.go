// Harness for C01: end-to-end at-least-once through Router pipelines connected by GoChannel topics under faults.
//
// One case = one pipeline of real message.Routers (one Router per stage, or one Router with all handlers) whose
// handlers are connected by the topics of ONE real gochannel.GoChannel; 1..N source messages carrying a lineage id
// (UUID and metadata "lin"); a finite fault script "fault F on the k-th call of stage s" executed by a handler wrapper
// (handler error / handler panic) and a publisher wrapper (publish error / publish panic / error AFTER the message was
// handed on), installed either as the publisher passed to AddHandler or through Router.AddPublisherDecorators.
// Every wrapper event is appended to one log under one mutex; settlements of consumed copies are observed through the
// copy's Acked()/Nacked() channels.  The harness waits until nothing is in flight any more (liveness bound 30 s), then
// closes everything and checks that the goroutines are gone.
//
// A stage may emit 2..3 output messages per input (shape `…x<w>`): output #j of lineage l carries the derived lineage
// l*w+j, all outputs are returned by the handler together (the Router hands them to ONE Publish call); the sink must
// see every derived lineage.  Publisher faults are keyed by (stage, publisher call) and, kind px, by
// (stage, k-th handler invocation, output position): the call that contains that output is refused.
//
//	REQ pl <shape> <N> b<buf>k<blocking>p<persistent> r<routers>d<decorator>t<tap> <yield> <seed> <faults> <event>*
//	OBS ok | stuck
//
// (grammar: lean/WmModel/PipelineMon.lean).  -replay takes a REQ line (events ignored) and runs that case again.
package main

import (
	"context"
	"errors"
	"fmt"
	"os"
	"runtime"
	"strconv"
	"strings"
	"sync"
	"sync/atomic"
	"time"

	"github.com/ThreeDotsLabs/watermill"
	"github.com/ThreeDotsLabs/watermill/message"
	"github.com/ThreeDotsLabs/watermill/pubsub/gochannel"

	"wmverif/gc"
	"wmverif/wh"
)

// ---------------------------------------------------------------- configuration of one case

type faultSpec struct {
	kind  string // he hp hc pe pp pa pw px (hc / pw: handler / publisher error that wraps context.Canceled)
	stage int
	call  int // 1-based: the call-th handler invocation (he, hp, px) / publisher call (pe, pp, pa) of that stage
	pos   int // px only: the output position whose Publish call is refused
}

type caseCfg struct {
	shape      [][]int // successor stages of every handler stage; the sink is stage len(shape)
	widths     []int   // outputs per input of every stage (nil = all 1)
	nmsgs      int
	buf        int
	blocking   bool
	persistent bool
	perStage   bool // one Router per stage (otherwise one Router with all handlers)
	decorator  bool // fault publisher via AddPublisherDecorators (otherwise wrapped publisher passed to AddHandler)
	bare       bool // the source publishes struct-literal messages (&message.Message{UUID, Payload}): Metadata is nil, the lineage is in the UUID only
	tap        bool // an extra subscription of the source topic outside the pipeline, subscribed first
	yield      int  // permille of hook / wrapper points at which the goroutine yields or sleeps a little
	seed       uint64
	faults     []faultSpec
	// stopSibling (request word `ps`): while the first message is being dispatched to the subscriptions of the first fan-out topic
	// (dispatcher held at hook gochannel.dispatch.next between the first and the second subscription) the branch handler that
	// already got it is stopped with Handler.Stop(); the surviving branches must still get every message
	stopSibling bool
}

func b01(x bool) string {
	if x {
		return "1"
	}
	return "0"
}

func shapeString(sh [][]int, widths ...int) string {
	if len(sh) == 0 {
		return "-"
	}
	rows := make([]string, len(sh))
	for i, r := range sh {
		xs := make([]string, len(r))
		for j, t := range r {
			xs[j] = strconv.Itoa(t)
		}
		rows[i] = strings.Join(xs, ",")
		if i < len(widths) && widths[i] > 1 {
			rows[i] += "x" + strconv.Itoa(widths[i])
		}
	}
	return strings.Join(rows, "/")
}

func (c caseCfg) width(s int) int {
	if s < len(c.widths) && c.widths[s] > 1 {
		return c.widths[s]
	}
	return 1
}

// leaves is the number of derived lineages per source lineage at the sink.
func (c caseCfg) leaves() int {
	p := 1
	for s := range c.shape {
		p *= c.width(s)
	}
	return p
}

func (c caseCfg) String() string {
	fs := "-"
	if len(c.faults) > 0 {
		xs := make([]string, len(c.faults))
		for i, f := range c.faults {
			xs[i] = fmt.Sprintf("%s@%d.%d", f.kind, f.stage, f.call)
			if f.kind == "px" {
				xs[i] += "." + strconv.Itoa(f.pos)
			}
		}
		fs = strings.Join(xs, ",")
	}
	word := "pl"
	if c.stopSibling {
		word = "ps"
	}
	wiring := fmt.Sprintf("r%sd%st%s", b01(c.perStage), b01(c.decorator), b01(c.tap))
	if c.bare {
		wiring += "m1"
	}
	return fmt.Sprintf("%s %s %d b%dk%sp%s %s %d %d %s", word, shapeString(c.shape, c.widths...), c.nmsgs, c.buf, b01(c.blocking), b01(c.persistent),
		wiring, c.yield, c.seed, fs)
}

func parseShape(s string) ([][]int, []int, error) {
	if s == "-" {
		return nil, nil, nil
	}
	var sh [][]int
	var widths []int
	for _, row := range strings.Split(s, "/") {
		w := 1
		if i := strings.Index(row, "x"); i >= 0 {
			var err error
			if w, err = strconv.Atoi(row[i+1:]); err != nil || w < 1 || w > 8 {
				return nil, nil, fmt.Errorf("bad width in %q", row)
			}
			row = row[:i]
		}
		var r []int
		for _, x := range strings.Split(row, ",") {
			v, err := strconv.Atoi(x)
			if err != nil {
				return nil, nil, err
			}
			r = append(r, v)
		}
		sh = append(sh, r)
		widths = append(widths, w)
	}
	return sh, widths, nil
}

func parseCfg(line string) (caseCfg, error) {
	f := strings.Fields(line)
	var c caseCfg
	if len(f) < 8 || (f[0] != "pl" && f[0] != "ps") {
		return c, fmt.Errorf("bad request %q", line)
	}
	c.stopSibling = f[0] == "ps"
	var err error
	if c.shape, c.widths, err = parseShape(f[1]); err != nil {
		return c, err
	}
	if c.nmsgs, err = strconv.Atoi(f[2]); err != nil {
		return c, err
	}
	var k, p, r, d, t int
	if _, err = fmt.Sscanf(f[3], "b%dk%dp%d", &c.buf, &k, &p); err != nil {
		return c, err
	}
	if strings.HasSuffix(f[4], "m1") {
		c.bare = true
		f[4] = strings.TrimSuffix(f[4], "m1")
	}
	if _, err = fmt.Sscanf(f[4], "r%dd%dt%d", &r, &d, &t); err != nil {
		return c, err
	}
	c.blocking, c.persistent, c.perStage, c.decorator, c.tap = k == 1, p == 1, r == 1, d == 1, t == 1
	if c.yield, err = strconv.Atoi(f[5]); err != nil {
		return c, err
	}
	if c.seed, err = strconv.ParseUint(f[6], 10, 64); err != nil {
		return c, err
	}
	if f[7] != "-" {
		for _, x := range strings.Split(f[7], ",") {
			var fs faultSpec
			at := strings.Index(x, "@")
			if at < 0 {
				return c, fmt.Errorf("bad fault %q", x)
			}
			fs.kind = x[:at]
			if fs.kind == "px" {
				_, err = fmt.Sscanf(x[at+1:], "%d.%d.%d", &fs.stage, &fs.call, &fs.pos)
			} else {
				_, err = fmt.Sscanf(x[at+1:], "%d.%d", &fs.stage, &fs.call)
			}
			if err != nil {
				return c, err
			}
			c.faults = append(c.faults, fs)
		}
	}
	return c, c.validate()
}

// validate checks that the shape can be built from Router handlers (one publish topic per handler): the successor
// lists of two stages are equal or disjoint, every edge leads towards the sink, every stage but 0 is subscribed
// to exactly one topic somebody publishes to.
func (c caseCfg) validate() error {
	n := len(c.shape)
	preds := make([]string, n+1)
	for s, row := range c.shape {
		if len(row) == 0 {
			return fmt.Errorf("stage %d has no successor", s)
		}
		key := shapeString([][]int{row})
		for _, t := range row {
			if t <= s || t > n {
				return fmt.Errorf("edge %d->%d does not lead towards the sink", s, t)
			}
			if preds[t] != "" && preds[t] != key {
				return fmt.Errorf("stage %d would have to subscribe two topics", t)
			}
			preds[t] = key
		}
	}
	for t := 1; t <= n; t++ {
		if preds[t] == "" {
			return fmt.Errorf("stage %d is not fed by anybody", t)
		}
	}
	if n > 0 && preds[0] != "" {
		return errors.New("stage 0 must only be fed by the source")
	}
	for _, f := range c.faults {
		if f.stage < 0 || f.stage >= n || f.call < 1 || !strings.Contains(" he hp hc pe pp pa pw px ", " "+f.kind+" ") {
			return fmt.Errorf("bad fault %+v", f)
		}
		if f.kind == "px" && (f.pos < 0 || f.pos >= c.width(f.stage)) {
			return fmt.Errorf("bad output position in %+v", f)
		}
	}
	for s, row := range c.shape {
		// derived lineages are only defined along a chain (one path from the source to every stage)
		if c.leaves() > 1 && len(row) != 1 {
			return fmt.Errorf("stage %d: multi-output stages are supported in chains only", s)
		}
	}
	if c.stopSibling {
		if c.fanOutStage() < 0 || c.blocking || c.perStage || c.nmsgs < 1 || c.leaves() > 1 {
			return errors.New("ps needs a fan-out topic with >= 2 subscribed handlers, one Router, non-blocking GoChannel, >= 1 message")
		}
		for _, f := range c.faults {
			if f.stage <= c.fanOutStage() {
				return errors.New("ps: faults only behind the fan-out stage")
			}
		}
	}
	if c.nmsgs < 0 || c.nmsgs > 1000 {
		return errors.New("bad message count")
	}
	return nil
}

// fanOutStage is the first stage whose output topic has several subscribed handlers (-1: none).
func (c caseCfg) fanOutStage() int {
	for s, row := range c.shape {
		if len(row) >= 2 && row[len(row)-1] < len(c.shape) {
			return s
		}
	}
	return -1
}

// topicName gives every topic of the pipeline an arbitrary-looking name that depends on the case seed (topic names are the
// application's choice; nothing in the property depends on them, so they are part of what is varied).
func (c caseCfg) topicName(key string) string {
	if k, ok := c.emptyTopicKey(); ok && k == key {
		return "" // the empty string is a topic name like any other for GoChannel
	}
	h := c.seed
	for _, b := range []byte(key) {
		h = splitmix(h ^ uint64(b))
	}
	words := []string{"orders", "billing", "audit", "stage", "events", "shipments", "inbox", "q"}
	return fmt.Sprintf("%s.%s-%d", words[h%uint64(len(words))], key, (h>>8)%100000)
}

// emptyTopicKey: in an eighth of the cases one topic of the pipeline (source, inner or final) is named "".
func (c caseCfg) emptyTopicKey() (string, bool) {
	if splitmix(c.seed^0xE117)%8 != 0 {
		return "", false
	}
	keys := []string{"src"}
	for s := range c.shape {
		k := c.outKey(s)
		dup := false
		for _, x := range keys {
			dup = dup || x == k
		}
		if !dup {
			keys = append(keys, k)
		}
	}
	return keys[splitmix(c.seed^0xE118)%uint64(len(keys))], true
}

func (c caseCfg) outKey(s int) string {
	xs := make([]string, len(c.shape[s]))
	for i, t := range c.shape[s] {
		xs[i] = strconv.Itoa(t)
	}
	return "t" + strings.Join(xs, "_")
}

func (c caseCfg) srcTopic() string { return c.topicName("src") }

func (c caseCfg) outTopic(s int) string {
	return c.topicName(c.outKey(s))
}

func (c caseCfg) inTopic(t int) string {
	if t == 0 {
		return c.srcTopic()
	}
	for s, row := range c.shape {
		for _, x := range row {
			if x == t {
				return c.outTopic(s)
			}
		}
	}
	return "?"
}

// ---------------------------------------------------------------- recorder

type invRec struct {
	stage, lin int
	ord        int // this is the ord-th handler invocation of its stage
	msg        *message.Message
	explained  bool // a scripted fault hit this invocation, or its failure has been recorded as unscripted already
}

type rec struct {
	cfg caseCfg

	mu         sync.Mutex
	evs        []string
	sealed     bool
	invN       int
	invs       map[int]*invRec
	hcalls     []int
	pcalls     []int
	used       []bool // per scripted fault
	liveBy     []int  // obligations in flight per owing stage (= tokens of the model)
	stopped    []bool // stages whose handler the harness stopped: what they owe does not count any more
	srcDone    int
	watchers   int
	stats      map[string]int
	notes      []string
	ufails     map[[2]int]int // failures without a scripted fault, per (stage, lineage)
	livelocked bool

	notify chan struct{}
	done   chan struct{}

	arrivals uint64
}

// owe adds k obligations to every subscription of the output topic of stage st (k < 0 takes them back). r.mu held.
func (r *rec) owe(st, k int) {
	for _, t := range r.cfg.shape[st] {
		r.liveBy[t] += k
	}
}

// live counts the obligations of the stages that are still running. r.mu held.
func (r *rec) live() int {
	n := 0
	for t, k := range r.liveBy {
		if !r.stopped[t] {
			n += k
		}
	}
	return n
}

func (r *rec) log(s string) {
	if !r.sealed {
		r.evs = append(r.evs, s)
	}
}

func (r *rec) wake() {
	select {
	case r.notify <- struct{}{}:
	default:
	}
}

func splitmix(x uint64) uint64 {
	x += 0x9E3779B97F4A7C15
	x = (x ^ (x >> 30)) * 0xBF58476D1CE4E5B9
	x = (x ^ (x >> 27)) * 0x94D049BB133111EB
	return x ^ (x >> 31)
}

// yield perturbs the schedule at hook points and inside the wrappers (seeded).
func (r *rec) yield() {
	if r.cfg.yield <= 0 {
		return
	}
	n := atomic.AddUint64(&r.arrivals, 1)
	x := splitmix(r.cfg.seed ^ n*0x100000001B3)
	if int(x%1000) < r.cfg.yield {
		if x&0x1000 != 0 {
			time.Sleep(time.Duration(x>>20%150) * time.Microsecond)
		} else {
			runtime.Gosched()
		}
	}
}

// faultFor returns the scripted fault for the call-th handler (pub=false) / publisher (pub=true) call of a stage.
// Called with r.mu held.
func (r *rec) faultFor(stage, call int, pub bool) string {
	for i, f := range r.cfg.faults {
		if r.used[i] || f.stage != stage || f.call != call || f.kind == "px" {
			continue
		}
		if pub != (f.kind[0] == 'p') {
			continue
		}
		r.used[i] = true
		r.stats["fault."+f.kind]++
		return f.kind
	}
	return ""
}

// refusalFor reports whether a scripted px fault refuses a Publish call of the ord-th invocation of a stage that
// contains the given output positions. Called with r.mu held.
func (r *rec) refusalFor(stage, ord int, positions []int) bool {
	for i, f := range r.cfg.faults {
		if r.used[i] || f.kind != "px" || f.stage != stage || f.call != ord {
			continue
		}
		for _, p := range positions {
			if p == f.pos {
				r.used[i] = true
				r.stats["fault.px"]++
				return true
			}
		}
	}
	return false
}

func settled(m *message.Message) bool {
	select {
	case <-m.Acked():
		return true
	case <-m.Nacked():
		return true
	default:
		return false
	}
}

// stamp completes a message that is about to be published: hop counter and a digest of what the consumer must see.
func stamp(m *message.Message, hops int) {
	m.Metadata.Set("hops", strconv.Itoa(hops))
	m.Metadata.Set("sum", string(m.Payload)+"|"+strconv.Itoa(hops))
}

// asPublished returns "" when the received copy is the message as it was published, else what differs.
func asPublished(m *message.Message, bare bool) string {
	var d []string
	if bare {
		// published as &message.Message{UUID, Payload}: no metadata at all
		if len(m.Metadata) != 0 {
			d = append(d, fmt.Sprintf("metadata %v on a message published without metadata", m.Metadata))
		}
		if string(m.Payload) != "payload-"+strings.TrimPrefix(m.UUID, "L") {
			d = append(d, fmt.Sprintf("payload %q", string(m.Payload)))
		}
		return strings.Join(d, "; ")
	}
	if m.Metadata.Get("dirty") != "" {
		d = append(d, "carries the in-place mark of an earlier attempt")
	}
	if got := string(m.Payload) + "|" + m.Metadata.Get("hops"); got != m.Metadata.Get("sum") {
		d = append(d, fmt.Sprintf("payload|hops = %q, published %q", got, m.Metadata.Get("sum")))
	}
	if string(m.Payload) != "payload-"+m.Metadata.Get("lin") {
		d = append(d, fmt.Sprintf("payload %q", string(m.Payload)))
	}
	return strings.Join(d, "; ")
}

// scribble edits the received copy in place, the way a careless handler would.
func scribble(m *message.Message, hops int) {
	m.Payload = []byte("scribbled")
	m.Metadata.Set("hops", strconv.Itoa(hops+2))
	m.Metadata.Set("dirty", "1")
}

func lineage(m *message.Message) int {
	if _, has := m.Metadata["lin"]; !has && strings.HasPrefix(m.UUID, "L") {
		// a message published without metadata (struct literal): the lineage is in the UUID only
		if l, err := strconv.Atoi(m.UUID[1:]); err == nil && l >= 0 {
			return l
		}
	}
	l, err := strconv.Atoi(m.Metadata.Get("lin"))
	if err != nil || l < 0 || "L"+m.Metadata.Get("lin") != m.UUID {
		return 999999 // not a lineage any source message carries
	}
	return l
}

const livelockBound = 20

// unscripted records a failure of an invocation that no scripted fault explains, pauses (so that a retry loop that never
// ends stays small) and, after livelockBound such failures of one (stage, lineage), tells the controller that this delivery
// keeps failing although the faults have stopped.
func (r *rec) unscripted(stage, lin, inv int, kind, detail string) {
	r.mu.Lock()
	if ir := r.invs[inv]; ir != nil {
		ir.explained = true
	}
	if r.stopped[stage] || r.sealed {
		r.mu.Unlock()
		return // a stopped handler's subscription context is cancelled: expected
	}
	key := [2]int{stage, lin}
	r.ufails[key]++
	n := r.ufails[key]
	r.log(fmt.Sprintf("uf.%d.%d.%d.%s", stage, lin, inv, kind))
	r.stats["unscripted-failure."+kind]++
	if n == 1 {
		r.notes = append(r.notes, fmt.Sprintf("stage %d lineage %d invocation %d failed without a scripted fault (%s): %s", stage, lin, inv, kind, detail))
	}
	if n == livelockBound+1 && !r.livelocked {
		r.livelocked = true
		r.log(fmt.Sprintf("livelock.%d.%d", stage, lin))
	}
	r.mu.Unlock()
	r.wake()
}

// throttle pauses a stage before it works on a lineage whose deliveries have failed without a scripted fault before
// (1 ms per such failure, at most 50 ms): a retry loop that never ends stays small, nothing else changes.
func (r *rec) throttle(stage, lin int) {
	r.mu.Lock()
	n := r.ufails[[2]int{stage, lin}]
	r.mu.Unlock()
	if n > 50 {
		n = 50
	}
	if n > 0 {
		time.Sleep(time.Duration(n) * time.Millisecond)
	}
}

func (r *rec) watch(inv, stage, lin int, m *message.Message) {
	select {
	case <-m.Acked():
		r.mu.Lock()
		r.log(fmt.Sprintf("st.%d.%d.%d.ack", stage, lin, inv))
		r.liveBy[stage]--
	case <-m.Nacked():
		r.mu.Lock()
		r.log(fmt.Sprintf("st.%d.%d.%d.nack", stage, lin, inv))
		r.stats["nacks"]++
		if ir := r.invs[inv]; ir != nil && !ir.explained {
			// nacked although no fault was scripted for this invocation and the handler itself did not fail: the output was refused
			// by something else than the fault script
			r.mu.Unlock()
			r.unscripted(stage, lin, inv, "nack", "the Router nacked the message although handler and scripted publisher did not fail")
			r.mu.Lock()
		}
	case <-r.done:
		r.mu.Lock()
	}
	r.watchers--
	r.mu.Unlock()
	r.wake()
}

func (r *rec) handler(stage int) message.HandlerFunc {
	return func(msg *message.Message) ([]*message.Message, error) {
		r.yield()
		lin := lineage(msg)
		hops, _ := strconv.Atoi(msg.Metadata.Get("hops"))
		diff := asPublished(msg, r.cfg.bare && stage == 0)
		r.mu.Lock()
		r.invN++
		inv := r.invN
		r.hcalls[stage]++
		r.invs[inv] = &invRec{stage: stage, lin: lin, ord: r.hcalls[stage], msg: msg}
		r.log(fmt.Sprintf("hs.%d.%d.%d", stage, lin, inv))
		if diff != "" {
			// the delivered copy is not the message as it was published (e.g. a redelivery that carries the edits of the failed attempt)
			r.log(fmt.Sprintf("dirty.%d.%d.%d", stage, lin, inv))
			r.stats["dirty"]++
			r.notes = append(r.notes, fmt.Sprintf("stage %d lineage %d invocation %d received a copy that differs from the published message: %s", stage, lin, inv, diff))
		}
		f := r.faultFor(stage, r.hcalls[stage], false)
		if f != "" {
			r.log(fmt.Sprintf("ft.%d.%d.%d.%s", stage, lin, inv, f))
			r.invs[inv].explained = true
		}
		r.watchers++
		r.stats["invocations"]++
		r.mu.Unlock()
		go r.watch(inv, stage, lin, msg)
		r.yield()
		r.throttle(stage, lin)
		scripted := f == "hp"
		// a panic nobody scripted (e.g. the metadata of the received copy cannot be written) goes to the Router like any other
		// panic; the harness only notes it and slows the retry loop down
		defer func() {
			if p := recover(); p != nil {
				if !scripted {
					r.unscripted(stage, lin, inv, "panic", fmt.Sprint(p))
				}
				panic(p)
			}
		}()
		// a stage that honours the context of the message it was handed (as a handler that calls a database or a context-aware
		// publisher does): a delivery whose context is already cancelled fails
		if f == "" {
			if err := msg.Context().Err(); err != nil {
				r.unscripted(stage, lin, inv, "ctx", err.Error())
				return nil, err
			}
		}
		switch f {
		case "he":
			scribble(msg, hops)
			return nil, errors.New("scripted handler error")
		case "hc":
			scribble(msg, hops)
			return nil, fmt.Errorf("scripted handler interruption: %w", context.Canceled)
		case "hp":
			scribble(msg, hops)
			panic("scripted handler panic")
		}
		// w outputs per input; output #j carries the derived lineage lin*w+j
		w := r.cfg.width(stage)
		outs := make([]*message.Message, w)
		for j := range outs {
			d := strconv.Itoa(lin*w + j)
			outs[j] = message.NewMessage("L"+d, []byte("payload-"+d))
			outs[j].Metadata.Set("lin", d)
			outs[j].Metadata.Set("inv", strconv.Itoa(inv))
			outs[j].Metadata.Set("pos", strconv.Itoa(j))
			stamp(outs[j], hops+1)
		}
		// every stage edits the copy it received IN PLACE (payload field replaced, hop counter incremented, mark set) before the
		// outcome of the invocation is known: if it is nacked, the redelivery must nevertheless be the message as published
		scribble(msg, hops)
		return outs, nil
	}
}

type faultPub struct {
	inner message.Publisher
	r     *rec
}

// Close does not close the shared Pub/Sub: a Router handler closes its publisher when it stops (handler.run), and a stopped
// sibling handler must not take the GoChannel of the whole pipeline with it. The harness closes the Pub/Sub itself at the end.
func (p *faultPub) Close() error { return nil }

func (p *faultPub) Publish(topic string, msgs ...*message.Message) error {
	r := p.r
	r.yield()
	if len(msgs) == 0 {
		return p.inner.Publish(topic, msgs...)
	}
	// all messages of one call are outputs of one handler invocation
	inv, _ := strconv.Atoi(msgs[0].Metadata.Get("inv"))
	positions := make([]int, len(msgs))
	for i, m := range msgs {
		positions[i], _ = strconv.Atoi(m.Metadata.Get("pos"))
	}
	r.mu.Lock()
	ir := r.invs[inv]
	if ir == nil {
		r.mu.Unlock()
		return p.inner.Publish(topic, msgs...)
	}
	st, lin := ir.stage, ir.lin
	id := fmt.Sprintf("%d.%d.%d", st, lin, inv)
	r.pcalls[st]++
	r.log("pc." + id)
	if settled(ir.msg) {
		r.log("early." + id)
	}
	f := r.faultFor(st, r.pcalls[st], true)
	if f == "" && r.refusalFor(st, ir.ord, positions) {
		f = "px"
	}
	if f != "" {
		ir.explained = true
	}
	fan := len(msgs)
	switch f {
	case "pe", "px", "pw":
		r.log("ft." + id + "." + f)
		r.log("pr." + id + ".err")
		r.mu.Unlock()
		if f == "pw" {
			// an error that satisfies errors.Is(err, context.Canceled): still a publish failure, the message must come back
			return fmt.Errorf("scripted publish interruption: %w", context.Canceled)
		}
		return errors.New("scripted publish error")
	case "pp":
		r.log("ft." + id + ".pp")
		r.log("pr." + id + ".panic")
		r.mu.Unlock()
		panic("scripted publisher panic")
	case "pa":
		r.log("ft." + id + ".pa")
		r.owe(st, fan)
		r.mu.Unlock()
		r.yield()
		err := p.inner.Publish(topic, msgs...)
		r.mu.Lock()
		if err != nil {
			r.owe(st, -fan)
			r.stats["inner-publish-error"]++
		}
		r.log("pr." + id + ".err")
		r.mu.Unlock()
		return errors.New("scripted publish error after the message was handed on")
	}
	for _, j := range positions {
		r.log(fmt.Sprintf("pi.%s.%d", id, j))
	}
	r.owe(st, fan)
	r.mu.Unlock()
	r.yield()
	err := p.inner.Publish(topic, msgs...)
	r.mu.Lock()
	if err != nil {
		r.owe(st, -fan)
		r.stats["inner-publish-error"]++
		r.log("pr." + id + ".err")
	} else {
		for _, j := range positions {
			r.log(fmt.Sprintf("po.%s.%d", id, j))
		}
		r.log("pr." + id + ".ok")
	}
	r.mu.Unlock()
	return err
}

// ---------------------------------------------------------------- one case

var stuckTotal int

const livenessBound = 30 * time.Second

type result struct {
	trace    []string
	stuck    bool
	leftover string
	stats    map[string]int
	notes    []string
	wall     time.Duration
}

func runCase(c caseCfg) result {
	t0 := time.Now()
	n := len(c.shape)
	r := &rec{cfg: c, invs: map[int]*invRec{}, hcalls: make([]int, n), pcalls: make([]int, n), used: make([]bool, len(c.faults)),
		stats: map[string]int{}, ufails: map[[2]int]int{}, notify: make(chan struct{}, 1), done: make(chan struct{}), liveBy: make([]int, n+1), stopped: make([]bool, n+1)}
	base := runtime.NumGoroutine()
	// ps: hold the dispatcher of the fan-out topic at its second arrival (= between the first and the second subscription
	// of the first dispatch); note when the unsubscribe goroutine is about to remove a subscription of that topic
	fanTopic := ""
	if c.stopSibling {
		fanTopic = c.outTopic(c.fanOutStage())
	}
	parked, release, removing := make(chan struct{}), make(chan struct{}), make(chan struct{})
	var dispatchArrivals, removals int32
	message.SetVerifHook(func(name string, args ...string) {
		if c.stopSibling && len(args) > 0 && args[0] == fanTopic {
			switch name {
			case "gochannel.dispatch.next":
				if atomic.AddInt32(&dispatchArrivals, 1) == 2 {
					close(parked)
					select {
					case <-release:
					case <-time.After(livenessBound):
					}
					return
				}
			case "gochannel.unsubscribe.before_remove":
				if atomic.AddInt32(&removals, 1) == 1 {
					close(removing)
				}
			}
		}
		r.yield()
	})
	defer message.SetVerifHook(nil)

	logger := watermill.NopLogger{}
	ps := gochannel.NewGoChannel(gochannel.Config{OutputChannelBuffer: int64(c.buf), Persistent: c.persistent,
		BlockPublishUntilSubscriberAck: c.blocking}, logger)
	ctx, cancel := context.WithCancel(context.Background())
	var aux sync.WaitGroup

	// the tap: a consumer of the source topic that is not part of the pipeline; it subscribes first
	if c.tap {
		ch, err := ps.Subscribe(ctx, c.srcTopic())
		if err != nil {
			panic(err)
		}
		aux.Add(1)
		go func() {
			defer aux.Done()
			for m := range ch {
				m.Ack()
			}
		}()
	}
	// the sink: the harness's subscription of the final topic
	sinkCh, err := ps.Subscribe(ctx, c.inTopic(n))
	if err != nil {
		panic(err)
	}
	aux.Add(1)
	go func() {
		defer aux.Done()
		for m := range sinkCh {
			r.yield()
			lin := lineage(m)
			r.mu.Lock()
			r.log(fmt.Sprintf("sk.%d", lin))
			if c.stopSibling {
				// which branch handed it to the final topic
				if inv, err := strconv.Atoi(m.Metadata.Get("inv")); err == nil && r.invs[inv] != nil {
					r.log(fmt.Sprintf("sb.%d.%d", lin, r.invs[inv].stage))
				}
			}
			r.liveBy[n]--
			r.stats["sink"]++
			r.mu.Unlock()
			m.Ack()
			r.wake()
		}
	}()

	// the routers
	var routers []*message.Router
	newRouter := func() *message.Router {
		rt, err := message.NewRouter(message.RouterConfig{CloseTimeout: 2 * time.Second}, logger)
		if err != nil {
			panic(err)
		}
		if c.decorator {
			rt.AddPublisherDecorators(func(pub message.Publisher) (message.Publisher, error) {
				return &faultPub{inner: pub, r: r}, nil
			})
		}
		routers = append(routers, rt)
		return rt
	}
	var rt *message.Router
	var handlers []*message.Handler
	for s := 0; s < n; s++ {
		if c.perStage || rt == nil {
			rt = newRouter()
		}
		var pub message.Publisher = ps
		if !c.decorator {
			pub = &faultPub{inner: ps, r: r}
		}
		handlers = append(handlers, rt.AddHandler("s"+strconv.Itoa(s), c.inTopic(s), ps, c.outTopic(s), pub, r.handler(s)))
	}
	var runs sync.WaitGroup
	for _, x := range routers {
		x := x
		runs.Add(1)
		go func() {
			defer runs.Done()
			_ = x.Run(ctx)
		}()
	}
	for _, x := range routers {
		select {
		case <-x.Running():
		case <-time.After(livenessBound):
			panic("router did not start")
		}
	}

	// the source: 1..N messages, from one goroutine or from one goroutine each
	publishOne := func(l int) {
		var m *message.Message
		if c.bare {
			m = &message.Message{UUID: "L" + strconv.Itoa(l), Payload: []byte("payload-" + strconv.Itoa(l))}
		} else {
			m = message.NewMessage("L"+strconv.Itoa(l), []byte("payload-"+strconv.Itoa(l)))
			m.Metadata.Set("lin", strconv.Itoa(l))
			stamp(m, 0)
		}
		r.mu.Lock()
		r.log(fmt.Sprintf("sc.%d", l))
		r.liveBy[0]++
		r.mu.Unlock()
		r.yield()
		err := ps.Publish(c.srcTopic(), m)
		r.mu.Lock()
		if err != nil {
			r.log(fmt.Sprintf("sr.%d.err", l))
			r.liveBy[0]--
		} else {
			r.log(fmt.Sprintf("sr.%d.ok", l))
		}
		r.srcDone++
		r.mu.Unlock()
		r.wake()
	}
	if c.stopSibling {
		go func() {
			// the first message alone; its dispatcher stops between the first and the second subscription of the fan-out topic
			go publishOne(0)
			victim := -1
			select {
			case <-parked:
				// exactly one branch has been handed the message: wait for its handler to start, then stop that handler
				for i := 0; i < 5000 && victim < 0; i++ {
					r.mu.Lock()
					for _, ir := range r.invs {
						for _, t := range c.shape[c.fanOutStage()] {
							if ir.stage == t {
								victim = t
							}
						}
					}
					r.mu.Unlock()
					if victim < 0 {
						time.Sleep(time.Millisecond)
					}
				}
			case <-time.After(5 * time.Second):
			}
			if victim >= 0 {
				r.mu.Lock()
				r.log(fmt.Sprintf("stop.%d", victim))
				r.stopped[victim] = true
				r.stats["sibling-stopped"]++
				r.mu.Unlock()
				handlers[victim].Stop()
				select {
				case <-removing:
					// the unsubscribe goroutine holds the subscribers lock; a Publish to a topic nobody listens to returns only
					// after it has removed the subscription and released the lock
					_ = ps.Publish("barrier", message.NewMessage("barrier", nil))
					r.mu.Lock()
					r.stats["sibling-removed-during-dispatch"]++
					r.mu.Unlock()
				case <-time.After(5 * time.Second):
				}
			} else {
				r.mu.Lock()
				r.stats["sibling-stop-skipped"]++
				r.mu.Unlock()
			}
			close(release)
			r.wake()
			for l := 1; l < c.nmsgs; l++ {
				publishOne(l)
			}
		}()
	} else if splitmix(c.seed)&1 == 0 {
		go func() {
			for l := 0; l < c.nmsgs; l++ {
				publishOne(l)
			}
		}()
	} else {
		for l := 0; l < c.nmsgs; l++ {
			go publishOne(l)
		}
	}

	// wait for quiescence: nothing in flight, every source call returned, every observed invocation settled
	deadline := time.NewTimer(livenessBound)
	defer deadline.Stop()
	stuck := false
wait:
	for {
		r.mu.Lock()
		q := r.live() == 0 && r.srcDone == c.nmsgs && r.watchers == 0
		ll := r.livelocked
		r.mu.Unlock()
		if q {
			break
		}
		if ll {
			// one delivery has failed more than livelockBound times in a row although no scripted fault is left for it
			stuck = true
			break wait
		}
		select {
		case <-r.notify:
		case <-time.After(20 * time.Millisecond):
		case <-deadline.C:
			stuck = true
			break wait
		}
	}
	r.mu.Lock()
	if stuck {
		r.log("stuck")
	} else {
		r.log("end")
	}
	r.sealed = true
	trace := append([]string(nil), r.evs...)
	stats := map[string]int{}
	for k, v := range r.stats {
		stats[k] = v
	}
	notes := append([]string(nil), r.notes...)
	r.mu.Unlock()

	// tear down: routers closed, Pub/Sub closed, goroutines gone
	close(r.done)
	for _, x := range routers {
		_ = x.Close()
	}
	cancel()
	_ = ps.Close()
	res := result{trace: trace, stuck: stuck, stats: stats, notes: notes}
	fin := make(chan struct{})
	go func() { runs.Wait(); aux.Wait(); close(fin) }()
	select {
	case <-fin:
	case <-time.After(5 * time.Second):
		res.leftover = "router Run / consumer goroutines did not finish"
	}
	if res.leftover == "" && !stuck {
		for i := 0; runtime.NumGoroutine() > base && i < 2000; i++ {
			time.Sleep(time.Millisecond)
		}
		if runtime.NumGoroutine() > base {
			if cnt, dump := gc.GoroutinesIn("ThreeDotsLabs/watermill"); cnt > 0 {
				res.leftover = dump
			}
		}
	}
	res.wall = time.Since(t0)
	return res
}

func emit(out *wh.Out, c caseCfg, class string) bool {
	res := runCase(c)
	obs := "ok"
	if res.stuck {
		obs = "stuck"
		stuckTotal++
		out.Count("stuck")
		out.Note("STUCK: " + c.String())
	}
	out.Case(c.String()+" "+strings.Join(res.trace, " "), obs)
	out.Count("class." + class)
	out.Count(fmt.Sprintf("shape.%s", shapeString(c.shape, c.widths...)))
	out.Count(fmt.Sprintf("gochannel.buf%d.block%s.persist%s", c.buf, b01(c.blocking), b01(c.persistent)))
	out.Count(fmt.Sprintf("wiring.perStageRouter%s.decorator%s.tap%s", b01(c.perStage), b01(c.decorator), b01(c.tap)))
	out.Count("source.bare-struct-literal" + b01(c.bare))
	if k, ok := c.emptyTopicKey(); ok {
		if k == "src" {
			out.Count("empty-topic-name.source")
		} else {
			out.Count("empty-topic-name.stage-output")
		}
	}
	out.Count(fmt.Sprintf("faults.scripted%d", len(c.faults)))
	out.Count(fmt.Sprintf("msgs.%d", c.nmsgs))
	out.Add("events", len(res.trace))
	for k, v := range res.stats {
		out.Add(k, v)
	}
	if d := res.stats["sink"] - c.nmsgs*c.leaves(); d > 0 && !res.stuck {
		out.Add("duplicates-at-sink", d)
	}
	for i, n := range res.notes {
		if i < 3 {
			out.Note("NOTE-CASE " + c.String() + ": " + n)
		}
	}
	if res.leftover != "" {
		out.Count("leftover-goroutines")
		out.Note("LEFTOVER after " + c.String() + ": " + strings.ReplaceAll(res.leftover, "\n", " | "))
	}
	if stuckTotal >= 3 {
		out.Note("stopped generating: three cases ran into the liveness bound")
		return false
	}
	return true
}

// ---------------------------------------------------------------- generators

var kinds = []string{"he", "hp", "pe", "pp", "pa", "hc", "pw"}
var kinds5 = kinds[:5] // without the context.Canceled flavours

func chain(n int) [][]int {
	var sh [][]int
	for s := 0; s < n; s++ {
		sh = append(sh, []int{s + 1})
	}
	return sh
}

// shapes with a fan-out topic (two subscribed handlers) and a fan-in topic (two publishing handlers)
var fanShapes = [][][]int{
	{{1, 2}, {3}, {3}},      // 0 -> {1,2} -> sink topic (fan-in at the final topic)
	{{1, 2}, {3}, {3}, {4}}, // diamond: 0 -> {1,2} -> 3 -> sink
	{{1}, {2, 3}, {4}, {4}}, // 0 -> 1 -> {2,3} -> sink topic
}

func placements(stages, calls int, kinds []string) []faultSpec {
	var all []faultSpec
	for s := 0; s < stages; s++ {
		for k := 1; k <= calls; k++ {
			for _, kind := range kinds {
				all = append(all, faultSpec{kind: kind, stage: s, call: k})
			}
		}
	}
	return all
}

// multiPlacements: refusals keyed by output position (every multi-output stage x invocation 1..pxCalls x position) plus
// the five plain fault kinds on calls 1..calls of every stage.
func multiPlacements(widths []int, pxCalls, calls int) []faultSpec {
	var all []faultSpec
	for s, w := range widths {
		if w > 1 {
			for k := 1; k <= pxCalls; k++ {
				for j := 0; j < w; j++ {
					all = append(all, faultSpec{kind: "px", stage: s, call: k, pos: j})
				}
			}
		}
	}
	return append(all, placements(len(widths), calls, kinds5)...)
}

// subsets enumerates all subsets of size <= max (in a fixed order).
func subsets(all []faultSpec, max int) [][]faultSpec {
	res := [][]faultSpec{nil}
	var rec func(start int, cur []faultSpec)
	rec = func(start int, cur []faultSpec) {
		if len(cur) == max {
			return
		}
		for i := start; i < len(all); i++ {
			nxt := append(append([]faultSpec(nil), cur...), all[i])
			res = append(res, nxt)
			rec(i+1, nxt)
		}
	}
	rec(0, nil)
	return res
}

func randomWiring(rng *wh.Rng, c *caseCfg) {
	c.buf = []int{0, 1, 4}[rng.Intn(3)]
	c.blocking = rng.Intn(3) == 0
	c.persistent = rng.Intn(3) == 0
	c.perStage = rng.Bool()
	c.decorator = rng.Bool()
	c.tap = rng.Intn(4) == 0
	c.bare = rng.Intn(5) == 0
	c.yield = []int{0, 100, 300, 600}[rng.Intn(4)]
	c.seed = rng.Next() % 1000000
}

func randomCase(rng *wh.Rng, maxStages int) caseCfg {
	var c caseCfg
	switch x := rng.Intn(10); {
	case x < 6 || maxStages < 3:
		c.shape = chain(1 + rng.Intn(maxStages))
	default:
		for {
			c.shape = fanShapes[rng.Intn(len(fanShapes))]
			if len(c.shape) <= maxStages {
				break
			}
		}
	}
	c.nmsgs = 1 + rng.Intn(5)
	randomWiring(rng, &c)
	// a third of the chains have stages that emit 2..3 outputs per input (at most 6 derived lineages per source lineage)
	isChain := true
	for _, row := range c.shape {
		if len(row) != 1 {
			isChain = false
		}
	}
	if isChain && rng.Intn(3) == 0 {
		c.widths = make([]int, len(c.shape))
		prod := 1
		for s := range c.widths {
			c.widths[s] = []int{1, 2, 2, 3}[rng.Intn(4)]
			if prod*c.widths[s] > 6 {
				c.widths[s] = 1
			}
			prod *= c.widths[s]
		}
		if c.nmsgs > 3 {
			c.nmsgs = 3
		}
	}
	nf := rng.Intn(9)
	for i := 0; i < nf; i++ {
		st := rng.Intn(len(c.shape))
		if w := c.width(st); w > 1 && rng.Intn(2) == 0 {
			c.faults = append(c.faults, faultSpec{kind: "px", stage: st, call: 1 + rng.Intn(4), pos: rng.Intn(w)})
			continue
		}
		c.faults = append(c.faults, faultSpec{kind: kinds[rng.Intn(len(kinds))], stage: st, call: 1 + rng.Intn(6)})
	}
	return c
}

func main() {
	a := wh.ParseArgs()
	out := wh.NewOut(a.Out)
	defer out.Close()
	if a.Replay != "" {
		c, err := parseCfg(a.Replay)
		if err != nil {
			fmt.Fprintln(os.Stderr, "bad replay request:", err)
			out.Case(a.Replay, "bad-request")
			return
		}
		emit(out, c, "replay")
		return
	}
	rng := wh.NewRng(a.Seed)
	t0 := time.Now()

	// 1. exhaustive: every placement of <= 2 faults (7 kinds x stage x call 1..3) on chains of <= 2 stages with <= 2 messages;
	//    the GoChannel configuration and the wiring rotate with the seed
	for stages := 1; stages <= 2; stages++ {
		for msgs := 1; msgs <= 2; msgs++ {
			for _, fs := range subsets(placements(stages, 3, kinds), 2) {
				c := caseCfg{shape: chain(stages), nmsgs: msgs, faults: fs}
				randomWiring(rng, &c)
				if !emit(out, c, "exhaustive2") {
					return
				}
			}
		}
	}
	out.Add("wall_ms.exhaustive2", int(time.Since(t0).Milliseconds()))
	// 1b. stages that emit 2..3 outputs per input: every placement of <= 2 faults among {refuse the call containing output #j of the
	//     k-th invocation} and the plain kinds, on chains of <= 2 stages with <= 2 messages
	t1b := time.Now()
	multi := [][]int{{2}, {3}, {2, 1}, {1, 2}}
	pxCalls, plainCalls := 2, 1
	if a.Thorough() {
		multi = append(multi, []int{2, 2}, []int{1, 2, 1}, []int{3, 2})
		pxCalls, plainCalls = 3, 2
	}
	for _, widths := range multi {
		for msgs := 1; msgs <= 2; msgs++ {
			for _, fs := range subsets(multiPlacements(widths, pxCalls, plainCalls), 2) {
				c := caseCfg{shape: chain(len(widths)), widths: widths, nmsgs: msgs, faults: fs}
				randomWiring(rng, &c)
				if !emit(out, c, "exhaustive2-multi-output") {
					return
				}
			}
		}
	}
	out.Add("wall_ms.exhaustive2-multi-output", int(time.Since(t1b).Milliseconds()))
	// 2. thorough: every placement of <= 3 faults (5 kinds) and of <= 2 faults (7 kinds) on the chain of 3 stages (calls 1..3), 2 messages
	if a.Thorough() {
		t1 := time.Now()
		for _, fs := range subsets(placements(3, 3, kinds), 2) {
			c := caseCfg{shape: chain(3), nmsgs: 2, faults: fs}
			randomWiring(rng, &c)
			if !emit(out, c, "exhaustive2-3stages") {
				return
			}
		}
		for _, fs := range subsets(placements(3, 3, kinds5), 3) {
			c := caseCfg{shape: chain(3), nmsgs: 2, faults: fs}
			randomWiring(rng, &c)
			if !emit(out, c, "exhaustive3") {
				return
			}
		}
		out.Add("wall_ms.exhaustive3", int(time.Since(t1).Milliseconds()))
	}
	// 2b. a sibling branch is stopped (Handler.Stop) while the first message is being dispatched to a fan-out topic with 2..3 subscribed
	//     handlers: the surviving branches must get every message (the at-least-once clause for every chain whose handlers keep running)
	nstop := 24
	if a.Thorough() {
		nstop = 300
	}
	stopShapes := [][][]int{{{1, 2, 3}, {4}, {4}, {4}}, {{1, 2, 3}, {4}, {4}, {4}}, {{1, 2}, {3}, {3}}, {{1}, {2, 3, 4}, {5}, {5}, {5}}}
	for i := 0; i < nstop; i++ {
		c := caseCfg{shape: stopShapes[i%len(stopShapes)], nmsgs: 1 + rng.Intn(3), stopSibling: true}
		randomWiring(rng, &c)
		c.blocking, c.perStage = false, false
		for k := rng.Intn(3); k > 0; k-- {
			st := c.fanOutStage() + 1 + rng.Intn(len(c.shape)-c.fanOutStage()-1)
			c.faults = append(c.faults, faultSpec{kind: kinds[rng.Intn(len(kinds))], stage: st, call: 1 + rng.Intn(3)})
		}
		if !emit(out, c, "stop-sibling") {
			return
		}
	}
	// 3. seeded random longer fault sequences on pipelines of up to 4 stages with fan-out / fan-in, yield injection
	nrand := 200
	if a.Thorough() {
		nrand = 5000
	}
	t2 := time.Now()
	for i := 0; i < nrand; i++ {
		if !emit(out, randomCase(rng, 4), "random") {
			return
		}
	}
	out.Add("wall_ms.random", int(time.Since(t2).Milliseconds()))
}
