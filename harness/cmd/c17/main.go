// Harness for C17: drives the real relay components – forwarder.Forwarder, forwarder.Publisher, fanin.FanIn,
// gochannel.FanOut, requeuer.Requeuer – with scripted source subscribers and destination publishers.
// Request/observation formats are documented in lean/Driver/C17.lean.
package main

import (
	"context"
	"encoding/base64"
	"encoding/json"
	"errors"
	"fmt"
	"os"
	"sort"
	"strconv"
	"strings"
	"sync"
	"sync/atomic"
	"time"
	"unicode/utf8"

	"github.com/ThreeDotsLabs/watermill"
	"github.com/ThreeDotsLabs/watermill/components/fanin"
	"github.com/ThreeDotsLabs/watermill/components/forwarder"
	"github.com/ThreeDotsLabs/watermill/components/requeuer"
	"github.com/ThreeDotsLabs/watermill/message"
	"github.com/ThreeDotsLabs/watermill/pubsub/gochannel"

	"wmverif/wh"
)

const waitLong = 30 * time.Second

// stalled is set when the code under test did not react within waitLong; the case is still written (the monitor
// judges it) but no further cases are generated, so that a hanging implementation costs one timeout, not hundreds.
var stalled int32

func stall()          { atomic.StoreInt32(&stalled, 1) }
func isStalled() bool { return atomic.LoadInt32(&stalled) != 0 }

var logger = watermill.NopLogger{}

// ---------------------------------------------------------------- scripted fakes

func settled(m *message.Message) bool {
	if m == nil {
		return false
	}
	select {
	case <-m.Acked():
		return true
	default:
	}
	select {
	case <-m.Nacked():
		return true
	default:
	}
	return false
}

type msgSnap struct {
	uuid      string
	payload   []byte
	meta      map[string]string
	same      bool
	unsettled bool
}

type pubCall struct {
	topic string
	msgs  []msgSnap
}

// recPub records every Publish call (snapshots taken inside the call) and fails when told to.
type recPub struct {
	mu       sync.Mutex
	calls    []pubCall
	fail     bool
	consumed *message.Message
	closed   int
	byUUID   map[string]uuidScript
	panics   bool
}

func snap(m *message.Message, consumed *message.Message) msgSnap {
	md := map[string]string{}
	for k, v := range m.Metadata {
		md[k] = v
	}
	return msgSnap{m.UUID, append([]byte{}, m.Payload...), md, m == consumed, !settled(consumed)}
}

func (p *recPub) Publish(topic string, msgs ...*message.Message) error {
	p.mu.Lock()
	defer p.mu.Unlock()
	c := pubCall{topic: topic}
	fail := p.fail
	for _, m := range msgs {
		consumed := p.consumed
		if sc, ok := p.byUUID[m.UUID]; ok { // burst mode: the script is found through the (unique) uuid
			consumed = sc.consumed
			fail = fail || sc.fail
		}
		c.msgs = append(c.msgs, snap(m, consumed))
	}
	p.calls = append(p.calls, c)
	if p.panics {
		panic("destination publisher panicked") // after the call has been recorded
	}
	if fail {
		return errors.New("destination down")
	}
	return nil
}

type uuidScript struct {
	consumed *message.Message
	fail     bool
}

// burst switches the publisher to per-uuid scripts (messages handled concurrently).
func (p *recPub) burst(scripts map[string]uuidScript) {
	p.mu.Lock()
	p.calls, p.fail, p.consumed, p.byUUID = nil, false, nil, scripts
	p.mu.Unlock()
}

// callsFor returns the calls that carried a message with this uuid.
func (p *recPub) callsFor(uuid string) []pubCall {
	p.mu.Lock()
	defer p.mu.Unlock()
	var out []pubCall
	for _, c := range p.calls {
		for _, m := range c.msgs {
			if m.uuid == uuid {
				out = append(out, c)
				break
			}
		}
	}
	return out
}

func (p *recPub) Close() error { p.mu.Lock(); p.closed++; p.mu.Unlock(); return nil }
func (p *recPub) reset(consumed *message.Message, fail bool) {
	p.mu.Lock()
	p.calls, p.fail, p.consumed, p.byUUID, p.panics = nil, fail, consumed, nil, false
	p.mu.Unlock()
}

// setPanic: the next Publish calls panic instead of returning (until the next reset)
func (p *recPub) setPanic(on bool) {
	p.mu.Lock()
	p.panics = on
	p.mu.Unlock()
}
func (p *recPub) take() []pubCall {
	p.mu.Lock()
	defer p.mu.Unlock()
	return append([]pubCall{}, p.calls...)
}

// chanSub hands out one unbuffered channel per topic.
type chanSub struct {
	mu     sync.Mutex
	chans  map[string]chan *message.Message
	topics []string
	closed bool
}

func newChanSub() *chanSub { return &chanSub{chans: map[string]chan *message.Message{}} }

func (s *chanSub) ch(topic string) chan *message.Message {
	s.mu.Lock()
	defer s.mu.Unlock()
	c, ok := s.chans[topic]
	if !ok {
		c = make(chan *message.Message)
		s.chans[topic] = c
	}
	return c
}
func (s *chanSub) Subscribe(ctx context.Context, topic string) (<-chan *message.Message, error) {
	s.mu.Lock()
	s.topics = append(s.topics, topic)
	s.mu.Unlock()
	// like a real subscriber: the subscription ends (its channel is closed) when the context is cancelled
	go func() {
		<-ctx.Done()
		_ = s.Close()
	}()
	return s.ch(topic), nil
}
func (s *chanSub) Close() error {
	s.mu.Lock()
	defer s.mu.Unlock()
	if !s.closed {
		s.closed = true
		for _, c := range s.chans {
			close(c)
		}
	}
	return nil
}
func (s *chanSub) subscribed() []string {
	s.mu.Lock()
	defer s.mu.Unlock()
	return append([]string{}, s.topics...)
}

// feed sends the message to the component and waits for its settlement.
func feed(ch chan *message.Message, m *message.Message) string { return feedThen(ch, m, nil) }

// feedThen: `then` runs once the component has taken the message (ordered after the send, so that a shutdown it triggers - which
// closes the channel - is ordered after the send for the race detector as it is in time).
func feedThen(ch chan *message.Message, m *message.Message, then func()) string {
	select {
	case ch <- m:
	case <-time.After(waitLong):
		stall()
		return "notaken"
	}
	if then != nil {
		then()
	}
	select {
	case <-m.Acked():
		return "ack"
	case <-m.Nacked():
		return "nack"
	case <-time.After(waitLong):
		stall()
		return "timeout"
	}
}

// feedAll sends all messages concurrently (the component handles them concurrently) and returns their settlements.
func feedAll(chs []chan *message.Message, ms []*message.Message) []string {
	out := make([]string, len(ms))
	var wg sync.WaitGroup
	for i := range ms {
		wg.Add(1)
		go func(i int) {
			defer wg.Done()
			out[i] = feed(chs[i], ms[i])
		}(i)
	}
	wg.Wait()
	return out
}

// ---------------------------------------------------------------- rendering

func bit(b bool) string {
	if b {
		return "1"
	}
	return "0"
}

type msgDesc struct {
	uuid    string
	payload []byte
	meta    map[string]string
}

func (d msgDesc) build() *message.Message {
	m := message.NewMessage(d.uuid, append([]byte(nil), d.payload...))
	for k, v := range d.meta {
		m.Metadata.Set(k, v)
	}
	return m
}

func (d msgDesc) fields() string {
	return wh.HexS(d.uuid) + " " + wh.Hex(d.payload) + " " + wh.Meta(d.meta)
}

// renderPubs: P<n>[:<topic>|<uuid>|<payload>|<meta>|<flags…>;…]; every message of every call is one entry.
func renderPubs(calls []pubCall, withSame bool) string {
	var es []string
	for _, c := range calls {
		for _, m := range c.msgs {
			f := []string{wh.HexS(c.topic), wh.HexS(m.uuid), wh.Hex(m.payload), wh.Meta(m.meta)}
			if withSame {
				f = append(f, bit(m.same))
			}
			f = append(f, bit(m.unsettled))
			es = append(es, strings.Join(f, "|"))
		}
		if len(c.msgs) == 0 {
			es = append(es, wh.HexS(c.topic)+"|empty-batch")
		}
	}
	s := "P" + strconv.Itoa(len(es))
	if len(es) > 0 {
		s += ":" + strings.Join(es, ";")
	}
	return s
}

func dest(fail bool, pan ...bool) string {
	if len(pan) > 0 && pan[0] {
		return "panic"
	}
	if fail {
		return "fail"
	}
	return "ok"
}

// ---------------------------------------------------------------- random data

func rndBytes(r *wh.Rng, max int) string {
	n := r.Intn(max + 1)
	b := make([]byte, n)
	for i := range b {
		switch r.Intn(6) {
		case 0:
			b[i] = byte(r.Intn(256))
		case 1:
			b[i] = "\n\t \"\\{}:,=;|~+"[r.Intn(14)]
		default:
			b[i] = byte('a' + r.Intn(26))
		}
	}
	return string(b)
}

var utf8Pool = []rune{'a', 'b', 'z', 'Q', '0', '9', ' ', '"', '\\', '/', '\n', '\t', '\u0000', '\u001f', '<', '>', '&', 'é', 'ß', '€', '世', '😀', ' ', '�', '{', '}', ':', ','}

// rndUtf8 gives a valid UTF-8 string (what survives encoding/json unchanged).
func rndUtf8(r *wh.Rng, max int) string {
	n := r.Intn(max + 1)
	var sb strings.Builder
	for i := 0; i < n; i++ {
		sb.WriteRune(utf8Pool[r.Intn(len(utf8Pool))])
	}
	return sb.String()
}

func rndMsg(r *wh.Rng, str func(*wh.Rng, int) string) msgDesc {
	d := msgDesc{uuid: str(r, 10), meta: map[string]string{}}
	switch r.Intn(4) {
	case 0:
	case 1:
		d.payload = []byte{}
	default:
		d.payload = []byte(rndBytes(r, 16))
	}
	for i, n := 0, r.Intn(4); i < n; i++ {
		k := str(r, 5)
		if r.Intn(5) == 0 {
			k = []string{"_watermill_requeuer_retries", "destination_topic", "", "uuid"}[r.Intn(4)]
		}
		d.meta[k] = str(r, 6)
	}
	return d
}

// ---------------------------------------------------------------- strconv model

var atoiInputs = []string{"", "0", "7", "+5", " 5", "5 ", "x", "-3", "-0", "+0", "007", "+", "-", "+-5", "--5", "1_000", "0x10", "1e3", "٣",
	"9223372036854775806", "9223372036854775807", "9223372036854775808", "-9223372036854775808", "-9223372036854775809",
	"+9223372036854775807", "18446744073709551616", "99999999999999999999999", "000000000000000000000000012", "12a", "１２"}

func atoiCases(out *wh.Out, rng *wh.Rng, n int) {
	ins := append([]string{}, atoiInputs...)
	for i := 0; i < n; i++ {
		switch rng.Intn(4) {
		case 0:
			ins = append(ins, strconv.FormatInt(int64(rng.Next()), 10))
		case 1:
			ins = append(ins, strconv.FormatUint(rng.Next(), 10))
		case 2:
			b := make([]byte, 1+rng.Intn(4))
			for j := range b {
				b[j] = "0123456789+- _a"[rng.Intn(15)]
			}
			ins = append(ins, string(b))
		default:
			ins = append(ins, strconv.Itoa(rng.Intn(100000)-50000))
		}
	}
	for _, s := range ins {
		v, err := strconv.Atoi(s)
		o := "err"
		if err == nil {
			o = strconv.Itoa(v)
		}
		out.Case("atoi "+wh.HexS(s), o)
		out.Count("atoi")
	}
	// utf8.ValidString against the model's validator (the scope predicate of the Forwarder clauses)
	u8 := []string{"", "a", "\x7f", "\x80", "\xc2\x80", "\xc1\xbf", "\xc0\x80", "\xe0\xa0\x80", "\xe0\x9f\xbf", "\xed\x9f\xbf", "\xed\xa0\x80",
		"\xee\x80\x80", "\xef\xbf\xbd", "\xf0\x90\x80\x80", "\xf0\x8f\xbf\xbf", "\xf4\x8f\xbf\xbf", "\xf4\x90\x80\x80", "\xf5\x80\x80\x80",
		"\xe2\x82", "\xe2\x82\xac", "a\xe2\x82\xacb", "\xf0\x9f\x98\x80", "\xf0\x9f\x98", "\xff", "ab\xffcd", "\xc2", "€uro", "世界", "\xe4\xb8"}
	for i := 0; i < n; i++ {
		if rng.Intn(2) == 0 {
			u8 = append(u8, rndUtf8(rng, 6)+rndBytes(rng, 3))
		} else {
			b := make([]byte, 1+rng.Intn(5))
			for j := range b {
				b[j] = []byte{0x00, 0x41, 0x7f, 0x80, 0x8f, 0x90, 0x9f, 0xa0, 0xbf, 0xc0, 0xc1, 0xc2, 0xdf, 0xe0, 0xe1, 0xec, 0xed, 0xee, 0xef, 0xf0, 0xf1, 0xf3, 0xf4, 0xf5, 0xff}[rng.Intn(25)]
			}
			u8 = append(u8, string(b))
		}
	}
	for _, x := range u8 {
		out.Case("utf8 "+wh.HexS(x), bit(utf8.ValidString(x)))
		out.Count("utf8")
	}
	vals := []int{0, 1, -1, 9, 10, 99, 100, -100, 9223372036854775807, -9223372036854775808, 1000000007}
	for i := 0; i < n; i++ {
		vals = append(vals, int(rng.Next()))
	}
	for _, v := range vals {
		out.Case("itoa "+strconv.Itoa(v), wh.HexS(strconv.Itoa(v)))
		out.Count("itoa")
	}
}

// ---------------------------------------------------------------- Requeuer

type rqCase struct {
	delay, cancel bool
	tgOK          bool
	topic         string
	fail          bool
	pan           bool // the destination publisher panics
	msg           msgDesc
	// kind rqp: GeneratePublishTopic is a function of the message it is shown
	policy string            // "" (scripted answer) | budget:<k>:<work>:<dead> | meta:<key>
	called bool              // the topic function was called for this message
	shown  map[string]string // metadata of the message it was shown, at that moment
}

// policyTopic evaluates the policy on the message the topic function is shown.
func policyTopic(policy string, m *message.Message) (string, error) {
	f := strings.Split(policy, ":")
	switch f[0] {
	case "budget": // a retry budget: after k requeues the message goes to the dead-letter topic
		k, _ := strconv.Atoi(f[1])
		n, err := strconv.Atoi(m.Metadata.Get(requeuer.RetriesKey))
		if err != nil {
			n = 0
		}
		if n >= k {
			return f[3], nil
		}
		return f[2], nil
	case "meta": // the topic is named by a metadata value
		t := m.Metadata.Get(f[1])
		if t == "" {
			return "", errors.New("no topic in the message")
		}
		return t, nil
	}
	return "", errors.New("bad policy")
}

func (c *rqCase) req() string {
	if c.policy != "" {
		f := strings.Split(c.policy, ":")
		pol := "meta:" + wh.HexS(f[1])
		if f[0] == "budget" {
			pol = "budget:" + f[1] + ":" + wh.HexS(f[2]) + ":" + wh.HexS(f[3])
		}
		return "rqp " + bit(c.delay) + " " + bit(c.cancel) + " " + pol + " " + dest(c.fail, c.pan) + " " + c.msg.fields()
	}
	tg := "err"
	if c.tgOK {
		tg = "ok:" + wh.HexS(c.topic)
	}
	return "rq " + bit(c.delay) + " " + bit(c.cancel) + " " + tg + " " + dest(c.fail, c.pan) + " " + c.msg.fields()
}

type rqEnv struct {
	sub        *chanSub
	pub        *recPub
	cancel     context.CancelFunc
	done       chan error
	delay      bool
	mu         sync.Mutex
	scripts    map[*message.Message]*rqCase
	tgOther    bool
	afterTaken func() // see feedThen
}

const rqDelay = 400 * time.Millisecond

func newRq(delay, ownRouter bool) (*rqEnv, error) {
	e := &rqEnv{sub: newChanSub(), pub: &recPub{}, done: make(chan error, 1), delay: delay, scripts: map[*message.Message]*rqCase{}}
	cfg := requeuer.Config{
		Subscriber:     e.sub,
		SubscribeTopic: "failed",
		Publisher:      e.pub,
		GeneratePublishTopic: func(p requeuer.GeneratePublishTopicParams) (string, error) {
			e.mu.Lock()
			defer e.mu.Unlock()
			cur, ok := e.scripts[p.Message] // the params carry the consumed message object itself
			if !ok {
				e.tgOther = true
				return "", errors.New("unknown message object")
			}
			if cur.policy != "" {
				cur.called = true
				cur.shown = map[string]string{}
				for k, v := range p.Message.Metadata {
					cur.shown[k] = v
				}
				return policyTopic(cur.policy, p.Message)
			}
			if !cur.tgOK {
				return "", errors.New("no route for this message")
			}
			return cur.topic, nil
		},
	}
	if delay {
		cfg.Delay = rqDelay
	}
	if ownRouter {
		r, err := message.NewRouter(message.RouterConfig{}, logger)
		if err != nil {
			return nil, err
		}
		cfg.Router = r
	}
	rq, err := requeuer.NewRequeuer(cfg, logger)
	if err != nil {
		return nil, err
	}
	ctx, cancel := context.WithCancel(context.Background())
	e.cancel = cancel
	go func() { e.done <- rq.Run(ctx) }()
	return e, nil
}

func (e *rqEnv) close() {
	e.cancel()
	select {
	case <-e.done:
	case <-time.After(waitLong):
		fmt.Fprintln(os.Stderr, "requeuer did not stop")
	}
}

func (c *rqCase) build() *message.Message {
	m := c.msg.build()
	if c.cancel {
		ctx, cancel := context.WithCancel(context.Background())
		cancel()
		m.SetContext(ctx)
	}
	return m
}

func (e *rqEnv) run(c *rqCase) string {
	m := c.build()
	e.mu.Lock()
	e.scripts = map[*message.Message]*rqCase{m: c}
	e.tgOther = false
	e.mu.Unlock()
	e.pub.reset(m, c.fail)
	e.pub.setPanic(c.pan)
	s := feedThen(e.sub.ch("failed"), m, e.afterTaken)
	e.mu.Lock()
	other := e.tgOther
	e.mu.Unlock()
	if other {
		return "tg-other-message"
	}
	obs := renderPubs(e.pub.take(), true) + " A:" + wh.Meta(m.Metadata) + " S:" + s
	if c.policy != "" {
		e.mu.Lock()
		g := "!"
		if c.called {
			g = wh.Meta(c.shown)
		}
		e.mu.Unlock()
		obs += " G:" + g
	}
	return obs
}

// burst: all cases at once (unique uuids); observations per message in the sequential format.
func (e *rqEnv) burst(cs []*rqCase) []string {
	ms := make([]*message.Message, len(cs))
	chs := make([]chan *message.Message, len(cs))
	scripts := map[string]uuidScript{}
	e.mu.Lock()
	e.scripts = map[*message.Message]*rqCase{}
	for i, c := range cs {
		ms[i] = c.build()
		chs[i] = e.sub.ch("failed")
		e.scripts[ms[i]] = c
		scripts[c.msg.uuid] = uuidScript{ms[i], c.fail}
	}
	e.tgOther = false
	e.mu.Unlock()
	e.pub.burst(scripts)
	st := feedAll(chs, ms)
	out := make([]string, len(cs))
	for i, c := range cs {
		out[i] = renderPubs(e.pub.callsFor(c.msg.uuid), true) + " A:" + wh.Meta(ms[i].Metadata) + " S:" + st[i]
	}
	return out
}

var priorCounters = []string{"", "0", "1", "7", "+5", " 5", "x", "-3", "-1", "007", "9223372036854775806", "9223372036854775808",
	"-9223372036854775808", "99999999999999999999", "1_0", "12abc", "٣", "+", "-"}

const maxIntStr = "9223372036854775807"

func rqCases(out *wh.Out, rng *wh.Rng, nRandom, nBursts int) {
	for _, own := range []bool{false, true} {
		env, err := newRq(false, own)
		if err != nil {
			fatal("requeuer setup", err)
		}
		var cases []*rqCase
		// counter table: absent, every listed prior, and the overflowing one
		for i := -1; i <= len(priorCounters); i++ {
			c := &rqCase{tgOK: true, topic: "retry-" + rndBytes(rng, 3), msg: rndMsg(rng, rndBytes)}
			delete(c.msg.meta, "_watermill_requeuer_retries")
			if i >= 0 && i < len(priorCounters) {
				c.msg.meta["_watermill_requeuer_retries"] = priorCounters[i]
			} else if i == len(priorCounters) {
				c.msg.meta["_watermill_requeuer_retries"] = maxIntStr
			}
			c.fail = own && i%5 == 0
			cases = append(cases, c)
		}
		failFrom := rng.Intn(nRandom + 1)
		for i := 0; i < nRandom; i++ {
			c := &rqCase{tgOK: rng.Intn(6) > 0, topic: rndBytes(rng, 6), msg: rndMsg(rng, rndBytes), cancel: rng.Intn(8) == 0}
			if own {
				c.fail = i >= failFrom // destination fails from the k-th message on
			} else {
				c.fail = rng.Intn(3) == 0
				c.pan = !c.fail && rng.Intn(5) == 0 // the destination panics now and then, and accepts afterwards
			}
			switch rng.Intn(4) {
			case 0:
				c.msg.meta["_watermill_requeuer_retries"] = strconv.Itoa(rng.Intn(1000))
			case 1:
				c.msg.meta["_watermill_requeuer_retries"] = priorCounters[rng.Intn(len(priorCounters))]
			}
			cases = append(cases, c)
		}
		for _, c := range cases {
			if isStalled() {
				break
			}
			obs := env.run(c)
			out.Case(c.req(), obs)
			out.Count("rq")
			if c.fail {
				out.Count("rq.dest_fail")
			}
			if !c.tgOK {
				out.Count("rq.topic_error")
			}
			if v, ok := c.msg.meta["_watermill_requeuer_retries"]; ok {
				if _, err := strconv.Atoi(v); err != nil {
					out.Count("rq.prior.non_numeric")
				} else {
					out.Count("rq.prior.numeric")
				}
				if v == maxIntStr {
					out.Count("rq.prior.maxint64")
				}
			} else {
				out.Count("rq.prior.absent")
			}
		}
		// repeated requeue of the same message object: the counter counts up
		c := &rqCase{tgOK: true, topic: "again", msg: rndMsg(rng, rndBytes)}
		delete(c.msg.meta, "_watermill_requeuer_retries")
		for i := 0; i < 12 && !isStalled(); i++ {
			obs := env.run(c)
			out.Case(c.req(), obs)
			out.Count("rq.repeated")
			// next round starts from what this round wrote
			if j := strings.Index(obs, " A:"); j >= 0 {
				c.msg.meta = parseMeta(obs[j+3 : strings.Index(obs, " S:")])
			}
		}
		// concurrent bursts: many messages in flight at once, each with its own topic / outcome / counter
		for b := 0; b < nBursts && !isStalled(); b++ {
			var cs []*rqCase
			for i, n := 0, 4+rng.Intn(12); i < n; i++ {
				c := &rqCase{tgOK: rng.Intn(8) > 0, topic: "burst-" + rndBytes(rng, 4), msg: rndMsg(rng, rndBytes), fail: rng.Intn(3) == 0}
				c.msg.uuid = "b" + strconv.Itoa(b) + "-" + strconv.Itoa(i) + "-" + rndBytes(rng, 4)
				if rng.Intn(2) == 0 {
					c.msg.meta["_watermill_requeuer_retries"] = strconv.Itoa(rng.Intn(50))
				}
				cs = append(cs, c)
			}
			for i, obs := range env.burst(cs) {
				out.Case(cs[i].req(), obs)
				out.Count("rq.burst")
			}
		}
		env.close()
	}
	// topic functions that read the message they are shown: retry budgets around the threshold, topic named by metadata
	// (also by the retries header itself); the destination fails on every third message
	penv, err := newRq(false, true)
	if err != nil {
		fatal("requeuer setup", err)
	}
	np := 0
	addP := func(policy string, prior string, hasPrior bool, extra map[string]string) {
		if isStalled() {
			return
		}
		np++
		c := &rqCase{policy: policy, msg: rndMsg(rng, rndBytes), fail: np%3 == 0, pan: np%7 == 1}
		delete(c.msg.meta, "_watermill_requeuer_retries")
		if hasPrior {
			c.msg.meta["_watermill_requeuer_retries"] = prior
		}
		for k, v := range extra {
			c.msg.meta[k] = v
		}
		c.called, c.shown = false, nil
		obs := penv.run(c)
		out.Case(c.req(), obs)
		out.Count("rq.policy." + strings.SplitN(policy, ":", 2)[0])
	}
	for _, k := range []int{1, 2, 3, 5} {
		pol := "budget:" + strconv.Itoa(k) + ":work-" + strconv.Itoa(rng.Intn(1000)) + ":dead_letter"
		addP(pol, "", false, nil)
		for d := -2; d <= 1; d++ {
			if k+d >= 0 {
				addP(pol, strconv.Itoa(k+d), true, nil)
			}
		}
		for _, pr := range []string{"x", "+" + strconv.Itoa(k-1), " " + strconv.Itoa(k), "-1", "9223372036854775806"} {
			addP(pol, pr, true, nil)
		}
	}
	for i := 0; i < nRandom/3; i++ {
		k := rng.Intn(6)
		addP("budget:"+strconv.Itoa(k)+":work:dead", strconv.Itoa(rng.Intn(7)), rng.Intn(5) > 0, nil)
	}
	for _, pr := range []string{"0", "1", "41", "x7", "007"} {
		addP("meta:_watermill_requeuer_retries", pr, true, nil) // the topic is named by the counter as it arrived
	}
	addP("meta:_watermill_requeuer_retries", "", false, nil)
	for i := 0; i < 6; i++ {
		addP("meta:route", strconv.Itoa(i), i%2 == 0, map[string]string{"route": "to-" + rndBytes(rng, 4)})
	}
	addP("meta:route", "3", true, nil) // no route in the message: the topic function fails
	penv.close()
	// Delay > 0: a message whose context is already done is not requeued; others are, after the delay
	env, err := newRq(true, false)
	if err != nil {
		fatal("requeuer setup", err)
	}
	for i := 0; i < 6 && !isStalled(); i++ {
		c := &rqCase{delay: true, cancel: i%3 != 2, tgOK: true, topic: "later", msg: rndMsg(rng, rndBytes), fail: i == 5}
		obs := env.run(c)
		out.Case(c.req(), obs)
		out.Count("rq.delay")
	}
	env.close()
	// shutdown while a message waits out the delay: the context given to Run is cancelled a quarter of the delay after the message
	// was handed over. The message's own context is alive (this subscriber does not derive it from the subscription), so the
	// statement still applies to it: it is acked only after the destination accepted it (or it is nacked) - a shutdown is no
	// licence to ack without publishing.
	for i := 0; i < 2 && !isStalled(); i++ {
		senv, err := newRq(true, i%2 == 1)
		if err != nil {
			fatal("requeuer setup", err)
		}
		c := &rqCase{delay: true, tgOK: true, topic: "later", msg: rndMsg(rng, rndBytes), fail: false}
		senv.afterTaken = func() {
			go func() {
				time.Sleep(rqDelay / 4)
				senv.cancel()
			}()
		}
		obs := senv.run(c)
		out.Case(c.req(), obs)
		out.Count("rq.delay.shutdown_during_delay")
		senv.close()
	}
}

func unhex(s string) string {
	if s == "-" {
		return ""
	}
	b := make([]byte, len(s)/2)
	for i := range b {
		v, _ := strconv.ParseUint(s[2*i:2*i+2], 16, 8)
		b[i] = byte(v)
	}
	return string(b)
}

func parseMeta(s string) map[string]string {
	m := map[string]string{}
	if s == "-" {
		return m
	}
	for _, kv := range strings.Split(s, ",") {
		p := strings.SplitN(kv, "=", 2)
		if len(p) == 2 {
			m[unhex(p[0])] = unhex(p[1])
		}
	}
	return m
}

// ---------------------------------------------------------------- Forwarder

type envDesc struct {
	bad  bool
	dest string
	msg  msgDesc
	meta bool // metadata present (false: JSON null / absent → nil map)
}

func (e envDesc) token() string {
	if e.bad {
		return "bad"
	}
	return "e:" + wh.HexS(e.dest) + ":" + wh.HexS(e.msg.uuid) + ":" + wh.Hex(e.msg.payload) + ":" + wh.Meta(e.msg.meta)
}

func jstr(s string) string { b, _ := json.Marshal(s); return string(b) }

func jmeta(m map[string]string) string {
	keys := make([]string, 0, len(m))
	for k := range m {
		keys = append(keys, k)
	}
	sort.Strings(keys)
	parts := make([]string, len(keys))
	for i, k := range keys {
		parts[i] = jstr(k) + ":" + jstr(m[k])
	}
	return "{" + strings.Join(parts, ",") + "}"
}

// stdJSON writes the envelope by hand (independent of the struct tags in envelope.go).
func stdJSON(destKey, dest string, d msgDesc, extra string) string {
	pl := "null"
	if d.payload != nil {
		pl = jstr(base64.StdEncoding.EncodeToString(d.payload))
	}
	return "{" + extra + jstr(destKey) + ":" + jstr(dest) + "," + jstr("uuid") + ":" + jstr(d.uuid) + ",\"payload\":" + pl + ",\"metadata\":" + jmeta(d.meta) + "}"
}

var fwdClasses = []string{"wrap", "std", "min", "extra", "caseins", "dup", "nulls", "emptydest", "nodest", "null", "emptyobj",
	"garbage", "empty", "trunc", "trailing", "desttype", "badb64", "array", "string", "number", "metatype"}

// rawEnvelope builds the payload of the consumed message for a class and says what json.Unmarshal must make of it.
// destPool holds destination topic names that deserve attention for the forwarder under test: its own forwarder
// topic (a two-hop chain whose forwarders share the default topic name is a valid set-up: input and output are
// different Pub/Subs), look-alikes of it and other plain names. rawEnvelope draws from it in a third of the cases.
var destPool []string

func setDestPool(own string) {
	destPool = []string{own, own, own + " ", " " + own, strings.ToUpper(own), own + "2", strings.TrimSuffix(own, "c"),
		"forwarder_topic", "Forwarder_Topic", "forwarder-topic", "events", "a"}
}

func rawEnvelope(class string, rng *wh.Rng) ([]byte, envDesc) {
	d := rndMsg(rng, rndUtf8)
	dst := "to-" + rndUtf8(rng, 5)
	if len(destPool) > 0 && rng.Intn(3) == 0 {
		dst = destPool[rng.Intn(len(destPool))]
	}
	switch class {
	case "wrap":
		w, err := forwarder.VerifWrapMessageInEnvelope(dst, d.build())
		if err != nil {
			fatal("wrap", err)
		}
		return w.Payload, envDesc{dest: dst, msg: d}
	case "std":
		return []byte(stdJSON("destination_topic", dst, d, "")), envDesc{dest: dst, msg: d}
	case "min":
		return []byte(`{"destination_topic":` + jstr(dst) + `}`), envDesc{dest: dst, msg: msgDesc{}}
	case "extra":
		return []byte(stdJSON("destination_topic", dst, d, `"zzz":{"a":[1,2,{"b":null}]},"destination":"elsewhere",`)), envDesc{dest: dst, msg: d}
	case "caseins":
		return []byte(stdJSON("DESTINATION_topic", dst, d, "")), envDesc{dest: dst, msg: d}
	case "dup":
		return []byte(stdJSON("destination_topic", dst, d, `"destination_topic":"overridden-by-the-later-one",`)), envDesc{dest: dst, msg: d}
	case "nulls":
		return []byte(`{"destination_topic":` + jstr(dst) + `,"uuid":` + jstr(d.uuid) + `,"payload":null,"metadata":null}`), envDesc{dest: dst, msg: msgDesc{uuid: d.uuid}}
	case "emptydest":
		return []byte(stdJSON("destination_topic", "", d, "")), envDesc{dest: "", msg: d}
	case "nodest":
		return []byte(stdJSON("destination-topic", dst, d, "")), envDesc{dest: "", msg: d}
	case "null":
		return []byte("null"), envDesc{}
	case "emptyobj":
		return []byte("{}"), envDesc{}
	case "garbage":
		return []byte("\x00<" + rndBytes(rng, 20)), envDesc{bad: true}
	case "empty":
		return nil, envDesc{bad: true}
	case "trunc":
		s := stdJSON("destination_topic", dst, d, "")
		return []byte(s[:len(s)/2]), envDesc{bad: true}
	case "trailing":
		return []byte(stdJSON("destination_topic", dst, d, "") + "x"), envDesc{bad: true}
	case "desttype":
		return []byte(`{"destination_topic":5,"uuid":"u"}`), envDesc{bad: true}
	case "badb64":
		return []byte(`{"destination_topic":` + jstr(dst) + `,"payload":"!!"}`), envDesc{bad: true}
	case "array":
		return []byte(`[{"destination_topic":"t"}]`), envDesc{bad: true}
	case "string":
		return []byte(`"destination_topic"`), envDesc{bad: true}
	case "number":
		return []byte("7"), envDesc{bad: true}
	case "metatype":
		return []byte(`{"destination_topic":` + jstr(dst) + `,"metadata":{"a":1}}`), envDesc{bad: true}
	}
	panic(class)
}

type fwdEnv struct {
	sub   *chanSub
	pub   *recPub
	f     *forwarder.Forwarder
	done  chan error
	topic string
}

// ownRouter: the Forwarder is given a Router by the caller (Config.Router) instead of making its own
func newFwd(cfgTopic string, ack bool, ownRouter bool) (*fwdEnv, error) {
	e := &fwdEnv{sub: newChanSub(), pub: &recPub{}, done: make(chan error, 1)}
	cfg := forwarder.Config{ForwarderTopic: cfgTopic, AckWhenCannotUnwrap: ack, CloseTimeout: 10 * time.Second}
	if ownRouter {
		r, err := message.NewRouter(message.RouterConfig{CloseTimeout: 10 * time.Second}, logger)
		if err != nil {
			return nil, err
		}
		cfg.Router = r
	}
	f, err := forwarder.NewForwarder(e.sub, e.pub, logger, cfg)
	if err != nil {
		return nil, err
	}
	e.f = f
	go func() { e.done <- f.Run(context.Background()) }()
	select {
	case <-f.Running():
	case <-time.After(waitLong):
		return nil, errors.New("forwarder did not start")
	}
	ts := e.sub.subscribed()
	if len(ts) != 1 {
		return nil, fmt.Errorf("forwarder subscribed %d times", len(ts))
	}
	e.topic = ts[0]
	return e, nil
}

func (e *fwdEnv) close() {
	_ = e.f.Close()
	select {
	case <-e.done:
	case <-time.After(waitLong):
		fmt.Fprintln(os.Stderr, "forwarder did not stop")
	}
}

// run feeds a message with the given payload; the consumed message carries its own uuid/metadata, which must not leak.
func (e *fwdEnv) run(payload []byte, fail bool, rng *wh.Rng, pan ...bool) string {
	m := message.NewMessage("consumed-"+rndBytes(rng, 4), payload)
	m.Metadata.Set("transport-header", "must-not-leak")
	e.pub.reset(m, fail)
	e.pub.setPanic(len(pan) > 0 && pan[0])
	s := feed(e.sub.ch(e.topic), m)
	return renderPubs(e.pub.take(), false) + " S:" + s
}

func fwdCases(out *wh.Out, rng *wh.Rng, rounds int) {
	for _, cfgTopic := range []string{"", "fwd-" + rndBytes(rng, 4)} {
		for _, own := range []bool{false, true} {
			env, err := newFwd(cfgTopic, false, own)
			if err != nil {
				fatal("forwarder setup", err)
			}
			req := "fwdtopic " + wh.HexS(cfgTopic)
			if own {
				req += " r"
			}
			out.Case(req, wh.HexS(env.topic))
			env.close()
		}
	}
	for _, ackCfg := range [][2]string{{"0", ""}, {"1", ""}, {"0", "fwd-" + strconv.Itoa(rng.Intn(1000))}, {"1", "chain"}} {
		ack, cfgTopic := ackCfg[0] == "1", ackCfg[1]
		env, err := newFwd(cfgTopic, ack, false)
		if err != nil {
			fatal("forwarder setup", err)
		}
		setDestPool(env.topic)
		n := 0
		failEvery := 2 + rng.Intn(4)
		for r := 0; r < rounds; r++ {
			for _, class := range fwdClasses {
				if isStalled() {
					break
				}
				raw, d := rawEnvelope(class, rng)
				n++
				fail := n%failEvery == 0 // the destination fails on every k-th message
				pan := !fail && n%7 == 3 // … and panics on some others (it accepts again afterwards)
				obs := env.run(raw, fail, rng, pan)
				if pan {
					out.Count("fwd.dest_panic")
				}
				out.Case("fwd "+bit(ack)+" "+d.token()+" "+dest(fail, pan)+" "+class+" "+wh.HexS(cfgTopic), obs)
				out.Count("fwd.class." + class)
				if !d.bad && d.dest == env.topic {
					out.Count("fwd.dest_is_forwarder_topic")
				}
				if fail {
					out.Count("fwd.dest_fail")
				}
			}
		}
		// concurrent bursts: valid envelopes with unique embedded uuids plus invalid ones, all in flight at once
		for b := 0; b < rounds && !isStalled(); b++ {
			n := 6 + rng.Intn(10)
			ms := make([]*message.Message, n)
			chs := make([]chan *message.Message, n)
			ds := make([]envDesc, n)
			classes := make([]string, n)
			fails := make([]bool, n)
			scripts := map[string]uuidScript{}
			for i := 0; i < n; i++ {
				classes[i] = []string{"std", "std", "wrap", "extra", "garbage", "emptydest", "null"}[rng.Intn(7)]
				raw, d := rawEnvelope(classes[i], rng)
				if !d.bad && d.dest != "" {
					// re-encode with a unique uuid so that the publisher can find this message's script
					d.msg.uuid = "b" + strconv.Itoa(b) + "-" + strconv.Itoa(i) + "-" + d.msg.uuid
					raw = []byte(stdJSON("destination_topic", d.dest, d.msg, ""))
					classes[i] = "std"
				}
				ds[i], fails[i] = d, rng.Intn(3) == 0
				ms[i] = message.NewMessage("consumed-"+strconv.Itoa(i), raw)
				chs[i] = env.sub.ch(env.topic)
				if !d.bad && d.dest != "" {
					scripts[d.msg.uuid] = uuidScript{ms[i], fails[i]}
				} else {
					fails[i] = false
				}
			}
			env.pub.burst(scripts)
			st := feedAll(chs, ms)
			for i := 0; i < n; i++ {
				var calls []pubCall
				if !ds[i].bad && ds[i].dest != "" {
					calls = env.pub.callsFor(ds[i].msg.uuid)
				}
				out.Case("fwd "+bit(ack)+" "+ds[i].token()+" "+dest(fails[i])+" "+classes[i]+" "+wh.HexS(cfgTopic), renderPubs(calls, false)+" S:"+st[i])
				out.Count("fwd.burst")
			}
			// nothing else may have been published (invalid envelopes never forwarded)
			total := 0
			for _, c := range env.pub.take() {
				total += len(c.msgs)
			}
			if total != len(scripts) {
				out.Case("fwd "+bit(ack)+" bad ok burst-total "+wh.HexS(cfgTopic), "P"+strconv.Itoa(total-len(scripts)+0)+" S:nack")
			}
		}
		env.close()
	}
}

// ---------------------------------------------------------------- forwarder.Publisher and end to end

type envelopeView struct {
	dest, uuid string
	payload    []byte
	meta       map[string]string
}

// decodeEnvelope reads an enveloped payload with a generic JSON decode (not with the forwarder's own code).
func decodeEnvelope(p []byte) (envelopeView, bool) {
	var raw map[string]json.RawMessage
	if err := json.Unmarshal(p, &raw); err != nil {
		return envelopeView{}, false
	}
	var v envelopeView
	ok := json.Unmarshal(raw["destination_topic"], &v.dest) == nil && json.Unmarshal(raw["uuid"], &v.uuid) == nil
	var b64 *string
	if json.Unmarshal(raw["payload"], &b64) != nil {
		ok = false
	} else if b64 != nil {
		b, err := base64.StdEncoding.DecodeString(*b64)
		if err != nil {
			ok = false
		}
		v.payload = b
	}
	if json.Unmarshal(raw["metadata"], &v.meta) != nil {
		ok = false
	}
	for k := range raw {
		if k != "destination_topic" && k != "uuid" && k != "payload" && k != "metadata" {
			ok = false
		}
	}
	return v, ok
}

func msgsToken(ds []msgDesc) string {
	if len(ds) == 0 {
		return "-"
	}
	p := make([]string, len(ds))
	for i, d := range ds {
		p[i] = wh.HexS(d.uuid) + "|" + wh.Hex(d.payload) + "|" + wh.Meta(d.meta)
	}
	return strings.Join(p, ";")
}

// renderFpub: C<n>[:<topic>|<k>|<dest>~<uuid>~<payload>~<meta>+…;…] E:<err> U:<fresh envelope uuids>
func renderFpub(calls []pubCall, err error) string {
	var cs []string
	fresh := true
	seen := map[string]bool{}
	for _, c := range calls {
		var es []string
		for _, m := range c.msgs {
			v, ok := decodeEnvelope(m.payload)
			if !ok {
				es = append(es, "undecodable")
				continue
			}
			es = append(es, wh.HexS(v.dest)+"~"+wh.HexS(v.uuid)+"~"+wh.Hex(v.payload)+"~"+wh.Meta(v.meta))
			if m.uuid == "" || seen[m.uuid] || len(m.meta) != 0 {
				fresh = false
			}
			seen[m.uuid] = true
		}
		e := "-"
		if len(es) > 0 {
			e = strings.Join(es, "+")
		}
		cs = append(cs, wh.HexS(c.topic)+"|"+strconv.Itoa(len(c.msgs))+"|"+e)
	}
	obs := "C" + strconv.Itoa(len(calls))
	if len(cs) > 0 {
		obs += ":" + strings.Join(cs, ";")
	}
	return obs + " E:" + bit(err != nil) + " U:" + bit(fresh)
}

// runFpubr: the caller keeps ONE batch (a slice of its own messages) and hands it to the Publisher twice - to a second
// destination topic, or again after the first attempt failed. Both calls must envelope the caller's messages.
func runFpubr(cfgTopic, topic1, topic2 string, ds []msgDesc, fail1, fail2 bool) string {
	var ms []*message.Message
	for _, d := range ds {
		ms = append(ms, d.build())
	}
	inner := &recPub{}
	p := forwarder.NewPublisher(inner, forwarder.PublisherConfig{ForwarderTopic: cfgTopic})
	inner.reset(nil, fail1)
	err1 := p.Publish(topic1, ms...)
	o1 := renderFpub(inner.take(), err1)
	inner.reset(nil, fail2)
	err2 := p.Publish(topic2, ms...)
	return o1 + " " + renderFpub(inner.take(), err2)
}

func fpubCases(out *wh.Out, rng *wh.Rng, n int) {
	for i := 0; i < n/3; i++ {
		cfgTopic := ""
		if rng.Intn(2) == 0 {
			cfgTopic = "ft-" + rndUtf8(rng, 4)
		}
		topic1 := "dst-" + rndUtf8(rng, 5)
		topic2 := topic1 // a retry …
		fail1 := true
		if rng.Intn(2) == 0 { // … or the same batch to a second destination
			topic2, fail1 = "other-"+rndUtf8(rng, 5), rng.Intn(4) == 0
		}
		var ds []msgDesc
		for j, k := 0, 1+rng.Intn(3); j < k; j++ {
			ds = append(ds, rndMsg(rng, rndUtf8))
		}
		fail2 := rng.Intn(5) == 0
		out.Case("fpubr "+wh.HexS(cfgTopic)+" "+wh.HexS(topic1)+" "+wh.HexS(topic2)+" "+msgsToken(ds)+" "+dest(fail1)+" "+dest(fail2),
			runFpubr(cfgTopic, topic1, topic2, ds, fail1, fail2))
		out.Count("fpub.batch_reused")
	}
	for i := 0; i < n; i++ {
		cfgTopic := ""
		if rng.Intn(2) == 0 {
			cfgTopic = "ft-" + rndUtf8(rng, 4)
		}
		topic := "dst-" + rndUtf8(rng, 5)
		if rng.Intn(8) == 0 {
			topic = ""
		}
		k := []int{0, 1, 1, 1, 2, 4}[rng.Intn(6)]
		var ds []msgDesc
		var ms []*message.Message
		for j := 0; j < k; j++ {
			d := rndMsg(rng, rndUtf8)
			ds = append(ds, d)
			ms = append(ms, d.build())
		}
		fail := rng.Intn(4) == 0
		inner := &recPub{}
		inner.reset(nil, fail)
		p := forwarder.NewPublisher(inner, forwarder.PublisherConfig{ForwarderTopic: cfgTopic})
		err := p.Publish(topic, ms...)
		obs := renderFpub(inner.take(), err)
		out.Case("fpub "+wh.HexS(cfgTopic)+" "+wh.HexS(topic)+" "+msgsToken(ds)+" "+dest(fail), obs)
		out.Count("fpub.batch" + strconv.Itoa(k))
		if topic == "" {
			out.Count("fpub.empty_topic")
		}
	}
}

// e2e: Publisher -> (scripted transport | GoChannel) -> Forwarder -> scripted destination
// transports: s scripted, g blocking GoChannel; gr = GoChannel and the Forwarder runs on a Router supplied by the caller
// (Config.Router).
type e2eEnv struct {
	transport, cfgTopic string
	ack                 bool
	dst                 *recPub
	cs                  *chanSub
	gc                  *gochannel.GoChannel
	f                   *forwarder.Forwarder
	done                chan error
}

func newE2E(transport, cfgTopic string, ack bool) *e2eEnv {
	e := &e2eEnv{transport: transport, cfgTopic: cfgTopic, ack: ack, dst: &recPub{}, cs: newChanSub(), done: make(chan error, 1)}
	var sub message.Subscriber = e.cs
	if transport != "s" {
		e.gc = gochannel.NewGoChannel(gochannel.Config{BlockPublishUntilSubscriberAck: true}, logger)
		sub = e.gc
	}
	var ownRouter *message.Router
	if transport == "gr" {
		var err error
		if ownRouter, err = message.NewRouter(message.RouterConfig{CloseTimeout: 10 * time.Second}, logger); err != nil {
			fatal("e2e router", err)
		}
	}
	f, err := forwarder.NewForwarder(sub, e.dst, logger, forwarder.Config{ForwarderTopic: cfgTopic, AckWhenCannotUnwrap: ack, CloseTimeout: 10 * time.Second, Router: ownRouter})
	if err != nil {
		fatal("e2e forwarder", err)
	}
	e.f = f
	go func() { e.done <- f.Run(context.Background()) }()
	select {
	case <-f.Running():
	case <-time.After(waitLong):
		fatal("e2e", errors.New("forwarder did not start"))
	}
	return e
}

func (e *e2eEnv) close() {
	_ = e.f.Close()
	select {
	case <-e.done:
	case <-time.After(waitLong):
	}
	if e.gc != nil {
		_ = e.gc.Close()
	}
}

func (e *e2eEnv) run(topic string, d msgDesc, fail bool) string {
	if e.transport == "s" {
		inner := &recPub{}
		p := forwarder.NewPublisher(inner, forwarder.PublisherConfig{ForwarderTopic: e.cfgTopic})
		perr := p.Publish(topic, d.build())
		calls := inner.take()
		if perr != nil || len(calls) != 1 || len(calls[0].msgs) != 1 {
			return "F:1 P0 S:-"
		}
		w := calls[0].msgs[0]
		m := message.NewMessage(w.uuid, w.payload)
		e.dst.reset(m, fail)
		s := feed(e.cs.ch(calls[0].topic), m)
		return "F:0 " + renderPubs(e.dst.take(), false) + " S:" + s
	}
	e.dst.reset(nil, false)
	p := forwarder.NewPublisher(e.gc, forwarder.PublisherConfig{ForwarderTopic: e.cfgTopic})
	ret := make(chan error, 1)
	go func() { ret <- p.Publish(topic, d.build()) }()
	select {
	case perr := <-ret:
		// a blocking GoChannel publish returns once the forwarder acked the enveloped message
		return "F:" + bit(perr != nil) + " " + renderPubs(e.dst.take(), false) + " S:ack"
	case <-time.After(waitLong):
		stall()
		return "F:0 " + renderPubs(e.dst.take(), false) + " S:timeout"
	}
}

func e2eReq(transport, cfgTopic string, ack bool, topic string, d msgDesc, fail bool) string {
	return "e2e " + transport + " " + wh.HexS(cfgTopic) + " " + bit(ack) + " " + wh.HexS(topic) + " " + d.fields() + " " + dest(fail)
}

func e2eCases(out *wh.Out, rng *wh.Rng, n int) {
	for _, transport := range []string{"s", "g", "gr"} {
		for _, ack := range []bool{false, true} {
			cfgTopic := ""
			// with a supplied Router the forwarder topic is left to its default on both sides in the first environment
			if rng.Intn(2) == 0 && !(transport == "gr" && !ack) {
				cfgTopic = "ft-" + rndUtf8(rng, 4)
			}
			env := newE2E(transport, cfgTopic, ack)
			for i := 0; i < n && !isStalled(); i++ {
				d := rndMsg(rng, rndUtf8)
				topic := "dst-" + rndUtf8(rng, 5)
				if transport == "s" && rng.Intn(4) == 0 {
					// the destination is named like the forwarder topic (the destination publisher is another Pub/Sub)
					own := cfgTopic
					if own == "" {
						own = "forwarder_topic"
					}
					topic = []string{own, own + " ", "forwarder_topic", strings.ToUpper(own)}[rng.Intn(4)]
				}
				fail := transport == "s" && rng.Intn(3) == 0
				out.Case(e2eReq(transport, cfgTopic, ack, topic, d, fail), env.run(topic, d, fail))
				out.Count("e2e.transport." + transport)
			}
			env.close()
		}
	}
}

// ---------------------------------------------------------------- FanIn

func hexList(xs []string) string {
	if len(xs) == 0 {
		return "-"
	}
	p := make([]string, len(xs))
	for i, x := range xs {
		p[i] = wh.HexS(x)
	}
	return strings.Join(p, ",")
}

func faninCases(out *wh.Out, rng *wh.Rng, perEnv int) {
	// constructor validation
	ctor := [][2]interface{}{
		{[]string{}, "t"}, {[]string{"a"}, ""}, {[]string{""}, "t"}, {[]string{"a", ""}, "t"}, {[]string{"a", "t"}, "t"},
		{[]string{"a"}, "t"}, {[]string{"a", "b", "c"}, "t"}, {[]string{"t "}, "t"},
	}
	for _, c := range ctor {
		srcs, target := c[0].([]string), c[1].(string)
		// (a FanIn that was never run is simply dropped: closing a router that never ran waits for its CloseTimeout)
		_, err := fanin.NewFanIn(newChanSub(), &recPub{}, fanin.Config{SourceTopics: srcs, TargetTopic: target}, logger)
		o := "ok"
		if err != nil {
			o = "err"
		}
		out.Case("faninctor "+hexList(srcs)+" "+wh.HexS(target), o)
		out.Count("fanin.ctor")
	}
	for _, nsrc := range []int{1, 2, 4} {
		var srcs []string
		for i := 0; i < nsrc; i++ {
			srcs = append(srcs, "src"+strconv.Itoa(i)+"-"+rndBytes(rng, 3))
		}
		target := "target-" + rndBytes(rng, 4)
		sub, pub := newChanSub(), &recPub{}
		fi, err := fanin.NewFanIn(sub, pub, fanin.Config{SourceTopics: srcs, TargetTopic: target, CloseTimeout: 10 * time.Second}, logger)
		if err != nil {
			fatal("fanin setup", err)
		}
		done := make(chan error, 1)
		go func() { done <- fi.Run(context.Background()) }()
		select {
		case <-fi.Running():
		case <-time.After(waitLong):
			fatal("fanin", errors.New("did not start"))
		}
		failFrom := rng.Intn(perEnv)
		for i := 0; i < perEnv && !isStalled(); i++ {
			idx := rng.Intn(nsrc)
			d := rndMsg(rng, rndBytes)
			fail := i >= failFrom && (i-failFrom)%3 != 2
			pan := !fail && i%6 == 4
			m := d.build()
			pub.reset(m, fail)
			pub.setPanic(pan)
			s := feed(sub.ch(srcs[idx]), m)
			out.Case("fanin "+hexList(srcs)+" "+wh.HexS(target)+" "+strconv.Itoa(idx)+" "+dest(fail, pan)+" "+d.fields(), renderPubs(pub.take(), true)+" S:"+s)
			out.Count("fanin.sources" + strconv.Itoa(nsrc))
			if fail {
				out.Count("fanin.dest_fail")
			}
		}
		for b := 0; b < 3 && !isStalled(); b++ {
			n := 5 + rng.Intn(10)
			ms := make([]*message.Message, n)
			chs := make([]chan *message.Message, n)
			ds := make([]msgDesc, n)
			idxs := make([]int, n)
			fails := make([]bool, n)
			scripts := map[string]uuidScript{}
			for i := 0; i < n; i++ {
				ds[i] = rndMsg(rng, rndBytes)
				ds[i].uuid = "b" + strconv.Itoa(b) + "-" + strconv.Itoa(i) + "-" + ds[i].uuid
				idxs[i], fails[i] = rng.Intn(nsrc), rng.Intn(3) == 0
				ms[i] = ds[i].build()
				chs[i] = sub.ch(srcs[idxs[i]])
				scripts[ds[i].uuid] = uuidScript{ms[i], fails[i]}
			}
			pub.burst(scripts)
			st := feedAll(chs, ms)
			for i := 0; i < n; i++ {
				out.Case("fanin "+hexList(srcs)+" "+wh.HexS(target)+" "+strconv.Itoa(idxs[i])+" "+dest(fails[i])+" "+ds[i].fields(),
					renderPubs(pub.callsFor(ds[i].uuid), true)+" S:"+st[i])
				out.Count("fanin.burst")
			}
		}
		_ = fi.Close()
		select {
		case <-done:
		case <-time.After(waitLong):
		}
	}
}

// ---------------------------------------------------------------- FanOut

func fanoutCases(out *wh.Out, rng *wh.Rng, perEnv int) {
	for _, nsubs := range []int{0, 1, 3} {
		src := newChanSub()
		fo, err := gochannel.NewFanOut(src, logger)
		if err != nil {
			fatal("fanout setup", err)
		}
		topics := []string{"ta-" + rndBytes(rng, 3), "tb-" + rndBytes(rng, 3)}
		for _, t := range topics {
			fo.AddSubscription(t)
		}
		fo.AddSubscription(topics[0]) // idempotent
		done := make(chan error, 1)
		go func() { done <- fo.Run(context.Background()) }()
		select {
		case <-fo.Running():
		case <-time.After(waitLong):
			fatal("fanout", errors.New("did not start"))
		}
		type rcv struct {
			topic string
			ch    <-chan *message.Message
		}
		var rcvs []rcv
		ctx, cancel := context.WithCancel(context.Background())
		for _, t := range topics {
			for i := 0; i < nsubs; i++ {
				ch, err := fo.Subscribe(ctx, t)
				if err != nil {
					fatal("fanout subscribe", err)
				}
				rcvs = append(rcvs, rcv{t, ch})
			}
		}
		for i := 0; i < perEnv && !isStalled(); i++ {
			ti := rng.Intn(len(topics))
			d := rndMsg(rng, rndBytes)
			m := d.build()
			s := feed(src.ch(topics[ti]), m)
			var ds []string
			other := 0
			for _, r := range rcvs {
				if r.topic == topics[ti] {
					select {
					case c := <-r.ch:
						ds = append(ds, wh.HexS(c.UUID)+"|"+wh.Hex(c.Payload)+"|"+wh.Meta(c.Metadata))
						c.Ack()
					case <-time.After(waitLong):
						ds = append(ds, "missing")
						stall()
					}
					if isStalled() {
						break
					}
				}
			}
			// nothing on the other topic, nothing twice
			time.Sleep(2 * time.Millisecond)
			for _, r := range rcvs {
				select {
				case c := <-r.ch:
					other++
					c.Ack()
				default:
				}
			}
			obs := "D" + strconv.Itoa(len(ds))
			if len(ds) > 0 {
				obs += ":" + strings.Join(ds, ";")
			}
			obs += " X:" + strconv.Itoa(other) + " S:" + s
			out.Case("fanout "+strconv.Itoa(nsubs)+" "+d.fields(), obs)
			out.Count("fanout.subs" + strconv.Itoa(nsubs))
		}
		cancel()
		_ = fo.Close()
		select {
		case <-done:
		case <-time.After(waitLong):
		}
	}
}

func fatal(what string, err error) {
	fmt.Fprintln(os.Stderr, what+":", err)
	os.Exit(3)
}

// ---------------------------------------------------------------- replay

func parseMsgFields(f []string) msgDesc {
	d := msgDesc{uuid: unhex(f[0]), meta: parseMeta(f[2])}
	if f[1] != "-" {
		d.payload = []byte(unhex(f[1]))
	}
	return d
}

func replay(out *wh.Out, line string) {
	f := strings.Fields(line)
	switch f[0] {
	case "atoi":
		v, err := strconv.Atoi(unhex(f[1]))
		o := "err"
		if err == nil {
			o = strconv.Itoa(v)
		}
		out.Case(line, o)
	case "itoa":
		v, _ := strconv.Atoi(f[1])
		out.Case(line, wh.HexS(strconv.Itoa(v)))
	case "utf8":
		out.Case(line, bit(utf8.ValidString(unhex(f[1]))))
	case "rq":
		c := &rqCase{delay: f[1] == "1", cancel: f[2] == "1", tgOK: strings.HasPrefix(f[3], "ok:"), fail: f[4] == "fail", pan: f[4] == "panic", msg: parseMsgFields(f[5:8])}
		if c.tgOK {
			c.topic = unhex(f[3][3:])
		}
		env, err := newRq(c.delay, false)
		if err != nil {
			fatal("requeuer setup", err)
		}
		out.Case(line, env.run(c))
		env.close()
	case "fwd":
		// fwd <ack> <bad | e:dest:uuid:payload:meta> <dest> <class> <configured forwarder topic>: the envelope is
		// rebuilt as hand-written JSON from what it parses to (the original byte form depends on the seed)
		if len(f) != 6 {
			fatal("replay", errors.New("fwd line without forwarder topic"))
		}
		raw := []byte("\x00<not json")
		if strings.HasPrefix(f[2], "e:") {
			e := strings.Split(f[2], ":")
			d := msgDesc{uuid: unhex(e[2]), meta: parseMeta(e[4])}
			if e[3] != "-" {
				d.payload = []byte(unhex(e[3]))
			}
			raw = []byte(stdJSON("destination_topic", unhex(e[1]), d, ""))
		}
		env, err := newFwd(unhex(f[5]), f[1] == "1", false)
		if err != nil {
			fatal("forwarder setup", err)
		}
		out.Case(line, env.run(raw, f[3] == "fail", wh.NewRng(1), f[3] == "panic"))
		env.close()
	case "e2e":
		env := newE2E(f[1], unhex(f[2]), f[3] == "1")
		out.Case(line, env.run(unhex(f[4]), parseMsgFields(f[5:8]), f[8] == "fail"))
		env.close()
	case "fpubr":
		var ds []msgDesc
		if f[4] != "-" {
			for _, e := range strings.Split(f[4], ";") {
				ds = append(ds, parseMsgFields(strings.Split(e, "|")))
			}
		}
		out.Case(line, runFpubr(unhex(f[1]), unhex(f[2]), unhex(f[3]), ds, f[5] == "fail", f[6] == "fail"))
	case "rqp":
		c := &rqCase{delay: f[1] == "1", cancel: f[2] == "1", fail: f[4] == "fail", pan: f[4] == "panic", msg: parseMsgFields(f[5:8])}
		pf := strings.Split(f[3], ":")
		if pf[0] == "budget" {
			c.policy = "budget:" + pf[1] + ":" + unhex(pf[2]) + ":" + unhex(pf[3])
		} else {
			c.policy = "meta:" + unhex(pf[1])
		}
		env, err := newRq(c.delay, false)
		if err != nil {
			fatal("requeuer setup", err)
		}
		out.Case(c.req(), env.run(c))
		env.close()
	case "fanin":
		var srcs []string
		for _, s := range strings.Split(f[1], ",") {
			srcs = append(srcs, unhex(s))
		}
		idx, _ := strconv.Atoi(f[3])
		sub, pub := newChanSub(), &recPub{}
		fi, err := fanin.NewFanIn(sub, pub, fanin.Config{SourceTopics: srcs, TargetTopic: unhex(f[2])}, logger)
		if err != nil {
			fatal("fanin setup", err)
		}
		go fi.Run(context.Background())
		<-fi.Running()
		m := parseMsgFields(f[5:8]).build()
		pub.reset(m, f[4] == "fail")
		pub.setPanic(f[4] == "panic")
		s := feed(sub.ch(srcs[idx]), m)
		out.Case(line, renderPubs(pub.take(), true)+" S:"+s)
		_ = fi.Close()
	default:
		fmt.Fprintln(os.Stderr, "replay of this request kind is not supported (payload classes are rebuilt from the seed): rerun with the seed of the replay file")
		os.Exit(2)
	}
}

func main() {
	a := wh.ParseArgs()
	out := wh.NewOut(a.Out)
	defer out.Close()
	if a.Replay != "" {
		replay(out, a.Replay)
		return
	}
	rng := wh.NewRng(a.Seed)
	scale := 1
	if a.Thorough() {
		scale = 30
	}
	t0 := time.Now()
	section := func(name string, f func()) {
		if isStalled() {
			out.Note("section " + name + " skipped: the implementation stalled earlier")
			return
		}
		func() {
			// a panic of the code under test on a harness goroutine (constructors, AddSubscription, Publisher.Publish)
			// becomes an observation instead of killing the harness
			defer func() {
				if r := recover(); r != nil {
					out.Case("crash "+name, wh.PanicText(r))
					out.Count("crash")
				}
			}()
			f()
		}()
		out.Note(fmt.Sprintf("section %s done at %.1fs", name, time.Since(t0).Seconds()))
	}
	section("atoi", func() { atoiCases(out, rng, 200*scale) })
	section("requeuer", func() { rqCases(out, rng, 150*scale, 10*scale) })
	section("forwarder", func() { fwdCases(out, rng, 10*scale) })
	section("publisher", func() { fpubCases(out, rng, 300*scale) })
	section("e2e", func() { e2eCases(out, rng, 50*scale) })
	section("fanin", func() { faninCases(out, rng, 80*scale) })
	section("fanout", func() { fanoutCases(out, rng, 40*scale) })
}
