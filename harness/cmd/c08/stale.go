package main

// Building an incoming context that already carries router keys.  The keys are unexported, so the only way to get
// them onto a context is the real code itself: the message is sent through a one-handler "upstream" Router whose five
// fields are the wanted values, and the context its handler function sees is taken over.

import (
	"context"
	"strconv"
	"strings"
	"time"

	"github.com/ThreeDotsLabs/watermill"
	"github.com/ThreeDotsLabs/watermill/message"
)

func init() { staleCtx = buildStale }

// spec: `.`-separated <keyIdx>_<hexValue>, innermost first: the incoming context carries these values (the first
// entry for a key wins); the upstream handler gets them as its five fields, the others stay empty
func buildStale(spec string) context.Context {
	f := [5]string{}
	seen := [5]bool{}
	for _, e := range strings.Split(spec, ".") {
		p := strings.SplitN(e, "_", 2)
		if len(p) != 2 {
			continue
		}
		k, err := strconv.Atoi(p[0])
		v, ok := unhex(p[1])
		if err != nil || !ok || k < 0 || k > 4 || seen[k] {
			continue
		}
		f[k], seen[k] = v, true
	}
	return throughUpstream(context.Background(), f)
}

func throughUpstream(parent context.Context, f [5]string) context.Context {
	r := &rec{copies: map[*message.Message]*copyInfo{}, objs: map[*message.Message]*objInfo{}}
	router, err := message.NewRouter(message.RouterConfig{CloseTimeout: 5 * time.Second}, watermill.NopLogger{})
	if err != nil {
		return parent
	}
	core := &subCore{id: 0, r: r, closing: make(chan struct{})}
	got := make(chan context.Context, 1)
	router.AddHandler(f[0], f[3], &subS{core, f[2]}, f[4], &pubS{&pubCore{0, r}, f[1]}, func(msg *message.Message) ([]*message.Message, error) {
		got <- msg.Context()
		return nil, nil
	})
	ctx, cancel := context.WithCancel(context.Background())
	defer cancel()
	done := make(chan struct{})
	go func() { router.Run(ctx); close(done) }()
	defer func() { router.Close(); <-done }()
	select {
	case <-router.Running():
	case <-time.After(settleTimeout):
		return parent
	}
	core.mu.Lock()
	sub := core.subs[0]
	core.mu.Unlock()
	m := message.NewMessage("up", nil)
	m.SetContext(parent)
	select {
	case sub.in <- m:
	case <-time.After(settleTimeout):
		return parent
	}
	select {
	case c := <-got:
		<-m.Acked()
		return c
	case <-time.After(settleTimeout):
		return parent
	}
}
