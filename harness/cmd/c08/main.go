// Harness for C08: per-handler routing of the real message.Router.
//
//	REQ route <tok>*      OBS subs=… orphans=… H<i>:…
//
// (token and observation grammar: lean/Driver/C08.lean).  Subscribers are scripted (the harness feeds their
// subscriptions: a message that "arrives at (subscriber, topic)" is handed, one fresh copy each, to every subscription
// made for that pair – what a broker does); publishers record topic, pointer identity, order, content and context of
// what they are given; handler functions are tagged with the index of their handler and record the five context
// accessors.  Subscriptions are fed concurrently (streams interleave across handlers), one message at a time per
// subscription (the next one after the previous settled).  Go map order in RunHandlers is random: the observation is
// canonicalised per handler (block H<i> = the subscription whose copies handler i's function received).
package main

import (
	"bytes"
	"context"
	"encoding/hex"
	"errors"
	"flag"
	"fmt"
	"os"
	"sort"
	"strconv"
	"strings"
	"sync"
	"time"

	"github.com/ThreeDotsLabs/watermill"
	"github.com/ThreeDotsLabs/watermill/message"

	"wmverif/wh"
)

const settleTimeout = 20 * time.Second

// ---------------------------------------------------------------- recording

type snapshot struct {
	uuid    string
	payload []byte
	meta    string
}

func snap(m *message.Message) snapshot {
	return snapshot{m.UUID, append([]byte{}, m.Payload...), wh.Meta(m.Metadata)}
}

func (s snapshot) same(m *message.Message) bool {
	return s.uuid == m.UUID && bytes.Equal(s.payload, m.Payload) && s.meta == wh.Meta(m.Metadata)
}

type item struct {
	ref   string
	flag  string
	ctx   string
	owner string // the marker found on the element's context: whose own context it (still) derives from
}

type pubCall struct {
	pub   int
	topic string
	path  []string // publisher decorators this call passed, in the order passed: <id>=<context values it read>
	items []item
}

// markerKey: every message object carries, on its own context from its creation, the name of the object it is
// (c / f<k> / m<k>); whoever replaces a message's context by one derived from another message is found out
type markerKey struct{}

func withMarker(parent context.Context, ref string) context.Context {
	return context.WithValue(parent, markerKey{}, ref)
}

type copyInfo struct {
	cancel  context.CancelFunc // of the delivered message's own context (done modes)
	d       *delivery
	msg     *message.Message
	snap    snapshot
	fns     []int
	ctx     string
	settle  string
	calls   []*pubCall
	subPath []int    // subscriber decorators the copy passed
	pending []string // publisher decorators passed by the Publish call that is under way: <id>=<context values read>
}

type objInfo struct {
	c    *copyInfo
	ref  string
	snap snapshot
}

type rec struct {
	mu       sync.Mutex
	copies   map[*message.Message]*copyInfo
	objs     map[*message.Message]*objInfo
	orphans  int
	subCalls []string // "<subId>:<topicHex>"
}

func ctx5(c context.Context) string {
	return strings.Join([]string{
		wh.HexS(message.HandlerNameFromCtx(c)), wh.HexS(message.PublisherNameFromCtx(c)), wh.HexS(message.SubscriberNameFromCtx(c)),
		wh.HexS(message.SubscribeTopicFromCtx(c)), wh.HexS(message.PublishTopicFromCtx(c))}, ":")
}

func (r *rec) publish(pub int, topic string, msgs []*message.Message) {
	r.mu.Lock()
	defer r.mu.Unlock()
	if len(msgs) == 0 {
		r.orphans++
		return
	}
	var owner *copyInfo
	if c, ok := r.copies[msgs[0]]; ok {
		owner = c
	} else if o, ok := r.objs[msgs[0]]; ok {
		owner = o.c
	}
	if owner == nil {
		r.orphans++
		return
	}
	call := &pubCall{pub: pub, topic: topic, path: owner.pending}
	owner.pending = nil
	for _, m := range msgs {
		it := item{ref: "x", flag: "M", ctx: ctx5(m.Context()), owner: "-"}
		if mk, ok := m.Context().Value(markerKey{}).(string); ok {
			it.owner = mk
		}
		if m == owner.msg {
			it.ref = "c"
			if owner.snap.same(m) {
				it.flag = "u"
			}
		} else if o, ok := r.objs[m]; ok && o.c == owner {
			it.ref = o.ref
			if o.snap.same(m) {
				it.flag = "u"
			}
		}
		call.items = append(call.items, it)
	}
	owner.calls = append(owner.calls, call)
}

// ownerOf: the consumed copy a message belongs to (the copy itself, or an object created while handling it)
func (r *rec) ownerOf(m *message.Message) *copyInfo {
	if c, ok := r.copies[m]; ok {
		return c
	}
	if o, ok := r.objs[m]; ok {
		return o.c
	}
	return nil
}

// recording publisher decorator number id: notes that the call passed it, then calls the wrapped publisher
type decPub struct {
	inner message.Publisher
	id    int
	r     *rec
}

func (d *decPub) Publish(topic string, msgs ...*message.Message) error {
	d.r.mu.Lock()
	if len(msgs) > 0 {
		if c := d.r.ownerOf(msgs[0]); c != nil {
			// the decorator reads the five context values of every message it is handed (like components/metrics does)
			var seen []string
			for _, m := range msgs {
				x := ctx5(m.Context())
				dup := false
				for _, y := range seen {
					dup = dup || x == y
				}
				if !dup {
					seen = append(seen, x)
				}
			}
			c.pending = append(c.pending, strconv.Itoa(d.id)+"="+strings.Join(seen, "|"))
		}
	}
	d.r.mu.Unlock()
	if d.inner == nil { // decorating the nil publisher of a handler registered without one
		return message.ErrOutputInNoPublisherHandler
	}
	return d.inner.Publish(topic, msgs...)
}

func (d *decPub) Close() error {
	if d.inner == nil {
		return nil
	}
	return d.inner.Close()
}

func pubDecorator(id int, r *rec) message.PublisherDecorator {
	return func(p message.Publisher) (message.Publisher, error) { return &decPub{p, id, r}, nil }
}

// a decorator that returns an error the first time it is applied (a transient failure) and works afterwards
func failOncePub(d message.PublisherDecorator) message.PublisherDecorator {
	failed := false
	return func(p message.Publisher) (message.Publisher, error) {
		if !failed {
			failed = true
			return nil, errors.New("publisher decorator not ready yet")
		}
		return d(p)
	}
}

func failOnceSub(d message.SubscriberDecorator) message.SubscriberDecorator {
	failed := false
	return func(s message.Subscriber) (message.Subscriber, error) {
		if !failed {
			failed = true
			return nil, errors.New("subscriber decorator not ready yet")
		}
		return d(s)
	}
}

// appValues: what logging / audit / multi-tenancy code of the application might put into a message context, under
// plain string keys whose texts happen to be the router's
func appValues(ctx context.Context, who string) context.Context {
	for _, k := range []string{"handler_name", "publisher_name", "subscriber_name", "subscribe_topic", "publish_topic"} {
		ctx = context.WithValue(ctx, k, "app-"+who+"-"+k) //nolint:staticcheck // plain string keys are the point
	}
	return ctx
}

// recording subscriber decorator number id (watermill's own transform decorator)
func subDecorator(id int, r *rec) message.SubscriberDecorator {
	return message.MessageTransformSubscriberDecorator(func(m *message.Message) {
		r.mu.Lock()
		if c, ok := r.copies[m]; ok {
			c.subPath = append(c.subPath, id)
		}
		r.mu.Unlock()
	})
}

// ---------------------------------------------------------------- publishers (three Go types, for the type names)

type pubCore struct {
	id int
	r  *rec
}

func (p *pubCore) Publish(topic string, msgs ...*message.Message) error {
	p.r.publish(p.id, topic, msgs)
	return nil
}
func (p *pubCore) Close() error { return nil }

type pubA struct{ *pubCore } // used as *pubA: StructName "main.pubA"

type pubB struct{ c *pubCore } // used as a value: StructName "main.pubB"

func (p pubB) Publish(topic string, msgs ...*message.Message) error {
	return p.c.Publish(topic, msgs...)
}
func (p pubB) Close() error { return nil }

type pubS struct { // fmt.Stringer: StructName is whatever String says
	*pubCore
	name string
}

func (p *pubS) String() string { return p.name }

func mkPub(id int, name string, r *rec) message.Publisher {
	core := &pubCore{id, r}
	switch name {
	case "main.pubA":
		return &pubA{core}
	case "main.pubB":
		return pubB{core}
	}
	return &pubS{core, name}
}

// ---------------------------------------------------------------- scripted subscribers

type subscription struct {
	topic string
	in    chan *message.Message
	dead  chan struct{} // closed when the subscription has ended (its handler stopped, the subscriber was closed)
}

type subCore struct {
	id      int
	r       *rec
	mu      sync.Mutex
	subs    []*subscription
	closing chan struct{}
	once    sync.Once
}

func (s *subCore) Subscribe(ctx context.Context, topic string) (<-chan *message.Message, error) {
	sub := &subscription{topic: topic, in: make(chan *message.Message), dead: make(chan struct{})}
	s.mu.Lock()
	s.subs = append(s.subs, sub)
	s.mu.Unlock()
	s.r.mu.Lock()
	s.r.subCalls = append(s.r.subCalls, strconv.Itoa(s.id)+":"+wh.HexS(topic))
	s.r.mu.Unlock()
	out := make(chan *message.Message)
	go func() {
		defer close(out)
		defer close(sub.dead)
		for {
			select {
			case m := <-sub.in:
				select {
				case out <- m:
				case <-ctx.Done():
					return
				case <-s.closing:
					return
				}
			case <-ctx.Done():
				return
			case <-s.closing:
				return
			}
		}
	}()
	return out, nil
}

func (s *subCore) Close() error {
	s.once.Do(func() { close(s.closing) })
	return nil
}

type subA struct{ *subCore } // *subA: "main.subA"

type subB struct{ c *subCore } // value: "main.subB"

func (s subB) Subscribe(ctx context.Context, topic string) (<-chan *message.Message, error) {
	return s.c.Subscribe(ctx, topic)
}
func (s subB) Close() error { return s.c.Close() }

type subS struct {
	*subCore
	name string
}

func (s *subS) String() string { return s.name }

func mkSub(core *subCore, name string) message.Subscriber {
	switch name {
	case "main.subA":
		return &subA{core}
	case "main.subB":
		return subB{core}
	}
	return &subS{core, name}
}

// ---------------------------------------------------------------- request

type hcfg struct {
	name     string
	sub      int
	subTopic string
	pubSpec  string // "p<id>" | "np" | "nil"
	pubTopic string
	mwOut    int
}

type delivery struct {
	sub   int
	topic string
	mid   int
	shape string // "E" | "-" | c.f0.f1…
	ctx   string // "" or <keyIdx>_<hex>.…
	done  string // "" | x: context cancelled before delivery | k: the function cancels it, then returns | t: deadline the function overruns
}

func unhex(s string) (string, bool) {
	if s == "-" {
		return "", true
	}
	b, err := hex.DecodeString(s)
	if err != nil || len(b) == 0 || strings.ToLower(s) != s {
		return "", false
	}
	return string(b), true
}

// op: one step of building and starting the router, in request order
type op struct {
	kind string // "h" (AddHandler of hs[n]) | "D" (publisher decorator n) | "E" (subscriber decorator n) | "RUN"
	n    int
}

type request struct {
	subNames   map[int]string
	subOrder   []int
	pubNames   map[int]string
	hs         []hcfg
	ds         []delivery
	ops        []op
	appWrapped map[int]bool
}

func parse(req string) (*request, bool) {
	toks := strings.Fields(req)
	if len(toks) == 0 || toks[0] != "route" {
		return nil, false
	}
	q := &request{subNames: map[int]string{}, pubNames: map[int]string{}, appWrapped: map[int]bool{}}
	names := map[string]bool{}
	stoppedName := map[int]bool{}
	for _, t := range toks[1:] {
		if t == "RUN" {
			q.ops = append(q.ops, op{"RUN", 0})
			continue
		}
		if t == "K" {
			q.ops = append(q.ops, op{"K", 0})
			continue
		}
		if len(t) >= 2 && t[0] == 'T' && !strings.Contains(t, "=") { // Stop() of handler number n (position among the h= tokens)
			i, err := strconv.Atoi(t[1:])
			if err != nil || i < 0 || i >= len(q.hs) || stoppedName[i] {
				return nil, false
			}
			stoppedName[i] = true
			delete(names, q.hs[i].name) // the name is free again
			q.ops = append(q.ops, op{"T", i})
			continue
		}
		if len(t) >= 2 && t[0] == 'M' && !strings.Contains(t, "=") {
			id, err := strconv.Atoi(t[1:])
			if err != nil {
				return nil, false
			}
			q.ops = append(q.ops, op{"M", id})
			continue
		}
		if !strings.Contains(t, "=") && len(t) >= 2 && (t[0] == 'D' || t[0] == 'E') {
			kind, num := t[:1], t[1:]
			if strings.HasSuffix(num, "!") { // fails the first time it is applied
				kind, num = kind+"!", num[:len(num)-1]
			}
			id, err := strconv.Atoi(num)
			if err != nil || id < 0 {
				return nil, false
			}
			q.ops = append(q.ops, op{kind, id})
			continue
		}
		kv := strings.SplitN(t, "=", 2)
		if len(kv) != 2 {
			return nil, false
		}
		switch {
		case kv[0] == "h":
			f := strings.Split(kv[1], ":")
			if len(f) != 6 {
				return nil, false
			}
			name, ok1 := unhex(f[0])
			sub, err1 := strconv.Atoi(f[1])
			st, ok2 := unhex(f[2])
			pt, ok3 := unhex(f[4])
			mw, err2 := strconv.Atoi(f[5])
			if !ok1 || !ok2 || !ok3 || err1 != nil || err2 != nil || mw < 0 || names[name] {
				return nil, false
			}
			if _, ok := q.subNames[sub]; !ok {
				return nil, false
			}
			switch {
			case f[3] == "np":
				if pt != "" {
					return nil, false
				}
			case f[3] == "nil":
			case strings.HasPrefix(f[3], "p"):
				p, err := strconv.Atoi(f[3][1:])
				if err != nil {
					return nil, false
				}
				if _, ok := q.pubNames[p]; !ok {
					return nil, false
				}
			default:
				return nil, false
			}
			names[name] = true
			q.hs = append(q.hs, hcfg{name, sub, st, f[3], pt, mw})
			q.ops = append(q.ops, op{"h", len(q.hs) - 1})
		case kv[0] == "d":
			f := strings.Split(kv[1], ":")
			if len(f) < 4 || len(f) > 6 {
				return nil, false
			}
			sub, err1 := strconv.Atoi(f[0])
			t, ok1 := unhex(f[1])
			mid, err2 := strconv.Atoi(f[2])
			if err1 != nil || err2 != nil || !ok1 {
				return nil, false
			}
			if f[3] != "E" && f[3] != "-" {
				for _, it := range strings.Split(f[3], ".") {
					if it == "c" {
						continue
					}
					if len(it) < 2 || it[0] != 'f' {
						return nil, false
					}
					if _, err := strconv.Atoi(it[1:]); err != nil {
						return nil, false
					}
				}
			}
			d := delivery{sub, t, mid, f[3], "", ""}
			if len(f) >= 5 && f[4] != "n" {
				d.ctx = f[4]
			}
			if len(f) == 6 {
				if f[5] != "x" && f[5] != "k" && f[5] != "t" {
					return nil, false
				}
				d.done = f[5]
			}
			q.ds = append(q.ds, d)
		case strings.HasPrefix(kv[0], "S") || strings.HasPrefix(kv[0], "W"):
			id, err := strconv.Atoi(kv[0][1:])
			name, ok := unhex(kv[1])
			if _, dup := q.subNames[id]; err != nil || !ok || dup {
				return nil, false
			}
			q.subNames[id] = name
			q.subOrder = append(q.subOrder, id)
			if kv[0][0] == 'W' { // the application wraps this subscriber itself with the public transform decorator
				q.appWrapped[id] = true
			}
		case strings.HasPrefix(kv[0], "P"):
			id, err := strconv.Atoi(kv[0][1:])
			name, ok := unhex(kv[1])
			if _, dup := q.pubNames[id]; err != nil || !ok || dup {
				return nil, false
			}
			q.pubNames[id] = name
		default:
			return nil, false
		}
	}
	return q, true
}

// ---------------------------------------------------------------- one case

func runCase(req string) (obs string) {
	q, ok := parse(req)
	if !ok {
		return "bad-op"
	}
	defer func() {
		if rc := recover(); rc != nil {
			obs = wh.PanicText(rc)
		}
	}()
	r := &rec{copies: map[*message.Message]*copyInfo{}, objs: map[*message.Message]*objInfo{}}
	router, err := message.NewRouter(message.RouterConfig{CloseTimeout: 5 * time.Second}, watermill.NopLogger{})
	if err != nil {
		return "bad-op"
	}
	cores := map[int]*subCore{}
	subs := map[int]message.Subscriber{}
	for _, id := range q.subOrder {
		cores[id] = &subCore{id: id, r: r, closing: make(chan struct{})}
		subs[id] = mkSub(cores[id], q.subNames[id])
		if q.appWrapped[id] {
			w, err := message.MessageTransformSubscriberDecorator(func(*message.Message) {})(subs[id])
			if err != nil {
				return "bad-op"
			}
			subs[id] = w
		}
	}
	pubs := map[int]message.Publisher{}
	for id, name := range q.pubNames {
		pubs[id] = mkPub(id, name, r)
	}
	// the function of handler i
	fn := func(i int, mute bool) message.HandlerFunc {
		return func(msg *message.Message) ([]*message.Message, error) {
			r.mu.Lock()
			c := r.copies[msg]
			if c != nil {
				c.fns = append(c.fns, i)
				c.ctx = ctx5(msg.Context())
			}
			r.mu.Unlock()
			if c == nil {
				return nil, nil
			}
			switch c.d.done {
			case "k": // the context is cancelled while the function runs; the function carries on and returns normally
				c.cancel()
			case "t": // the function overruns the message's deadline
				select {
				case <-msg.Context().Done():
				case <-time.After(settleTimeout):
				}
			}
			if c.d.shape == "E" {
				return nil, errors.New("handler error")
			}
			if c.d.shape == "-" || mute {
				return nil, nil
			}
			fresh := map[string]*message.Message{}
			var outs []*message.Message
			for _, it := range strings.Split(c.d.shape, ".") {
				if it == "c" {
					outs = append(outs, msg)
					continue
				}
				m, ok := fresh[it]
				if !ok {
					m = message.NewMessage(fmt.Sprintf("o-%d-%s", c.d.mid, it), []byte("out "+it))
					m.Metadata.Set("from", strconv.Itoa(i))
					m.Metadata.Set("k", it)
					m.SetContext(withMarker(context.Background(), it))
					fresh[it] = m
					r.mu.Lock()
					r.objs[m] = &objInfo{c, it, snap(m)}
					r.mu.Unlock()
				}
				outs = append(outs, m)
			}
			return outs, nil
		}
	}
	mw := func(n int) message.HandlerMiddleware {
		return func(next message.HandlerFunc) message.HandlerFunc {
			return func(msg *message.Message) ([]*message.Message, error) {
				outs, err := next(msg)
				if err != nil {
					return outs, err
				}
				r.mu.Lock()
				c := r.copies[msg]
				r.mu.Unlock()
				if c == nil {
					return outs, nil
				}
				for k := 0; k < n; k++ {
					m := message.NewMessage(fmt.Sprintf("w-%d-%d", c.d.mid, k), []byte("mw"))
					m.SetContext(withMarker(context.Background(), "m"+strconv.Itoa(k)))
					r.mu.Lock()
					r.objs[m] = &objInfo{c, "m" + strconv.Itoa(k), snap(m)}
					r.mu.Unlock()
					outs = append(outs, m)
				}
				return outs, nil
			}
		}
	}
	ctx, cancel := context.WithCancel(context.Background())
	defer cancel()
	runRet := make(chan error, 1)
	running := false
	closeRouter := func() {
		if !running {
			return
		}
		done := make(chan struct{})
		go func() { router.Close(); close(done) }()
		select {
		case <-done:
			select {
			case <-runRet:
			case <-time.After(settleTimeout):
			}
		case <-time.After(settleTimeout):
		}
	}
	var handles []*message.Handler
	stopped := map[int]bool{}
	// Run (first) / RunHandlers (later); afterwards every handler added so far has been started
	runHandlers := func() string {
		if !running {
			running = true
			go func() { runRet <- router.Run(ctx) }()
			select {
			case <-router.Running():
			case e := <-runRet:
				return "run-returned(" + wh.HexS(fmt.Sprint(e)) + ")"
			case <-time.After(settleTimeout):
				return "timeout-running"
			}
		} else {
			// RunHandlers is idempotent by contract: when it reports an error (a decorator failed) it is called again
			var err error
			for attempt := 0; attempt < 16; attempt++ { // every failing decorator fails once
				if err = router.RunHandlers(ctx); err == nil {
					break
				}
			}
			if err != nil {
				return "run-returned(" + wh.HexS(fmt.Sprint(err)) + ")"
			}
		}
		for _, hd := range handles {
			select {
			case <-hd.Started():
			case <-time.After(settleTimeout):
				return "timeout-started"
			}
		}
		return ""
	}
	for _, o := range q.ops {
		switch o.kind {
		case "D":
			router.AddPublisherDecorators(pubDecorator(o.n, r))
		case "E":
			router.AddSubscriberDecorators(subDecorator(o.n, r))
		case "T":
			// handler.Stop(), wait until it has stopped (RunHandlers' goroutine has removed it from the router by then)
			if o.n >= len(handles) {
				closeRouter()
				return "bad-op"
			}
			hd := handles[o.n]
			select {
			case <-hd.Started():
			default:
				closeRouter()
				return "bad-op" // Stop panics on a handler that is not started
			}
			hd.Stop()
			select {
			case <-hd.Stopped():
			case <-time.After(settleTimeout):
				closeRouter()
				return "timeout-stop"
			}
			stopped[o.n] = true
		case "M":
			// watermill's own transform publisher decorator (not recorded in the path; a transform that changes nothing)
			router.AddPublisherDecorators(message.MessageTransformPublisherDecorator(func(*message.Message) {}))
		case "D!":
			router.AddPublisherDecorators(failOncePub(pubDecorator(o.n, r)))
		case "E!":
			router.AddSubscriberDecorators(failOnceSub(subDecorator(o.n, r)))
		case "K":
			// application code with context values of its own under plain string keys, after the router's context decorator
			router.AddSubscriberDecorators(message.MessageTransformSubscriberDecorator(func(m *message.Message) {
				m.SetContext(appValues(m.Context(), "dec"))
			}))
			// (Router.AddMiddleware takes no lock: it must not overlap the start of handlers, so only before Run)
			if !running {
				router.AddMiddleware(func(next message.HandlerFunc) message.HandlerFunc {
					return func(m *message.Message) ([]*message.Message, error) {
						m.SetContext(appValues(m.Context(), "mw"))
						return next(m)
					}
				})
			}
		case "RUN":
			if e := runHandlers(); e != "" {
				closeRouter()
				return e
			}
		case "h":
			i, h := o.n, q.hs[o.n]
			var hd *message.Handler
			switch {
			case h.pubSpec == "np":
				f := fn(i, true)
				hd = router.AddNoPublisherHandler(h.name, h.subTopic, subs[h.sub], func(msg *message.Message) error {
					_, err := f(msg)
					return err
				})
			case h.pubSpec == "nil":
				hd = router.AddHandler(h.name, h.subTopic, subs[h.sub], h.pubTopic, nil, fn(i, false))
			default:
				p, _ := strconv.Atoi(h.pubSpec[1:])
				hd = router.AddHandler(h.name, h.subTopic, subs[h.sub], h.pubTopic, pubs[p], fn(i, false))
			}
			if h.mwOut > 0 {
				hd.AddMiddleware(mw(h.mwOut))
			}
			handles = append(handles, hd)
		}
	}
	// whatever has not been started yet is started before the messages arrive
	if e := runHandlers(); e != "" {
		closeRouter()
		return e
	}
	// feed every subscription with the deliveries of its (subscriber, topic), concurrently across subscriptions
	type feed struct {
		sub    *subscription
		copies []*copyInfo
	}
	var feeds []*feed
	var wg sync.WaitGroup
	for _, id := range q.subOrder {
		core := cores[id]
		core.mu.Lock()
		list := append([]*subscription{}, core.subs...)
		core.mu.Unlock()
		for _, sub := range list {
			sub := sub // go.mod says go 1.21: range variables are per loop
			select {
			case <-sub.dead: // the subscription of a handler that was stopped: nothing arrives there any more
				continue
			default:
			}
			f := &feed{sub: sub}
			feeds = append(feeds, f)
			var mine []*delivery
			for k := range q.ds {
				if q.ds[k].sub == id && q.ds[k].topic == sub.topic {
					mine = append(mine, &q.ds[k])
				}
			}
			wg.Add(1)
			go func() {
				defer wg.Done()
				for _, d := range mine {
					m := message.NewMessage("m"+strconv.Itoa(d.mid), []byte("payload "+strconv.Itoa(d.mid)))
					m.Metadata.Set("mid", strconv.Itoa(d.mid))
					base := context.Background()
					if d.ctx != "" {
						base = staleCtx(d.ctx)
					}
					var cancelMsg context.CancelFunc = func() {}
					switch d.done {
					case "x":
						base, cancelMsg = context.WithCancel(base)
						cancelMsg()
					case "k":
						base, cancelMsg = context.WithCancel(base)
					case "t":
						base, cancelMsg = context.WithTimeout(base, 2*time.Millisecond)
					}
					defer cancelMsg()
					m.SetContext(withMarker(base, "c"))
					c := &copyInfo{d: d, msg: m, snap: snap(m), settle: "T", cancel: cancelMsg}
					r.mu.Lock()
					r.copies[m] = c
					r.mu.Unlock()
					f.copies = append(f.copies, c)
					select {
					case sub.in <- m:
					case <-time.After(settleTimeout):
						return
					}
					select {
					case <-m.Acked():
						c.settle = "A"
					case <-m.Nacked():
						c.settle = "N"
					case <-time.After(settleTimeout):
						return
					}
				}
			}()
		}
	}
	wg.Wait()
	closeRouter()
	// ---- canonical observation
	r.mu.Lock()
	defer r.mu.Unlock()
	counts := make([]string, len(q.hs))
	for i, h := range q.hs {
		n := 0
		for _, c := range r.subCalls {
			if c == strconv.Itoa(h.sub)+":"+wh.HexS(h.subTopic) {
				n++
			}
		}
		counts[i] = strconv.Itoa(n)
	}
	parts := []string{"subs=" + strconv.Itoa(len(r.subCalls)) + ":" + strings.Join(counts, ","), "orphans=" + strconv.Itoa(r.orphans)}
	type block struct {
		owner int
		text  string
	}
	var blocks []block
	for _, f := range feeds {
		if len(f.copies) == 0 {
			continue
		}
		owner := -1
		for _, c := range f.copies {
			if len(c.fns) > 0 {
				owner = c.fns[0]
				break
			}
		}
		var msgs []string
		for _, c := range f.copies {
			fns := "-"
			if len(c.fns) > 0 {
				s := make([]string, len(c.fns))
				for k, x := range c.fns {
					s[k] = strconv.Itoa(x)
				}
				fns = strings.Join(s, "+")
			}
			ctx := c.ctx
			if ctx == "" {
				ctx = "-:-:-:-:-"
			}
			pubsTxt := "-"
			if len(c.calls) > 0 {
				cs := make([]string, len(c.calls))
				for k, call := range c.calls {
					its := make([]string, len(call.items))
					for x, it := range call.items {
						its[x] = it.ref + "~" + it.flag + "~" + it.ctx + "~" + it.owner
					}
					cs[k] = "P" + strconv.Itoa(call.pub) + "@" + wh.HexS(call.topic) + "!" + joinOrDash(call.path) + "[" + strings.Join(its, ",") + "]"
				}
				pubsTxt = strings.Join(cs, "+")
			}
			msgs = append(msgs, strings.Join([]string{strconv.Itoa(c.d.mid), fns, ctx, c.settle, pubsTxt, pathText(c.subPath)}, "/"))
		}
		o := "?"
		if owner >= 0 {
			o = strconv.Itoa(owner)
		}
		blocks = append(blocks, block{owner, "H" + o + ":" + strings.Join(msgs, ";")})
	}
	sort.SliceStable(blocks, func(a, b int) bool { return blocks[a].owner < blocks[b].owner })
	for _, b := range blocks {
		parts = append(parts, b.text)
	}
	return strings.Join(parts, " ")
}

// staleCtx builds a context that already carries router values (stale.go)
var staleCtx = func(spec string) context.Context { return context.Background() }

func joinOrDash(p []string) string {
	if len(p) == 0 {
		return "-"
	}
	return strings.Join(p, ".")
}

func pathText(p []int) string {
	if len(p) == 0 {
		return "-"
	}
	s := make([]string, len(p))
	for i, x := range p {
		s[i] = strconv.Itoa(x)
	}
	return strings.Join(s, ".")
}

// ---------------------------------------------------------------- generators

var handlerNames = []string{"h", "handler one", "хендлер", "a/b.c", "H", "x_handler_with_a_long_name_0123456789", ""}
var topics = []string{"t1", "t2", "", "тема 3", "t1 "}
var stringerNames = []string{"kafka.Publisher", "", "x y", "*ptr.Like", "<nil>"}

func shapeOf(rng *wh.Rng) string {
	switch rng.Intn(10) {
	case 0:
		return "E"
	case 1:
		return "-"
	case 2:
		return "c"
	case 3:
		return "f0.f0"
	case 4:
		return "c.f0"
	case 5:
		return "f0.c.f0"
	}
	n := 1 + rng.Intn(4)
	its := make([]string, n)
	for i := range its {
		if rng.Intn(8) == 0 {
			its[i] = "c"
		} else {
			its[i] = "f" + strconv.Itoa(rng.Intn(n))
		}
	}
	return strings.Join(its, ".")
}

func typeName(rng *wh.Rng, what string) string {
	switch rng.Intn(3) {
	case 0:
		return "main." + what + "A"
	case 1:
		return "main." + what + "B"
	}
	return stringerNames[rng.Intn(len(stringerNames))]
}

func randomCase(rng *wh.Rng) string {
	nH := 1 + rng.Intn(6)
	nS, nP, nT := 1+rng.Intn(3), 1+rng.Intn(3), 1+rng.Intn(3)
	tp := make([]string, nT)
	off := rng.Intn(len(topics))
	for i := range tp {
		tp[i] = topics[(off+i)%len(topics)]
	}
	var toks []string
	for s := 1; s <= nS; s++ {
		kind := "S"
		if rng.Intn(4) == 0 {
			kind = "W" // wrapped by the application with MessageTransformSubscriberDecorator
		}
		toks = append(toks, kind+strconv.Itoa(s)+"="+wh.HexS(typeName(rng, "sub")))
	}
	for p := 1; p <= nP; p++ {
		toks = append(toks, "P"+strconv.Itoa(p)+"="+wh.HexS(typeName(rng, "pub")))
	}
	// about a third of the configurations are built in steps: publisher / subscriber decorators, Run, handlers added
	// to the running router, RunHandlers once or several times, more decorators in between
	steps := rng.Intn(3) == 0
	nextDec := 0
	ranOnce := false
	// a quarter of the stepwise configurations have NO publisher decorators and subscriber decorators that may fail the first
	// time they are applied (in the code as it is a failed decorateHandlerSubscriber leaves the publisher, decorated just
	// before, decorated - with publisher decorators the retried RunHandlers would apply them twice, see DESIGN.md)
	subFail := steps && rng.Intn(4) == 0
	maybeStep := func() {
		if !steps {
			return
		}
		switch rng.Intn(6) {
		case 0:
			if subFail {
				return
			}
			nextDec++
			if rng.Intn(4) == 0 {
				toks = append(toks, "M"+strconv.Itoa(nextDec)) // watermill's own transform publisher decorator
				return
			}
			d := "D" + strconv.Itoa(nextDec)
			if ranOnce && rng.Intn(3) == 0 {
				d += "!" // fails the first time it is applied; only after Run (a failing Run cannot be retried)
			}
			toks = append(toks, d)
		case 1:
			nextDec++
			e := "E" + strconv.Itoa(nextDec)
			if subFail && ranOnce && rng.Intn(2) == 0 {
				e += "!"
			}
			toks = append(toks, e)
		case 2:
			toks = append(toks, "RUN")
			ranOnce = true
			if rng.Intn(3) == 0 {
				toks = append(toks, "RUN") // idempotent by contract
			}
		}
	}
	if rng.Intn(5) == 0 {
		toks = append(toks, "K") // application values under plain string keys with the router's key texts
	}
	if steps && !subFail && rng.Intn(2) == 0 {
		nextDec++
		toks = append(toks, "D"+strconv.Itoa(nextDec))
	}
	nameOff := rng.Intn(len(handlerNames))
	type pair struct {
		sub   int
		topic string
	}
	var groups []pair
	seen := map[pair]bool{}
	for i := 0; i < nH; i++ {
		name := handlerNames[(nameOff+i)%len(handlerNames)]
		sub := 1 + rng.Intn(nS)
		st := tp[rng.Intn(nT)]
		pt := tp[rng.Intn(nT)]
		if rng.Intn(4) == 0 {
			pt = "out-" + strconv.Itoa(i)
		}
		spec := "p" + strconv.Itoa(1+rng.Intn(nP))
		switch rng.Intn(6) {
		case 0:
			spec, pt = "np", ""
		case 1:
			spec = "nil"
		}
		mw := 0
		if rng.Intn(3) == 0 {
			mw = 1 + rng.Intn(2)
		}
		maybeStep()
		toks = append(toks, fmt.Sprintf("h=%s:%d:%s:%s:%s:%d", wh.HexS(name), sub, wh.HexS(st), spec, wh.HexS(pt), mw))
		maybeStep()
		if !seen[pair{sub, st}] {
			seen[pair{sub, st}] = true
			groups = append(groups, pair{sub, st})
		}
	}
	// every (subscriber, topic) somebody listens on gets 1..4 messages; sometimes a message nobody listens to
	mid := 0
	var ds []string
	for _, g := range groups {
		n := 1 + rng.Intn(4)
		for k := 0; k < n; k++ {
			mid++
			d := fmt.Sprintf("d=%d:%s:%d:%s", g.sub, wh.HexS(g.topic), mid, shapeOf(rng))
			if rng.Intn(12) == 0 { // the message arrives with an upstream handler's values on its context
				var keys []int
				for k := 0; k < 5; k++ {
					if rng.Intn(2) == 0 {
						keys = append(keys, k)
					}
				}
				if len(keys) == 0 {
					keys = []int{4}
				}
				d += ":" + staleSpec(keys, "up")
			}
			if rng.Intn(10) == 0 { // the consumed message's context is done when the function returns
				if !strings.Contains(d[2:], "_") {
					d += ":n"
				}
				d += ":" + rng.Pick("x", "k", "k", "t")
			}
			ds = append(ds, d)
		}
	}
	if rng.Intn(3) == 0 {
		mid++
		ds = append(ds, fmt.Sprintf("d=%d:%s:%d:%s", 1+rng.Intn(nS), wh.HexS("nobody-listens"), mid, shapeOf(rng)))
	}
	// interleave the groups' messages in the script (order within a group is kept by stable position)
	for i := len(ds) - 1; i > 0; i-- {
		j := rng.Intn(i + 1)
		ds[i], ds[j] = ds[j], ds[i]
	}
	return "route " + strings.Join(append(toks, ds...), " ")
}

// exhaustive two-handler wirings: shared / separate subscriber, subscribe topic, publisher, publish topic x publisher kinds
func enumPairs(emit func(string, string)) {
	kinds := []string{"p", "np", "nil"}
	for mask := 0; mask < 16; mask++ {
		for _, ka := range kinds {
			for _, kb := range kinds {
				sameSub, sameST, samePub, samePT := mask&1 != 0, mask&2 != 0, mask&4 != 0, mask&8 != 0
				subB, stB, pubB, ptB := 2, "t2", 2, "o2"
				if sameSub {
					subB = 1
				}
				if sameST {
					stB = "t1"
				}
				if samePub {
					pubB = 1
				}
				if samePT {
					ptB = "o1"
				}
				spec := func(k string, p int, pt string) (string, string) {
					switch k {
					case "np":
						return "np", ""
					case "nil":
						return "nil", pt
					}
					return "p" + strconv.Itoa(p), pt
				}
				sa, pta := spec(ka, 1, "o1")
				sb, ptb := spec(kb, pubB, ptB)
				toks := []string{
					"S1=" + wh.HexS("main.subA"), "S2=" + wh.HexS("kafka.Subscriber"),
					"P1=" + wh.HexS("main.pubB"), "P2=" + wh.HexS("amqp.Publisher"),
					fmt.Sprintf("h=%s:1:%s:%s:%s:%d", wh.HexS("A"), wh.HexS("t1"), sa, wh.HexS(pta), mask%2),
					fmt.Sprintf("h=%s:%d:%s:%s:%s:%d", wh.HexS("B"), subB, wh.HexS(stB), sb, wh.HexS(ptb), (mask/2)%2),
				}
				mid := 0
				for _, sh := range []string{"f0", "c", "f0.f1.f0", "-", "E", "c.f0"} {
					mid++
					toks = append(toks, fmt.Sprintf("d=1:%s:%d:%s", wh.HexS("t1"), mid, sh))
					if !(sameSub && sameST) {
						mid++
						toks = append(toks, fmt.Sprintf("d=%d:%s:%d:%s", subB, wh.HexS(stB), mid, sh))
					}
				}
				emit("route "+strings.Join(toks, " "), "pairs")
			}
		}
	}
}

// incoming contexts that already carry an upstream handler's values (a message object / its context handed from one
// router handler to another in-process): every subset size of the five keys, at handlers with every field non-empty,
// with every field empty, without publisher (AddNoPublisherHandler: empty publish topic; nil publisher), and two
// handlers sharing the subscription.  Since fix 5846d09 the handler's own values – empty ones too – must hide them.
func staleSpec(keys []int, val string) string {
	es := make([]string, len(keys))
	for i, k := range keys {
		es[i] = strconv.Itoa(k) + "_" + wh.HexS(val+"-"+strconv.Itoa(k))
	}
	return strings.Join(es, ".")
}

func staleCases(emit func(string, string)) {
	all := []int{0, 1, 2, 3, 4}
	var specs []string
	for k := 0; k < 5; k++ {
		specs = append(specs, staleSpec([]int{k}, "upstream"))
	}
	specs = append(specs, staleSpec(all, "upstream"), staleSpec([]int{4, 0}, "upstream"), staleSpec([]int{3, 4, 1}, "upstream"))
	mid := 0
	for _, spec := range specs {
		mid++
		full := []string{"S1=" + wh.HexS("main.subA"), "P1=" + wh.HexS("main.pubA"),
			fmt.Sprintf("h=%s:1:%s:p1:%s:1", wh.HexS("full"), wh.HexS("in"), wh.HexS("out")),
			fmt.Sprintf("d=1:%s:%d:c.f0:%s", wh.HexS("in"), mid, spec)}
		emit("route "+strings.Join(full, " "), "stale.all_fields_set")
		empty := []string{"S1=-", "P1=-", "h=-:1:-:p1:-:0", fmt.Sprintf("d=1:-:%d:c.f0.c:%s", mid, spec)}
		emit("route "+strings.Join(empty, " "), "stale.empty_fields")
		nopub := []string{"S1=" + wh.HexS("main.subA"), "P1=" + wh.HexS("kafka.Publisher"),
			fmt.Sprintf("h=%s:1:%s:np:-:1", wh.HexS("np"), wh.HexS("in")),
			fmt.Sprintf("h=%s:1:%s:nil:-:0", wh.HexS("nilpub"), wh.HexS("in")),
			fmt.Sprintf("h=%s:1:%s:p1:-:0", wh.HexS("emptytopic"), wh.HexS("in")),
			fmt.Sprintf("d=1:%s:%d:c:%s", wh.HexS("in"), mid, spec),
			fmt.Sprintf("d=1:%s:%d:-:%s", wh.HexS("in"), mid+100, spec)}
		emit("route "+strings.Join(nopub, " "), "stale.no_publisher_or_empty_topic")
	}
	// the witness input of Wm.Route.Old.stale_context_shows_through
	np := []string{"S1=" + wh.HexS("main.subA"),
		fmt.Sprintf("h=%s:1:%s:np:-:0", wh.HexS("b"), wh.HexS("in")),
		fmt.Sprintf("d=1:%s:1:-:4_%s", wh.HexS("in"), wh.HexS("upstream-topic"))}
	emit("route "+strings.Join(np, " "), "stale.no_publisher_or_empty_topic")
}

// the consumed message's context is done when the handler function returns (router closing / handler stopped while a
// message is handled with a subscriber that derives message contexts from the subscription context; a per-message
// deadline the function overruns; an already cancelled message): every output shape x every mode, at a handler with a
// publisher, a no-publisher handler with middleware outputs and a nil-publisher handler sharing the subscription.
// The router decides on the returned error only: outputs are published as returned and the message is acked.
func doneCases(emit func(string, string)) {
	for _, mode := range []string{"x", "k", "t"} {
		toks := []string{"S1=" + wh.HexS("main.subB"), "P1=" + wh.HexS("main.pubA"), "P2=" + wh.HexS("nats.Publisher"),
			fmt.Sprintf("h=%s:1:%s:p1:%s:0", wh.HexS("pub"), wh.HexS("in"), wh.HexS("out")),
			fmt.Sprintf("h=%s:1:%s:p2:%s:2", wh.HexS("pub+mw"), wh.HexS("in"), wh.HexS("out2")),
			fmt.Sprintf("h=%s:1:%s:np:-:1", wh.HexS("np"), wh.HexS("in")),
			fmt.Sprintf("h=%s:1:%s:nil:%s:0", wh.HexS("nilpub"), wh.HexS("in"), wh.HexS("out"))}
		mid := 0
		for _, sh := range []string{"f0", "c", "f0.f1.f0", "-", "E", "c.f0"} {
			mid++
			toks = append(toks, fmt.Sprintf("d=1:%s:%d:%s:n:%s", wh.HexS("in"), mid, sh, mode))
			mid++
			toks = append(toks, fmt.Sprintf("d=1:%s:%d:%s:%s:%s", wh.HexS("in"), mid, sh, staleSpec([]int{4, 0}, "upstream"), mode))
			mid++
			toks = append(toks, fmt.Sprintf("d=1:%s:%d:%s", wh.HexS("in"), mid, sh)) // a live one in between
		}
		emit("route "+strings.Join(toks, " "), "done_context."+mode)
		single := []string{"S1=" + wh.HexS("main.subA"), "P1=" + wh.HexS("main.pubB"),
			fmt.Sprintf("h=%s:1:%s:p1:%s:0", wh.HexS("h"), wh.HexS("in"), wh.HexS("out")),
			fmt.Sprintf("d=1:%s:1:f0.f1:n:%s", wh.HexS("in"), mode)}
		emit("route "+strings.Join(single, " "), "done_context."+mode)
	}
}

// RunHandlers as an operation on a running router: decorators registered, handler A running, handler B (and C) added,
// RunHandlers called one to three times, further decorators in between; then messages through all of them.  Every
// output must pass each publisher decorator registered before ITS handler's start exactly once, every consumed message
// each such subscriber decorator exactly once.
func stepCases(emit func(string, string)) {
	head := []string{"S1=" + wh.HexS("main.subA"), "S2=" + wh.HexS("main.subB"), "P1=" + wh.HexS("main.pubA"), "P2=" + wh.HexS("main.pubB")}
	hA := fmt.Sprintf("h=%s:1:%s:p1:%s:0", wh.HexS("A"), wh.HexS("ta"), wh.HexS("oa"))
	hB := fmt.Sprintf("h=%s:2:%s:p2:%s:1", wh.HexS("B"), wh.HexS("tb"), wh.HexS("ob"))
	hC := fmt.Sprintf("h=%s:1:%s:np:-:1", wh.HexS("C"), wh.HexS("ta"))
	hD := fmt.Sprintf("h=%s:2:%s:nil:%s:0", wh.HexS("D"), wh.HexS("tb"), wh.HexS("od"))
	ds := []string{
		fmt.Sprintf("d=1:%s:1:f0.f1", wh.HexS("ta")), fmt.Sprintf("d=2:%s:2:c.f0", wh.HexS("tb")),
		fmt.Sprintf("d=1:%s:3:c", wh.HexS("ta")), fmt.Sprintf("d=2:%s:4:f0", wh.HexS("tb")),
		fmt.Sprintf("d=1:%s:5:-", wh.HexS("ta")), fmt.Sprintf("d=2:%s:6:E", wh.HexS("tb"))}
	progs := [][]string{
		{"D1", hA, "RUN", hB, "RUN"},
		{"D1", "E2", hA, "RUN", hB, "RUN", "RUN", "RUN"},
		{"D1", "D2", "E3", "E4", hA, "RUN", "RUN", hB, "RUN"},
		{"E1", hA, "RUN", "D2", hB, "RUN", "E3", hC, "RUN", "RUN"},
		{hA, "RUN", "D1", "E2", hB, "RUN", hC, hD, "RUN"},
		{"D1", "E2", hA, hB, "RUN", "RUN", "D3", hC, "RUN", "D4", "E5", hD, "RUN", "RUN"},
		{"RUN", "D1", hA, "RUN", "E2", hB, "RUN"},
		{"D1", "E2", hA, hB, hC, hD},
	}
	for _, pr := range progs {
		toks := append(append(append([]string{}, head...), pr...), ds...)
		emit("route "+strings.Join(toks, " "), "runhandlers_steps")
	}
}

// handlers whose subscriber the APPLICATION has wrapped itself with the public MessageTransformSubscriberDecorator
// (alone, shared by two handlers, next to a raw one, with router decorators, with a no-publisher handler): inside the
// handler, at every publisher decorator and at the publisher the context reports that handler's values
func appWrappedCases(emit func(string, string)) {
	hx := wh.HexS
	ds := func(sub int, topic string, from int) []string {
		var out []string
		for k, sh := range []string{"f0", "c.f0", "-", "f0.f1"} {
			out = append(out, fmt.Sprintf("d=%d:%s:%d:%s", sub, hx(topic), from+k, sh))
		}
		return out
	}
	cfgs := [][]string{
		{"W1=" + hx("main.subA"), "P1=" + hx("main.pubA"), fmt.Sprintf("h=%s:1:%s:p1:%s:0", hx("A"), hx("ta"), hx("oa"))},
		{"W1=" + hx("main.subB"), "P1=" + hx("main.pubA"), "D1", "E2",
			fmt.Sprintf("h=%s:1:%s:p1:%s:1", hx("A"), hx("ta"), hx("oa")), fmt.Sprintf("h=%s:1:%s:np:-:1", hx("B"), hx("ta"))},
		{"W1=" + hx("kafka.Subscriber"), "S2=" + hx("main.subA"), "P1=" + hx("main.pubB"), "D1", "D2",
			fmt.Sprintf("h=%s:1:%s:p1:%s:0", hx("A"), hx("ta"), hx("oa")), "RUN",
			fmt.Sprintf("h=%s:2:%s:p1:%s:0", hx("B"), hx("ta"), hx("ob")), fmt.Sprintf("h=%s:1:%s:nil:%s:0", hx("C"), hx("ta"), hx("oc")), "RUN"},
		{"W1=-", "P1=-", "E1", fmt.Sprintf("h=-:1:%s:p1:-:0", hx("ta"))},
	}
	for _, c := range cfgs {
		toks := append(append([]string{}, c...), ds(1, "ta", 1)...)
		toks = append(toks, ds(2, "ta", 11)...)
		emit("route "+strings.Join(toks, " "), "app_wrapped_subscriber")
	}
}

// a publisher decorator returns an error the first time it is applied to a handler added to the running router:
// RunHandlers reports it, the caller calls RunHandlers again – afterwards the handler must be decorated like any other
// (context values inside the function and on the outputs, every decorator exactly once).  And application code that
// keeps values of its own in the message context under plain string keys with the router's key texts (token K).
func failingDecoratorCases(emit func(string, string)) {
	hx := wh.HexS
	head := []string{"S1=" + hx("main.subA"), "S2=" + hx("main.subB"), "P1=" + hx("main.pubA"), "P2=" + hx("main.pubB")}
	hA := fmt.Sprintf("h=%s:1:%s:p1:%s:0", hx("A"), hx("ta"), hx("oa"))
	hB := fmt.Sprintf("h=%s:2:%s:p2:%s:1", hx("late"), hx("tb"), hx("ob"))
	hC := fmt.Sprintf("h=%s:2:%s:np:-:1", hx("C"), hx("tb"))
	ds := []string{
		fmt.Sprintf("d=1:%s:1:f0.f1", hx("ta")), fmt.Sprintf("d=2:%s:2:c.f0", hx("tb")),
		fmt.Sprintf("d=1:%s:3:-", hx("ta")), fmt.Sprintf("d=2:%s:4:f0", hx("tb"))}
	progs := [][]string{
		{hA, "RUN", "D1!", hB, "RUN"},
		{"E1", hA, "RUN", "D2!", "E3", hB, hC, "RUN"},
		{"D1", hA, "RUN", "D2", "D3!", "D4", hB, "RUN", "RUN"},
		{"RUN", "D1!", "D2!", "E3", hA, hB, "RUN"},
		{"K", "D1", "E2", hA, hB, hC},
		{hA, "RUN", "K", "E1", hB, hC, "RUN"},
		{"K", hA, "RUN", "D1!", "K", hB, "RUN"},
		// a SUBSCRIBER decorator fails once (no publisher decorators in these): RunHandlers must report it, the retried call
		// starts the handler fully decorated - context values inside the function, every subscriber decorator once
		{hA, "RUN", "E1!", hB, "RUN"},
		{"E1", hA, "RUN", "E2!", "E3", hB, hC, "RUN", "RUN"},
		{"RUN", "E1", "E2!", hA, hB, hC, "RUN"},
	}
	for _, pr := range progs {
		toks := append(append(append([]string{}, head...), pr...), ds...)
		emit("route "+strings.Join(toks, " "), "failing_decorator_and_app_context_values")
	}
}

// a handler is stopped, a new one is added under ITS NAME (and, in some, on its subscriber and topic) and started by
// RunHandlers: it is a handler of its own - decorated like any other, context values inside the function and on the
// outputs, outputs through every publisher decorator once; the stopped one receives nothing any more
func stopAndReAddCases(emit func(string, string)) {
	hx := wh.HexS
	head := []string{"S1=" + hx("main.subA"), "S2=" + hx("main.subB"), "P1=" + hx("main.pubA"), "P2=" + hx("main.pubB")}
	hA := fmt.Sprintf("h=%s:1:%s:p1:%s:0", hx("A"), hx("ta"), hx("oa"))
	hB := fmt.Sprintf("h=%s:2:%s:p2:%s:1", hx("B"), hx("tb"), hx("ob"))
	hA2 := fmt.Sprintf("h=%s:1:%s:p2:%s:0", hx("A"), hx("ta"), hx("oa2")) // same name, same subscriber and topic as A
	hA3 := fmt.Sprintf("h=%s:2:%s:np:-:1", hx("A"), hx("tc"))             // same name, elsewhere, no publisher
	ds := []string{
		fmt.Sprintf("d=1:%s:1:f0.f1", hx("ta")), fmt.Sprintf("d=2:%s:2:c.f0", hx("tb")),
		fmt.Sprintf("d=2:%s:3:f0", hx("tc")), fmt.Sprintf("d=1:%s:4:c", hx("ta")), fmt.Sprintf("d=2:%s:5:-", hx("tb"))}
	progs := [][]string{
		{hA, hB, "RUN", "T0", hA2, "RUN"},
		{"D1", "E2", hA, hB, "RUN", "T0", hA2, "RUN"},
		{"D1", hA, hB, "RUN", "T0", "D2", "E3", hA3, "RUN", "RUN"},
		{"D1", "E2", hA, hB, "RUN", "T0", hA2, "RUN", "T2", hA3, "RUN"},
		{"K", "D1", hA, hB, "RUN", "T0", "RUN", hA2}, // (never the last running handler: the router closes itself then)
	}
	for _, pr := range progs {
		toks := append(append(append([]string{}, head...), pr...), ds...)
		emit("route "+strings.Join(toks, " "), "stop_and_re_add_under_the_same_name")
	}
}

type job struct{ req, tag string }

func main() {
	worker := flag.String("worker", "", "internal: run the requests of this file in this process (child of the supervisor)")
	a := wh.ParseArgs()
	if *worker != "" {
		workerMain(*worker)
		return
	}
	out := wh.NewOut(a.Out)
	defer out.Close()
	if a.Replay != "" {
		r := runJobs([]string{a.Replay})[0]
		if r == "" {
			r = "not-run"
		}
		out.Case(a.Replay, r)
		return
	}
	nRandom := 5000
	if a.Thorough() {
		nRandom = 60000
	}
	var jobs []job
	emit := func(req, tag string) { jobs = append(jobs, job{req, tag}) }
	enumPairs(emit)
	rng := wh.NewRng(a.Seed)
	for i := 0; i < nRandom; i++ {
		emit(randomCase(rng), "random")
	}
	staleCases(emit)
	doneCases(emit)
	stepCases(emit)
	appWrappedCases(emit)
	failingDecoratorCases(emit)
	stopAndReAddCases(emit)
	{
		// a handler registered with a nil publisher on a router with watermill's own MessageTransformPublisherDecorator (and
		// recording decorators): nothing to decorate - Nack when the chain returns messages, Ack when it returns none,
		// nothing published, and the router closes without a crash
		hx := wh.HexS
		for _, mw := range []int{1, 0} {
			toks := []string{"S1=" + hx("main.subA"), "P1=" + hx("main.pubA"), "M1", "D2", "M3",
				fmt.Sprintf("h=%s:1:%s:nil:%s:%d", hx("nopub"), hx("ta"), hx("oa"), mw),
				fmt.Sprintf("h=%s:1:%s:p1:%s:0", hx("B"), hx("ta"), hx("ob")),
				fmt.Sprintf("d=1:%s:1:f0", hx("ta")), fmt.Sprintf("d=1:%s:2:-", hx("ta"))}
			emit("route "+strings.Join(toks, " "), "nil_publisher_with_transform_publisher_decorator")
		}
	}
	reqs := make([]string, len(jobs))
	for i, j := range jobs {
		reqs[i] = j.req
	}
	res := runJobs(reqs) // in child processes, see supervise.go
	skipped := 0
	for i, j := range jobs {
		if res[i] == "" {
			skipped++
			continue
		}
		out.Case(j.req, res[i])
		out.Count(j.tag)
		nh := 0
		listen, pubUse := map[string]int{}, map[string]int{}
		for _, t := range strings.Fields(j.req)[1:] {
			switch {
			case strings.HasPrefix(t, "h="):
				nh++
				f := strings.Split(t[2:], ":")
				listen[f[1]+":"+f[2]]++
				if strings.HasPrefix(f[3], "p") {
					pubUse[f[3]+":"+f[4]]++
				}
				switch {
				case f[3] == "np":
					out.Count("handler.nopublisher")
				case f[3] == "nil":
					out.Count("handler.nilpublisher")
				default:
					out.Count("handler.publisher")
				}
				if f[5] != "0" {
					out.Count("handler.with_middleware_outputs")
				}
			case t[0] == 'W':
				out.Count("subscribers.application_wrapped")
			case t == "RUN":
				out.Count("ops.RunHandlers")
			case t == "K":
				out.Count("ops.app_values_under_string_keys")
			case t[0] == 'T' && !strings.Contains(t, "="):
				out.Count("ops.handler_stopped")
			case t[0] == 'M' && !strings.Contains(t, "="):
				out.Count("ops.transform_publisher_decorator")
			case t[0] == 'D' && !strings.Contains(t, "="):
				out.Count("ops.AddPublisherDecorators")
				if strings.HasSuffix(t, "!") {
					out.Count("ops.publisher_decorator_failing_once")
				}
			case t[0] == 'E' && strings.HasSuffix(t, "!"):
				out.Count("ops.AddSubscriberDecorators")
				out.Count("ops.subscriber_decorator_failing_once")
			case t[0] == 'E' && !strings.Contains(t, "="):
				out.Count("ops.AddSubscriberDecorators")
			case strings.HasPrefix(t, "d="):
				f := strings.Split(t[2:], ":")
				switch {
				case f[3] == "E":
					out.Count("shape.error")
				case f[3] == "-":
					out.Count("shape.none")
				case strings.Contains(f[3], "c"):
					out.Count("shape.with_consumed")
				default:
					out.Count("shape.fresh")
				}
				if len(f) >= 5 && f[4] != "n" {
					out.Count("deliveries.with_stale_context")
				}
				if len(f) == 6 {
					out.Count("deliveries.context_done." + f[5])
				}
			}
		}
		out.Count("handlers." + strconv.Itoa(nh))
		for _, n := range listen {
			if n >= 2 {
				out.Count("cases.with_shared_subscriber_and_topic")
				break
			}
		}
		for _, n := range pubUse {
			if n >= 2 {
				out.Count("cases.with_shared_publisher_and_topic")
				break
			}
		}
		out.Add("publish_calls", strings.Count(res[i], "@"))
		out.Add("nacks_without_publish", strings.Count(res[i], "/N/-"))
		if strings.Contains(res[i], "timeout") || strings.Contains(res[i], "panic") || strings.Contains(res[i], "/T/") {
			fmt.Fprintln(os.Stderr, "unusual outcome:", j.req, "=>", res[i])
		}
	}
	if skipped > 0 {
		out.Note("stopped early after repeated timeouts or crashes: " + strconv.Itoa(skipped) + " generated cases not run")
		out.Add("skipped_after_timeouts", skipped)
	}
}
