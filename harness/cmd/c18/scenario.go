package main

import (
	"context"
	"encoding/hex"
	"encoding/json"
	"errors"
	"fmt"
	"strconv"
	"strings"
	"sync"
	"sync/atomic"
	"time"

	"github.com/ThreeDotsLabs/watermill"
	"github.com/ThreeDotsLabs/watermill/components/cqrs"
	"github.com/ThreeDotsLabs/watermill/components/requestreply"
	"github.com/ThreeDotsLabs/watermill/message"
	"github.com/ThreeDotsLabs/watermill/message/router/middleware"
	"github.com/ThreeDotsLabs/watermill/pubsub/gochannel"

	pkgerrors "github.com/pkg/errors"

	"wmverif/gc"
	"wmverif/wh"
)

// ---------------------------------------------------------------- scenario description

// ReqSpec scripts one request: its caller and what the handler does on the successive deliveries of its command.
type ReqSpec struct {
	// Caller: drain (reads everything, ends the context after the expected replies, keeps reading until the channel is closed)
	//         one   (reads one reply, then stops reading; ends the context late)
	//         never (never reads; ends the context late)
	//         early (ends the context right after SendWithReplies returned, before any reply; ReadAfter: then drains)
	//         reply / replyearly (SendWithReply; replyearly: the parent context is cancelled while it waits)
	//         inner (not started by a caller of its own: the handler of the preceding request, outcome "nest", issues it with
	//         SendWithReply while it handles its command – a request inside a request; needs Scenario.TwoHandlers)
	//         sendfail / replysendfail (SendWithReplies / SendWithReply whose command bus fails: an error is returned after the
	//         listener was started; replysendfail: the caller's own context ends late)
	Caller    string   `json:"c"`
	End       string   `json:"e"` // how the context ends: cancel | parent | timeout (= nobody ends it, the backend's timeout does)
	// per delivery: ok | err | bad | panic | pubfail | slow (= ok, but only after the listener finished) |
	// ctxok / ctxerr (the handler works until its message context ends – Scenario.HandlerTimeoutMs – and then returns its result
	// with a nil error / with ctx.Err())
	Outcomes []string `json:"o"`
	ReadAfter bool     `json:"r,omitempty"`
	// DeadlineMs > 0: the caller's own context carries a deadline (a request-scoped context); the listener ends at the
	// earlier of this deadline and the backend's ListenForReplyTimeout
	DeadlineMs int `json:"d,omitempty"`
}

// percentTexts: handler error texts are data, not printf formats – they reach the caller byte for byte
var percentTexts = []string{"", " disk is 100% full", " %s", " %d%%", " %!", " 50%", " %v %w %", " %%"}

// ParkSpec: the listener of request Req is held at requestreply.listen.before_send on its Nth arrival (reply channel full
// when the caller did not read); Cancel: the context is ended while it is held; then it is released.
type ParkSpec struct {
	Req    int  `json:"q"`
	Nth    int  `json:"n"`
	Cancel bool `json:"c"`
}

type Scenario struct {
	AckErrs   bool      `json:"a"`
	TimeoutMs int       `json:"t"` // 0: no ListenForReplyTimeout; -1: a configured time-out of zero; -2: a configured negative time-out (both have passed at once)
	Shared    bool      `json:"s"` // one reply topic for all requests (else one per operation id)
	Yield     int       `json:"y"`
	Seed      uint64    `json:"x"`
	Reqs      []ReqSpec `json:"r"`
	Park      *ParkSpec `json:"p,omitempty"`
	Foreign   int       `json:"f,omitempty"` // notifications with a foreign / missing operation id injected on the reply topic(s)
	CloseSub  bool      `json:"k,omitempty"` // the reply Pub/Sub is closed before the callers end their contexts ("subscriber closed" path)
	BlockReplies     bool `json:"b,omitempty"` // the reply Pub/Sub waits for its subscribers' acks (BlockPublishUntilSubscriberAck)
	HandlerTimeoutMs int  `json:"m,omitempty"` // middleware.Timeout on the Router: the command message's context ends while ctxok/ctxerr handlers run
	TwoHandlers      bool `json:"2,omitempty"` // odd requests are commands of a second type with their own handler (handlers run concurrently)
	NoHook    bool      `json:"h,omitempty"` // OnListenForReplyFinished is not configured (nil): the end of the listeners is observed by the goroutine census
	HookWait  bool      `json:"w,omitempty"` // the hook of a draining caller waits until that caller has seen the channel closed (order close → hook)
	Tag       string    `json:"g,omitempty"`
}

func (sc Scenario) Token() string {
	b, _ := json.Marshal(sc)
	return hex.EncodeToString(b)
}

func ScenarioFromToken(t string) (Scenario, error) {
	var sc Scenario
	b, err := hex.DecodeString(t)
	if err != nil {
		return sc, err
	}
	err = json.Unmarshal(b, &sc)
	return sc, err
}

func (sc Scenario) Describe() string { b, _ := json.Marshal(sc); return string(b) }

// acks reports whether a handler outcome ends the redelivery chain (the command is acked).
func acks(outcome string, ackErrs bool) bool {
	switch outcome {
	case "ok", "bad", "slow", "ctxok", "nest":
		return true
	case "err", "ctxerr":
		return ackErrs
	}
	return false // panic, pubfail
}

// Normalise cuts every script after its first acking outcome and appends "ok" when none acks.
func (sc *Scenario) Normalise() {
	for i := range sc.Reqs {
		if sc.NoHook {
			// without the hook nothing tells a handler that the listener of its request has finished
			for j, x := range sc.Reqs[i].Outcomes {
				if x == "slow" {
					sc.Reqs[i].Outcomes[j] = "ok"
				}
			}
		}
		if sc.CloseSub {
			// once the reply Pub/Sub is closed every reply Publish fails and the command is redelivered for ever:
			// no handler may still be running then
			if sc.Reqs[i].Caller == "replyearly" {
				sc.Reqs[i].Caller = "reply"
			}
			for j, x := range sc.Reqs[i].Outcomes {
				if x == "slow" {
					sc.Reqs[i].Outcomes[j] = "ok"
				}
			}
		}
		o := sc.Reqs[i].Outcomes
		cut := -1
		for j, x := range o {
			if acks(x, sc.AckErrs) {
				cut = j
				break
			}
		}
		if cut < 0 {
			o = append(o, "ok")
		} else {
			o = o[:cut+1]
		}
		sc.Reqs[i].Outcomes = o
	}
}

// ---------------------------------------------------------------- types on the wire

type Cmd struct {
	Req int `json:"req"`
}

// Cmd2 is a second command type: it has its own Router handler, which runs concurrently with the handler of Cmd.
type Cmd2 struct {
	Req int `json:"req"`
}

func reqOf(cmd any) int {
	switch c := cmd.(type) {
	case *Cmd:
		return c.Req
	case *Cmd2:
		return c.Req
	}
	return -1
}

// errCauser is an error type of the application with a Cause method (what pkg/errors.Cause unwraps).
type errCauser struct {
	text  string
	cause error
}

func (e *errCauser) Error() string { return e.text }
func (e *errCauser) Cause() error  { return e.cause }

var errKinds = []string{"new", "wrapw", "pkgwrap", "pkgwithmsg", "pkgstack", "causer", "pkgwrapf"}

// mkErr builds a handler error of the given kind whose Error() is exactly text: the reply must carry that text whatever the
// dynamic type of the error is.
func mkErr(kind, text string) error {
	parts := strings.Split(text, ": ")
	nest := func(wrap func(error, string) error) error {
		e := errors.New(parts[len(parts)-1])
		for j := len(parts) - 2; j >= 0; j-- {
			e = wrap(e, parts[j])
		}
		return e
	}
	switch kind {
	case "wrapw":
		return fmt.Errorf("%w", errors.New(text))
	case "pkgwrap":
		return nest(func(e error, m string) error { return pkgerrors.Wrap(e, m) })
	case "pkgwrapf":
		return nest(func(e error, m string) error { return pkgerrors.Wrapf(e, "%s", m) })
	case "pkgwithmsg":
		return nest(func(e error, m string) error { return pkgerrors.WithMessage(e, m) })
	case "pkgstack":
		return pkgerrors.WithStack(errors.New(text))
	case "causer":
		return &errCauser{text: text, cause: errors.New("root cause")}
	}
	return errors.New(text)
}

// Res is the handler result; a value starting with "bad" marshals fine but refuses to unmarshal at the caller
// (the ReplyUnmarshalError path of the listener).
type Res struct {
	V string `json:"v"`
}

func (r *Res) UnmarshalJSON(b []byte) error {
	var x struct {
		V string `json:"v"`
	}
	if err := json.Unmarshal(b, &x); err != nil {
		return err
	}
	if strings.HasPrefix(x.V, "bad") {
		return errors.New("result refuses to unmarshal")
	}
	r.V = x.V
	return nil
}

// ---------------------------------------------------------------- result

type Result struct {
	Sc       Scenario
	Events   []gc.Event
	OpOf     map[int]string
	Stuck    []string
	Leftover int
	LeftDump string
}

var stuckTotal int

const liveness = 20 * time.Second

// recordingPublisher wraps the reply publisher: logs the call (with the settlement state of the command message at that
// moment), optionally fails, forwards, logs the return (again with the settlement state).
type recordingPublisher struct {
	inner message.Publisher
	run   *runState
}

type runState struct {
	sc   Scenario
	rec  *gc.Rec
	mu   sync.Mutex
	opOf map[int]string
	idx  map[string]int
	invs map[*message.Message]int
	fail map[*message.Message]bool
	firstAtt map[*message.Message]bool
	nInv int64
}

func settleState(m *message.Message) string {
	if m == nil {
		return "9"
	}
	select {
	case <-m.Acked():
		return "1"
	default:
	}
	select {
	case <-m.Nacked():
		return "2"
	default:
	}
	return "0"
}

func (rs *runState) reqOfOp(op string) string {
	rs.mu.Lock()
	defer rs.mu.Unlock()
	if i, ok := rs.idx[op]; ok {
		return strconv.Itoa(i)
	}
	return "x"
}

func resOfPayload(p []byte) string {
	var x struct {
		V *string `json:"v"`
	}
	if err := json.Unmarshal(p, &x); err != nil || x.V == nil {
		return "!" + wh.Hex(p)
	}
	return wh.HexS(*x.V)
}

func (p *recordingPublisher) Publish(topic string, msgs ...*message.Message) error {
	rs := p.run
	for _, n := range msgs {
		cmdMsg := cqrs.OriginalMessageFromCtx(n.Context())
		rs.mu.Lock()
		k, known := rs.invs[cmdMsg]
		failIt := rs.fail[cmdMsg]
		rs.mu.Unlock()
		if !known {
			k = -1
		}
		errText := "-"
		if n.Metadata.Get(requestreply.HasErrorMetadataKey) == "1" {
			errText = "=" + wh.HexS(n.Metadata.Get(requestreply.ErrorMetadataKey))
		}
		fwd := "1"
		if failIt {
			fwd = "0"
		}
		rs.rec.Log("pc", strconv.Itoa(k), rs.reqOfOp(n.Metadata.Get(requestreply.OperationIDMetadataKey)), resOfPayload(n.Payload), errText,
			settleState(cmdMsg), fwd)
		var err error
		if failIt {
			err = errors.New("injected reply publish failure")
		} else {
			err = p.inner.Publish(topic, n)
		}
		res := "ok"
		if err != nil {
			res = "err"
		}
		rs.rec.Log("pr", strconv.Itoa(k), res, settleState(cmdMsg))
		if err != nil {
			return err
		}
	}
	return nil
}

func (p *recordingPublisher) Close() error { return nil }

func waitCh(ch <-chan struct{}, d time.Duration) bool {
	select {
	case <-ch:
		return true
	default:
	}
	t := time.NewTimer(d)
	defer t.Stop()
	select {
	case <-ch:
		return true
	case <-t.C:
		return false
	}
}

func replyFields(rs *runState, r requestreply.Reply[Res]) []string {
	var tErr requestreply.ReplyTimeoutError
	var uErr requestreply.ReplyUnmarshalError
	o := "-"
	if r.NotificationMessage != nil {
		o = rs.reqOfOp(r.NotificationMessage.Metadata.Get(requestreply.OperationIDMetadataKey))
	}
	switch {
	case errors.As(r.Error, &tErr):
		why := "o"
		switch {
		case errors.Is(tErr.Err, context.Canceled):
			why = "c"
		case errors.Is(tErr.Err, context.DeadlineExceeded):
			why = "d"
		case tErr.Err != nil && tErr.Err.Error() == "subscriber closed":
			why = "s"
		}
		return []string{"to", o, why, "-"}
	case errors.As(r.Error, &uErr):
		return []string{"um", o, "-", "-"}
	}
	e := "-"
	if r.Error != nil {
		e = "=" + wh.HexS(r.Error.Error())
	}
	return []string{"res", o, wh.HexS(r.HandlerResult.V), e}
}

// Run executes one scenario against the real request-reply code over a real GoChannel and a real Router.
func Run(sc Scenario) *Result {
	sc.Normalise() // idempotent; hand-written (corpus) scenarios get the same script rules as generated ones
	n := len(sc.Reqs)
	rec := gc.NewRec(sc.Seed, sc.Yield)
	rs := &runState{sc: sc, rec: rec, opOf: map[int]string{}, idx: map[string]int{}, invs: map[*message.Message]int{}, fail: map[*message.Message]bool{}, firstAtt: map[*message.Message]bool{}}
	res := &Result{Sc: sc, OpOf: rs.opOf}
	baseline, _ := gc.GoroutinesIn("ListenForNotifications")

	message.SetVerifHook(rec.Hook)
	defer message.SetVerifHook(nil)

	logger := watermill.NopLogger{}
	pubSub := gochannel.NewGoChannel(gochannel.Config{}, logger)  // commands
	replyPS := gochannel.NewGoChannel(gochannel.Config{BlockPublishUntilSubscriberAck: sc.BlockReplies}, logger) // reply notifications
	var lateCancels []func() // contexts of callers that rely on the time-out: cancelled only when the scenario is torn down
	stopAll := make(chan struct{})
	var watchers sync.WaitGroup

	fin := make([]chan struct{}, n)      // OnListenForReplyFinished ran for request i
	finCount := make([]int32, n)         //   … how often
	ackedFinal := make([]chan struct{}, n) // some invocation of request i was acked
	endNow := make([]chan struct{}, n)   // controller → caller: end the context now
	ended := make([]chan struct{}, n)    // caller → controller: the context has been ended
	sent := make([]chan struct{}, n)     // SendWithReplies / SendWithReply returned (or is known to block)
	sawClosed := make([]chan struct{}, n) // a draining caller found the reply channel closed
	var onceSaw = make([]sync.Once, n)
	for i := 0; i < n; i++ {
		sawClosed[i] = make(chan struct{})
	}
	// the listener of request i has ended: the hook ran, or (no hook configured) no listener goroutine is left at all
	waitListener := func(i int, d time.Duration) bool {
		if !sc.NoHook {
			return waitCh(fin[i], d)
		}
		for t0 := time.Now(); ; {
			if c, _ := gc.GoroutinesIn("ListenForNotifications"); c <= baseline {
				return true
			}
			if time.Since(t0) > d {
				return false
			}
			time.Sleep(time.Millisecond)
		}
	}
	var once = make([]sync.Once, n)
	var onceAck = make([]sync.Once, n)
	for i := 0; i < n; i++ {
		fin[i], ackedFinal[i], endNow[i], ended[i], sent[i] = make(chan struct{}), make(chan struct{}), make(chan struct{}), make(chan struct{}), make(chan struct{})
	}
	attempts := make([]int32, n)

	var park *gc.Park
	replyTopic := func(op string) string {
		if sc.Shared {
			return "replies"
		}
		return "replies_" + op
	}

	var timeout *time.Duration
	if sc.TimeoutMs != 0 {
		d := time.Duration(sc.TimeoutMs) * time.Millisecond
		switch sc.TimeoutMs {
		case -1:
			d = 0
		case -2:
			d = -5 * time.Millisecond
		}
		timeout = &d
	}
	var modify func(*message.Message, requestreply.PubSubBackendOnCommandProcessedParams) error // set below, before anything runs
	backendCfg := requestreply.PubSubBackendConfig{
		ModifyNotificationMessage: func(m *message.Message, p requestreply.PubSubBackendOnCommandProcessedParams) error {
			if modify != nil {
				return modify(m, p)
			}
			return nil
		},
		Publisher: &recordingPublisher{inner: replyPS, run: rs},
		SubscriberConstructor: func(p requestreply.PubSubBackendSubscribeParams) (message.Subscriber, error) {
			i := reqOf(p.Command)
			op := string(p.OperationID)
			rs.mu.Lock()
			rs.opOf[i] = op
			rs.idx[op] = i
			rs.mu.Unlock()
			if sc.Park != nil && sc.Park.Req == i {
				var arrivals int32
				park = rec.ParkAt("requestreply.listen.before_send", func(args []string) bool {
					if len(args) == 0 || args[0] != op {
						return false
					}
					return int(atomic.AddInt32(&arrivals, 1)) == sc.Park.Nth
				})
			}
			rec.Log("op", strconv.Itoa(i))
			return replyPS, nil
		},
		GenerateSubscribeTopic: func(p requestreply.PubSubBackendSubscribeParams) (string, error) {
			return replyTopic(string(p.OperationID)), nil
		},
		GeneratePublishTopic: func(p requestreply.PubSubBackendPublishParams) (string, error) {
			return replyTopic(string(p.OperationID)), nil
		},
		Logger:                logger,
		ListenForReplyTimeout: timeout,
		AckCommandErrors:      sc.AckErrs,
		OnListenForReplyFinished: func(ctx context.Context, p requestreply.PubSubBackendSubscribeParams) {
			i := reqOf(p.Command)
			rec.Log("fin", strconv.Itoa(i))
			atomic.AddInt32(&finCount[i], 1)
			once[i].Do(func() { close(fin[i]) })
			if sc.HookWait && i < n && (sc.Reqs[i].Caller == "drain" || (sc.Reqs[i].Caller == "early" && sc.Reqs[i].ReadAfter)) {
				// the unchanged code closes the channel before it calls the hook: the draining caller sees the close while
				// the hook is still running
				if !waitCh(sawClosed[i], liveness) {
					rec.Log("ho", strconv.Itoa(i))
				}
			}
		},
	}
	if sc.NoHook {
		backendCfg.OnListenForReplyFinished = nil
	}
	backend, err := requestreply.NewPubSubBackend[Res](backendCfg, requestreply.BackendPubsubJSONMarshaler[Res]{})
	if err != nil {
		res.Stuck = append(res.Stuck, "setup: "+err.Error())
		return res
	}

	router, err := message.NewRouter(message.RouterConfig{}, logger)
	if err != nil {
		res.Stuck = append(res.Stuck, "setup: "+err.Error())
		return res
	}
	if sc.HandlerTimeoutMs > 0 {
		router.AddMiddleware(middleware.Timeout(time.Duration(sc.HandlerTimeoutMs) * time.Millisecond))
	}
	marshaler := cqrs.JSONMarshaler{}
	bus, _ := cqrs.NewCommandBusWithConfig(pubSub, cqrs.CommandBusConfig{
		GeneratePublishTopic: func(p cqrs.CommandBusGeneratePublishTopicParams) (string, error) {
			return "commands_" + p.CommandName, nil
		},
		// header propagation: a command sent while another message is being handled inherits that message's metadata
		// (correlation ids, tenant, tracing … – everything but the marshaler's own name key); the operation id that
		// SendWithReplies stamps afterwards must have the last word
		OnSend: func(p cqrs.CommandBusOnSendParams) error {
			if parent := cqrs.OriginalMessageFromCtx(p.Message.Context()); parent != nil {
				for k, v := range parent.Metadata {
					if k != "name" {
						p.Message.Metadata.Set(k, v)
					}
				}
			}
			return nil
		},
		Marshaler:            marshaler, Logger: logger,
	})
	failBus, _ := cqrs.NewCommandBusWithConfig(failingPublisher{}, cqrs.CommandBusConfig{
		GeneratePublishTopic: func(p cqrs.CommandBusGeneratePublishTopicParams) (string, error) {
			return "commands_" + p.CommandName, nil
		},
		Marshaler:            marshaler, Logger: logger,
	})
	proc, _ := cqrs.NewCommandProcessorWithConfig(router, cqrs.CommandProcessorConfig{
		GenerateSubscribeTopic: func(p cqrs.CommandProcessorGenerateSubscribeTopicParams) (string, error) {
			return "commands_" + p.CommandName, nil
		},
		SubscriberConstructor: func(cqrs.CommandProcessorSubscriberConstructorParams) (message.Subscriber, error) {
			return pubSub, nil
		},
		Marshaler: marshaler, Logger: logger,
	})
	// requests 2j and 2j+1 of a TwoHandlers scenario are paired when both succeed at their first delivery: handler 1 holds its
	// reply between "operation id stamped" and "Publish" (ModifyNotificationMessage) until handler 2 has stamped the reply of the
	// partner request – two OnCommandProcessed calls overlapping without a sleep.  Only handler 1 waits (bounded), so the two
	// sequential handlers can never wait for each other.
	paired := make([]bool, n)
	inModify := make([]chan struct{}, n)
	var onceMod = make([]sync.Once, n)
	for i := 0; i < n; i++ {
		inModify[i] = make(chan struct{})
	}
	if sc.TwoHandlers {
		plain := func(q ReqSpec) bool {
			return len(q.Outcomes) > 0 && q.Outcomes[0] == "ok" && q.Caller != "sendfail" && q.Caller != "replysendfail"
		}
		for i := 0; i+1 < n; i += 2 {
			if plain(sc.Reqs[i]) && plain(sc.Reqs[i+1]) {
				paired[i], paired[i+1] = true, true
			}
		}
	}
	const pairWait = 2 * time.Second
	modify = func(msg *message.Message, p requestreply.PubSubBackendOnCommandProcessedParams) error {
		i := reqOf(p.Command)
		if i < 0 || i >= n || !paired[i] {
			return nil
		}
		rs.mu.Lock()
		first := rs.firstAtt[p.CommandMessage]
		rs.mu.Unlock()
		if !first {
			return nil
		}
		onceMod[i].Do(func() { close(inModify[i]) })
		if i%2 == 0 && !waitCh(inModify[i+1], pairWait) {
			rec.Log("pw", strconv.Itoa(i))
		}
		return nil
	}
	handle := func(ctx context.Context, i int) (Res, error) {
		att := int(atomic.AddInt32(&attempts[i], 1)) - 1
		k := int(atomic.AddInt64(&rs.nInv, 1)) - 1
		m := cqrs.OriginalMessageFromCtx(ctx)
		outcome := "ok"
		if i >= 0 && i < n {
			o := sc.Reqs[i].Outcomes
			if att < len(o) {
				outcome = o[att]
			}
		}
		rs.mu.Lock()
		rs.invs[m] = k
		rs.firstAtt[m] = att == 0
		if outcome == "pubfail" {
			rs.fail[m] = true
		}
		rs.mu.Unlock()
		ks, is := strconv.Itoa(k), strconv.Itoa(i)
		rec.Log("hs", ks, is, strconv.Itoa(att))
		watchers.Add(1)
		go func() {
			defer watchers.Done()
			select {
			case <-m.Acked():
				rec.Log("ak", ks)
				onceAck[i].Do(func() { close(ackedFinal[i]) })
			case <-m.Nacked():
				rec.Log("nk", ks)
			case <-stopAll:
				// the run is over: report a settlement that raced with the stop signal
				switch settleState(m) {
				case "1":
					rec.Log("ak", ks)
				case "2":
					rec.Log("nk", ks)
				}
			}
		}()
		v := fmt.Sprintf("r%d.%d.%x", i, att, sc.Seed&0xffff)
		switch outcome {
		case "slow":
			if !waitCh(fin[i], liveness) {
				rec.Log("note", "slow handler gave up waiting for the listener of request "+is)
			}
			rec.Log("hr", ks, is, "r", wh.HexS(v), "-")
			return Res{V: v}, nil
		case "nest":
			// a request inside a request: while handling this command the handler asks the other handler something
			if j := i + 1; att == 0 && j < n && sc.Reqs[j].Caller == "inner" {
				js := strconv.Itoa(j)
				rec.Log("cy", js)
				ictx, icancel := context.WithTimeout(ctx, liveness/2)
				r, err := requestreply.SendWithReply[Res](ictx, bus, backend, cmdFor(sc, j))
				icancel()
				if err != nil {
					rec.Log("sr", js, "err")
				} else {
					rec.Log("sr", js, "ok")
					rec.Log("rv", append([]string{js}, replyFields(rs, r)...)...)
				}
			}
			rec.Log("hr", ks, is, "r", wh.HexS(v), "-")
			return Res{V: v}, nil
		case "ctxok", "ctxerr":
			// works until the message's context ends (Router time-out middleware), then reports what it has
			select {
			case <-ctx.Done():
			case <-time.After(liveness):
				rec.Log("note", "the message context of request "+is+" never ended")
			}
			if outcome == "ctxok" || ctx.Err() == nil {
				rec.Log("hr", ks, is, "r", wh.HexS(v), "-")
				return Res{V: v}, nil
			}
			rec.Log("hr", ks, is, "r", wh.HexS(v), "="+wh.HexS(ctx.Err().Error()))
			return Res{V: v}, ctx.Err()
		case "err":
			e := fmt.Sprintf("e%d.%d failed: %x", i, att, sc.Seed&0xff) + percentTexts[(int(sc.Seed&0xffff)+i+att)%len(percentTexts)]
			he := mkErr(errKinds[(int(sc.Seed>>8&0xffff)+i+att)%len(errKinds)], e)
			rec.Log("hr", ks, is, "r", wh.HexS(v), "="+wh.HexS(he.Error()))
			return Res{V: v}, he
		case "bad":
			v = "bad" + v
			rec.Log("hr", ks, is, "r", wh.HexS(v), "-")
			return Res{V: v}, nil
		case "panic":
			rec.Log("hr", ks, is, "p", "-", "-")
			panic("scripted handler panic")
		default: // ok, pubfail
			rec.Log("hr", ks, is, "r", wh.HexS(v), "-")
			return Res{V: v}, nil
		}
	}
	handler := requestreply.NewCommandHandlerWithResult[Cmd, Res]("h", backend, func(ctx context.Context, cmd *Cmd) (Res, error) {
		return handle(ctx, cmd.Req)
	})
	handler2 := requestreply.NewCommandHandlerWithResult[Cmd2, Res]("h2", backend, func(ctx context.Context, cmd *Cmd2) (Res, error) {
		return handle(ctx, cmd.Req)
	})
	if err := proc.AddHandlers(handler, handler2); err != nil {
		res.Stuck = append(res.Stuck, "setup: "+err.Error())
		return res
	}
	routerDone := make(chan struct{})
	go func() {
		defer close(routerDone)
		_ = router.Run(context.Background())
	}()
	if !waitCh(router.Running(), liveness) {
		res.Stuck = append(res.Stuck, "router did not start")
		return res
	}

	// ---------------------------------------------------------------- callers
	type chanOf struct {
		ch <-chan requestreply.Reply[Res]
	}
	chans := make([]chanOf, n)
	var callers sync.WaitGroup
	late := make(chan struct{})
	logReply := func(i int, r requestreply.Reply[Res]) string {
		f := replyFields(rs, r)
		rec.Log("rv", append([]string{strconv.Itoa(i)}, f...)...)
		return f[0]
	}
	for i := 0; i < n; i++ {
		i := i
		spec := sc.Reqs[i]
		callers.Add(1)
		go func() {
			defer callers.Done()
			defer func() {
				if r := recover(); r != nil {
					rec.Log("note", fmt.Sprint("caller panic: ", r))
					rec.Log("cp", strconv.Itoa(i))
				}
			}()
			is := strconv.Itoa(i)
			parent, pcancel := context.WithCancel(context.Background())
			if spec.DeadlineMs > 0 {
				parent, pcancel = context.WithTimeout(context.Background(), time.Duration(spec.DeadlineMs)*time.Millisecond)
			}
			if spec.End == "timeout" {
				// a caller that relies on the time-out never cancels anything itself
				rs.mu.Lock()
				lateCancels = append(lateCancels, pcancel)
				rs.mu.Unlock()
			} else {
				defer pcancel()
			}
			var sentOnce sync.Once
			markSent := func() { sentOnce.Do(func() { close(sent[i]) }) }
			defer markSent()
			var endOnce sync.Once
			if spec.Caller == "inner" {
				// issued by the handler of request i-1, not from here
				markSent()
				close(ended[i])
				return
			}
			if spec.Caller == "reply" || spec.Caller == "replyearly" || spec.Caller == "replysendfail" {
				rec.Log("cy", is) // the context of this request ends at some point inside SendWithReply (deferred cancel)
				if spec.Caller == "replyearly" {
					go func() {
						// the listener is subscribed once the operation id is known; then the parent context ends
						for j := 0; j < 20000; j++ {
							rs.mu.Lock()
							_, ok := rs.opOf[i]
							rs.mu.Unlock()
							if ok {
								break
							}
							time.Sleep(time.Millisecond)
						}
						markSent()
						rec.Log("px", is)
						pcancel()
					}()
				} else if spec.Caller == "reply" {
					go func() {
						// SendWithReply blocks until the first reply: tell the controller once the listener is being set up
						// (the controller then waits for this request's command to be acked before it goes on)
						for j := 0; j < 20000; j++ {
							rs.mu.Lock()
							_, ok := rs.opOf[i]
							rs.mu.Unlock()
							if ok {
								break
							}
							time.Sleep(time.Millisecond)
						}
						markSent()
					}()
				}
				rbus := requestreply.CommandBus(bus)
				if spec.Caller == "replysendfail" {
					rbus = failBus // the command cannot be sent: SendWithReply returns only an error, the caller has nothing to cancel
				}
				r, err := requestreply.SendWithReply[Res](parent, rbus, backend, cmdFor(sc, i))
				if spec.Caller == "replysendfail" {
					markSent() // returned at once: only now may the controller go on (e.g. close the reply Pub/Sub)
				}
				if err != nil {
					rec.Log("sr", is, "err")
					if spec.Caller == "replysendfail" {
						// the caller's own context ends late
						select {
						case <-late:
						case <-time.After(3 * liveness):
						}
						rec.Log("px", is)
						pcancel()
					}
				} else {
					rec.Log("sr", is, "ok")
					logReply(i, r)
				}
				close(ended[i])
				return
			}
			theBus := requestreply.CommandBus(bus)
			if spec.Caller == "sendfail" {
				theBus = failBus
				rec.Log("cy", is) // SendWithReplies itself cancels the context when sending fails
			}
			ch, cancel, err := requestreply.SendWithReplies[Res](parent, theBus, backend, cmdFor(sc, i))
			markSent()
			if err != nil {
				rec.Log("sr", is, "err")
				rec.Log("cx", is)
				cancel()
				close(ended[i])
				return
			}
			rec.Log("sr", is, "ok")
			rs.mu.Lock()
			chans[i].ch = ch
			rs.mu.Unlock()
			endCtx := func() {
				endOnce.Do(func() {
					switch spec.End {
					case "parent":
						rec.Log("px", is)
						pcancel()
					case "timeout":
						// nobody ends it: ListenForReplyTimeout does
						rec.Log("te", is)
					default:
						rec.Log("cx", is)
						cancel()
					}
					close(ended[i])
				})
			}
			if spec.End == "timeout" {
				rs.mu.Lock()
				lateCancels = append(lateCancels, cancel)
				rs.mu.Unlock()
				endCtx() // logs that this caller leaves the end of the request to the time-out
			}
			defer func() {
				// "It's important to cancel": every other caller finally cancels (a no-op when the context already ended)
				endOnce.Do(func() {
					rec.Log("cx", is)
					cancel()
					close(ended[i])
				})
			}()
			waitLate := func() {
				if sc.Park != nil && sc.Park.Req == i {
					waitCh(endNow[i], 3*liveness)
					return
				}
				select {
				case <-late:
				case <-endNow[i]:
				case <-time.After(3 * liveness):
				}
			}
			drain := func(expected int) {
				got := 0
				if expected == 0 && spec.End != "timeout" {
					endCtx()
				}
				deadline := time.After(2 * liveness)
				for {
					select {
					case r, ok := <-ch:
						if !ok {
							rec.Log("zz", is)
							onceSaw[i].Do(func() { close(sawClosed[i]) })
							return
						}
						kind := logReply(i, r)
						if kind != "to" {
							got++
						}
						if got >= expected && spec.End != "timeout" {
							endCtx()
						}
					case <-deadline:
						rec.Log("note", "draining caller "+is+" gave up")
						return
					}
				}
			}
			expected := 0
			for _, o := range spec.Outcomes {
				if o == "ok" || o == "err" || o == "bad" || o == "ctxok" || o == "ctxerr" || o == "nest" {
					expected++
				}
			}
			switch spec.Caller {
			case "drain":
				drain(expected)
			case "one":
				select {
				case r, ok := <-ch:
					if !ok {
						rec.Log("zz", is)
					} else {
						logReply(i, r)
					}
				case <-time.After(liveness):
					rec.Log("note", "caller "+is+" got no first reply")
				}
				waitLate()
				endCtx()
				if spec.End == "timeout" {
					waitListener(i, liveness)
				}
			case "never":
				waitLate()
				endCtx()
				if spec.End == "timeout" {
					waitListener(i, liveness)
				}
			case "early":
				endCtx()
				if spec.ReadAfter {
					drain(1 << 30)
				} else if spec.End == "timeout" {
					waitListener(i, liveness)
				}
			}
		}()
	}

	// ---------------------------------------------------------------- controller
	stuck := func(s string) { res.Stuck = append(res.Stuck, s) }
	// once one wait ran into the liveness bound the scenario has failed: the remaining phases only get a short bound
	bound := func() time.Duration {
		if len(res.Stuck) > 0 {
			return 2 * time.Second
		}
		return liveness
	}
	deadline := time.Now().Add(liveness)
	left := func() time.Duration {
		d := time.Until(deadline)
		if d < time.Millisecond {
			return time.Millisecond
		}
		return d
	}
	for i := 0; i < n; i++ {
		if !waitCh(sent[i], left()) {
			stuck("send " + strconv.Itoa(i))
		}
	}
	// foreign notifications on the reply topic(s): unknown operation id, no operation id
	if sc.Foreign > 0 {
		for j := 0; j < sc.Foreign; j++ {
			m := message.NewMessage(watermill.NewUUID(), []byte(`{"v":"foreign"}`))
			m.Metadata.Set(requestreply.HasErrorMetadataKey, "0")
			if j%2 == 0 {
				m.Metadata.Set(requestreply.OperationIDMetadataKey, "foreign-"+strconv.Itoa(j))
			}
			rs.mu.Lock()
			op := rs.opOf[j%n]
			rs.mu.Unlock()
			rec.Log("fo", strconv.Itoa(j))
			_ = replyPS.Publish(replyTopic(op), m)
		}
	}
	if sc.Park != nil && sc.Park.Req < n {
		q := sc.Park.Req
		arrived := false
		for t0 := time.Now(); time.Since(t0) < liveness && !arrived; {
			if park != nil && park.WaitArrived(5*time.Millisecond) {
				arrived = true
			}
		}
		if !arrived {
			rec.Log("note", "nobody arrived at the park point")
		} else {
			rec.Log("pk", strconv.Itoa(q))
		}
		if sc.Park.Cancel || !arrived {
			close(endNow[q])
			waitCh(ended[q], liveness)
		}
		if park != nil {
			park.Release()
		}
		if !sc.Park.Cancel && arrived {
			// released without a cancel: the caller ends the context late like everybody else
			go func() { <-late; close(endNow[q]) }()
		}
	}
	// "late": every request whose script does not wait for the listener has had its command acked
	deadline = time.Now().Add(bound())
	for i := 0; i < n; i++ {
		slow := false
		for _, o := range sc.Reqs[i].Outcomes {
			if o == "slow" {
				slow = true
			}
		}
		if slow || sc.Reqs[i].Caller == "replyearly" || sc.Reqs[i].Caller == "sendfail" || sc.Reqs[i].Caller == "replysendfail" {
			continue
		}
		if !waitCh(ackedFinal[i], left()) {
			stuck("command of request " + strconv.Itoa(i) + " never acked")
		}
	}
	if sc.CloseSub {
		// the reply Pub/Sub goes away while the contexts are still alive: listeners see their subscription closed
		rec.Log("gc")
		gdone := make(chan struct{})
		go func() { _ = replyPS.Close(); close(gdone) }()
		if !waitCh(gdone, bound()) {
			stuck("reply Pub/Sub close")
		}
		time.Sleep(2 * time.Millisecond) // no meaning: gives the listeners a chance to take the closed-subscription path first
	}
	close(late)
	deadline = time.Now().Add(bound())
	for i := 0; i < n; i++ {
		rs.mu.Lock()
		_, started := rs.opOf[i]
		rs.mu.Unlock()
		if !started {
			continue
		}
		if !waitListener(i, left()) {
			stuck("listener of request " + strconv.Itoa(i) + " did not finish")
		}
	}
	cdone := make(chan struct{})
	go func() { callers.Wait(); close(cdone) }()
	if !waitCh(cdone, left()) {
		stuck("callers")
	}
	// final inspection of the reply channels nobody drained: what is buffered, and is the channel closed
	for i := 0; i < n; i++ {
		rs.mu.Lock()
		chI := chans[i].ch
		rs.mu.Unlock()
		if chI == nil {
			continue
		}
		is := strconv.Itoa(i)
		closed := false
	inspect:
		for {
			select {
			case r, ok := <-chI:
				if !ok {
					closed = true
					break inspect
				}
				logReply(i, r)
			default:
				break inspect
			}
		}
		if closed {
			rec.Log("fz", is, "1")
		} else {
			rec.Log("fz", is, "0")
		}
	}
	// every handler invocation must have been settled by now (slow handlers returned when their listener finished)
	deadline = time.Now().Add(bound())
	for i := 0; i < n; i++ {
		if sc.Reqs[i].Caller == "replyearly" || sc.Reqs[i].Caller == "sendfail" || sc.Reqs[i].Caller == "replysendfail" || len(res.Stuck) > 0 {
			continue
		}
		if !waitCh(ackedFinal[i], left()) {
			stuck("command of request " + strconv.Itoa(i) + " never acked (end)")
			// a handler invocation of this request returned, yet its command is neither acked nor redelivered-and-acked within
			// the liveness bound although no caller holds anything back
			rec.Log("ns", strconv.Itoa(i))
		}
	}
	rs.mu.Lock()
	for _, c := range lateCancels {
		c()
	}
	rs.mu.Unlock()
	closeDone := make(chan struct{})
	go func() {
		_ = router.Close()
		_ = pubSub.Close()
		_ = replyPS.Close()
		close(closeDone)
	}()
	if !waitCh(closeDone, bound()) {
		stuck("router/pubsub close")
	}
	close(stopAll)
	wdone := make(chan struct{})
	go func() { watchers.Wait(); close(wdone) }()
	waitCh(wdone, bound())
	// goroutine census on the listener frame
	var cnt int
	var dump string
	for t0 := time.Now(); ; {
		cnt, dump = gc.GoroutinesIn("ListenForNotifications")
		if cnt <= baseline || time.Since(t0) > 5*time.Second {
			break
		}
		time.Sleep(2 * time.Millisecond)
	}
	if cnt > baseline {
		res.Leftover = cnt - baseline
		res.LeftDump = dump
	}
	for i := 0; i < n; i++ {
		if c := atomic.LoadInt32(&finCount[i]); c > 1 {
			rec.Log("note", fmt.Sprintf("finished callback ran %d times for request %d", c, i))
		}
	}
	rec.Log("end", strconv.Itoa(len(res.Stuck)), strconv.Itoa(res.Leftover))
	res.Events = rec.Snapshot()
	return res
}

// ---------------------------------------------------------------- projection to the line protocol

func b01(b bool) string {
	if b {
		return "1"
	}
	return "0"
}

// TopTrace: `top <spec> <ackErrs> <hasTimeout> <n> <event>*` – the whole scenario for the property monitor.
func (r *Result) TopTrace() string {
	var b strings.Builder
	fmt.Fprintf(&b, "top %s %s %s %d", r.Sc.Token(), b01(r.Sc.AckErrs), b01(r.Sc.TimeoutMs != 0), len(r.Sc.Reqs))
	if r.Sc.NoHook {
		b.WriteString(" nh")
	}
	for _, e := range r.Events {
		switch e.Kind {
		case "op", "sr", "hs", "hr", "pc", "pr", "ak", "nk", "rv", "cx", "px", "cy", "te", "zz", "fin", "fz", "end", "cp", "ns":
			b.WriteString(" " + e.Kind)
			for _, f := range e.F {
				b.WriteString("," + f)
			}
		}
	}
	return b.String()
}

// ListenerStreams: `lst <spec> <i> <hasTimeout> <token>*` – the events of one request, for conformance with the Lean model.
func (r *Result) ListenerStreams() []string {
	n := len(r.Sc.Reqs)
	toks := make([][]string, n)
	started := make([]bool, n)
	add := func(i int, t string) {
		if i >= 0 && i < n {
			toks[i] = append(toks[i], t)
		}
	}
	atoi := func(s string) int {
		v, err := strconv.Atoi(s)
		if err != nil {
			return -1
		}
		return v
	}
	accepted := map[string]bool{} // invocation -> its reply Publish returned nil
	for _, e := range r.Events {
		if e.Kind == "pr" && e.F[1] == "ok" {
			accepted[e.F[0]] = true
		}
	}
	for _, e := range r.Events {
		switch e.Kind {
		case "op":
			started[atoi(e.F[0])] = true
		case "pc":
			// pc,k,o,res,err,st,fwd – a notification the reply topic accepted (a failing Publish delivers nothing)
			if e.F[5] == "1" && accepted[e.F[0]] {
				bad := "0"
				if raw, err := hex.DecodeString(e.F[2]); err == nil && strings.HasPrefix(string(raw), "bad") {
					bad = "1"
				}
				add(atoi(e.F[1]), "P,"+e.F[2]+","+e.F[3]+","+bad)
			}
		case "h":
			if len(e.F) >= 2 && e.F[0] == "requestreply.listen.before_send" {
				for i, op := range r.OpOf {
					if op == e.F[1] {
						add(i, "S")
					}
				}
			}
		case "rv":
			// rv,i,kind,o,res|why,err
			switch e.F[1] {
			case "res":
				add(atoi(e.F[0]), "R,res,"+e.F[3]+","+e.F[4])
			case "um":
				add(atoi(e.F[0]), "R,um")
			default:
				add(atoi(e.F[0]), "R,to,"+e.F[3])
			}
		case "cx", "px":
			add(atoi(e.F[0]), "X")
		case "cy":
			add(atoi(e.F[0]), "Y")
		case "gc":
			for i := 0; i < n; i++ {
				add(i, "G")
			}
		case "fin":
			add(atoi(e.F[0]), "F")
		case "ho":
			add(atoi(e.F[0]), "O")
		case "zz":
			add(atoi(e.F[0]), "Z")
		case "fz":
			if e.F[1] == "1" {
				add(atoi(e.F[0]), "Z")
			}
		}
	}
	var out []string
	for i := 0; i < n; i++ {
		if !started[i] {
			continue
		}
		t := strings.Join(toks[i], " ")
		if t == "" {
			t = "-"
		}
		out = append(out, fmt.Sprintf("lst %s %d %s %s", r.Sc.Token(), i, b01(r.Sc.TimeoutMs != 0 || r.Sc.Reqs[i].DeadlineMs > 0), t))
	}
	return out
}

// Emit writes the protocol lines of one scenario and its statistics.
func Emit(out *wh.Out, res *Result) {
	if len(res.Stuck) > 0 {
		stuckTotal++
	}
	for _, l := range res.ListenerStreams() {
		out.Case(l, "ok")
	}
	out.Case(res.TopTrace(), "ok")
	sc := res.Sc
	out.Count("scenarios")
	out.Count(fmt.Sprintf("cfg.ackErrs%v.shared%v.timeout%s", sc.AckErrs, sc.Shared, map[bool]string{true: "small", false: "none-or-large"}[sc.TimeoutMs != 0 && sc.TimeoutMs < 1000]))
	if sc.TimeoutMs < 0 {
		out.Count("cfg.timeout-zero-or-negative")
	}
	nb := "1"
	switch {
	case len(sc.Reqs) >= 32:
		nb = "32"
	case len(sc.Reqs) >= 9:
		nb = "9-31"
	case len(sc.Reqs) >= 2:
		nb = "2-8"
	}
	out.Count("requests." + nb)
	for _, q := range sc.Reqs {
		out.Count("caller." + q.Caller + "/" + q.End)
		for _, o := range q.Outcomes {
			out.Count("outcome." + o)
		}
		if len(q.Outcomes) > 1 {
			out.Count("redelivered-requests")
		}
	}
	if sc.Park != nil {
		out.Count(fmt.Sprintf("park.cancel%v", sc.Park.Cancel))
	}
	if sc.CloseSub {
		out.Count("reply-pubsub-closed-early")
	}
	if sc.NoHook {
		out.Count("no-finished-hook-configured")
	}
	if sc.BlockReplies {
		out.Count("reply-pubsub-waits-for-acks")
	}
	if sc.TwoHandlers {
		out.Count("two-command-handlers")
	}
	if sc.HandlerTimeoutMs > 0 {
		out.Count("router-timeout-middleware")
	}
	for _, q := range sc.Reqs {
		if q.DeadlineMs > 0 {
			switch {
			case sc.TimeoutMs > 0 && sc.TimeoutMs < q.DeadlineMs:
				out.Count("caller-deadline.later-than-backend-timeout")
			case sc.TimeoutMs > 0:
				out.Count("caller-deadline.earlier-than-backend-timeout")
			default:
				out.Count("caller-deadline.no-backend-timeout")
			}
		}
	}
	if sc.HookWait {
		out.Count("hook-waits-for-observed-close")
	}
	out.Add("events", len(res.Events))
	for _, e := range res.Events {
		switch e.Kind {
		case "rv":
			out.Count("replies." + e.F[1])
		case "pk":
			out.Count("parked-with-arrival")
		case "pw":
			out.Count("pair-rendezvous-timed-out")
			out.Note("pair rendezvous timed out for request " + e.F[0] + " :: " + sc.Describe())
		case "note":
			out.Note(strings.Join(e.F, " ") + " :: " + sc.Describe())
		}
	}
	for _, s := range res.Stuck {
		out.Note("STUCK: " + s + " :: " + sc.Describe())
		out.Count("stuck")
	}
	if res.Leftover > 0 {
		out.Note("LEFTOVER listener goroutine: " + strings.ReplaceAll(res.LeftDump, "\n", " | "))
	}
}

type failingPublisher struct{}

func (failingPublisher) Publish(string, ...*message.Message) error {
	return errors.New("scripted command publish failure")
}
func (failingPublisher) Close() error { return nil }

func cmdFor(sc Scenario, i int) any {
	if sc.TwoHandlers && i%2 == 1 {
		return &Cmd2{Req: i}
	}
	return &Cmd{Req: i}
}
