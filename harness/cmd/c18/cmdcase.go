package main

import (
	"context"
	"errors"
	"fmt"
	"strings"

	"github.com/ThreeDotsLabs/watermill"
	"github.com/ThreeDotsLabs/watermill/components/cqrs"
	"github.com/ThreeDotsLabs/watermill/components/requestreply"
	"github.com/ThreeDotsLabs/watermill/message"

	"wmverif/wh"
)

// The command side as a sequential decision: one call of the handler built by NewCommandHandlerWithResult
// (handler.go → PubSubBackend.OnCommandProcessed) with a scripted publisher.
//
//	REQ cmd <ackErrs 0|1> <pre ok|marshal|noop|modify|topic> <pub ok|fail|failh|handled> <bad 0|1> <res hex> <err -|=hex> <error kind>
//	OBS [pub,<op matches 0|1>,<res hex>,<err -|=hex>,<um ok|fail|diff> pr,<ok|err>] ret,<nil|err>
type cmdCase struct {
	ackErrs bool
	pre     string
	pub     string
	bad     bool
	res     string
	err     *string
	ekind   string // how the handler's error value is built (mkErr): its Error() is *err whatever the kind
}

func (c cmdCase) Req() string {
	e := "-"
	if c.err != nil {
		e = "=" + wh.HexS(*c.err)
	}
	k := c.ekind
	if k == "" {
		k = "new"
	}
	return fmt.Sprintf("cmd %s %s %s %s %s %s %s", b01(c.ackErrs), c.pre, c.pub, b01(c.bad), wh.HexS(c.res), e, k)
}

func parseCmdCase(f []string) (cmdCase, error) {
	var c cmdCase
	if len(f) != 7 && len(f) != 8 {
		return c, errors.New("cmd: want 7 or 8 fields")
	}
	if len(f) == 8 {
		c.ekind = f[7]
	}
	c.ackErrs = f[1] == "1"
	c.pre, c.pub = f[2], f[3]
	c.bad = f[4] == "1"
	unhex := func(s string) (string, error) {
		if s == "-" {
			return "", nil
		}
		var b []byte
		_, err := fmt.Sscanf(s, "%x", &b)
		return string(b), err
	}
	r, err := unhex(f[5])
	if err != nil {
		return c, err
	}
	c.res = r
	if f[6] != "-" {
		e, err := unhex(strings.TrimPrefix(f[6], "="))
		if err != nil {
			return c, err
		}
		c.err = &e
	}
	return c, nil
}

type failingMarshaler struct {
	requestreply.BackendPubsubJSONMarshaler[Res]
}

func (failingMarshaler) MarshalReply(requestreply.BackendOnCommandProcessedParams[Res]) (*message.Message, error) {
	return nil, errors.New("scripted marshal failure")
}

type scriptedPublisher struct {
	fail  bool
	calls []string
	op    string
}

func (p *scriptedPublisher) Publish(topic string, msgs ...*message.Message) error {
	for _, n := range msgs {
		e := "-"
		if n.Metadata.Get(requestreply.HasErrorMetadataKey) == "1" {
			e = "=" + wh.HexS(n.Metadata.Get(requestreply.ErrorMetadataKey))
		}
		res := resOfPayload(n.Payload)
		um := "ok"
		rep, uerr := requestreply.BackendPubsubJSONMarshaler[Res]{}.UnmarshalReply(n)
		if uerr != nil {
			um = "fail"
		} else {
			e2 := "-"
			if rep.Error != nil {
				e2 = "=" + wh.HexS(rep.Error.Error())
			}
			if wh.HexS(rep.HandlerResult.V) != res || e2 != e {
				um = "diff"
			}
		}
		p.calls = append(p.calls, fmt.Sprintf("pub,%s,%s,%s,%s", b01(n.Metadata.Get(requestreply.OperationIDMetadataKey) == p.op && topic == "replies_"+p.op), res, e, um))
		if p.fail {
			p.calls = append(p.calls, "pr,err")
			return errors.New("scripted publish failure")
		}
		p.calls = append(p.calls, "pr,ok")
	}
	return nil
}

func (p *scriptedPublisher) Close() error { return nil }

func runCmdCase(c cmdCase) (obs string) {
	defer func() {
		if r := recover(); r != nil {
			obs = wh.PanicText(r)
		}
	}()
	const op = "op-1"
	pub := &scriptedPublisher{fail: c.pub != "ok", op: op}
	cfg := requestreply.PubSubBackendConfig{
		Publisher: pub,
		SubscriberConstructor: func(requestreply.PubSubBackendSubscribeParams) (message.Subscriber, error) {
			return nil, errors.New("not used")
		},
		GenerateSubscribeTopic: func(p requestreply.PubSubBackendSubscribeParams) (string, error) {
			return "replies_" + string(p.OperationID), nil
		},
		GeneratePublishTopic: func(p requestreply.PubSubBackendPublishParams) (string, error) {
			if c.pre == "topic" {
				return "", errors.New("scripted topic failure")
			}
			return "replies_" + string(p.OperationID), nil
		},
		Logger:           watermill.NopLogger{},
		AckCommandErrors: c.ackErrs,
	}
	if c.pre == "modify" {
		cfg.ModifyNotificationMessage = func(*message.Message, requestreply.PubSubBackendOnCommandProcessedParams) error {
			return errors.New("scripted modify failure")
		}
	}
	switch c.pub {
	case "failh":
		cfg.ReplyPublishErrorHandler = func(string, *message.Message, error) error { return errors.New("still failing") }
	case "handled":
		cfg.ReplyPublishErrorHandler = func(string, *message.Message, error) error { return nil }
	}
	var m requestreply.BackendPubsubMarshaler[Res] = requestreply.BackendPubsubJSONMarshaler[Res]{}
	if c.pre == "marshal" {
		m = failingMarshaler{}
	}
	backend, err := requestreply.NewPubSubBackend[Res](cfg, m)
	if err != nil {
		return "setup-error"
	}
	v := c.res // the generator makes the value start with "bad" exactly when c.bad
	h := requestreply.NewCommandHandlerWithResult[Cmd, Res]("h", backend, func(ctx context.Context, cmd *Cmd) (Res, error) {
		if c.err != nil {
			return Res{V: v}, mkErr(c.ekind, *c.err)
		}
		return Res{V: v}, nil
	})
	cmdMsg := message.NewMessage(watermill.NewUUID(), []byte(`{"req":0}`))
	if c.pre != "noop" {
		cmdMsg.Metadata.Set(requestreply.OperationIDMetadataKey, op)
	}
	ret := h.Handle(cqrs.CtxWithOriginalMessage(context.Background(), cmdMsg), &Cmd{})
	out := append([]string{}, pub.calls...)
	if ret == nil {
		out = append(out, "ret,nil")
	} else {
		out = append(out, "ret,err")
	}
	return strings.Join(out, " ")
}
