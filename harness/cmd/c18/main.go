// Harness for C18: request-reply – replies reach only their requester and listeners always finish.
//
// Runs the real requestreply.PubSubBackend (ListenForNotifications / OnCommandProcessed), SendWithReply / SendWithReplies and
// NewCommandHandlerWithResult over a real GoChannel, a real cqrs.CommandBus / CommandProcessor and a real Router.
//
//	REQ cmd …                       (cmdcase.go)  the command side as a sequential decision       OBS effect list
//	REQ lst <spec> <i> <to> <tok>*   per-request event stream, checked for inclusion in the Lean model OBS ok
//	REQ top <spec> <ackErrs> <to> <n> <event>*   whole scenario, judged by the property monitor       OBS ok
//
// Token and event formats: scenario.go (TopTrace, ListenerStreams) and lean/WmModel/ReqReplyConf.lean / ReqReplyMon.lean.
package main

import (
	"fmt"
	"os"
	"strings"
	"syscall"

	"wmverif/wh"
)

var (
	callersLate = []string{"drain", "one", "never"}
	scripts     = [][]string{{"ok"}, {"err"}, {"err", "err", "ok"}, {"bad"}, {"panic", "ok"}, {"pubfail", "err", "ok"}}
)

func single(ackErrs, shared bool, seed uint64, q ReqSpec) Scenario {
	sc := Scenario{AckErrs: ackErrs, Shared: shared, Seed: seed, Reqs: []ReqSpec{q}}
	sc.Normalise()
	return sc
}

// fixed scenarios: every caller behaviour x every handler script x AckCommandErrors for one request; the D12 interleaving
// (park with a full reply channel, cancel, release); timeouts small and large; 4, 8 and 32 concurrent requests.
func fixedScenarios(rng *wh.Rng, thorough bool) []Scenario {
	var out []Scenario
	flip := false
	for _, ack := range []bool{false, true} {
		for si, script := range scripts {
			for _, c := range []ReqSpec{
				{Caller: "drain", End: "cancel"}, {Caller: "drain", End: "parent"}, {Caller: "one", End: "cancel"},
				{Caller: "one", End: "parent"}, {Caller: "never", End: "cancel"}, {Caller: "never", End: "parent"}, {Caller: "reply", End: "cancel"},
			} {
				if !thorough && (c.End == "parent") != (si%2 == 0) && c.Caller != "reply" {
					continue // quick tier: alternate between cancel() and the parent context per script
				}
				c.Outcomes = append([]string{}, script...)
				flip = !flip
				out = append(out, single(ack, flip, rng.Next(), c))
			}
		}
		// the context ends before any reply exists
		for _, c := range []ReqSpec{
			{Caller: "early", End: "cancel", Outcomes: []string{"slow"}}, {Caller: "early", End: "parent", Outcomes: []string{"slow"}, ReadAfter: true},
			{Caller: "early", End: "cancel", Outcomes: []string{"err", "slow"}, ReadAfter: true}, {Caller: "replyearly", End: "parent", Outcomes: []string{"slow"}},
			{Caller: "sendfail", End: "cancel", Outcomes: []string{"ok"}}, {Caller: "replysendfail", End: "parent", Outcomes: []string{"ok"}},
		} {
			out = append(out, single(ack, !flip, rng.Next(), c))
		}
	}
	// D12: park the listener at before_send with a full channel; cancel; release
	for _, caller := range []string{"never", "one"} {
		for _, cancel := range []bool{true, false} {
			for _, end := range []string{"cancel", "parent"} {
				nth := 2
				if caller == "one" {
					nth = 3
				}
				sc := Scenario{AckErrs: false, Shared: true, Seed: rng.Next(), Park: &ParkSpec{Req: 0, Nth: nth, Cancel: cancel},
					Reqs: []ReqSpec{{Caller: caller, End: end, Outcomes: []string{"err", "err", "err", "ok"}}}}
				out = append(out, sc)
				// the same with other requests sharing the topic
				sc2 := sc
				sc2.Seed = rng.Next()
				sc2.Park = &ParkSpec{Req: 1, Nth: nth, Cancel: cancel}
				sc2.Reqs = []ReqSpec{{Caller: "drain", End: "cancel", Outcomes: []string{"err", "ok"}}, sc.Reqs[0],
					{Caller: "never", End: "cancel", Outcomes: []string{"ok"}}, {Caller: "one", End: "parent", Outcomes: []string{"err", "err", "ok"}}}
				sc2.Foreign = 2
				out = append(out, sc2)
			}
		}
	}
	// the reply Pub/Sub is closed while the contexts are alive ("subscriber closed" path, also with a full reply channel)
	for _, ack := range []bool{false, true} {
		out = append(out, Scenario{AckErrs: ack, Shared: ack, CloseSub: true, Seed: rng.Next(), Reqs: []ReqSpec{
			{Caller: "drain", End: "cancel", Outcomes: []string{"err", "ok"}}, {Caller: "never", End: "cancel", Outcomes: []string{"bad"}},
			{Caller: "never", End: "parent", Outcomes: []string{"err", "err", "ok"}}, {Caller: "one", End: "cancel", Outcomes: []string{"ok"}},
			{Caller: "one", End: "cancel", Outcomes: []string{"err", "err", "ok"}}, {Caller: "early", End: "cancel", Outcomes: []string{"slow"}},
		}})
	}
	// no OnListenForReplyFinished hook configured: the channel must be closed all the same; and, with the hook, the order
	// close → hook observed by letting the hook wait for the draining caller to see the close
	for _, ack := range []bool{false, true} {
		reqs := []ReqSpec{
			{Caller: "drain", End: "cancel", Outcomes: []string{"err", "ok"}}, {Caller: "drain", End: "parent", Outcomes: []string{"ok"}},
			{Caller: "never", End: "cancel", Outcomes: []string{"err", "err", "ok"}}, {Caller: "one", End: "parent", Outcomes: []string{"err", "ok"}},
			{Caller: "early", End: "cancel", Outcomes: []string{"ok"}, ReadAfter: true}, {Caller: "reply", End: "cancel", Outcomes: []string{"ok"}},
		}
		out = append(out, Scenario{AckErrs: ack, Shared: true, NoHook: true, Seed: rng.Next(), Reqs: append([]ReqSpec{}, reqs...)})
		out = append(out, Scenario{AckErrs: ack, Shared: false, NoHook: true, Seed: rng.Next(), Reqs: []ReqSpec{{Caller: "drain", End: "cancel", Outcomes: []string{"ok"}}}})
		out = append(out, Scenario{AckErrs: ack, Shared: true, NoHook: true, TimeoutMs: 25, Seed: rng.Next(), Reqs: []ReqSpec{
			{Caller: "drain", End: "timeout", Outcomes: []string{"ok"}}, {Caller: "never", End: "timeout", Outcomes: []string{"ok"}}}})
		out = append(out, Scenario{AckErrs: ack, Shared: true, HookWait: true, Seed: rng.Next(), Reqs: append([]ReqSpec{}, reqs...)})
	}
	// the caller's context has its own deadline: later than the backend time-out (the backend time-out must still end the
	// listener), earlier than it, and without a backend time-out
	for _, ack := range []bool{false, true} {
		for _, v := range []struct{ to, dl int }{{25, 3600000}, {3600000, 30}, {0, 30}} {
			for _, nohook := range []bool{false, true} {
				reqs := []ReqSpec{
					{Caller: "drain", End: "timeout", Outcomes: []string{"slow"}, DeadlineMs: v.dl}, {Caller: "never", End: "timeout", Outcomes: []string{"ok"}, DeadlineMs: v.dl},
					{Caller: "one", End: "timeout", Outcomes: []string{"err", "ok"}, DeadlineMs: v.dl}, {Caller: "drain", End: "timeout", Outcomes: []string{"err", "err", "ok"}, DeadlineMs: v.dl},
					{Caller: "reply", End: "cancel", Outcomes: []string{"slow"}, DeadlineMs: v.dl},
				}
				if v.to > 0 && v.to < 1000 {
					reqs = append(reqs, ReqSpec{Caller: "never", End: "timeout", Outcomes: []string{"slow"}}) // no caller deadline, same scenario
				}
				out = append(out, Scenario{AckErrs: ack, Shared: ack != nohook, TimeoutMs: v.to, NoHook: nohook, Seed: rng.Next(), Reqs: reqs})
			}
		}
	}
	// the reply Pub/Sub waits for its subscribers: a reply published after a listener ended (time-out passed, caller never
	// cancels anything) must still be published and its command settled
	for _, ack := range []bool{false, true} {
		for _, dl := range []int{0, 3600000} {
			out = append(out, Scenario{AckErrs: ack, Shared: true, BlockReplies: true, TimeoutMs: 25, Seed: rng.Next(), Reqs: []ReqSpec{
				{Caller: "drain", End: "timeout", Outcomes: []string{"slow"}, DeadlineMs: dl}, {Caller: "never", End: "timeout", Outcomes: []string{"slow"}, DeadlineMs: dl},
				{Caller: "drain", End: "timeout", Outcomes: []string{"err", "slow"}, DeadlineMs: dl}, {Caller: "reply", End: "cancel", Outcomes: []string{"slow"}},
			}})
		}
		out = append(out, Scenario{AckErrs: ack, Shared: !ack, BlockReplies: true, Seed: rng.Next(), Reqs: []ReqSpec{
			{Caller: "drain", End: "cancel", Outcomes: []string{"err", "err", "ok"}}, {Caller: "never", End: "parent", Outcomes: []string{"ok"}},
			{Caller: "one", End: "cancel", Outcomes: []string{"err", "ok"}}, {Caller: "early", End: "cancel", Outcomes: []string{"slow"}},
			{Caller: "reply", End: "cancel", Outcomes: []string{"pubfail", "ok"}}, {Caller: "drain", End: "parent", Outcomes: []string{"bad"}},
		}})
	}
	// the command message's context ends while the handler works (Router time-out middleware): the reply is published and the
	// command settled per AckCommandErrors all the same
	for _, ack := range []bool{false, true} {
		out = append(out, Scenario{AckErrs: ack, Shared: ack, HandlerTimeoutMs: 15, Seed: rng.Next(), Reqs: []ReqSpec{
			{Caller: "drain", End: "cancel", Outcomes: []string{"ctxok"}}, {Caller: "drain", End: "parent", Outcomes: []string{"ctxerr", "ok"}},
			{Caller: "reply", End: "cancel", Outcomes: []string{"ctxerr"}}, {Caller: "never", End: "cancel", Outcomes: []string{"ctxok"}},
			{Caller: "one", End: "cancel", Outcomes: []string{"ctxerr", "ctxerr", "ctxok"}},
		}})
	}
	// two command types with their own handlers running concurrently, replies without error overlapping between "operation id
	// stamped" and "published" (rendezvous in ModifyNotificationMessage): each requester still gets its own result
	for _, ack := range []bool{false, true} {
		for _, shared := range []bool{true, false} {
			reqs := []ReqSpec{}
			for j := 0; j < 6; j++ {
				reqs = append(reqs, ReqSpec{Caller: []string{"drain", "drain", "reply"}[j%3], End: "cancel", Outcomes: []string{"ok"}})
			}
			reqs = append(reqs, ReqSpec{Caller: "drain", End: "parent", Outcomes: []string{"err", "ok"}}, ReqSpec{Caller: "drain", End: "cancel", Outcomes: []string{"ok"}})
			out = append(out, Scenario{AckErrs: ack, Shared: shared, TwoHandlers: true, Seed: rng.Next(), Reqs: reqs})
		}
	}
	// a configured ListenForReplyTimeout of zero / a negative one: the time-out has passed at once, the listener ends at once
	for _, ack := range []bool{false, true} {
		for _, to := range []int{-1, -2} {
			for _, nohook := range []bool{false, true} {
				out = append(out, Scenario{AckErrs: ack, Shared: ack == nohook, TimeoutMs: to, NoHook: nohook, Seed: rng.Next(), Reqs: []ReqSpec{
					{Caller: "drain", End: "timeout", Outcomes: []string{"ok"}}, {Caller: "never", End: "timeout", Outcomes: []string{"slow"}},
					{Caller: "one", End: "timeout", Outcomes: []string{"err", "ok"}}, {Caller: "reply", End: "cancel", Outcomes: []string{"ok"}},
					{Caller: "drain", End: "timeout", Outcomes: []string{"slow"}},
				}})
			}
		}
	}
	// a request inside a request on the shared reply topic, the bus propagating the handled message's metadata to outgoing
	// commands (OnSend): the inner and the outer requester each get their own reply
	for _, ack := range []bool{false, true} {
		for _, shared := range []bool{true, false} {
			out = append(out, Scenario{AckErrs: ack, Shared: shared, TwoHandlers: true, Seed: rng.Next(), Reqs: []ReqSpec{
				{Caller: "drain", End: "cancel", Outcomes: []string{"nest"}}, {Caller: "inner", End: "cancel", Outcomes: []string{"ok"}},
				{Caller: "reply", End: "cancel", Outcomes: []string{"nest"}}, {Caller: "inner", End: "cancel", Outcomes: []string{"err", "ok"}},
				{Caller: "drain", End: "parent", Outcomes: []string{"err", "ok"}}, {Caller: "drain", End: "cancel", Outcomes: []string{"ok"}},
				{Caller: "never", End: "cancel", Outcomes: []string{"nest"}}, {Caller: "inner", End: "cancel", Outcomes: []string{"bad"}},
			}})
		}
	}
	// timeouts
	for _, ack := range []bool{false, true} {
		for _, shared := range []bool{true, false} {
			out = append(out, Scenario{AckErrs: ack, Shared: shared, TimeoutMs: 25, Seed: rng.Next(), Reqs: []ReqSpec{
				{Caller: "drain", End: "timeout", Outcomes: []string{"slow"}}, {Caller: "never", End: "timeout", Outcomes: []string{"slow"}},
				{Caller: "never", End: "timeout", Outcomes: []string{"ok"}}, {Caller: "one", End: "timeout", Outcomes: []string{"err", "ok"}},
				{Caller: "drain", End: "timeout", Outcomes: []string{"err", "err", "ok"}}, {Caller: "never", End: "cancel", Outcomes: []string{"err", "ok"}},
				{Caller: "reply", End: "cancel", Outcomes: []string{"slow"}},
			}})
			out = append(out, Scenario{AckErrs: ack, Shared: shared, TimeoutMs: 3600000, Seed: rng.Next(), Reqs: []ReqSpec{
				{Caller: "drain", End: "cancel", Outcomes: []string{"err", "ok"}}, {Caller: "never", End: "parent", Outcomes: []string{"ok"}},
				{Caller: "one", End: "cancel", Outcomes: []string{"err", "err", "ok"}}, {Caller: "reply", End: "cancel", Outcomes: []string{"ok"}},
			}})
		}
	}
	for i := range out {
		out[i].Normalise()
	}
	// many concurrent requests
	for _, n := range []int{4, 8, 32} {
		for _, shared := range []bool{true, false} {
			for _, ack := range []bool{false, true} {
				if !thorough && n == 32 && (shared != ack) {
					continue
				}
				out = append(out, randomScenario(rng, n, &ack, &shared))
			}
		}
	}
	return out
}

func randomScenario(rng *wh.Rng, n int, ack, shared *bool) Scenario {
	sc := Scenario{Seed: rng.Next(), Yield: []int{0, 100, 300, 600}[rng.Intn(4)]}
	sc.AckErrs = rng.Bool()
	if ack != nil {
		sc.AckErrs = *ack
	}
	sc.Shared = rng.Intn(10) < 7
	if shared != nil {
		sc.Shared = *shared
	}
	small := false
	switch rng.Intn(8) {
	case 0:
		sc.TimeoutMs, small = 15+rng.Intn(30), true
		if rng.Intn(4) == 0 {
			sc.TimeoutMs = -1 - rng.Intn(2) // zero / negative: passed at once
		}
	case 1:
		sc.TimeoutMs = 3600000
	}
	if n <= 0 {
		n = []int{1, 1, 2, 2, 3, 3, 4, 5, 8, 8, 16, 32}[rng.Intn(12)]
	}
	for i := 0; i < n; i++ {
		q := ReqSpec{}
		q.Caller = []string{"drain", "drain", "drain", "one", "one", "never", "never", "never", "early", "early", "reply", "replyearly", "sendfail", "replysendfail"}[rng.Intn(14)]
		q.End = []string{"cancel", "cancel", "parent"}[rng.Intn(3)]
		if small && rng.Intn(3) > 0 && q.Caller != "early" {
			q.End = "timeout"
			if rng.Intn(3) == 0 {
				q.DeadlineMs = 3600000 // a caller deadline later than the backend time-out
			}
		}
		short := false
		if !small && rng.Intn(10) == 0 && q.Caller != "early" {
			q.End, q.DeadlineMs, short = "timeout", 20+rng.Intn(30), true // the caller's own deadline ends the listener
		}
		if q.Caller == "reply" || q.Caller == "replyearly" || q.Caller == "sendfail" {
			q.End = "cancel"
		}
		if q.Caller == "replysendfail" {
			q.End = "parent"
		}
		k := 1 + rng.Intn(3)
		for j := 0; j < k; j++ {
			q.Outcomes = append(q.Outcomes, []string{"ok", "err", "err", "err", "bad", "panic", "pubfail"}[rng.Intn(7)])
		}
		waitsForListener := q.Caller == "early" || q.Caller == "replyearly" || q.End == "timeout" || ((small || short) && q.Caller == "reply")
		if waitsForListener && rng.Intn(2) == 0 || q.Caller == "replyearly" {
			// the reply is produced only after the listener finished (cancel / timeout strictly before the reply)
			q.Outcomes = append(q.Outcomes[:rng.Intn(len(q.Outcomes))], "slow")
			if q.Caller == "replyearly" {
				q.Outcomes = []string{"slow"}
			}
		}
		q.ReadAfter = q.Caller == "early" && rng.Bool()
		sc.Reqs = append(sc.Reqs, q)
	}
	if rng.Intn(8) == 0 {
		// the Router's time-out middleware ends the message context while some handlers still work
		sc.HandlerTimeoutMs = 10 + rng.Intn(20)
		for i := range sc.Reqs {
			for j, o := range sc.Reqs[i].Outcomes {
				if o == "ok" && rng.Bool() {
					sc.Reqs[i].Outcomes[j] = "ctxok"
				} else if o == "err" && rng.Bool() {
					sc.Reqs[i].Outcomes[j] = "ctxerr"
				}
			}
		}
	}
	sc.TwoHandlers = rng.Intn(4) == 0
	sc.BlockReplies = rng.Intn(8) == 0
	sc.CloseSub = rng.Intn(8) == 0 && !small && !sc.BlockReplies
	switch rng.Intn(10) {
	case 0, 1:
		sc.NoHook = true
	case 2:
		sc.HookWait = true
	}
	if sc.TwoHandlers && !small && sc.TimeoutMs >= 0 && !sc.BlockReplies && !sc.CloseSub && sc.HandlerTimeoutMs == 0 && rng.Intn(2) == 0 {
		// requests inside requests: the handler of request 2j asks the other handler (request 2j+1) while it works
		for i := 0; i+1 < len(sc.Reqs); i += 2 {
			if rng.Intn(2) == 0 {
				continue
			}
			sc.Reqs[i].Caller = []string{"drain", "reply", "never", "one"}[rng.Intn(4)]
			sc.Reqs[i].Outcomes = []string{"nest"}
			if sc.Reqs[i].End == "timeout" {
				sc.Reqs[i].End = "cancel"
			}
			sc.Reqs[i].DeadlineMs = 0
			in := ReqSpec{Caller: "inner", End: "cancel"}
			for _, o := range sc.Reqs[i+1].Outcomes {
				if o == "slow" || o == "nest" {
					o = "ok"
				}
				in.Outcomes = append(in.Outcomes, o)
			}
			sc.Reqs[i+1] = in
		}
	}
	sc.Normalise()
	if rng.Intn(3) == 0 {
		sc.Foreign = 1 + rng.Intn(4)
	}
	if sc.BlockReplies {
		// every reply Publish waits for every listener on the topic: a listener must never sit at a send with a full channel
		// while its context is alive, i.e. callers that stop reading get at most as many replies as they read plus one
		for i, q := range sc.Reqs {
			replies := 0
			for _, o := range q.Outcomes {
				if o == "ok" || o == "err" || o == "bad" || o == "ctxok" || o == "ctxerr" || o == "nest" {
					replies++
				}
			}
			if (q.Caller == "never" && replies > 1) || (q.Caller == "one" && replies > 2) {
				sc.Reqs[i].Caller = "drain"
			}
		}
	}
	if rng.Intn(4) == 0 && !small && !sc.BlockReplies {
		// park a listener whose caller does not drain and which gets at least two replies
		for i, q := range sc.Reqs {
			replies := 0
			for _, o := range q.Outcomes {
				if o == "ok" || o == "err" || o == "bad" || o == "ctxok" || o == "ctxerr" || o == "nest" {
					replies++
				}
			}
			if q.Caller == "never" && replies >= 2 && q.DeadlineMs == 0 {
				sc.Park = &ParkSpec{Req: i, Nth: 2, Cancel: rng.Bool()}
				break
			}
			if q.Caller == "one" && replies >= 3 && q.DeadlineMs == 0 {
				sc.Park = &ParkSpec{Req: i, Nth: 3, Cancel: rng.Bool()}
				break
			}
		}
	}
	return sc
}

func cmdCases(rng *wh.Rng, extra int) []cmdCase {
	var out []cmdCase
	str := func() string {
		alphabet := []string{"a", "Z", "0", " ", "é", "漢", "\"", "\\", "\n", ":", "{", "}", "\x00", "~", "%", "%s", "%d", "%%", "%!", "100% f"}
		n := rng.Intn(6)
		s := ""
		for i := 0; i < n; i++ {
			s += alphabet[rng.Intn(len(alphabet))]
		}
		return s
	}
	for _, ack := range []bool{false, true} {
		for _, pre := range []string{"ok", "marshal", "noop", "modify", "topic"} {
			for _, pub := range []string{"ok", "fail", "failh", "handled"} {
				for _, hasErr := range []bool{false, true} {
					for _, bad := range []bool{false, true} {
						c := cmdCase{ackErrs: ack, pre: pre, pub: pub, bad: bad, res: "r" + str()}
						if bad {
							c.res = "bad" + str()
						}
						if hasErr {
							e := "handler failed: " + str()
							c.err = &e
							c.ekind = errKinds[rng.Intn(len(errKinds))]
						}
						out = append(out, c)
					}
				}
			}
		}
	}
	for i := 0; i < extra; i++ {
		c := cmdCase{ackErrs: rng.Bool(), pre: []string{"ok", "ok", "ok", "marshal", "noop", "modify", "topic"}[rng.Intn(7)],
			pub: []string{"ok", "ok", "fail", "failh", "handled"}[rng.Intn(5)], res: str()}
		if strings.HasPrefix(c.res, "bad") {
			c.bad = true
		}
		if rng.Bool() {
			e := str() // includes the empty error text
			if rng.Bool() {
				e = str() + ": " + e
			}
			c.err = &e
			c.ekind = errKinds[rng.Intn(len(errKinds))]
		}
		out = append(out, c)
	}
	return out
}

// withRaceExitSleep sets GORACE's atexit_sleep_ms (default 1000: a race-instrumented process sleeps a second at exit,
// which would make every replayed corpus line cost a second for nothing).
func withRaceExitSleep(env []string, ms string) []string {
	out := make([]string, 0, len(env)+1)
	cur := ""
	for _, e := range env {
		if strings.HasPrefix(e, "GORACE=") {
			cur = e[len("GORACE="):]
			continue
		}
		out = append(out, e)
	}
	return append(out, strings.TrimSpace("GORACE="+cur+" atexit_sleep_ms="+ms))
}

func main() {
	a := wh.ParseArgs()
	if a.Replay != "" && !strings.Contains(os.Getenv("GORACE"), "atexit_sleep_ms=") {
		if exe, err := os.Executable(); err == nil {
			syscall.Exec(exe, os.Args, withRaceExitSleep(os.Environ(), "50")) // returns only on failure
		}
	}
	out := wh.NewOut(a.Out)
	defer out.Close()
	if a.Replay != "" {
		f := strings.Fields(a.Replay)
		switch {
		case len(f) > 0 && f[0] == "cmd":
			c, err := parseCmdCase(f)
			if err != nil {
				fmt.Fprintln(os.Stderr, "bad replay line:", err)
				os.Exit(2)
			}
			out.Case(c.Req(), runCmdCase(c))
		case len(f) > 1 && (f[0] == "top" || f[0] == "lst"):
			sc, err := ScenarioFromToken(f[1])
			if err != nil {
				fmt.Fprintln(os.Stderr, "bad replay line:", err)
				os.Exit(2)
			}
			Emit(out, Run(sc))
		default:
			fmt.Fprintln(os.Stderr, "bad replay line")
			os.Exit(2)
		}
		return
	}
	rng := wh.NewRng(a.Seed)
	extra, nrand := 200, 250
	if a.Thorough() {
		extra, nrand = 5000, 4000
	}
	for _, c := range cmdCases(rng, extra) {
		out.Case(c.Req(), runCmdCase(c))
		out.Count("cmd.pre=" + c.pre + ".pub=" + c.pub)
	}
	emit := func(sc Scenario) bool {
		Emit(out, Run(sc))
		if stuckTotal >= 3 {
			out.Note("stopped generating: three scenarios ran into the liveness bound")
			return false
		}
		return true
	}
	for _, sc := range fixedScenarios(rng, a.Thorough()) {
		if !emit(sc) {
			return
		}
	}
	for i := 0; i < nrand; i++ {
		if !emit(randomScenario(rng, 0, nil, nil)) {
			return
		}
	}
}
