// Harness for C02: drives handler.handleMessage / publishProducedMessages of the real message.Router with a
// scripted subscriber (a channel the harness feeds), a scripted handler and a scripted publisher that samples,
// INSIDE Publish, whether the consumed message is already settled.
//
//	REQ run <kind>/<topic hex>/<mws> <script>+        OBS <one word per message>
//
// kind: pub | dis | disdeco | nil; mws: - or a word over {p,o}; script: <self>.<result>.<pub>
// (see lean/Driver/C02.lean for the grammar of requests and observations).
//
// Barrier: after every handler invocation has ended the harness calls Router.Close(), which returns only after
// every handleMessage goroutine has finished (runningHandlersWg); only then the final settlement is read.
// No observation depends on sleeping.
package main

import (
	"bufio"
	"context"
	"errors"
	"fmt"
	"os"
	"os/exec"
	"runtime"
	"strconv"
	"strings"
	"sync"
	"sync/atomic"
	"syscall"
	"time"

	"github.com/ThreeDotsLabs/watermill"
	"github.com/ThreeDotsLabs/watermill/message"
	pkgerrors "github.com/pkg/errors"

	"wmverif/wh"
)

// ---------------------------------------------------------------- scripts

type script struct {
	self byte // '-', 'a', 'n' (settles inside the handler); 'A', 'N': a helper goroutine started by the handler settles, racing the Router's own Ack/Nack
	// error kinds: 'e' errors.New, 'c' context.Canceled, 'd' context.DeadlineExceeded, 'w' fmt.Errorf("%w") around
	// DeadlineExceeded, 'x' pkg/errors.Wrap around Canceled, 'u' custom error type, 'j' errors.Join(plain, DeadlineExceeded)
	// 's'/'S': like 'r', but the outputs are different objects with identical content: 's' empty UUID, no metadata, same
	// payload; 'S' copies (Message.Copy) of one message with UUID and metadata
	// 'q'/'Q': like 'r', but every output carries a context that is already cancelled / past its deadline
	kind   byte   // 'r' returns (nil slice when k = 0), 'z' returns an empty NON-NIL slice, 'e' plain error, 'c' context.Canceled, 'p' panics
	k      int    // number of outputs (r/e/c)
	pv     byte   // panic value: 'v' string, 'e' errors.New, 'n' nil, 'i' int, 's' struct value, 'b' []byte, 'c' custom error type, 'g' fmt.Stringer
	pub    string // ok | err | panic | rej<k>: refuse exactly the calls that contain output id k
	rej    int    // k of rej<k>, else -1
	source string
}

func parseScript(s string) (script, error) {
	f := strings.Split(s, ".")
	if len(f) != 3 || len(f[0]) < 1 || len(f[0]) > 2 || len(f[1]) < 2 {
		return script{}, fmt.Errorf("bad script %q", s)
	}
	sc := script{self: f[0][0], pub: f[2], source: s}
	if !strings.ContainsRune("-anAN", rune(sc.self)) {
		return sc, fmt.Errorf("bad self in %q", s)
	}
	if len(f[0]) == 2 {
		// Aw/Al/Nw/Nl: a recorded outcome of the race (helper won/lost); the race is run again on replay
		if (sc.self != 'A' && sc.self != 'N') || (f[0][1] != 'w' && f[0][1] != 'l') {
			return sc, fmt.Errorf("bad self in %q", s)
		}
		sc.source = f[0][:1] + "." + f[1] + "." + f[2]
	}
	switch f[1][0] {
	case 'p':
		sc.kind, sc.pv = 'p', f[1][1]
		if len(f[1]) != 2 || !strings.ContainsRune("venisbcg", rune(sc.pv)) {
			return sc, fmt.Errorf("bad panic in %q", s)
		}
	case 'r', 'e', 'c', 'z', 'd', 'w', 'x', 'u', 'j', 'q', 'Q', 's', 'S':
		sc.kind = f[1][0]
		k, err := strconv.Atoi(f[1][1:])
		if err != nil || k < 0 || k > 1000 {
			return sc, fmt.Errorf("bad count in %q", s)
		}
		sc.k = k
		if sc.kind == 'z' && k != 0 {
			return sc, fmt.Errorf("z takes 0 only in %q", s)
		}
	default:
		return sc, fmt.Errorf("bad result in %q", s)
	}
	sc.rej = -1
	if strings.HasPrefix(sc.pub, "rej") {
		k, err := strconv.Atoi(sc.pub[3:])
		if err != nil || k < 0 {
			return sc, fmt.Errorf("bad pub in %q", s)
		}
		sc.rej = k
	} else if sc.pub != "ok" && sc.pub != "err" && sc.pub != "panic" && sc.pub != "errc" && sc.pub != "errw" && sc.pub != "errd" && sc.pub != "erru" {
		return sc, fmt.Errorf("bad pub in %q", s)
	}
	return sc, nil
}

type config struct {
	kind  string // pub pubdeco dis disdeco nil nildeco
	topic string
	mws   string // "" or word over p,o,r (router level) and P,O,R (handler level)
	// nb: "" or a second handler on the same router that never gets a message: first letter E (registered with the
	// empty name) or N (named "other"), then its OWN handler-level middlewares: s swallows the error, x rejects, o adds
	// an output. With kind pub/pubdeco it has its own publisher instance of the same Go type as the main handler's.
	nb string
}

func (c config) String() string {
	m := c.mws
	if m == "" {
		m = "-"
	}
	if c.nb != "" {
		return c.kind + "/" + wh.HexS(c.topic) + "/" + m + "/" + c.nb
	}
	return c.kind + "/" + wh.HexS(c.topic) + "/" + m
}

func parseConfig(s string) (config, error) {
	f := strings.Split(s, "/")
	if len(f) != 3 && len(f) != 4 {
		return config{}, fmt.Errorf("bad config %q", s)
	}
	c := config{kind: f[0]}
	if len(f) == 4 {
		c.nb = f[3]
		if len(c.nb) < 1 || (c.nb[0] != 'E' && c.nb[0] != 'N') || strings.Trim(c.nb[1:], "sxo") != "" {
			return c, fmt.Errorf("bad neighbour in %q", s)
		}
	}
	if f[1] != "-" {
		b, err := hexDecode(f[1])
		if err != nil {
			return c, err
		}
		c.topic = string(b)
	}
	if f[2] != "-" {
		c.mws = f[2]
	}
	switch c.kind {
	case "pub", "pubdeco", "dis", "disdeco", "nil", "nildeco":
	default:
		return c, fmt.Errorf("bad kind %q", c.kind)
	}
	return c, nil
}

func hexDecode(s string) ([]byte, error) {
	if len(s)%2 != 0 {
		return nil, fmt.Errorf("bad hex")
	}
	out := make([]byte, len(s)/2)
	for i := range out {
		v, err := strconv.ParseUint(s[2*i:2*i+2], 16, 8)
		if err != nil {
			return nil, err
		}
		out[i] = byte(v)
	}
	return out, nil
}

// ---------------------------------------------------------------- per-message state

type msgState struct {
	idx     int
	msg     *message.Message
	sc      script
	mu      sync.Mutex
	events  []string
	gate    chan struct{} // the handler parks here until the harness releases it
	pubGate chan struct{} // the recording publisher parks here (inside Publish) until released
	inPub   chan struct{} // closed when Publish was entered for this message
	inPubO  sync.Once
	// race ('A'/'N'): the helper goroutine spins until raceGo is set (at the handler's return, or at the hook point
	// router.handle.before_settle), spins raceSpin more rounds and settles; helperWon = what its Ack()/Nack() returned
	raceGo     int32
	raceSpin   int
	raceAtHook bool
	raceOver   int32
	helperDone chan struct{}
	helperWon  bool
	entered    chan struct{}
	exited     chan struct{}
	enterO     sync.Once
	exitO      sync.Once
}

func (m *msgState) log(e string) {
	m.mu.Lock()
	m.events = append(m.events, e)
	m.mu.Unlock()
}

func closedCh(c <-chan struct{}) bool {
	select {
	case <-c:
		return true
	default:
		return false
	}
}

// sample reads the settlement state of a message without blocking.
func sample(m *message.Message) string {
	a, n := closedCh(m.Acked()), closedCh(m.Nacked())
	switch {
	case a && n:
		return "B"
	case a:
		return "a"
	case n:
		return "n"
	}
	return "-"
}

type outRef struct {
	st *msgState
	id int
}

type scenario struct {
	cfg     config
	msgs    []*msgState
	byMsg   sync.Map // *message.Message -> *msgState
	byOut   sync.Map // *message.Message -> outRef
	orphans int32    // Publish calls that could not be attributed to a consumed message
	yield   bool
}

// dynamic types a handler may pass to panic()
type panicStruct struct {
	A int
	B string
}
type panicErr struct{ code int }

func (e *panicErr) Error() string { return "custom error " + strconv.Itoa(e.code) }

type panicStringer struct{}

func (panicStringer) String() string { return "a fmt.Stringer" }

var spinSink uint64 // sum of the helpers' spin rounds (keeps the spin loops from being optimised away)

var errHandler = errors.New("handler failed")
var errPublish = errors.New("publish failed")

func (s *scenario) newOut(st *msgState, id int) *message.Message {
	o := message.NewMessage(fmt.Sprintf("m%d-o%d", st.idx, id), []byte("out"))
	s.byOut.Store(o, outRef{st, id})
	return o
}

// the scripted handler function
func (s *scenario) handler(msg *message.Message) ([]*message.Message, error) {
	v, ok := s.byMsg.Load(msg)
	if !ok {
		atomic.AddInt32(&s.orphans, 1)
		return nil, nil
	}
	st := v.(*msgState)
	st.log("H")
	st.enterO.Do(func() { close(st.entered) })
	<-st.gate
	defer st.exitO.Do(func() { close(st.exited) })
	switch st.sc.self {
	case 'A', 'N':
		go func() {
			defer close(st.helperDone)
			for n := 0; atomic.LoadInt32(&st.raceGo) == 0; n++ {
				if atomic.LoadInt32(&st.raceOver) != 0 {
					return
				}
				if n%4096 == 4095 {
					runtime.Gosched()
				}
			}
			var rounds uint64
			for i := 0; i < st.raceSpin; i++ {
				rounds += uint64(i) | 1
			}
			atomic.AddUint64(&spinSink, rounds)
			if st.sc.self == 'A' {
				st.helperWon = msg.Ack()
			} else {
				st.helperWon = msg.Nack()
			}
		}()
		if !st.raceAtHook {
			defer atomic.StoreInt32(&st.raceGo, 1) // runs after the handler's result is fixed, also when it panics
		}
	case 'a':
		msg.Ack()
		st.log("a")
	case 'n':
		msg.Nack()
		st.log("n")
	}
	if st.sc.kind == 'p' {
		switch st.sc.pv {
		case 'v':
			panic("handler panic value")
		case 'e':
			panic(errors.New("handler panic error"))
		case 'i':
			panic(42)
		case 's':
			panic(panicStruct{A: 7, B: "struct value"})
		case 'b':
			panic([]byte("byte slice"))
		case 'c':
			panic(&panicErr{code: 3})
		case 'g':
			panic(panicStringer{})
		default:
			var nothing interface{}
			panic(nothing) // panic(nil): *runtime.PanicNilError since go1.21
		}
	}
	var outs []*message.Message // nil when the script asks for no outputs …
	if st.sc.kind == 'z' {
		outs = []*message.Message{} // … unless it asks for an empty but non-nil slice
	}
	var template *message.Message
	for i := 0; i < st.sc.k; i++ {
		o := s.newOut(st, i)
		switch st.sc.kind {
		case 's': // a fan-out of identical commands: UUID is optional, the content is equal, the objects are not
			s.byOut.Delete(o)
			o = message.NewMessage("", []byte("tick"))
			s.byOut.Store(o, outRef{st, i})
		case 'S':
			s.byOut.Delete(o)
			if template == nil {
				template = message.NewMessage(fmt.Sprintf("m%d-same", st.idx), []byte("copied"))
				template.Metadata.Set("k", "v")
			}
			o = template.Copy()
			s.byOut.Store(o, outRef{st, i})
		case 'q': // the handler worked under a context it cancels when it is done (ctx, cancel := …; defer cancel())
			ctx, cancel := context.WithCancel(context.Background())
			cancel()
			o.SetContext(ctx)
		case 'Q': // … or under a deadline that has passed by the time it returns
			ctx, cancel := context.WithDeadline(context.Background(), time.Unix(1, 0))
			defer cancel()
			o.SetContext(ctx)
		}
		outs = append(outs, o)
	}
	switch st.sc.kind {
	case 'e':
		return outs, errHandler
	case 'c':
		return outs, context.Canceled
	case 'd':
		return outs, context.DeadlineExceeded
	case 'w':
		return outs, fmt.Errorf("handler gave up: %w", context.DeadlineExceeded)
	case 'x':
		return outs, pkgerrors.Wrap(context.Canceled, "handler interrupted")
	case 'u':
		return outs, &panicErr{code: 9}
	case 'j':
		return outs, errors.Join(errHandler, context.DeadlineExceeded)
	}
	return outs, nil
}

func (s *scenario) middleware(pos int, kind byte) message.HandlerMiddleware {
	if kind == 'p' {
		return func(h message.HandlerFunc) message.HandlerFunc {
			return func(msg *message.Message) ([]*message.Message, error) { return h(msg) }
		}
	}
	if kind == 'r' {
		// copies the outputs into a fresh slice: an empty but NON-NIL slice when the inner handler returned none
		return func(h message.HandlerFunc) message.HandlerFunc {
			return func(msg *message.Message) ([]*message.Message, error) {
				outs, err := h(msg)
				rebuilt := make(message.Messages, 0, len(outs))
				rebuilt = append(rebuilt, outs...)
				return rebuilt, err
			}
		}
	}
	return func(h message.HandlerFunc) message.HandlerFunc {
		return func(msg *message.Message) ([]*message.Message, error) {
			outs, err := h(msg)
			if v, ok := s.byMsg.Load(msg); ok {
				outs = append(outs, s.newOut(v.(*msgState), 100+pos))
			}
			return outs, err
		}
	}
}

// neighbourMiddleware: handler-level middlewares of the OTHER handler; if the Router composed them into the chain of
// handler "h" they would change its result (s: the error disappears, x: everything fails, o: one more output, id 900).
func (s *scenario) neighbourMiddleware(kind byte) message.HandlerMiddleware {
	return func(h message.HandlerFunc) message.HandlerFunc {
		return func(msg *message.Message) ([]*message.Message, error) {
			outs, err := h(msg)
			switch kind {
			case 's':
				return outs, nil
			case 'x':
				return nil, errors.New("rejected by the other handler's middleware")
			default:
				if v, ok := s.byMsg.Load(msg); ok {
					outs = append(outs, s.newOut(v.(*msgState), 900))
				}
				return outs, err
			}
		}
	}
}

// identify attributes a Publish call to the consumed message its outputs were produced for.
func (s *scenario) identify(msgs []*message.Message) (*msgState, string) {
	var st *msgState
	ids := make([]string, 0, len(msgs))
	for _, m := range msgs {
		v, ok := s.byOut.Load(m)
		if !ok {
			ids = append(ids, "998") // an object the handler chain never returned
			continue
		}
		r := v.(outRef)
		if st == nil {
			st = r.st
		}
		if r.st != st {
			ids = append(ids, "999") // output of another consumed message
			continue
		}
		ids = append(ids, strconv.Itoa(r.id))
	}
	if st == nil && len(s.msgs) == 1 {
		st = s.msgs[0] // a single message in flight: an empty or foreign call can only be its own
	}
	if len(ids) == 0 {
		return st, "-"
	}
	return st, strings.Join(ids, ".")
}

// recPub records every Publish call that reaches the handler's publisher and how it ends.
type recPub struct {
	s       *scenario
	inner   message.Publisher
	foreign bool // the publisher of the OTHER handler of the router: accepts everything, logs W instead of P/R
}

// passPub is what a pass-through publisher decorator returns.
type passPub struct{ message.Publisher }

func (p *recPub) Publish(topic string, msgs ...*message.Message) (err error) {
	st, ids := p.s.identify(msgs)
	if p.foreign {
		if st == nil {
			atomic.AddInt32(&p.s.orphans, 1)
		} else {
			st.log("W" + wh.HexS(topic) + "/" + ids) // outputs of this message went to another handler's publisher
		}
		return nil
	}
	if st == nil {
		atomic.AddInt32(&p.s.orphans, 1)
		return p.inner.Publish(topic, msgs...)
	}
	st.log("P" + wh.HexS(topic) + "/" + ids + "/" + sample(st.msg))
	st.inPubO.Do(func() { close(st.inPub) })
	<-st.pubGate
	if p.s.yield {
		runtime.Gosched()
	}
	defer func() {
		if r := recover(); r != nil {
			st.log("Rpanic/" + sample(st.msg))
			panic(r)
		}
	}()
	err = p.inner.Publish(topic, msgs...)
	if p.s.yield {
		runtime.Gosched()
	}
	switch {
	case err == nil:
		st.log("Rok/" + sample(st.msg))
	case errors.Is(err, message.ErrOutputInNoPublisherHandler):
		st.log("Rnopub/" + sample(st.msg))
	default:
		st.log("Rerr/" + sample(st.msg))
	}
	return err
}

func (p *recPub) Close() error { return p.inner.Close() }

// scriptPub behaves as the script of the consumed message says.
type scriptPub struct{ s *scenario }

func (p *scriptPub) Publish(topic string, msgs ...*message.Message) error {
	st, ids := p.s.identify(msgs)
	if st == nil {
		return nil
	}
	if st.sc.rej >= 0 {
		for _, id := range strings.Split(ids, ".") {
			if id == strconv.Itoa(st.sc.rej) {
				return errPublish // this call contains the output the publisher refuses
			}
		}
		return nil
	}
	switch st.sc.pub {
	case "err":
		return errPublish
	case "errc": // what a context-aware publisher returns when the context of the message it is given is finished
		return context.Canceled
	case "errw":
		return fmt.Errorf("cannot publish %d messages to %q: %w", len(msgs), topic, context.Canceled)
	case "errd":
		return pkgerrors.Wrap(context.DeadlineExceeded, "publish timed out")
	case "erru":
		return &panicErr{code: 5}
	case "panic":
		panic("publisher panic")
	}
	return nil
}

func (p *scriptPub) Close() error { return nil }

// scripted subscriber: one channel the harness feeds.
//
// late mode (a subscriber that still holds messages when it is told to stop, e.g. a prefetch buffer): when the
// context given to Subscribe is cancelled – Handler.Stop(), cancel of Run's context, Router.Close() – it hands out the
// messages in `late` and only then closes its channel; Close() waits for that.
type scriptSub struct {
	ch       chan *message.Message
	once     sync.Once
	lateMode bool
	late     []*message.Message
	finished chan struct{} // late mode: the late messages were handed over and the channel is closed
	raw      bool          // late mode: do not wait until the Router's receive loop has taken the late messages
	lateRecv []chan struct{}
	sawDone  int32 // late mode: the context was cancelled before the late messages were handed out
}

func (s *scriptSub) Subscribe(ctx context.Context, topic string) (<-chan *message.Message, error) {
	if s.lateMode {
		go func() {
			defer close(s.finished)
			defer s.once.Do(func() { close(s.ch) })
			t := time.NewTimer(waitLimit())
			select {
			case <-ctx.Done():
				atomic.StoreInt32(&s.sawDone, 1)
				t.Stop()
			case <-t.C:
				atomic.StoreInt32(&degraded, 1)
				atomic.AddInt32(&expired, 1)
			}
			for _, m := range s.late {
				t := time.NewTimer(waitLimit())
				select {
				case s.ch <- m:
					t.Stop()
				case <-t.C:
					atomic.StoreInt32(&degraded, 1)
					atomic.AddInt32(&expired, 1)
					return
				}
			}
			// A message is "taken by the Router" for this check once its receive loop has it (router.run.received).
			// Until then it sits in the Router's own subscriber decorator, which – since the fix that keeps its Close from
			// hanging – drops what it holds when Close arrives (see checks/c02.findings.json); closing our channel only
			// afterwards keeps that window out of this scenario.
			if !s.raw {
				for _, c := range s.lateRecv {
					waitCh(c)
				}
			}
		}()
	}
	return s.ch, nil
}

func (s *scriptSub) Close() error {
	if s.lateMode {
		waitCh(s.finished)
		return nil
	}
	s.once.Do(func() { close(s.ch) })
	return nil
}

// lateSpec: stop the handler / cancel Run's context / close the router after the first nEarly messages were fed;
// the subscriber then hands out the remaining messages. hold: the early messages are still inside their handlers then.
type lateSpec struct {
	how    string // stop | cancel | close
	hold   bool
	nEarly int
	raw    bool // request word lateraw: reproduction of the decorator's drop-on-close window, never generated
}

func (l *lateSpec) word() string {
	if l.raw {
		return "lateraw"
	}
	return "late"
}

func (l *lateSpec) String() string {
	h := "-"
	if l.hold {
		h = "h"
	}
	return l.how + " " + h + " " + strconv.Itoa(l.nEarly)
}

// ---------------------------------------------------------------- output

// emitter is what the generators write to: the case file (parent) or the pipe to the parent (child).
type emitter interface {
	Case(req, obs string)
	Count(key string)
	Add(key string, n int)
	Note(text string)
}

// childOut prints every event as one line on stdout, unbuffered: the parent survives a crash of the code under
// test (an unrecovered panic in a Router goroutine kills the process) and knows which request was running.
type childOut struct{ mu sync.Mutex }

func (c *childOut) line(s string) {
	c.mu.Lock()
	os.Stdout.WriteString(strings.ReplaceAll(s, "\n", " ") + "\n")
	c.mu.Unlock()
}
func (c *childOut) Begin(req string)      { c.line("REQ " + req) }
func (c *childOut) Case(req, obs string)  { c.line("REQ " + req); c.line("OBS " + obs) }
func (c *childOut) Count(key string)      { c.Add(key, 1) }
func (c *childOut) Add(key string, n int) { c.line("ADD " + key + " " + strconv.Itoa(n)) }
func (c *childOut) Note(text string)      { c.line("NOTE " + text) }

// begin announces the request that is about to run (child only).
func begin(out emitter, req string) {
	if c, ok := out.(*childOut); ok {
		c.Begin(req)
	}
}

// ---------------------------------------------------------------- running one scenario

var scenarioCtr uint64

var degraded int32 // set after the first expired wait: later waits are short (a failure is already certain)
var expired int32  // number of expired waits; the run stops generating after a few (every one is already a reported failure)

const maxExpired = 6

func giveUp() bool { return atomic.LoadInt32(&expired) >= maxExpired }

func waitLimit() time.Duration {
	if atomic.LoadInt32(&degraded) != 0 {
		return 300 * time.Millisecond
	}
	return 30 * time.Second
}

func waitCh(c <-chan struct{}, more ...<-chan struct{}) bool {
	t := time.NewTimer(waitLimit())
	defer t.Stop()
	var c1, c2 <-chan struct{}
	if len(more) > 0 {
		c1 = more[0]
	}
	if len(more) > 1 {
		c2 = more[1]
	}
	select {
	case <-c:
		return true
	case <-c1:
		return true
	case <-c2:
		return true
	case <-t.C:
		atomic.StoreInt32(&degraded, 1)
		atomic.AddInt32(&expired, 1)
		return false
	}
}

// runScenario returns the observation (one word per message, plus X<n> when Publish calls could not be attributed).
func runScenario(out emitter, cfg config, scripts []script, rng *wh.Rng, yield bool) string {
	return runScenarioLate(out, cfg, scripts, rng, yield, nil)
}

func runScenarioLate(out emitter, cfg config, scripts []script, rng *wh.Rng, yield bool, late *lateSpec) string {
	s := &scenario{cfg: cfg, yield: yield}
	n := len(scripts)
	scenarioNo := atomic.AddUint64(&scenarioCtr, 1)
	for i, sc := range scripts {
		st := &msgState{idx: i, sc: sc, gate: make(chan struct{}), entered: make(chan struct{}), exited: make(chan struct{}),
			pubGate: make(chan struct{}), inPub: make(chan struct{}), helperDone: make(chan struct{})}
		if sc.self == 'A' || sc.self == 'N' {
			// the window between the two settle calls is tens of nanoseconds wide: vary the helper's start by 0..~2000 rounds
			st.raceSpin = rng.Intn(1 + []int{0, 8, 64, 300, 2000}[rng.Intn(5)])
			// the Router's Ack is preceded by a hook point, its Nack is not
			st.raceAtHook = sc.self == 'N' && rng.Intn(3) != 0
		}
		st.msg = message.NewMessage(fmt.Sprintf("s%d-m%d", scenarioNo, i), []byte("in"))
		s.msgs = append(s.msgs, st)
		s.byMsg.Store(st.msg, st)
		if st.raceAtHook {
			raceAt.Store(st.msg.UUID, st)
		}
	}
	closeTimeout := 30 * time.Second
	if atomic.LoadInt32(&degraded) != 0 {
		closeTimeout = time.Second
	}
	r, err := message.NewRouter(message.RouterConfig{CloseTimeout: closeTimeout}, watermill.NopLogger{})
	if err != nil {
		out.Note("NewRouter: " + err.Error())
		return "setup-failed"
	}
	sub := &scriptSub{ch: make(chan *message.Message), finished: make(chan struct{})}
	if late != nil {
		sub.lateMode, sub.raw = true, late.raw
		for _, st := range s.msgs[late.nEarly:] {
			sub.late = append(sub.late, st.msg)
			sub.lateRecv = append(sub.lateRecv, expectReceived(st.msg.UUID))
		}
	}
	var hd *message.Handler
	switch cfg.kind {
	case "pub", "pubdeco":
		if cfg.kind == "pubdeco" {
			r.AddPublisherDecorators(func(p message.Publisher) (message.Publisher, error) { return passPub{p}, nil })
		}
		hd = r.AddHandler("h", "in", sub, cfg.topic, &recPub{s: s, inner: &scriptPub{s}}, s.handler)
	case "nil", "nildeco":
		if cfg.kind == "nildeco" {
			// a publisher decorator is configured, but this handler has no publisher: nothing to decorate, still no publisher
			r.AddPublisherDecorators(func(p message.Publisher) (message.Publisher, error) { return passPub{p}, nil })
		}
		hd = r.AddHandler("h", "in", sub, cfg.topic, nil, s.handler)
	case "dis", "disdeco":
		if cfg.kind == "disdeco" {
			r.AddPublisherDecorators(func(p message.Publisher) (message.Publisher, error) {
				return &recPub{s: s, inner: p}, nil
			})
		}
		hd = r.AddNoPublisherHandler("h", "in", sub, func(msg *message.Message) error {
			_, err := s.handler(msg)
			return err
		})
	}
	// the neighbour: a second handler that never receives anything; nothing of it may influence handler "h"
	var nbSub *scriptSub
	if cfg.nb != "" {
		name := "other"
		if cfg.nb[0] == 'E' {
			name = "" // a legal handler name
		}
		nbSub = &scriptSub{ch: make(chan *message.Message), finished: make(chan struct{})}
		nbFunc := func(msg *message.Message) ([]*message.Message, error) { return nil, nil }
		var nh *message.Handler
		if cfg.kind == "pub" || cfg.kind == "pubdeco" {
			nh = r.AddHandler(name, "other-in", nbSub, "other-out", &recPub{s: s, inner: &scriptPub{s}, foreign: true}, nbFunc)
		} else {
			nh = r.AddNoPublisherHandler(name, "other-in", nbSub, func(msg *message.Message) error { return nil })
		}
		for i := 1; i < len(cfg.nb); i++ {
			nh.AddMiddleware(s.neighbourMiddleware(cfg.nb[i]))
		}
	}
	// middlewares in registration order; lower case = router level, upper case = handler level (same list in the Router)
	for i := 0; i < len(cfg.mws); i++ {
		switch k := cfg.mws[i]; k {
		case 'p', 'o', 'r':
			r.AddMiddleware(s.middleware(i, k))
		case 'P', 'O', 'R':
			hd.AddMiddleware(s.middleware(i, k+('a'-'A')))
		}
	}
	runDone := make(chan struct{})
	var runErr error
	runCtx, cancelRun := context.WithCancel(context.Background())
	defer cancelRun()
	go func() {
		runErr = r.Run(runCtx)
		close(runDone)
	}()
	if !waitCh(r.Running(), runDone) {
		out.Note("router did not start")
	}
	var closeDone chan struct{}
	var closeErr error
	if late != nil {
		for i, st := range s.msgs {
			close(st.pubGate)
			if i >= late.nEarly || !late.hold {
				close(st.gate)
			}
		}
		for _, st := range s.msgs[:late.nEarly] {
			t := time.NewTimer(waitLimit())
			select {
			case sub.ch <- st.msg:
				t.Stop()
			case <-t.C:
				atomic.StoreInt32(&degraded, 1)
				atomic.AddInt32(&expired, 1)
			}
		}
		for _, st := range s.msgs[:late.nEarly] {
			if late.hold {
				waitCh(st.entered) // still inside its handler when the stop arrives
			} else {
				waitCh(st.exited, st.msg.Acked(), st.msg.Nacked())
			}
		}
		switch late.how {
		case "stop":
			hd.Stop()
		case "cancel":
			cancelRun()
		case "close":
			closeDone = make(chan struct{})
			go func() {
				closeErr = r.Close()
				close(closeDone)
			}()
		}
		// the subscriber sees its context cancelled, hands out the late messages and closes its channel; everything it
		// handed out has been taken by the Router when this returns (Router.Close below is the barrier for the rest)
		waitCh(sub.finished)
		if atomic.LoadInt32(&sub.sawDone) == 0 {
			out.Note("late " + late.String() + ": the subscriber's context was not cancelled")
		}
		if late.hold {
			for _, st := range s.msgs[:late.nEarly] {
				close(st.gate)
			}
		}
	}
	// single message: gates open from the start; batch: all handlers parked at the gate, released in seeded order,
	// and (every other batch) all publishing messages parked inside Publish together before any of them may go on
	gatePub := late == nil && n > 1 && rng.Intn(2) == 0
	if late == nil && n == 1 {
		close(s.msgs[0].gate)
	}
	if late == nil && !gatePub {
		for _, st := range s.msgs {
			close(st.pubGate)
		}
	}
	fed := make(chan struct{})
	go func() {
		defer close(fed)
		if late != nil {
			return
		}
		for _, st := range s.msgs {
			t := time.NewTimer(waitLimit())
			select {
			case sub.ch <- st.msg:
				t.Stop()
			case <-t.C:
				atomic.StoreInt32(&degraded, 1)
				return
			}
		}
	}()
	<-fed
	if late == nil && n > 1 {
		inflight := 0
		for _, st := range s.msgs {
			if waitCh(st.entered) {
				inflight++
			}
		}
		out.Add("batch.in_flight_together", inflight)
		order := make([]int, n)
		for i := range order {
			order[i] = i
		}
		for i := n - 1; i > 0; i-- {
			j := rng.Intn(i + 1)
			order[i], order[j] = order[j], order[i]
		}
		for _, i := range order {
			st := s.msgs[i]
			close(st.gate)
			if rng.Intn(2) == 0 {
				waitCh(st.exited, st.msg.Acked(), st.msg.Nacked()) // this one ends before the next is released
			} else if yield {
				runtime.Gosched()
			}
		}
		if gatePub {
			inside := 0
			for _, st := range s.msgs {
				waitCh(st.inPub, st.msg.Acked(), st.msg.Nacked()) // parked inside Publish, or settled without publishing
				if closedCh(st.inPub) {
					inside++
				}
			}
			out.Add("batch.inside_publish_together", inside)
			out.Count("batch.publish_gated")
			for i := n - 1; i > 0; i-- {
				j := rng.Intn(i + 1)
				order[i], order[j] = order[j], order[i]
			}
			for _, i := range order {
				st := s.msgs[i]
				close(st.pubGate)
				if rng.Intn(2) == 0 {
					waitCh(st.msg.Acked(), st.msg.Nacked())
				} else if yield {
					runtime.Gosched()
				}
			}
		}
	}
	for _, st := range s.msgs {
		if late != nil {
			break // a late message the Router drops never reaches a handler: Router.Close() alone is the barrier
		}
		if !waitCh(st.exited, st.msg.Acked(), st.msg.Nacked()) {
			out.Note(fmt.Sprintf("message %d of %s %s: handler neither ended nor was the message settled", st.idx, cfg, st.sc.source))
		}
	}
	closedOK := true
	if closeDone != nil {
		t := time.NewTimer(closeTimeout + 10*time.Second)
		select {
		case <-closeDone:
			t.Stop()
			if closeErr != nil {
				closedOK = false
				out.Note("Router.Close: " + closeErr.Error())
			}
		case <-t.C:
			closedOK = false
			out.Note("Router.Close did not return")
		}
		if !closedOK {
			atomic.StoreInt32(&degraded, 1)
			atomic.AddInt32(&expired, 1)
		}
	} else if err := r.Close(); err != nil {
		closedOK = false
		atomic.StoreInt32(&degraded, 1)
		atomic.AddInt32(&expired, 1)
		out.Note("Router.Close: " + err.Error())
	}
	if !waitCh(runDone) {
		out.Note("Router.Run did not return")
	} else if runErr != nil {
		out.Note("Router.Run: " + runErr.Error())
	}
	for i, st := range s.msgs {
		if st.sc.self != 'A' && st.sc.self != 'N' {
			continue
		}
		atomic.StoreInt32(&st.raceGo, 1) // a handler that was released at the hook but never got there
		select {
		case <-st.entered:
			waitCh(st.helperDone)
		default: // handler never called: no helper
		}
		atomic.StoreInt32(&st.raceOver, 1)
		raceAt.Delete(st.msg.UUID)
		// the outcome of the race becomes part of the request: the model checks, it cannot predict
		mark := "l"
		if closedCh(st.helperDone) && st.helperWon {
			mark = "w"
		}
		scripts[i].source = string(st.sc.self) + mark + st.sc.source[1:]
	}
	words := make([]string, 0, n+1)
	for _, st := range s.msgs {
		st.mu.Lock()
		ev := append([]string{}, st.events...)
		st.mu.Unlock()
		ev = append(ev, "F"+sample(st.msg))
		if closedOK {
			ev = append(ev, "D") // Router.Close() returned nil: every handleMessage called runningHandlersWg.Done()
		}
		words = append(words, strings.Join(ev, ";"))
	}
	if o := atomic.LoadInt32(&s.orphans); o > 0 {
		words = append(words, "X"+strconv.Itoa(int(o)))
	}
	return strings.Join(words, " ")
}

func reqOf(cfg config, scripts []script) string {
	parts := []string{"run", cfg.String()}
	for _, sc := range scripts {
		parts = append(parts, sc.source)
	}
	return strings.Join(parts, " ")
}

func lateReqOf(l *lateSpec, cfg config, scripts []script) string {
	parts := []string{l.word(), l.String(), cfg.String()}
	for _, sc := range scripts {
		parts = append(parts, sc.source)
	}
	return strings.Join(parts, " ")
}

// lates: stop / cancel / close arrives, then the subscriber hands out one or two more messages.
func lates(out emitter, rng *wh.Rng, yield bool) {
	lateScripts := [][]string{
		{"-.r0.ok"}, {"-.r2.ok"}, {"-.e1.ok"}, {"-.pv.ok"}, {"a.r1.err"}, {"n.r1.ok"}, {"-.r2.rej1"}, {"-.r1.panic"},
		{"-.r1.ok", "-.pi.ok"}, {"-.z0.ok", "n.e0.ok"},
	}
	i := 0
	for _, how := range []string{"stop", "cancel", "close"} {
		for _, hold := range []bool{false, true} {
			for _, kind := range []string{"pub", "nil", "dis", "disdeco"} {
				for _, mws := range []string{"", "o", "rP"} {
					for _, ls := range lateScripts {
						if giveUp() {
							return
						}
						cfg := config{kind: kind, mws: mws}
						if kind == "pub" || kind == "nil" {
							cfg.topic = "out"
						}
						l := &lateSpec{how: how, hold: hold, nEarly: i % 3}
						i++
						var scripts []script
						for e := 0; e < l.nEarly; e++ {
							scripts = append(scripts, scriptFor(kind, []string{"-.r1.ok", "a.r0.ok", "-.e0.ok"}[(i+e)%3]))
						}
						for _, w := range ls {
							scripts = append(scripts, scriptFor(kind, w))
						}
						req := lateReqOf(l, cfg, scripts)
						begin(out, req)
						obs := runScenarioLate(out, cfg, scripts, rng, yield, l)
						out.Case(lateReqOf(l, cfg, scripts), obs)
						out.Count("late.how." + how)
						if hold && l.nEarly > 0 {
							out.Count("late.early_still_in_handler")
						}
						out.Add("late.messages_after_cancel", len(ls))
						for _, sc := range scripts[l.nEarly:] {
							count(out, cfg, sc, true)
						}
					}
				}
			}
		}
	}
}

// neighbours: a second handler on the same router (empty or ordinary name, own handler-level middlewares, own publisher
// instance of the same Go type) must not influence how handler "h" handles and settles its messages.
func neighbours(out emitter, rng *wh.Rng, yield bool, kinds []string) {
	for rep := 0; rep < 3; rep++ { // RunHandlers starts the handlers in map order: repeat, both orders must be right
		for _, kind := range kinds {
			for _, nb := range []string{"E", "Es", "Ex", "Eo", "Esx", "N", "Ns", "Nx", "No"} {
				for _, mws := range []string{"", "oP"} {
					for _, w := range []string{"-.r0.ok", "-.r2.ok", "-.r2.err", "-.e2.ok", "-.e0.ok", "n.r1.ok", "-.pv.ok", "-.r3.rej1"} {
						if giveUp() {
							return
						}
						cfg := config{kind: kind, mws: mws, nb: nb}
						if kind != "dis" && kind != "disdeco" {
							cfg.topic = "out"
						}
						k := kind
						if k == "pubdeco" {
							k = "pub"
						}
						if k == "nildeco" {
							k = "nil"
						}
						scs := []script{scriptFor(k, w)}
						begin(out, reqOf(cfg, scs))
						obs := runScenario(out, cfg, scs, rng, yield)
						out.Case(reqOf(cfg, scs), obs)
						out.Count("neighbour." + kind + "." + nb[:1])
					}
				}
			}
		}
	}
}

// bigOutputs: one handler invocation returning around and above 100 / 200 / 1000 messages.
func bigOutputs(out emitter, rng *wh.Rng, yield bool, sizes []int) {
	for _, k := range sizes {
		for _, kind := range []string{"pub", "pubdeco", "nil"} {
			for _, pb := range []string{"ok", "rej0", "rej" + wh.Itoa(k-1), "err"} {
				if giveUp() {
					return
				}
				if kind != "pub" && kind != "pubdeco" && pb != "ok" {
					continue
				}
				cfg := config{kind: kind, mws: rng.Pick("", "p", "r", "R")}
				res := "r" + wh.Itoa(k)
				cfg.topic = "out"
				scs := []script{mustScript("-." + res + "." + pb)}
				begin(out, reqOf(cfg, scs))
				obs := runScenario(out, cfg, scs, rng, yield)
				out.Case(reqOf(cfg, scs), obs)
				out.Count("big_output." + res)
			}
		}
	}
}

// races: the handler starts a helper goroutine that settles the message the other way at the very moment the Router
// settles it (helper Nack against the Router's Ack, helper Ack against the Router's Nack). No Publish is involved.
func races(out emitter, rng *wh.Rng, count_ int, yield bool) {
	for b := 0; b < count_; b++ {
		if giveUp() {
			return
		}
		kind := rng.Pick("pub", "pub", "nil", "dis", "disdeco")
		cfg := config{kind: kind, mws: rng.Pick("", "", "p", "P", "r", "R", "pr")}
		if kind == "pub" || kind == "nil" {
			cfg.topic = "out"
		}
		n := 32
		scripts := make([]script, n)
		for i := range scripts {
			var w string
			if rng.Intn(2) == 0 {
				w = "N." + rng.Pick("r0", "r0", "z0") + ".ok" // Router acks, helper nacks
			} else {
				w = "A." + rng.Pick("e0", "c0", "d0", "u0", "pv", "pi", "pe") + ".ok" // Router nacks, helper acks
			}
			scripts[i] = scriptFor(kind, w)
		}
		begin(out, reqOf(cfg, scripts))
		obs := runScenario(out, cfg, scripts, rng, yield)
		out.Case(reqOf(cfg, scripts), obs)
		out.Count("race.batches")
		for _, sc := range scripts {
			out.Count("race.helper_" + string(sc.source[0]) + "_" + map[byte]string{'w': "won", 'l': "lost"}[sc.source[1]])
		}
	}
}

// scriptFor adapts a script to the handler kind: a NoPublishHandlerFunc cannot return messages, and only a real
// publisher is ever consulted.
func scriptFor(kind, w string) script {
	sc := mustScript(w)
	if kind == "dis" || kind == "disdeco" {
		if sc.kind != 'p' && sc.k > 0 {
			w = strings.Replace(w, "."+string(sc.kind)+strconv.Itoa(sc.k)+".", "."+string(sc.kind)+"0.", 1)
		}
		if sc.kind == 'z' {
			w = strings.Replace(w, ".z0.", ".r0.", 1)
		}
	}
	if kind != "pub" {
		f := strings.Split(w, ".")
		w = f[0] + "." + f[1] + ".ok"
	}
	return mustScript(w)
}

func mustScript(s string) script {
	sc, err := parseScript(s)
	if err != nil {
		panic(err)
	}
	return sc
}

// ---------------------------------------------------------------- generators

var mwPrefixes = []string{"", "p", "o", "po", "op", "oo", "P", "O", "pO", "Op", "r", "R", "ro", "or"}
var topics = []string{"out", "", "topic with space/and.slash", "out"}

func resultsFor(kind string) []string {
	if kind == "dis" || kind == "disdeco" {
		// a NoPublishHandlerFunc cannot return messages; outputs come from output-adding middleware only
		return []string{"r0", "e0", "c0", "d0", "w0", "x0", "u0", "j0", "pv", "pe", "pn", "pi", "ps", "pb", "pc", "pg"}
	}
	return []string{"r0", "z0", "r1", "r3", "s3", "S2", "q1", "Q2", "e0", "e1", "e3", "c0", "c2", "d0", "w1", "x0", "u2", "j0", "pv", "pe", "pn", "pi", "ps", "pb", "pc", "pg"}
}

func pubsFor(kind, res string) []string {
	if kind == "pub" && res[0] == 'p' {
		return []string{"ok", "panic"} // the publisher is never reached after a handler panic
	}
	if kind == "pub" {
		// rej<k>: the verdict depends on the messages of the call – every handler output position and a middleware output
		return []string{"ok", "err", "errc", "errw", "errd", "erru", "panic", "rej0", "rej1", "rej2", "rej100", "rej101"}
	}
	return []string{"ok"} // the script's publisher behaviour is never consulted
}

func count(out emitter, cfg config, sc script, batch bool) {
	p := "one."
	if batch {
		p = "batch."
	}
	out.Count(p + "kind." + cfg.kind)
	m := cfg.mws
	if m == "" {
		m = "-"
	}
	out.Count(p + "mws." + m)
	out.Count(p + "self." + string(sc.self))
	res := string(sc.kind)
	if sc.kind == 'p' {
		res += string(sc.pv)
	} else if sc.kind == 'z' {
		res = "z0(empty-non-nil)"
	} else {
		switch {
		case sc.k == 0:
			res += "0"
		case sc.k == 1:
			res += "1"
		default:
			res += "n"
		}
	}
	out.Count(p + "result." + res)
	if cfg.kind == "pub" {
		if sc.rej >= 0 {
			out.Count(p + "pub.rej<k>")
		} else {
			out.Count(p + "pub." + sc.pub)
		}
	}
}

func matrix(out emitter, rng *wh.Rng, yield bool) {
	ti := 0
	for _, kind := range []string{"pub", "nil", "dis", "disdeco"} {
		for _, mws := range mwPrefixes {
			for _, self := range []string{"-", "a", "n"} {
				for _, res := range resultsFor(kind) {
					for _, pb := range pubsFor(kind, res) {
						cfg := config{kind: kind, mws: mws}
						if kind == "pub" || kind == "nil" {
							cfg.topic = topics[ti%len(topics)]
							ti++
						}
						sc := mustScript(self + "." + res + "." + pb)
						if giveUp() {
							return
						}
						begin(out, reqOf(cfg, []script{sc}))
						scs := []script{sc}
						obs := runScenario(out, cfg, scs, rng, yield)
						out.Case(reqOf(cfg, scs), obs)
						count(out, cfg, sc, false)
					}
				}
			}
		}
	}
}

func randomScript(rng *wh.Rng, kind string) script {
	self := rng.Pick("-", "-", "-", "a", "n")
	var res string
	if kind == "dis" || kind == "disdeco" {
		res = rng.Pick("r0", "r0", "r0", "e0", "c0", "d0", "w0", "x0", "u0", "j0", "pv", "pe", "pn", "pi", "ps", "pb", "pc", "pg")
	} else {
		switch rng.Intn(10) {
		case 0:
			res = rng.Pick("pv", "pe", "pn", "pi", "ps", "pb", "pc", "pg")
		case 1:
			res = rng.Pick("e", "c", "d", "w", "x", "u", "j") + wh.Itoa(rng.Intn(4))
		case 2:
			res = rng.Pick("r0", "z0")
		default:
			res = rng.Pick("r", "r", "r", "q", "Q", "s", "S") + wh.Itoa(1+rng.Intn(5))
		}
	}
	pb := "ok"
	if kind == "pub" || kind == "pubdeco" {
		pb = rng.Pick("ok", "ok", "ok", "err", "errc", "errw", "errd", "erru", "panic", "rej"+wh.Itoa(rng.Intn(5)), "rej"+wh.Itoa(100+rng.Intn(2)))
	}
	return mustScript(self + "." + res + "." + pb)
}

func batches(out emitter, rng *wh.Rng, count_ int, yield bool) {
	for b := 0; b < count_; b++ {
		kind := rng.Pick("pub", "pub", "pub", "pubdeco", "nil", "dis", "disdeco")
		cfg := config{kind: kind, mws: mwPrefixes[rng.Intn(len(mwPrefixes))]}
		if kind != "dis" && kind != "disdeco" {
			cfg.topic = topics[rng.Intn(len(topics))]
		}
		n := 2 + rng.Intn(63)
		switch b % 5 {
		case 0:
			n = 2 + rng.Intn(3)
		case 1:
			n = 64
		}
		scripts := make([]script, n)
		for i := range scripts {
			scripts[i] = randomScript(rng, kind)
			count(out, cfg, scripts[i], true)
		}
		if giveUp() {
			return
		}
		begin(out, reqOf(cfg, scripts))
		obs := runScenario(out, cfg, scripts, rng, yield)
		out.Case(reqOf(cfg, scripts), obs) // after the run: racing scripts are annotated with the outcome of the race
		out.Count("batch.count")
		out.Add("batch.messages", n)
		switch {
		case n <= 4:
			out.Count("batch.size.2-4")
		case n <= 16:
			out.Count("batch.size.5-16")
		case n < 64:
			out.Count("batch.size.17-63")
		default:
			out.Count("batch.size.64")
		}
	}
}

var hookCtr uint64

var yieldSeed uint64
var yieldOn int32

// received: message UUID -> channel closed when the receive loop of the Router has taken that message
// (hook point router.run.received, right after `for msg := range h.messagesCh`).
var received sync.Map

// raceAt: message UUID -> *msgState whose helper is released at router.handle.before_settle
var raceAt sync.Map

func expectReceived(uuid string) chan struct{} {
	c := make(chan struct{})
	received.Store(uuid, c)
	return c
}

// installHook: always records router.run.received; after installYieldHook also injects yields at the handle.* points.
func installHook() {
	message.SetVerifHook(func(name string, args ...string) {
		if name == "router.run.received" && len(args) >= 2 {
			if c, ok := received.LoadAndDelete(args[1]); ok {
				close(c.(chan struct{}))
			}
			return
		}
		if name == "router.handle.before_settle" && len(args) >= 2 {
			if v, ok := raceAt.LoadAndDelete(args[1]); ok {
				// the Router is about to Ack: let the helper's Nack go at the same moment
				atomic.StoreInt32(&v.(*msgState).raceGo, 1)
				return
			}
		}
		if atomic.LoadInt32(&yieldOn) == 0 {
			return
		}
		if name != "router.handle.before_publish" && name != "router.handle.before_settle" && name != "router.handle.start" {
			return
		}
		x := wh.NewRng(atomic.LoadUint64(&yieldSeed) ^ atomic.AddUint64(&hookCtr, 1)).Next()
		switch x % 8 {
		case 0, 1, 2:
			runtime.Gosched()
		case 3:
			time.Sleep(time.Duration(x>>8%200) * time.Microsecond)
		}
	})
}

func installYieldHook(seed uint64) {
	atomic.StoreUint64(&yieldSeed, seed)
	atomic.StoreInt32(&yieldOn, 1)
}

const childEnv = "WMVERIF_C02_CHILD"

// parent: runs the generators in a child process and relays its lines into the case file. A request the child
// died in (unrecovered panic in the code under test, deadlock abort) becomes the observation "crashed".
func parent(a wh.Args) {
	out := wh.NewOut(a.Out)
	defer out.Close()
	cmd := exec.Command(os.Args[0], os.Args[1:]...)
	cmd.Env = append(withRaceExitSleep(os.Environ(), "50"), childEnv+"=1")
	cmd.Stderr = os.Stderr
	pipe, err := cmd.StdoutPipe()
	if err != nil {
		fmt.Fprintln(os.Stderr, err)
		os.Exit(2)
	}
	if err := cmd.Start(); err != nil {
		fmt.Fprintln(os.Stderr, err)
		os.Exit(2)
	}
	sc := bufio.NewScanner(pipe)
	sc.Buffer(make([]byte, 1<<20), 1<<26)
	pending := ""
	for sc.Scan() {
		l := sc.Text()
		switch {
		case strings.HasPrefix(l, "REQ "):
			pending = l[4:]
		case strings.HasPrefix(l, "OBS ") && pending != "":
			out.Case(pending, l[4:])
			pending = ""
		case strings.HasPrefix(l, "ADD "):
			f := strings.Fields(l)
			if len(f) == 3 {
				n, _ := strconv.Atoi(f[2])
				out.Add(f[1], n)
			}
		case strings.HasPrefix(l, "NOTE "):
			out.Note(l[5:])
		}
	}
	werr := cmd.Wait()
	if pending != "" {
		out.Case(pending, "crashed")
		out.Note(fmt.Sprintf("the process running the code under test died (%v) while handling: %s", werr, pending))
		out.Count("crashed")
		return // reported as a case; the stack trace is on stderr
	}
	if werr != nil {
		if ee, ok := werr.(*exec.ExitError); ok {
			out.Close()
			os.Exit(ee.ExitCode())
		}
		fmt.Fprintln(os.Stderr, werr)
		out.Close()
		os.Exit(2)
	}
}

// withRaceExitSleep sets GORACE's atexit_sleep_ms (default 1000: every race-instrumented process sleeps a second
// when it exits, which makes each replayed corpus line cost two seconds for nothing).
func withRaceExitSleep(env []string, ms string) []string {
	out := make([]string, 0, len(env)+1)
	cur := ""
	for _, e := range env {
		if strings.HasPrefix(e, "GORACE=") {
			cur = e[len("GORACE="):]
			continue
		}
		out = append(out, e)
	}
	var opts []string
	for _, o := range strings.Fields(cur) {
		if !strings.HasPrefix(o, "atexit_sleep_ms=") {
			opts = append(opts, o)
		}
	}
	opts = append(opts, "atexit_sleep_ms="+ms)
	return append(out, "GORACE="+strings.Join(opts, " "))
}

func main() {
	a := wh.ParseArgs()
	if os.Getenv(childEnv) == "" {
		if !strings.Contains(os.Getenv("GORACE"), "atexit_sleep_ms=") {
			// the relaying parent has nothing to wait for at exit: restart it in place without the exit sleep
			if exe, err := os.Executable(); err == nil {
				syscall.Exec(exe, os.Args, withRaceExitSleep(os.Environ(), "0")) // returns only on failure
			}
		}
		parent(a)
		return
	}
	out := &childOut{}
	rng := wh.NewRng(a.Seed)
	installHook()
	if a.Replay != "" {
		f := strings.Fields(a.Replay)
		var late *lateSpec
		if len(f) >= 6 && (f[0] == "late" || f[0] == "lateraw") {
			n, err := strconv.Atoi(f[3])
			if err != nil || n < 0 || n >= len(f)-5 || (f[1] != "stop" && f[1] != "cancel" && f[1] != "close") || (f[2] != "h" && f[2] != "-") {
				fmt.Fprintln(os.Stderr, "cannot replay: malformed late request")
				os.Exit(2)
			}
			late = &lateSpec{how: f[1], hold: f[2] == "h", nEarly: n, raw: f[0] == "lateraw"}
			f = append([]string{"run"}, f[4:]...)
		}
		if len(f) < 3 || f[0] != "run" {
			fmt.Fprintln(os.Stderr, "cannot replay: not a run/late request")
			os.Exit(2)
		}
		cfg, err := parseConfig(f[1])
		if err != nil {
			fmt.Fprintln(os.Stderr, err)
			os.Exit(2)
		}
		var scripts []script
		for _, w := range f[2:] {
			sc, err := parseScript(w)
			if err != nil {
				fmt.Fprintln(os.Stderr, err)
				os.Exit(2)
			}
			scripts = append(scripts, sc)
		}
		installYieldHook(a.Seed)
		begin(out, a.Replay)
		obs := runScenarioLate(out, cfg, scripts, rng, true, late)
		if late != nil {
			out.Case(lateReqOf(late, cfg, scripts), obs)
		} else {
			out.Case(reqOf(cfg, scripts), obs)
		}
		return
	}
	// pass 1: no hook installed, no yields
	matrix(out, rng, false)
	lates(out, rng, false)
	neighbours(out, rng, false, []string{"pub", "pubdeco", "nil", "dis", "disdeco"})
	sizes := []int{99, 100, 101, 150, 200, 250}
	if a.Thorough() {
		sizes = []int{50, 99, 100, 101, 102, 150, 199, 200, 201, 250, 300, 512, 999, 1000}
	}
	bigOutputs(out, rng, false, sizes)
	nr := 60
	if a.Thorough() {
		nr = 3000
	}
	races(out, rng, nr/2, false)
	nb := 600
	if a.Thorough() {
		nb = 40000
	}
	batches(out, rng, nb/2, false)
	// pass 2: yield injection at router.handle.start / before_publish / before_settle and inside Publish
	installYieldHook(a.Seed)
	lates(out, rng, true)
	races(out, rng, nr-nr/2, true)
	if a.Thorough() {
		matrix(out, rng, true)
	}
	batches(out, rng, nb-nb/2, true)
	// last, because a Router that wraps a nil publisher into a decorator dies when the handler's loop ends (that kills this
	// process, see parent()): a nil publisher with a publisher decorator configured must stay a handler without publisher
	neighbours(out, rng, true, []string{"nildeco"})
	if giveUp() {
		out.Note("stopped generating after repeated expired waits (each is reported in the cases above)")
	}
}
