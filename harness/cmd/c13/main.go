// Harness for C13: drives middleware.PoisonQueue / PoisonQueueWithFilter of the real code,
// stand-alone (mode sa) and inside a running message.Router (mode rt).
//
//	REQ pq <mode> <ptopic> <filter> <pubout> <ctxTopic> <ctxHandler> <ctxSubscriber> <uuid> <payload> <meta> <sets> <nouts> <err> <opub>
//	OBS P<n>[:<topic>|<uuid>|<payload>|<meta>|<same>|<unsettled>;…] O:<out uuids> E:<err> A:<meta after> S:<settle>
//	REQ ctor <ptopic>      OBS ok|err
//
// (format documented in lean/Driver/C13.lean)
package main

import (
	"context"
	"errors"
	"fmt"
	"os"
	"strconv"
	"strings"
	"sync"
	"sync/atomic"
	"time"

	"github.com/ThreeDotsLabs/watermill"
	"github.com/ThreeDotsLabs/watermill/message"
	"github.com/ThreeDotsLabs/watermill/message/router/middleware"
	multierror "github.com/hashicorp/go-multierror"
	pkgerrors "github.com/pkg/errors"

	"wmverif/wh"
)

var sentinel = errors.New("sentinel failure")

type customErr struct{ text string }

func (c *customErr) Error() string        { return c.text }
func (c *customErr) Is(target error) bool { return target == sentinel }

// ---------------------------------------------------------------- case description

type pcase struct {
	mode    string
	ptopic  string
	filter  string // all | fall | none | text:<needle> | is
	pubFail string // "" = accept, otherwise "x"+text of the publisher's error
	ctxT    string
	ctxH    string
	ctxS    string
	uuid    string
	payload []byte
	meta    map[string]string
	sets    [][2]string
	nouts   int
	errKind string   // nil | new | sentinel | wrapw | wrappkg | custom | multi
	errText []string // texts (one for plain kinds, the parts' own texts for multi)
	partS   []bool   // multi: which part wraps the sentinel
	opubOk  bool
	ctxState  string     // kind pqs: live | cin | dl | ch (context of the message when the handler fails)
	preSettle string     // kind pqs: - | ack | nack (the handler settles the message itself before it fails)
	appWhere string      // kind pqc: "in" (context carried in with the message) | "h" (set by the handler before it fails)
	appKV    [][2]string // application values stored in the message context under plain STRING keys
	seq     string // kind pqf: the answers ("1"/"0") the scripted stateful filter still has when this message arrives
	pqf     bool
}

var ctxTexts = []struct {
	text string
	err  error
}{{"context canceled", context.Canceled}, {"context deadline exceeded", context.DeadlineExceeded}}

// errFromText builds an error whose chain is determined by its text alone (so that a request line rebuilds it):
// "context canceled" / "context deadline exceeded" are the context package's own errors, "<p>: context canceled" wraps
// them with %w (with pkg/errors.Wrap when <p> starts with "pkg "); anything else is errors.New.
func errFromText(t string) error {
	for _, c := range ctxTexts {
		if t == c.text {
			return c.err
		}
		if strings.HasSuffix(t, ": "+c.text) {
			prefix := strings.TrimSuffix(t, ": "+c.text)
			if strings.HasPrefix(prefix, "pkg ") {
				return pkgerrors.Wrap(c.err, prefix)
			}
			return fmt.Errorf("%s: %w", prefix, c.err)
		}
	}
	return errors.New(t)
}

// buildErr constructs the handler's error; returns it, whether errors.Is(err, sentinel) must hold by construction,
// and the texts of its parts.
func (c *pcase) buildErr() (err error, isS bool, parts []string, multi bool) {
	switch c.errKind {
	case "nil":
		return nil, false, nil, false
	case "new", "empty", "canceled", "wrapcanceled", "pkgcanceled", "deadline", "wrapdeadline", "long":
		return errFromText(c.errText[0]), false, []string{c.errText[0]}, false
	case "sentinel":
		return sentinel, true, []string{sentinel.Error()}, false
	case "wrapw", "longwrapw":
		e := fmt.Errorf("%s: %w", c.errText[0], sentinel)
		return e, true, []string{c.errText[0] + ": " + sentinel.Error()}, false
	case "wrappkg":
		e := pkgerrors.Wrap(sentinel, c.errText[0])
		return e, true, []string{c.errText[0] + ": " + sentinel.Error()}, false
	case "custom", "customempty":
		return &customErr{c.errText[0]}, true, []string{c.errText[0]}, false
	case "multi", "longmulti":
		me := &multierror.Error{}
		for i, t := range c.errText {
			if c.partS[i] {
				me.Errors = append(me.Errors, fmt.Errorf("%s: %w", t, sentinel))
				parts = append(parts, t+": "+sentinel.Error())
				isS = true
			} else {
				me.Errors = append(me.Errors, errFromText(t))
				parts = append(parts, t)
			}
		}
		return me, isS, parts, true
	}
	panic("errKind " + c.errKind)
}

func bit(b bool) string {
	if b {
		return "1"
	}
	return "0"
}

func pairs(ps [][2]string) string {
	if len(ps) == 0 {
		return "-"
	}
	out := make([]string, len(ps))
	for i, p := range ps {
		out[i] = wh.HexS(p[0]) + "=" + wh.HexS(p[1])
	}
	return strings.Join(out, ",")
}

func (c *pcase) req() string {
	_, isS, parts, multi := c.buildErr()
	e := "nil"
	if c.errKind != "nil" {
		if multi {
			hs := make([]string, len(parts))
			for i, p := range parts {
				hs[i] = wh.HexS(p)
			}
			e = "multi:" + bit(isS) + ":" + strings.Join(hs, ";")
		} else {
			e = "plain:" + bit(isS) + ":" + wh.HexS(parts[0])
		}
	}
	filter := c.filter
	if strings.HasPrefix(filter, "text:") {
		filter = "text:" + wh.HexS(filter[5:])
	}
	kind := "pq"
	if c.pqf {
		kind = "pqf"
		filter = "seq:" + c.seq
		if c.seq == "" {
			filter = "seq:-"
		}
	}
	po := "ok"
	if c.pubFail != "" {
		po = "fail:" + wh.HexS(c.pubFail[1:])
		if c.pubFail[0] == 'p' {
			po = "panic:" + wh.HexS(c.pubFail[1:])
		}
	}
	op := "-"
	if c.mode == "rt" {
		op = "fail"
		if c.opubOk {
			op = "ok"
		}
	}
	if c.appWhere != "" {
		kind = "pqc"
	}
	tail := ""
	if c.appWhere != "" {
		tail = " " + c.appWhere + ":" + pairs(c.appKV)
	}
	if c.ctxState != "" {
		kind = "pqs"
		tail = " " + c.ctxState + ":" + c.preSettle
	}
	return strings.Join([]string{kind, c.mode, wh.HexS(c.ptopic), filter, po, wh.HexS(c.ctxT), wh.HexS(c.ctxH), wh.HexS(c.ctxS),
		wh.HexS(c.uuid), wh.Hex(c.payload), wh.Meta(c.meta), pairs(c.sets), strconv.Itoa(c.nouts), e, op}, " ") + tail
}

// ---------------------------------------------------------------- scripted fakes

type pubRec struct {
	topic     string
	uuid      string
	payload   []byte
	meta      map[string]string
	same      bool
	unsettled bool
}

// recPub records every Publish call (a snapshot of each message at that moment) and answers as scripted.
// Sequential use: reset(consumed, fail). Several messages in flight: pair(scripts), attribution through the uuid.
type recPub struct {
	mu       sync.Mutex
	recs     []pubRec
	calls    int
	fail     error
	consumed *message.Message
	byUUID   map[string]pubScript
	hook     func(m *message.Message) // called inside Publish, outside the lock (forced interleavings)
	panicVal string                   // non-empty: Publish panics with this value (after recording the call)
}

type pubScript struct {
	consumed *message.Message
	fail     error
}

func settled(m *message.Message) bool {
	if m == nil {
		return false
	}
	select {
	case <-m.Acked():
		return true
	default:
	}
	select {
	case <-m.Nacked():
		return true
	default:
	}
	return false
}

func (p *recPub) Publish(topic string, msgs ...*message.Message) error {
	p.mu.Lock()
	hook := p.hook
	p.mu.Unlock()
	if hook != nil {
		for _, m := range msgs {
			hook(m)
		}
	}
	p.mu.Lock()
	defer p.mu.Unlock()
	p.calls++
	fail := p.fail
	for _, m := range msgs {
		consumed := p.consumed
		if sc, ok := p.byUUID[m.UUID]; ok {
			consumed = sc.consumed
			if sc.fail != nil {
				fail = sc.fail
			}
		}
		md := map[string]string{}
		for k, v := range m.Metadata {
			md[k] = v
		}
		p.recs = append(p.recs, pubRec{topic, m.UUID, append([]byte{}, m.Payload...), md, m == consumed, !settled(consumed)})
	}
	if p.panicVal != "" {
		panic(p.panicVal)
	}
	return fail
}
func (p *recPub) Close() error { return nil }

func (p *recPub) reset(consumed *message.Message, fail error) {
	p.mu.Lock()
	p.recs, p.calls, p.fail, p.consumed, p.byUUID, p.hook, p.panicVal = nil, 0, fail, consumed, nil, nil, ""
	p.mu.Unlock()
}

// script: like reset, for a case (a publisher that fails with an error, or panics)
func (p *recPub) script(consumed *message.Message, c *pcase) error {
	perr := c.pubErr()
	p.reset(consumed, perr)
	if c.pubFail != "" && c.pubFail[0] == 'p' {
		p.mu.Lock()
		p.panicVal = c.pubFail[1:]
		p.mu.Unlock()
	}
	return perr
}

func (p *recPub) pair(scripts map[string]pubScript, hook func(m *message.Message)) {
	p.mu.Lock()
	p.recs, p.calls, p.fail, p.consumed, p.byUUID, p.hook = nil, 0, nil, nil, scripts, hook
	p.mu.Unlock()
}

func (p *recPub) count() int {
	p.mu.Lock()
	defer p.mu.Unlock()
	return len(p.recs)
}

type chanSub struct {
	name string
	ch   chan *message.Message
	once sync.Once
}

func (s *chanSub) String() string { return s.name } // internal.StructName uses fmt.Stringer when present
func (s *chanSub) Subscribe(ctx context.Context, topic string) (<-chan *message.Message, error) {
	return s.ch, nil
}
func (s *chanSub) Close() error { s.once.Do(func() { close(s.ch) }); return nil }

// ---------------------------------------------------------------- building blocks shared by both modes

// filterCtl belongs to one middleware value: it counts the consultations of the filter, carries the scripted answers
// of a stateful filter (kind seq) and an optional hook called inside the filter (forced interleavings).
type filterCtl struct {
	calls   int32
	answers string
	mu      sync.Mutex
	hook    func(err error)
}

func (ctl *filterCtl) n() int { return int(atomic.LoadInt32(&ctl.calls)) }

func (ctl *filterCtl) setHook(h func(err error)) {
	ctl.mu.Lock()
	ctl.hook = h
	ctl.mu.Unlock()
}

func (c *pcase) middleware(pub message.Publisher, ctl *filterCtl) (message.HandlerMiddleware, error) {
	if ctl == nil {
		ctl = &filterCtl{}
	}
	var base func(err error, idx int) bool
	switch {
	case c.filter == "all":
		return middleware.PoisonQueue(pub, c.ptopic)
	case c.filter == "fall":
		base = func(error, int) bool { return true }
	case c.filter == "none":
		base = func(error, int) bool { return false }
	case c.filter == "is":
		base = func(err error, _ int) bool { return errors.Is(err, sentinel) }
	case strings.HasPrefix(c.filter, "text:"):
		needle := c.filter[5:]
		base = func(err error, _ int) bool { return strings.Contains(err.Error(), needle) }
	case strings.HasPrefix(c.filter, "seq:"):
		// a stateful filter (budget, rate limit, "first occurrence only"): the i-th consultation gets the i-th answer
		ctl.answers = c.filter[4:]
		base = func(_ error, idx int) bool { return idx < len(ctl.answers) && ctl.answers[idx] == '1' }
	default:
		panic("filter " + c.filter)
	}
	return middleware.PoisonQueueWithFilter(pub, c.ptopic, func(err error) bool {
		idx := int(atomic.AddInt32(&ctl.calls, 1)) - 1
		ctl.mu.Lock()
		h := ctl.hook
		ctl.mu.Unlock()
		if h != nil {
			h(err)
		}
		return base(err, idx)
	})
}

func (c *pcase) message() *message.Message {
	m := message.NewMessage(c.uuid, append([]byte(nil), c.payload...))
	for k, v := range c.meta {
		m.Metadata.Set(k, v)
	}
	if c.appWhere == "in" {
		m.SetContext(appCtx(context.Background(), c.appKV))
	}
	switch c.ctxState {
	case "cin": // the context was cancelled before the message arrived (subscription closing, InstantAck on GoChannel …)
		ctx, cancel := context.WithCancel(context.Background())
		cancel()
		m.SetContext(ctx)
	case "dl": // a deadline that has passed (a Timeout in front of the poison queue)
		ctx, cancel := context.WithDeadline(context.Background(), time.Unix(1, 0))
		_ = cancel
		m.SetContext(ctx)
	}
	return m
}

// appCtx stores application values under plain string keys (as logging / tracing helpers commonly do).
func appCtx(ctx context.Context, kvs [][2]string) context.Context {
	for _, kv := range kvs {
		ctx = context.WithValue(ctx, kv[0], kv[1]) //nolint:staticcheck // string keys on purpose
	}
	return ctx
}

func outMsgs(n int) []*message.Message {
	var outs []*message.Message
	for i := 0; i < n; i++ {
		outs = append(outs, message.NewMessage("out-"+strconv.Itoa(i), []byte(strconv.Itoa(i))))
	}
	return outs
}

type herrInfo struct {
	err   error
	multi bool
	parts []error // snapshot of the multierror's parts before the call
}

func (c *pcase) handlerFunc(hi *herrInfo) message.HandlerFunc {
	return func(m *message.Message) ([]*message.Message, error) {
		for _, kv := range c.sets {
			m.Metadata.Set(kv[0], kv[1])
		}
		if c.appWhere == "h" {
			m.SetContext(appCtx(m.Context(), c.appKV))
		}
		if c.ctxState == "ch" {
			ctx, cancel := context.WithCancel(m.Context())
			cancel()
			m.SetContext(ctx)
		}
		switch c.preSettle {
		case "ack":
			m.Ack()
		case "nack":
			m.Nack()
		}
		return outMsgs(c.nouts), hi.err
	}
}

func (c *pcase) newHerr() *herrInfo {
	e, _, _, multi := c.buildErr()
	hi := &herrInfo{err: e, multi: multi}
	if multi {
		hi.parts = append([]error{}, e.(*multierror.Error).Errors...)
	}
	return hi
}

const wrapText = "cannot publish message to poison queue"

// errClass renders the error the middleware returned.
func errClass(ret error, hi *herrInfo, pubErr error) string {
	if ret == nil {
		return "nil"
	}
	me, isMulti := ret.(*multierror.Error)
	if hi.err != nil && ret == hi.err && (!hi.multi || len(me.Errors) == len(hi.parts)) {
		return "same"
	}
	if !isMulti || len(me.Errors) == 0 {
		return "other:" + wh.HexS(ret.Error())
	}
	flags := ""
	h := false
	if hi.err != nil {
		if hi.multi {
			h = len(me.Errors) == len(hi.parts)+1
			for i := 0; h && i < len(hi.parts); i++ {
				h = me.Errors[i] == hi.parts[i]
			}
		} else {
			h = len(me.Errors) == 2 && me.Errors[0] == hi.err
		}
		// "both causes present" also through the standard unwrapping protocol
		if h && !hi.multi && !errors.Is(ret, hi.err) {
			h = false
		}
	}
	if h {
		flags += "H"
	}
	last := me.Errors[len(me.Errors)-1]
	if pubErr != nil && pkgerrors.Cause(last) == pubErr && last.Error() == wrapText+": "+pubErr.Error() {
		flags += "P"
	}
	return "both:" + wh.HexS(ret.Error()) + ":" + flags
}

func uuids(ms []*message.Message) string {
	if len(ms) == 0 {
		return "-"
	}
	out := make([]string, len(ms))
	for i, m := range ms {
		out[i] = wh.HexS(m.UUID)
	}
	return strings.Join(out, ",")
}

func (p *recPub) render() string { return p.renderSel(func(pubRec) bool { return true }) }

// renderFor: the publishes that carried this uuid (several messages in flight)
func (p *recPub) renderFor(uuid string) string {
	return p.renderSel(func(r pubRec) bool { return r.uuid == uuid })
}

func (p *recPub) renderSel(sel func(pubRec) bool) string {
	p.mu.Lock()
	defer p.mu.Unlock()
	var es []string
	for _, r := range p.recs {
		if sel(r) {
			es = append(es, strings.Join([]string{wh.HexS(r.topic), wh.HexS(r.uuid), wh.Hex(r.payload), wh.Meta(r.meta), bit(r.same), bit(r.unsettled)}, "|"))
		}
	}
	s := "P" + strconv.Itoa(len(es))
	if len(es) == 0 {
		return s
	}
	return s + ":" + strings.Join(es, ";")
}

func (c *pcase) pubErr() error {
	if c.pubFail == "" || c.pubFail[0] == 'p' {
		return nil
	}
	return errors.New(c.pubFail[1:])
}

// ---------------------------------------------------------------- mode sa

func runSA(c *pcase) (obs string) {
	pub := &recPub{}
	msg := c.message()
	defer func() {
		if r := recover(); r != nil {
			obs = pub.render() + " O:- E:" + wh.PanicText(r) + " A:" + wh.Meta(msg.Metadata) + " S:-"
		}
	}()
	perr := pub.script(msg, c)
	ctl := &filterCtl{}
	mw, err := c.middleware(pub, ctl)
	if err != nil {
		return "P0 O:- E:other:" + wh.HexS(err.Error()) + " A:- S:-"
	}
	hi := c.newHerr()
	outs, ret := mw(c.handlerFunc(hi))(msg)
	obs = pub.render() + " O:" + uuids(outs) + " E:" + errClass(ret, hi, perr) + " A:" + wh.Meta(msg.Metadata) + " S:-"
	if c.pqf {
		obs += " F:" + strconv.Itoa(ctl.n())
	}
	return obs
}

// ---------------------------------------------------------------- mode rt

// rtEnv is one running Router with ONE poison middleware value installed (router-level, or added to each handler);
// it may have several handlers (own topic, name, subscriber). Messages are scripted per message object, so that
// several can be in flight.
type rtEnv struct {
	router  *message.Router
	subs    []*chanSub
	protos  []*pcase
	ppub    *recPub // poison publisher
	opub    *recPub // the handlers' own publisher (outputs)
	ctl     *filterCtl
	mw      message.HandlerMiddleware
	cancel  context.CancelFunc
	runDone chan error

	mu      sync.Mutex
	scripts map[*message.Message]*script
}

type script struct {
	c       *pcase
	hi      *herrInfo
	block   chan struct{} // handler blocks on it before returning (nil: does not block)
	reached chan struct{} // closed when the handler is about to block
	seen    bool
	seenErr error
	seenPanic string
	returned chan struct{} // closed when the middleware chain has returned (or panicked) for this message
}

const settleTimeout = 30 * time.Second

func (e *rtEnv) script(m *message.Message) *script {
	e.mu.Lock()
	defer e.mu.Unlock()
	return e.scripts[m]
}

// hf is the handler function of every handler: it plays the script of the message it is given.
func (e *rtEnv) hf(m *message.Message) ([]*message.Message, error) {
	sc := e.script(m)
	if sc == nil {
		return nil, errors.New("harness: unknown message object")
	}
	outs, err := sc.c.handlerFunc(sc.hi)(m)
	if sc.block != nil {
		close(sc.reached)
		<-sc.block
	}
	return outs, err
}

func newRT(protos []*pcase, handlerLevel bool) (*rtEnv, error) {
	e := &rtEnv{protos: protos, ppub: &recPub{}, opub: &recPub{}, ctl: &filterCtl{}, runDone: make(chan error, 1), scripts: map[*message.Message]*script{}}
	r, err := message.NewRouter(message.RouterConfig{CloseTimeout: 10 * time.Second}, watermill.NopLogger{})
	if err != nil {
		return nil, err
	}
	e.router = r
	mw, err := protos[0].middleware(e.ppub, e.ctl)
	if err != nil {
		return nil, err
	}
	e.mw = mw
	// the observer sits outside the poison middleware and sees what it returns to the Router
	observer := func(h message.HandlerFunc) message.HandlerFunc {
		return func(m *message.Message) ([]*message.Message, error) {
			defer func() {
				if sc := e.script(m); sc != nil {
					defer close(sc.returned)
				}
				if r := recover(); r != nil { // note the panic that leaves the poison middleware and let it go on to the Router
					if sc := e.script(m); sc != nil {
						e.mu.Lock()
						sc.seenPanic, sc.seen = wh.PanicText(r), true
						e.mu.Unlock()
					}
					panic(r)
				}
			}()
			outs, err := h(m)
			if sc := e.script(m); sc != nil {
				e.mu.Lock()
				sc.seenErr, sc.seen = err, true
				e.mu.Unlock()
			}
			return outs, err
		}
	}
	for _, p := range protos {
		sub := &chanSub{name: p.ctxS, ch: make(chan *message.Message)}
		e.subs = append(e.subs, sub)
		h := r.AddHandler(p.ctxH, p.ctxT, sub, "outs-topic", e.opub, e.hf)
		if handlerLevel {
			h.AddMiddleware(observer, mw) // the same middleware value on every handler
		}
	}
	if !handlerLevel {
		r.AddMiddleware(observer, mw)
	}
	return e, nil
}

func (e *rtEnv) start() error {
	ctx, cancel := context.WithCancel(context.Background())
	e.cancel = cancel
	go func() { e.runDone <- e.router.Run(ctx) }()
	select {
	case <-e.router.Running():
	case <-time.After(settleTimeout):
		cancel()
		return errors.New("router did not start")
	}
	return nil
}

func (e *rtEnv) close() {
	_ = e.router.Close()
	e.cancel()
	select {
	case <-e.runDone:
	case <-time.After(settleTimeout):
	}
}

func (e *rtEnv) register(c *pcase, m *message.Message) *script {
	sc := &script{c: c, hi: c.newHerr(), returned: make(chan struct{})}
	e.mu.Lock()
	e.scripts[m] = sc
	e.mu.Unlock()
	return sc
}

func waitSettle(m *message.Message) string {
	select {
	case <-m.Acked():
		return "ack"
	case <-m.Nacked():
		return "nack"
	case <-time.After(settleTimeout):
		return "timeout"
	}
}

func (e *rtEnv) errSeen(sc *script, perr error) string {
	e.mu.Lock()
	seen, ret, pan := sc.seen, sc.seenErr, sc.seenPanic
	e.mu.Unlock()
	if pan != "" {
		return pan
	}
	if !seen {
		return "other:" + wh.HexS("middleware did not return")
	}
	return errClass(ret, sc.hi, perr)
}

func opubErr(c *pcase) error {
	if !c.opubOk {
		return errors.New("outputs publisher down")
	}
	return nil
}

func outsOf(recs []pubRec) string {
	if len(recs) == 0 {
		return "-"
	}
	os := make([]string, len(recs))
	for i, r := range recs {
		os[i] = wh.HexS(r.uuid)
	}
	return strings.Join(os, ",")
}

func (p *recPub) recsFrom(i int) []pubRec {
	p.mu.Lock()
	defer p.mu.Unlock()
	if i > len(p.recs) {
		i = len(p.recs)
	}
	return append([]pubRec{}, p.recs[i:]...)
}

// run: one message through handler number h, alone.
func (e *rtEnv) run(c *pcase, h int) string {
	msg := c.message()
	perr := e.ppub.script(msg, c)
	e.opub.reset(msg, opubErr(c))
	sc := e.register(c, msg)
	before := e.ctl.n()
	select {
	case e.subs[h].ch <- msg:
	case <-time.After(settleTimeout):
		return "P0 O:- E:other:" + wh.HexS("router did not take the message") + " A:- S:timeout"
	}
	settle := waitSettle(msg)
	if c.preSettle == "ack" || c.preSettle == "nack" {
		// settled by the handler: the chain may still be running, wait until it has returned
		waitCh(sc.returned)
	}
	obs := e.ppub.render() + " O:" + outsOf(e.opub.recsFrom(0)) + " E:" + e.errSeen(sc, perr) + " A:" + wh.Meta(msg.Metadata) + " S:" + settle
	if c.pqf {
		obs += " F:" + strconv.Itoa(e.ctl.n()-before)
	}
	return obs
}

// runSA: the same middleware value called directly (no Router context on the message).
func (e *rtEnv) runSA(c *pcase) (obs string) {
	msg := c.message()
	perr := e.ppub.script(msg, c)
	sc := e.register(c, msg)
	defer func() {
		if r := recover(); r != nil {
			obs = e.ppub.render() + " O:- E:" + wh.PanicText(r) + " A:" + wh.Meta(msg.Metadata) + " S:-"
		}
	}()
	outs, ret := e.mw(e.hf)(msg)
	return e.ppub.render() + " O:" + uuids(outs) + " E:" + errClass(ret, sc.hi, perr) + " A:" + wh.Meta(msg.Metadata) + " S:-"
}

// ---------------------------------------------------------------- two messages in flight, forced interleaving

// A is driven until it stops at the block point (inside the filter, inside the poison publisher's Publish, or in its
// handler just before returning); B then runs to completion through the SAME wrapped handler; A is released.
// Every message must come out exactly as if it had been alone (the middleware keeps nothing between messages).

type gate struct {
	once    sync.Once
	reached chan struct{}
	release chan struct{}
}

func newGate() *gate { return &gate{reached: make(chan struct{}), release: make(chan struct{})} }

// stop blocks the first caller until open; later callers pass.
func (g *gate) stop() {
	first := false
	g.once.Do(func() { first = true })
	if first {
		close(g.reached)
		<-g.release
	}
}

func waitCh(ch <-chan struct{}) bool {
	select {
	case <-ch:
		return true
	case <-time.After(settleTimeout):
		return false
	}
}

func pairSA(a, b *pcase, block string) (obsA, obsB string) {
	pub := &recPub{}
	ctl := &filterCtl{}
	ma, mb := a.message(), b.message()
	hia, hib := a.newHerr(), b.newHerr()
	g := newGate()
	perr := map[*pcase]error{a: a.pubErr(), b: b.pubErr()}
	pub.pair(map[string]pubScript{a.uuid: {ma, perr[a]}, b.uuid: {mb, perr[b]}}, func(m *message.Message) {
		if block == "publish" {
			g.stop()
		}
	})
	mw, err := a.middleware(pub, ctl)
	if err != nil {
		return "P0 O:- E:other:" + wh.HexS(err.Error()) + " A:- S:-", "P0 O:- E:other:" + wh.HexS(err.Error()) + " A:- S:-"
	}
	if block == "filter" {
		ctl.setHook(func(error) { g.stop() })
	}
	hw := mw(func(m *message.Message) ([]*message.Message, error) {
		if m == ma {
			outs, err := a.handlerFunc(hia)(m)
			if block == "handler" {
				g.stop()
			}
			return outs, err
		}
		return b.handlerFunc(hib)(m)
	})
	type res struct {
		outs []*message.Message
		err  error
		pan  interface{}
	}
	call := func(m *message.Message) chan res {
		ch := make(chan res, 1)
		go func() {
			var r res
			defer func() {
				if p := recover(); p != nil {
					r.pan = p
				}
				ch <- r
			}()
			r.outs, r.err = hw(m)
		}()
		return ch
	}
	render := func(c *pcase, m *message.Message, hi *herrInfo, r res, ok bool) string {
		e := "other:" + wh.HexS("middleware did not return")
		o := "-"
		if ok {
			e, o = errClass(r.err, hi, perr[c]), uuids(r.outs)
			if r.pan != nil {
				e = wh.PanicText(r.pan)
			}
		}
		return pub.renderFor(c.uuid) + " O:" + o + " E:" + e + " A:" + wh.Meta(m.Metadata) + " S:-"
	}
	chA := call(ma)
	if !waitCh(g.reached) {
		// A never got to the block point (it cannot on the unchanged code for the combinations generated)
		close(g.release)
	}
	var rb res
	okB := false
	select {
	case rb = <-call(mb):
		okB = true
	case <-time.After(settleTimeout):
	}
	select {
	case <-g.release:
	default:
		close(g.release)
	}
	var ra res
	okA := false
	select {
	case ra = <-chA:
		okA = true
	case <-time.After(settleTimeout):
	}
	return render(a, ma, hia, ra, okA), render(b, mb, hib, rb, okB)
}

// pair inside the running Router (both messages on handler 0, which handles them concurrently)
func (e *rtEnv) pair(a, b *pcase, block string) (obsA, obsB string) {
	ma, mb := a.message(), b.message()
	g := newGate()
	pa, pb := a.pubErr(), b.pubErr()
	e.ppub.pair(map[string]pubScript{a.uuid: {ma, pa}, b.uuid: {mb, pb}}, func(m *message.Message) {
		if block == "publish" {
			g.stop()
		}
	})
	// the outputs publisher serves both; a failure is scripted for the window in which only B publishes
	e.opub.reset(nil, nil)
	sa, sb := e.register(a, ma), e.register(b, mb)
	if block == "filter" {
		e.ctl.setHook(func(error) { g.stop() })
	}
	if block == "handler" {
		sa.block, sa.reached = g.release, g.reached
	}
	defer e.ctl.setHook(nil)
	timeout := "P0 O:- E:other:" + wh.HexS("router did not take the message") + " A:- S:timeout"
	select {
	case e.subs[0].ch <- ma:
	case <-time.After(settleTimeout):
		return timeout, timeout
	}
	if !waitCh(g.reached) && block != "handler" {
		close(g.release)
	}
	o0 := e.opub.count()
	e.opub.mu.Lock()
	e.opub.fail = opubErr(b)
	e.opub.mu.Unlock()
	select {
	case e.subs[0].ch <- mb:
	case <-time.After(settleTimeout):
		return timeout, timeout
	}
	settleB := waitSettle(mb)
	o1 := e.opub.count()
	e.opub.mu.Lock()
	e.opub.fail = opubErr(a)
	e.opub.mu.Unlock()
	select {
	case <-g.release:
	default:
		close(g.release)
	}
	settleA := waitSettle(ma)
	all := e.opub.recsFrom(0)
	outsB := all[o0:o1]
	outsA := append(append([]pubRec{}, all[:o0]...), all[o1:]...)
	obsA = e.ppub.renderFor(a.uuid) + " O:" + outsOf(outsA) + " E:" + e.errSeen(sa, pa) + " A:" + wh.Meta(ma.Metadata) + " S:" + settleA
	obsB = e.ppub.renderFor(b.uuid) + " O:" + outsOf(outsB) + " E:" + e.errSeen(sb, pb) + " A:" + wh.Meta(mb.Metadata) + " S:" + settleB
	return obsA, obsB
}

// ---------------------------------------------------------------- generators

var metaKeyPool = []string{"k", "key2", "", "reason_poisoned", "topic_poisoned", "handler_poisoned", "subscriber_poisoned",
	"reason_poisoned ", "Reason_poisoned", "_watermill_requeuer_retries", "\xff\xfe", "ünï"}

func rndStr(r *wh.Rng, max int) string {
	n := r.Intn(max + 1)
	b := make([]byte, n)
	for i := range b {
		switch r.Intn(6) {
		case 0:
			b[i] = byte(r.Intn(256))
		case 1:
			b[i] = "\n\t *:=,;|"[r.Intn(9)]
		default:
			b[i] = byte('a' + r.Intn(26))
		}
	}
	return string(b)
}

func rndMeta(r *wh.Rng, variant int) map[string]string {
	m := map[string]string{}
	switch variant {
	case 0:
	case 1:
		for i, n := 0, 1+r.Intn(4); i < n; i++ {
			m[metaKeyPool[r.Intn(len(metaKeyPool))]] = rndStr(r, 6)
		}
	case 2: // all four poison keys already there (a message that was poisoned before)
		m["reason_poisoned"] = "old reason"
		m["topic_poisoned"] = "old topic"
		m["handler_poisoned"] = rndStr(r, 5)
		m["subscriber_poisoned"] = ""
		m["other"] = rndStr(r, 5)
	case 3: // some of them
		m[metaKeyPool[3+r.Intn(4)]] = rndStr(r, 5)
		m[rndStr(r, 4)] = rndStr(r, 5)
	}
	return m
}

// lengths around typical broker limits for a header value (1 KiB, 4 KiB, 64 KiB)
var longLens = []int{1000, 1023, 1024, 1025, 1100, 2048, 4096, 5000, 70000}

func longText(r *wh.Rng, n int) string {
	var sb strings.Builder
	sb.WriteString("boom ")
	for i := 0; sb.Len() < n-12; i++ {
		sb.WriteString("in step " + strconv.Itoa(i) + ": ")
	}
	for sb.Len() < n-8 {
		sb.WriteByte('.')
	}
	sb.WriteString("cause#" + strconv.Itoa(10+r.Intn(90)))
	return sb.String()
}

// genAppCtx: the message context holds application values under plain string keys, among them the very strings the
// Router uses for ITS (typed) keys; genPanic: the poison publisher panics instead of returning an error.
var appKeys = []string{"handler_name", "subscribe_topic", "subscriber_name", "publisher_name", "publish_topic", "trace_id", ""}

func (c *pcase) fillApp(rng *wh.Rng, where string) {
	c.appWhere = where
	c.appKV = nil
	for _, k := range appKeys {
		if rng.Intn(3) > 0 {
			c.appKV = append(c.appKV, [2]string{k, "app-" + rndStr(rng, 5)})
		}
	}
	if len(c.appKV) == 0 {
		c.appKV = [][2]string{{"handler_name", "app-handler"}}
	}
}

func genAppCtxAndPanic(out *wh.Out, rng *wh.Rng, n int) {
	kinds := []string{"new", "sentinel", "multi", "nil", "wrapw"}
	for i := 0; i < n; i++ {
		c := rndCase(rng, "sa", kinds[i%len(kinds)])
		c.ptopic = "poison-" + rndStr(rng, 3)
		c.fillFilter(rng, []string{"all", "fall", "is", "none"}[rng.Intn(4)])
		if i%2 == 0 {
			c.fillApp(rng, []string{"in", "h"}[(i/2)%2])
			out.Count("app_context_string_keys")
		} else {
			c.pubFail = "p" + "publisher blew up " + rndStr(rng, 4)
			out.Count("poison_publisher_panics")
		}
		obs := runSA(c)
		out.Case(c.req(), obs)
		count(out, c, obs)
	}
	for _, level := range []bool{false, true} {
		proto := &pcase{ptopic: "poison-" + rndStr(rng, 3), filter: "all", ctxT: "in-app", ctxH: "h-app", ctxS: "sub.app"}
		env := rtSetup(out, []*pcase{proto}, level)
		for i := 0; i < n/2+2; i++ {
			c := rndCase(rng, "rt", kinds[i%len(kinds)])
			c.ptopic, c.filter, c.ctxT, c.ctxH, c.ctxS = proto.ptopic, proto.filter, proto.ctxT, proto.ctxH, proto.ctxS
			c.opubOk = rng.Intn(4) > 0
			if i%2 == 0 {
				c.fillApp(rng, []string{"in", "h"}[(i/2)%2])
				out.Count("app_context_string_keys")
			} else {
				c.pubFail = "p" + "publisher blew up " + rndStr(rng, 4)
				out.Count("poison_publisher_panics")
			}
			obs := env.run(c, 0)
			out.Case(c.req(), obs)
			count(out, c, obs)
		}
		env.close()
	}
}

// genState: the handler fails on a message whose context is already over, and/or which it has settled itself
func genState(out *wh.Out, rng *wh.Rng, reps int) {
	kinds := []string{"new", "sentinel", "multi", "nil", "canceled", "wrapdeadline"}
	states := [][2]string{{"cin", "-"}, {"dl", "-"}, {"ch", "-"}, {"live", "ack"}, {"live", "nack"}, {"cin", "ack"}, {"ch", "nack"}, {"live", "-"}}
	mk := func(mode string, i int) *pcase {
		c := rndCase(rng, mode, kinds[rng.Intn(len(kinds))])
		c.ctxState, c.preSettle = states[i%len(states)][0], states[i%len(states)][1]
		out.Count("state.ctx." + c.ctxState)
		out.Count("state.settled_by_handler." + c.preSettle)
		return c
	}
	for rep := 0; rep < reps; rep++ {
		for i := 0; i < 3*len(states); i++ {
			c := mk("sa", i)
			c.ptopic = "poison-" + rndStr(rng, 3)
			c.fillFilter(rng, []string{"all", "fall", "is", "none"}[rng.Intn(4)])
			obs := runSA(c)
			out.Case(c.req(), obs)
			count(out, c, obs)
		}
		for _, level := range []bool{false, true} {
			proto := &pcase{ptopic: "poison-" + rndStr(rng, 3), filter: []string{"all", "fall"}[rng.Intn(2)], ctxT: "in-st", ctxH: "h-st", ctxS: "sub.st"}
			env := rtSetup(out, []*pcase{proto}, level)
			for i := 0; i < 2*len(states); i++ {
				c := mk("rt", i)
				c.ptopic, c.filter, c.ctxT, c.ctxH, c.ctxS = proto.ptopic, proto.filter, proto.ctxT, proto.ctxH, proto.ctxS
				c.nouts = 0 // (the Router publishes outputs after the chain returned: not awaited for messages the handler settled)
				obs := env.run(c, 0)
				out.Case(c.req(), obs)
				count(out, c, obs)
			}
			env.close()
		}
	}
}

// genLong: long error texts through every filter family, stand-alone and inside a Router
func genLong(out *wh.Out, rng *wh.Rng, n int) {
	kinds := []string{"long", "longwrapw", "longmulti"}
	for i := 0; i < n; i++ {
		c := rndCase(rng, "sa", kinds[i%3])
		c.ptopic = "poison-" + rndStr(rng, 3)
		c.pubFail = ""
		if i%5 == 4 {
			c.pubFail = "x" + "publisher down"
		}
		c.fillFilter(rng, []string{"all", "fall", "is", "text-hit", "text-empty"}[rng.Intn(5)])
		obs := runSA(c)
		out.Case(c.req(), obs)
		count(out, c, obs)
		out.Count("long_error_text")
	}
	proto := &pcase{ptopic: "poison-" + rndStr(rng, 3), filter: "all", ctxT: "in-long", ctxH: "h-long", ctxS: "sub.long"}
	env := rtSetup(out, []*pcase{proto}, false)
	for i := 0; i < n/3+1; i++ {
		c := rndCase(rng, "rt", kinds[i%3])
		c.ptopic, c.filter, c.ctxT, c.ctxH, c.ctxS = proto.ptopic, proto.filter, proto.ctxT, proto.ctxH, proto.ctxS
		obs := env.run(c, 0)
		out.Case(c.req(), obs)
		count(out, c, obs)
		out.Count("long_error_text")
	}
	env.close()
}

// "empty" / "customempty": an error whose text is the empty string (errors.New(""), a custom type) is an error like any other:
// what decides is `err != nil`, not the text
var errKinds = []string{"nil", "new", "sentinel", "wrapw", "wrappkg", "custom", "multi",
	"canceled", "wrapcanceled", "pkgcanceled", "deadline", "wrapdeadline", "empty", "customempty"}

func (c *pcase) fillErr(r *wh.Rng, kind string) {
	c.errKind = kind
	c.errText, c.partS = nil, nil
	switch kind {
	case "nil", "sentinel":
	case "long": // a long error text whose distinguishing part is at its end (as in a wrapped chain: the root cause comes last)
		c.errText = []string{longText(r, longLens[r.Intn(len(longLens))])}
	case "longwrapw":
		c.errText = []string{longText(r, longLens[r.Intn(len(longLens))])}
	case "longmulti":
		for i, n := 0, 2+r.Intn(3); i < n; i++ {
			c.errText = append(c.errText, "part"+strconv.Itoa(i)+" "+longText(r, 200+r.Intn(600)))
			c.partS = append(c.partS, false)
		}
	case "empty", "customempty":
		c.errText = []string{""}
	case "canceled":
		c.errText = []string{"context canceled"}
	case "deadline":
		c.errText = []string{"context deadline exceeded"}
	case "wrapcanceled":
		c.errText = []string{"boom " + rndStr(r, 5) + ": context canceled"}
	case "pkgcanceled":
		c.errText = []string{"pkg boom " + rndStr(r, 5) + ": context canceled"}
	case "wrapdeadline":
		c.errText = []string{"boom " + rndStr(r, 5) + ": context deadline exceeded"}
	case "multi":
		n := 1 + r.Intn(3)
		for i := 0; i < n; i++ {
			t := "part" + strconv.Itoa(i) + rndStr(r, 4)
			if r.Intn(4) == 0 { // a part that wraps the context package's errors
				t += ": " + ctxTexts[r.Intn(2)].text
			}
			c.errText = append(c.errText, t)
			c.partS = append(c.partS, r.Intn(3) == 0)
		}
	default:
		c.errText = []string{"boom " + rndStr(r, 8)}
	}
}

// filterFor picks a concrete filter of the given family for this case (text filters get a needle that hits or misses).
func (c *pcase) fillFilter(r *wh.Rng, fam string) {
	switch fam {
	case "text-hit":
		_, _, parts, _ := c.buildErr()
		needle := "boom"
		if len(parts) > 0 && len(parts[0]) > 0 {
			p := parts[0]
			a := r.Intn(len(p))
			b := a + 1 + r.Intn(len(p)-a)
			needle = p[a:b]
		}
		c.filter = "text:" + needle
	case "text-miss":
		c.filter = "text:" + "zz" + rndStr(r, 3) + "#"
	case "text-empty":
		c.filter = "text:"
	default:
		c.filter = fam
	}
}

var filterFams = []string{"all", "fall", "none", "is", "text-hit", "text-miss", "text-empty"}

func count(out *wh.Out, c *pcase, obs string) {
	out.Count("mode." + c.mode)
	out.Count("err." + c.errKind)
	f := c.filter
	if i := strings.Index(f, ":"); i >= 0 {
		f = f[:i]
	}
	out.Count("filter." + f)
	if c.pubFail != "" {
		out.Count("pub.fail")
	} else {
		out.Count("pub.ok")
	}
	out.Count("outs." + strconv.Itoa(c.nouts))
	switch {
	case strings.HasPrefix(obs, "P1"):
		out.Count("branch.poisoned")
	case strings.HasPrefix(obs, "P0"):
		out.Count("branch.not_poisoned")
	}
	for _, k := range []string{"reason_poisoned", "topic_poisoned", "handler_poisoned", "subscriber_poisoned"} {
		if _, ok := c.meta[k]; ok {
			out.Count("meta.preexisting_poison_key")
			break
		}
	}
	if i := strings.Index(obs, " S:"); i >= 0 {
		st := obs[i+3:]
		if j := strings.IndexByte(st, ' '); j >= 0 {
			st = st[:j]
		}
		out.Count("settle." + st)
	}
	if i := strings.Index(obs, " E:"); i >= 0 {
		e := obs[i+3:]
		if j := strings.IndexAny(e, ": "); j >= 0 {
			e = e[:j]
		}
		out.Count("ret." + e)
	}
}

func genSA(out *wh.Out, rng *wh.Rng, reps int) {
	for rep := 0; rep < reps; rep++ {
		for _, ek := range errKinds {
			for _, ff := range filterFams {
				for _, pf := range []bool{false, true} {
					for _, nouts := range []int{0, 2} {
						for mv := 0; mv < 4; mv++ {
							c := &pcase{mode: "sa", ptopic: "poison-" + rndStr(rng, 4), uuid: rndStr(rng, 10), nouts: nouts, meta: rndMeta(rng, mv), opubOk: true}
							if rng.Intn(3) > 0 {
								c.payload = []byte(rndStr(rng, 12))
							}
							if pf {
								c.pubFail = "x" + "publisher down " + rndStr(rng, 4)
							}
							if rng.Intn(3) == 0 {
								for i, n := 0, 1+rng.Intn(2); i < n; i++ {
									c.sets = append(c.sets, [2]string{metaKeyPool[rng.Intn(len(metaKeyPool))], rndStr(rng, 4)})
								}
							}
							c.fillErr(rng, ek)
							c.fillFilter(rng, ff)
							obs := runSA(c)
							out.Case(c.req(), obs)
							count(out, c, obs)
						}
					}
				}
			}
		}
	}
}

func genRT(out *wh.Out, rng *wh.Rng, perRouter int) {
	for _, ff := range filterFams {
		for _, level := range []bool{false, true} {
			proto := &pcase{mode: "rt", ptopic: "poison-" + rndStr(rng, 4), ctxT: "in-" + rndStr(rng, 5), ctxH: "h-" + rndStr(rng, 5), ctxS: "sub." + rndStr(rng, 5)}
			if ff == "all" || ff == "is" || ff == "text-hit" {
				// this handler consumes the poison topic itself (a re-processing / alerting handler behind the same middleware)
				proto.ctxT = proto.ptopic
				out.Count("rt.handler_on_poison_topic")
			}
			// one filter per router: text filters use a fixed needle
			switch ff {
			case "text-hit":
				proto.filter = "text:boom"
			case "text-miss":
				proto.filter = "text:part1"
			case "text-empty":
				proto.filter = "text:"
			default:
				proto.filter = ff
			}
			env, err := newRT([]*pcase{proto}, level)
			if err == nil {
				err = env.start()
			}
			if err != nil {
				out.Note("rt setup failed: " + err.Error())
				fmt.Fprintln(os.Stderr, "rt setup failed:", err)
				os.Exit(3)
			}
			// the poison publisher fails from the k-th failing message on, or at random
			failFrom := rng.Intn(perRouter)
			for i := 0; i < perRouter; i++ {
				c := *proto
				c.uuid = rndStr(rng, 10)
				if rng.Intn(3) > 0 {
					c.payload = []byte(rndStr(rng, 12))
				}
				c.meta = rndMeta(rng, rng.Intn(4))
				c.nouts = []int{0, 0, 1, 3}[rng.Intn(4)]
				c.opubOk = rng.Intn(4) > 0
				if (level && i >= failFrom) || (!level && rng.Intn(3) == 0) {
					c.pubFail = "x" + "poison publisher down " + rndStr(rng, 3)
				}
				if rng.Intn(4) == 0 {
					c.sets = append(c.sets, [2]string{metaKeyPool[rng.Intn(len(metaKeyPool))], rndStr(rng, 4)})
				}
				c.fillErr(rng, errKinds[rng.Intn(len(errKinds))])
				obs := env.run(&c, 0)
				out.Case(c.req(), obs)
				count(out, &c, obs)
				if level {
					out.Count("rt.middleware.handler_level")
				} else {
					out.Count("rt.middleware.router_level")
				}
			}
			env.close()
		}
	}
}

// ---------------------------------------------------------------- stateful filters (kind pqf)

func rtSetup(out *wh.Out, protos []*pcase, level bool) *rtEnv {
	env, err := newRT(protos, level)
	if err == nil {
		err = env.start()
	}
	if err != nil {
		out.Note("rt setup failed: " + err.Error())
		fmt.Fprintln(os.Stderr, "rt setup failed:", err)
		os.Exit(3)
	}
	return env
}

func rndCase(rng *wh.Rng, mode string, errKind string) *pcase {
	c := &pcase{mode: mode, uuid: rndStr(rng, 10), meta: rndMeta(rng, rng.Intn(4)), nouts: []int{0, 0, 2}[rng.Intn(3)], opubOk: true}
	if rng.Intn(3) > 0 {
		c.payload = []byte(rndStr(rng, 12))
	}
	if rng.Intn(3) == 0 {
		c.pubFail = "x" + "publisher down " + rndStr(rng, 3)
	}
	c.fillErr(rng, errKind)
	return c
}

// a filter whose answers are scripted per consultation: budget ("1100…"), alternating, first-occurrence-only …
func genSeq(out *wh.Out, rng *wh.Rng, streams int) {
	seqs := []string{"", "1", "0", "10", "01", "11", "00", "101", "010", "110", "001", "1000", "0111"}
	for _, sq := range seqs {
		for _, ek := range []string{"nil", "new", "sentinel", "multi"} {
			for _, pf := range []bool{false, true} {
				c := rndCase(rng, "sa", ek)
				c.ptopic, c.pqf, c.seq, c.filter, c.pubFail = "poison-"+rndStr(rng, 3), true, sq, "seq:"+sq, ""
				if pf {
					c.pubFail = "x" + "publisher down"
				}
				obs := runSA(c)
				out.Case(c.req(), obs)
				count(out, c, obs)
				out.Count("stateful_filter.single")
			}
		}
	}
	for st := 0; st < streams; st++ {
		bits := make([]byte, 6+rng.Intn(8))
		for i := range bits {
			bits[i] = "01"[rng.Intn(2)]
		}
		if st%3 == 0 { // a budget: the first k failures go to the poison queue, the rest stay failing
			k := 1 + rng.Intn(3)
			for i := range bits {
				bits[i] = '0'
				if i < k {
					bits[i] = '1'
				}
			}
		}
		all := string(bits)
		proto := &pcase{ptopic: "poison-" + rndStr(rng, 3), filter: "seq:" + all, ctxT: "in-" + rndStr(rng, 4), ctxH: "h-" + rndStr(rng, 4), ctxS: "sub." + rndStr(rng, 4)}
		rt := st%2 == 1
		var env *rtEnv
		if rt {
			env = rtSetup(out, []*pcase{proto}, st%4 == 1)
		} else {
			var err error
			if env, err = newRT([]*pcase{proto}, false); err != nil { // never started: the middleware value is used directly
				fmt.Fprintln(os.Stderr, "setup failed:", err)
				os.Exit(3)
			}
		}
		for i := 0; i < 8; i++ {
			c := rndCase(rng, "sa", []string{"nil", "new", "new", "sentinel", "multi"}[rng.Intn(5)])
			c.ptopic, c.filter, c.pqf = proto.ptopic, proto.filter, true
			used := env.ctl.n()
			if used > len(all) {
				used = len(all)
			}
			c.seq = all[used:]
			var obs string
			if rt {
				c.mode, c.ctxT, c.ctxH, c.ctxS = "rt", proto.ctxT, proto.ctxH, proto.ctxS
				c.opubOk = rng.Intn(4) > 0
				obs = env.run(c, 0)
			} else {
				before := env.ctl.n()
				obs = env.runSA(c) + " F:" + strconv.Itoa(env.ctl.n()-before)
			}
			out.Case(c.req(), obs)
			count(out, c, obs)
			out.Count("stateful_filter.stream")
		}
		if rt {
			env.close()
		}
	}
}

// ---------------------------------------------------------------- two messages through one middleware value (kind pq2)

func ctxKey(c *pcase) string { return c.ctxT + "\x00" + c.ctxH + "\x00" + c.ctxS }

// runPQ2 plays A and B through ONE middleware value. block = after: B after A has completed; filter / publish /
// handler: B runs completely while A is stopped inside the filter / inside the poison publisher / at the end of its
// handler. lvl r|h: how the middleware is installed in the Router (both sub-cases stand-alone: "-").
func runPQ2(lvl, block string, a, b *pcase) (string, string) {
	if a.mode == "sa" && b.mode == "sa" && block != "after" {
		return pairSA(a, b, block)
	}
	var protos []*pcase
	idx := map[string]int{}
	for _, c := range []*pcase{a, b} {
		if c.mode == "rt" {
			if _, ok := idx[ctxKey(c)]; !ok {
				idx[ctxKey(c)] = len(protos)
				protos = append(protos, c)
			}
		}
	}
	if len(protos) == 0 {
		protos = []*pcase{{ptopic: a.ptopic, filter: a.filter, ctxT: "unused", ctxH: "unused", ctxS: "unused"}}
	}
	protos[0] = &pcase{ptopic: a.ptopic, filter: a.filter, ctxT: protos[0].ctxT, ctxH: protos[0].ctxH, ctxS: protos[0].ctxS}
	env, err := newRT(protos, lvl == "h")
	if err != nil {
		e := "P0 O:- E:other:" + wh.HexS(err.Error()) + " A:- S:-"
		return e, e
	}
	started := false
	startIfNeeded := func(c *pcase) bool {
		if c.mode == "rt" && !started {
			started = true
			return env.start() == nil
		}
		return true
	}
	defer func() {
		if started {
			env.close()
		}
	}()
	one := func(c *pcase) string {
		if !startIfNeeded(c) {
			return "P0 O:- E:other:" + wh.HexS("router did not start") + " A:- S:timeout"
		}
		if c.mode == "sa" {
			return env.runSA(c)
		}
		return env.run(c, idx[ctxKey(c)])
	}
	if block == "after" {
		oa := one(a)
		return oa, one(b)
	}
	// concurrent: both inside the Router, on the handler of A
	if !startIfNeeded(a) {
		e := "P0 O:- E:other:" + wh.HexS("router did not start") + " A:- S:timeout"
		return e, e
	}
	return env.pair(a, b, block)
}

func pq2Req(lvl, block string, a, b *pcase) string {
	return "pq2 " + lvl + " " + block + " " + strings.TrimPrefix(a.req(), "pq ") + " " + strings.TrimPrefix(b.req(), "pq ")
}

func emitPQ2(out *wh.Out, lvl, block string, a, b *pcase) {
	oa, ob := runPQ2(lvl, block, a, b)
	out.Case(pq2Req(lvl, block, a, b), oa+" "+ob)
	out.Count("two_messages.block." + block)
	out.Count("two_messages.modes." + a.mode + "+" + b.mode)
	if a.mode == "rt" && b.mode == "rt" && ctxKey(a) != ctxKey(b) {
		out.Count("two_messages.different_handlers")
	}
}

func genPQ2(out *wh.Out, rng *wh.Rng, reps int) {
	nctx := 0
	ctxs := func() [3]string { // distinct topic / handler / subscriber names on every call
		nctx++
		k := strconv.Itoa(nctx)
		return [3]string{"in" + k + "-" + rndStr(rng, 4), "h" + k + "-" + rndStr(rng, 4), "sub" + k + "." + rndStr(rng, 4)}
	}
	setCtx := func(c *pcase, x [3]string) { c.mode, c.ctxT, c.ctxH, c.ctxS = "rt", x[0], x[1], x[2] }
	for rep := 0; rep < reps; rep++ {
		// (1) forced interleavings: A fails with an accepted error and is stopped; B succeeds / fails differently
		for _, block := range []string{"filter", "publish", "handler"} {
			for _, bCat := range []string{"ok", "accepted", "refused"} {
				for _, mode := range []string{"sa", "rt-r", "rt-h"} {
					filter := []string{"fall", "is", "text:boom"}[rng.Intn(3)]
					accepted := map[string][]string{"fall": {"new", "multi", "sentinel"}, "is": {"sentinel", "wrapw", "custom", "wrappkg"}, "text:boom": {"new", "wrapw"}}[filter]
					refused := map[string][]string{"fall": nil, "is": {"new"}, "text:boom": {"sentinel", "multi"}}[filter]
					a := rndCase(rng, "sa", accepted[rng.Intn(len(accepted))])
					var b *pcase
					switch {
					case bCat == "ok" || (bCat == "refused" && len(refused) == 0):
						b = rndCase(rng, "sa", "nil")
					case bCat == "accepted":
						b = rndCase(rng, "sa", accepted[rng.Intn(len(accepted))])
					default:
						b = rndCase(rng, "sa", refused[rng.Intn(len(refused))])
						for i := range b.partS {
							b.partS[i] = false
						}
					}
					pt := "poison-" + rndStr(rng, 3)
					a.ptopic, b.ptopic, a.filter, b.filter = pt, pt, filter, filter
					a.uuid, b.uuid = "A-"+a.uuid, "B-"+b.uuid
					a.pubFail = ""
					if block == "publish" && rng.Intn(2) == 0 {
						a.pubFail = "x" + "publisher down for A"
					}
					lvl := "-"
					if mode != "sa" {
						x := ctxs()
						setCtx(a, x)
						setCtx(b, x)
						a.opubOk, b.opubOk = rng.Intn(4) > 0, rng.Intn(4) > 0
						lvl = mode[3:]
					}
					emitPQ2(out, lvl, block, a, b)
				}
			}
		}
		// (2) one middleware value, different places: stand-alone then in a handler; two handlers of one Router
		for _, lvl := range []string{"r", "h"} {
			for _, shape := range []string{"sa,rt", "rt,rt2", "rt,sa", "rt2ok,rt", "rt,rt", "rtp,rt", "rt,rtp"} {
				filter := []string{"all", "fall", "text:boom"}[rng.Intn(3)]
				a, b := rndCase(rng, "sa", "new"), rndCase(rng, "sa", "new")
				pt := "poison-" + rndStr(rng, 3)
				a.ptopic, b.ptopic, a.filter, b.filter = pt, pt, filter, filter
				x, y := ctxs(), ctxs()
				switch shape {
				case "sa,rt":
					setCtx(b, x)
				case "rt,rt2":
					setCtx(a, x)
					setCtx(b, y)
				case "rt,sa":
					setCtx(a, x)
				case "rt2ok,rt": // the first message of the other handler is handled fine, then a failure here
					setCtx(a, y)
					a.fillErr(rng, "nil")
					setCtx(b, x)
				case "rt,rt":
					setCtx(a, x)
					setCtx(b, x)
				case "rtp,rt": // the first handler consumes the poison topic itself
					x[0] = pt
					setCtx(a, x)
					setCtx(b, y)
				case "rt,rtp":
					y[0] = pt
					setCtx(a, x)
					setCtx(b, y)
				}
				emitPQ2(out, lvl, "after", a, b)
			}
		}
	}
}

func ctorCases(out *wh.Out, rng *wh.Rng) {
	for _, t := range []string{"", "poison", " ", rndStr(rng, 6) + "x"} {
		for _, withFilter := range []bool{false, true} {
			var err error
			if withFilter {
				_, err = middleware.PoisonQueueWithFilter(&recPub{}, t, func(error) bool { return true })
			} else {
				_, err = middleware.PoisonQueue(&recPub{}, t)
			}
			o := "ok"
			if err != nil {
				o = "err"
				if err != middleware.ErrInvalidPoisonQueueTopic {
					o = "err-other"
				}
			}
			out.Case("ctor "+wh.HexS(t), o)
			out.Count("ctor")
		}
	}
}

// ---------------------------------------------------------------- replay

func unhex(s string) string {
	if s == "-" {
		return ""
	}
	b := make([]byte, len(s)/2)
	for i := range b {
		v, _ := strconv.ParseUint(s[2*i:2*i+2], 16, 8)
		b[i] = byte(v)
	}
	return string(b)
}

func parsePairs(s string) [][2]string {
	if s == "-" {
		return nil
	}
	var out [][2]string
	for _, kv := range strings.Split(s, ",") {
		p := strings.SplitN(kv, "=", 2)
		out = append(out, [2]string{unhex(p[0]), unhex(p[1])})
	}
	return out
}

// parseCase rebuilds a case from the 14 fields after the request kind. Error kinds are reconstructed from what the
// line tells (text, sentinel flag, plain/multi), which is all the model sees of them.
func parseCase(f []string) *pcase {
	c := &pcase{mode: f[0], ptopic: unhex(f[1]), ctxT: unhex(f[4]), ctxH: unhex(f[5]), ctxS: unhex(f[6]), uuid: unhex(f[7]), meta: map[string]string{}}
	c.filter = f[2]
	if strings.HasPrefix(f[2], "text:") {
		c.filter = "text:" + unhex(f[2][5:])
	}
	if strings.HasPrefix(f[2], "seq:") {
		c.pqf, c.seq = true, strings.TrimPrefix(f[2][4:], "-")
		c.filter = "seq:" + c.seq
	}
	if strings.HasPrefix(f[3], "fail:") {
		c.pubFail = "x" + unhex(f[3][5:])
	}
	if strings.HasPrefix(f[3], "panic:") {
		c.pubFail = "p" + unhex(f[3][6:])
	}
	if len(f) > 14 { // kind pqc / pqs
		w := strings.SplitN(f[14], ":", 2)
		switch w[0] {
		case "in", "h":
			c.appWhere, c.appKV = w[0], parsePairs(w[1])
		default:
			c.ctxState, c.preSettle = w[0], w[1]
		}
	}
	if f[8] != "-" {
		c.payload = []byte(unhex(f[8]))
	}
	for _, kv := range parsePairs(f[9]) {
		c.meta[kv[0]] = kv[1]
	}
	c.sets = parsePairs(f[10])
	c.nouts, _ = strconv.Atoi(f[11])
	c.opubOk = f[13] != "fail"
	e := strings.Split(f[12], ":")
	suffix := ": " + sentinel.Error()
	switch e[0] {
	case "nil":
		c.errKind = "nil"
	case "plain":
		t := unhex(e[2])
		switch {
		case e[1] == "0":
			c.errKind, c.errText = "new", []string{t}
		case t == sentinel.Error():
			c.errKind = "sentinel"
		case strings.HasSuffix(t, suffix):
			c.errKind, c.errText = "wrapw", []string{strings.TrimSuffix(t, suffix)}
		default:
			c.errKind, c.errText = "custom", []string{t}
		}
	case "multi":
		c.errKind = "multi"
		for _, p := range strings.Split(e[2], ";") {
			t := unhex(p)
			s := strings.HasSuffix(t, suffix)
			c.errText = append(c.errText, strings.TrimSuffix(t, suffix))
			c.partS = append(c.partS, s)
		}
	}
	return c
}

func replay(out *wh.Out, line string) {
	f := strings.Fields(line)
	switch {
	case len(f) == 2 && f[0] == "ctor":
		_, err := middleware.PoisonQueue(&recPub{}, unhex(f[1]))
		o := "ok"
		if err != nil {
			o = "err"
		}
		out.Case(line, o)
	case (len(f) == 15 && (f[0] == "pq" || f[0] == "pqf")) || (len(f) == 16 && (f[0] == "pqc" || f[0] == "pqs")):
		c := parseCase(f[1:])
		if c.mode == "sa" {
			out.Case(c.req(), runSA(c))
			return
		}
		env, err := newRT([]*pcase{c}, false)
		if err == nil {
			err = env.start()
		}
		if err != nil {
			fmt.Fprintln(os.Stderr, "rt setup failed:", err)
			os.Exit(3)
		}
		out.Case(c.req(), env.run(c, 0))
		env.close()
	case len(f) == 31 && f[0] == "pq2":
		a, b := parseCase(f[3:17]), parseCase(f[17:31])
		oa, ob := runPQ2(f[1], f[2], a, b)
		out.Case(pq2Req(f[1], f[2], a, b), oa+" "+ob)
	default:
		fmt.Fprintln(os.Stderr, "cannot replay:", line)
		os.Exit(2)
	}
}

func main() {
	a := wh.ParseArgs()
	out := wh.NewOut(a.Out)
	defer out.Close()
	if a.Replay != "" {
		replay(out, a.Replay)
		return
	}
	rng := wh.NewRng(a.Seed)
	reps, perRouter := 1, 40
	if a.Thorough() {
		reps, perRouter = 40, 1200
	}
	ctorCases(out, rng)
	genSA(out, rng, reps)
	genRT(out, rng, perRouter)
	nLong := 30
	if a.Thorough() {
		nLong = 240
	}
	genLong(out, rng, nLong)
	genAppCtxAndPanic(out, rng, nLong)
	genState(out, rng, nLong/15)
	genSeq(out, rng, 12*reps)
	genPQ2(out, rng, 2*reps)
}
