// Harness for C13: drives middleware.PoisonQueue / PoisonQueueWithFilter of the real code,
// stand-alone (mode sa) and inside a running message.Router (mode rt).
//
//	REQ pq <mode> <ptopic> <filter> <pubout> <ctxTopic> <ctxHandler> <ctxSubscriber> <uuid> <payload> <meta> <sets> <nouts> <err> <opub>
//	OBS P<n>[:<topic>|<uuid>|<payload>|<meta>|<same>|<unsettled>;…] O:<out uuids> E:<err> A:<meta after> S:<settle>
//	REQ ctor <ptopic>      OBS ok|err
//
// (format documented in lean/Driver/C13.lean)
package main

import (
	"context"
	"errors"
	"fmt"
	"os"
	"strconv"
	"strings"
	"sync"
	"time"

	"github.com/ThreeDotsLabs/watermill"
	"github.com/ThreeDotsLabs/watermill/message"
	"github.com/ThreeDotsLabs/watermill/message/router/middleware"
	multierror "github.com/hashicorp/go-multierror"
	pkgerrors "github.com/pkg/errors"

	"wmverif/wh"
)

var sentinel = errors.New("sentinel failure")

type customErr struct{ text string }

func (c *customErr) Error() string        { return c.text }
func (c *customErr) Is(target error) bool { return target == sentinel }

// ---------------------------------------------------------------- case description

type pcase struct {
	mode    string
	ptopic  string
	filter  string // all | fall | none | text:<needle> | is
	pubFail string // "" = accept, otherwise "x"+text of the publisher's error
	ctxT    string
	ctxH    string
	ctxS    string
	uuid    string
	payload []byte
	meta    map[string]string
	sets    [][2]string
	nouts   int
	errKind string   // nil | new | sentinel | wrapw | wrappkg | custom | multi
	errText []string // texts (one for plain kinds, the parts' own texts for multi)
	partS   []bool   // multi: which part wraps the sentinel
	opubOk  bool
}

// buildErr constructs the handler's error; returns it, whether errors.Is(err, sentinel) must hold by construction,
// and the texts of its parts.
func (c *pcase) buildErr() (err error, isS bool, parts []string, multi bool) {
	switch c.errKind {
	case "nil":
		return nil, false, nil, false
	case "new":
		return errors.New(c.errText[0]), false, []string{c.errText[0]}, false
	case "sentinel":
		return sentinel, true, []string{sentinel.Error()}, false
	case "wrapw":
		e := fmt.Errorf("%s: %w", c.errText[0], sentinel)
		return e, true, []string{c.errText[0] + ": " + sentinel.Error()}, false
	case "wrappkg":
		e := pkgerrors.Wrap(sentinel, c.errText[0])
		return e, true, []string{c.errText[0] + ": " + sentinel.Error()}, false
	case "custom":
		return &customErr{c.errText[0]}, true, []string{c.errText[0]}, false
	case "multi":
		me := &multierror.Error{}
		for i, t := range c.errText {
			if c.partS[i] {
				me.Errors = append(me.Errors, fmt.Errorf("%s: %w", t, sentinel))
				parts = append(parts, t+": "+sentinel.Error())
				isS = true
			} else {
				me.Errors = append(me.Errors, errors.New(t))
				parts = append(parts, t)
			}
		}
		return me, isS, parts, true
	}
	panic("errKind " + c.errKind)
}

func bit(b bool) string {
	if b {
		return "1"
	}
	return "0"
}

func pairs(ps [][2]string) string {
	if len(ps) == 0 {
		return "-"
	}
	out := make([]string, len(ps))
	for i, p := range ps {
		out[i] = wh.HexS(p[0]) + "=" + wh.HexS(p[1])
	}
	return strings.Join(out, ",")
}

func (c *pcase) req() string {
	_, isS, parts, multi := c.buildErr()
	e := "nil"
	if c.errKind != "nil" {
		if multi {
			hs := make([]string, len(parts))
			for i, p := range parts {
				hs[i] = wh.HexS(p)
			}
			e = "multi:" + bit(isS) + ":" + strings.Join(hs, ";")
		} else {
			e = "plain:" + bit(isS) + ":" + wh.HexS(parts[0])
		}
	}
	filter := c.filter
	if strings.HasPrefix(filter, "text:") {
		filter = "text:" + wh.HexS(filter[5:])
	}
	po := "ok"
	if c.pubFail != "" {
		po = "fail:" + wh.HexS(c.pubFail[1:])
	}
	op := "-"
	if c.mode == "rt" {
		op = "fail"
		if c.opubOk {
			op = "ok"
		}
	}
	return strings.Join([]string{"pq", c.mode, wh.HexS(c.ptopic), filter, po, wh.HexS(c.ctxT), wh.HexS(c.ctxH), wh.HexS(c.ctxS),
		wh.HexS(c.uuid), wh.Hex(c.payload), wh.Meta(c.meta), pairs(c.sets), strconv.Itoa(c.nouts), e, op}, " ")
}

// ---------------------------------------------------------------- scripted fakes

type pubRec struct {
	topic     string
	uuid      string
	payload   []byte
	meta      map[string]string
	same      bool
	unsettled bool
}

// recPub records every Publish call (a snapshot of each message at that moment) and answers as scripted.
type recPub struct {
	mu       sync.Mutex
	recs     []pubRec
	calls    int
	fail     error
	consumed *message.Message
}

func settled(m *message.Message) bool {
	if m == nil {
		return false
	}
	select {
	case <-m.Acked():
		return true
	default:
	}
	select {
	case <-m.Nacked():
		return true
	default:
	}
	return false
}

func (p *recPub) Publish(topic string, msgs ...*message.Message) error {
	p.mu.Lock()
	defer p.mu.Unlock()
	p.calls++
	for _, m := range msgs {
		md := map[string]string{}
		for k, v := range m.Metadata {
			md[k] = v
		}
		p.recs = append(p.recs, pubRec{topic, m.UUID, append([]byte{}, m.Payload...), md, m == p.consumed, !settled(p.consumed)})
	}
	return p.fail
}
func (p *recPub) Close() error { return nil }

func (p *recPub) reset(consumed *message.Message, fail error) {
	p.mu.Lock()
	p.recs, p.calls, p.fail, p.consumed = nil, 0, fail, consumed
	p.mu.Unlock()
}

type chanSub struct {
	name string
	ch   chan *message.Message
	once sync.Once
}

func (s *chanSub) String() string { return s.name } // internal.StructName uses fmt.Stringer when present
func (s *chanSub) Subscribe(ctx context.Context, topic string) (<-chan *message.Message, error) {
	return s.ch, nil
}
func (s *chanSub) Close() error { s.once.Do(func() { close(s.ch) }); return nil }

// ---------------------------------------------------------------- building blocks shared by both modes

func (c *pcase) middleware(pub message.Publisher) (message.HandlerMiddleware, error) {
	switch {
	case c.filter == "all":
		return middleware.PoisonQueue(pub, c.ptopic)
	case c.filter == "fall":
		return middleware.PoisonQueueWithFilter(pub, c.ptopic, func(error) bool { return true })
	case c.filter == "none":
		return middleware.PoisonQueueWithFilter(pub, c.ptopic, func(error) bool { return false })
	case c.filter == "is":
		return middleware.PoisonQueueWithFilter(pub, c.ptopic, func(err error) bool { return errors.Is(err, sentinel) })
	case strings.HasPrefix(c.filter, "text:"):
		needle := c.filter[5:]
		return middleware.PoisonQueueWithFilter(pub, c.ptopic, func(err error) bool { return strings.Contains(err.Error(), needle) })
	}
	panic("filter " + c.filter)
}

func (c *pcase) message() *message.Message {
	m := message.NewMessage(c.uuid, append([]byte(nil), c.payload...))
	for k, v := range c.meta {
		m.Metadata.Set(k, v)
	}
	return m
}

func outMsgs(n int) []*message.Message {
	var outs []*message.Message
	for i := 0; i < n; i++ {
		outs = append(outs, message.NewMessage("out-"+strconv.Itoa(i), []byte(strconv.Itoa(i))))
	}
	return outs
}

type herrInfo struct {
	err   error
	multi bool
	parts []error // snapshot of the multierror's parts before the call
}

func (c *pcase) handlerFunc(hi *herrInfo) message.HandlerFunc {
	return func(m *message.Message) ([]*message.Message, error) {
		for _, kv := range c.sets {
			m.Metadata.Set(kv[0], kv[1])
		}
		return outMsgs(c.nouts), hi.err
	}
}

func (c *pcase) newHerr() *herrInfo {
	e, _, _, multi := c.buildErr()
	hi := &herrInfo{err: e, multi: multi}
	if multi {
		hi.parts = append([]error{}, e.(*multierror.Error).Errors...)
	}
	return hi
}

const wrapText = "cannot publish message to poison queue"

// errClass renders the error the middleware returned.
func errClass(ret error, hi *herrInfo, pubErr error) string {
	if ret == nil {
		return "nil"
	}
	me, isMulti := ret.(*multierror.Error)
	if hi.err != nil && ret == hi.err && (!hi.multi || len(me.Errors) == len(hi.parts)) {
		return "same"
	}
	if !isMulti || len(me.Errors) == 0 {
		return "other:" + wh.HexS(ret.Error())
	}
	flags := ""
	h := false
	if hi.err != nil {
		if hi.multi {
			h = len(me.Errors) == len(hi.parts)+1
			for i := 0; h && i < len(hi.parts); i++ {
				h = me.Errors[i] == hi.parts[i]
			}
		} else {
			h = len(me.Errors) == 2 && me.Errors[0] == hi.err
		}
		// "both causes present" also through the standard unwrapping protocol
		if h && !hi.multi && !errors.Is(ret, hi.err) {
			h = false
		}
	}
	if h {
		flags += "H"
	}
	last := me.Errors[len(me.Errors)-1]
	if pubErr != nil && pkgerrors.Cause(last) == pubErr && last.Error() == wrapText+": "+pubErr.Error() {
		flags += "P"
	}
	return "both:" + wh.HexS(ret.Error()) + ":" + flags
}

func uuids(ms []*message.Message) string {
	if len(ms) == 0 {
		return "-"
	}
	out := make([]string, len(ms))
	for i, m := range ms {
		out[i] = wh.HexS(m.UUID)
	}
	return strings.Join(out, ",")
}

func (p *recPub) render() string {
	p.mu.Lock()
	defer p.mu.Unlock()
	s := "P" + strconv.Itoa(len(p.recs))
	if len(p.recs) == 0 {
		return s
	}
	es := make([]string, len(p.recs))
	for i, r := range p.recs {
		es[i] = strings.Join([]string{wh.HexS(r.topic), wh.HexS(r.uuid), wh.Hex(r.payload), wh.Meta(r.meta), bit(r.same), bit(r.unsettled)}, "|")
	}
	return s + ":" + strings.Join(es, ";")
}

func (c *pcase) pubErr() error {
	if c.pubFail == "" {
		return nil
	}
	return errors.New(c.pubFail[1:])
}

// ---------------------------------------------------------------- mode sa

func runSA(c *pcase) (obs string) {
	pub := &recPub{}
	msg := c.message()
	defer func() {
		if r := recover(); r != nil {
			obs = pub.render() + " O:- E:" + wh.PanicText(r) + " A:" + wh.Meta(msg.Metadata) + " S:-"
		}
	}()
	perr := c.pubErr()
	pub.reset(msg, perr)
	mw, err := c.middleware(pub)
	if err != nil {
		return "P0 O:- E:other:" + wh.HexS(err.Error()) + " A:- S:-"
	}
	hi := c.newHerr()
	outs, ret := mw(c.handlerFunc(hi))(msg)
	return pub.render() + " O:" + uuids(outs) + " E:" + errClass(ret, hi, perr) + " A:" + wh.Meta(msg.Metadata) + " S:-"
}

// ---------------------------------------------------------------- mode rt

// rtEnv is one running Router with the poison middleware installed; cases are streamed through it one at a time.
type rtEnv struct {
	router  *message.Router
	sub     *chanSub
	ppub    *recPub // poison publisher
	opub    *recPub // the handler's own publisher (outputs)
	cancel  context.CancelFunc
	runDone chan error

	mu      sync.Mutex
	cur     *pcase
	curHi   *herrInfo
	seenOut []*message.Message
	seenErr error
	seen    bool
}

const settleTimeout = 30 * time.Second

func newRT(proto *pcase, handlerLevel bool) (*rtEnv, error) {
	e := &rtEnv{sub: &chanSub{name: proto.ctxS, ch: make(chan *message.Message)}, ppub: &recPub{}, opub: &recPub{}, runDone: make(chan error, 1)}
	r, err := message.NewRouter(message.RouterConfig{CloseTimeout: 10 * time.Second}, watermill.NopLogger{})
	if err != nil {
		return nil, err
	}
	e.router = r
	mw, err := proto.middleware(e.ppub)
	if err != nil {
		return nil, err
	}
	// the observer sits outside the poison middleware and sees what it returns to the Router
	observer := func(h message.HandlerFunc) message.HandlerFunc {
		return func(m *message.Message) ([]*message.Message, error) {
			outs, err := h(m)
			e.mu.Lock()
			e.seenOut, e.seenErr, e.seen = outs, err, true
			e.mu.Unlock()
			return outs, err
		}
	}
	hf := func(m *message.Message) ([]*message.Message, error) {
		e.mu.Lock()
		c, hi := e.cur, e.curHi
		e.mu.Unlock()
		return c.handlerFunc(hi)(m)
	}
	h := r.AddHandler(proto.ctxH, proto.ctxT, e.sub, "outs-topic", e.opub, hf)
	if handlerLevel {
		h.AddMiddleware(observer, mw)
	} else {
		r.AddMiddleware(observer, mw)
	}
	ctx, cancel := context.WithCancel(context.Background())
	e.cancel = cancel
	go func() { e.runDone <- r.Run(ctx) }()
	select {
	case <-r.Running():
	case <-time.After(settleTimeout):
		cancel()
		return nil, errors.New("router did not start")
	}
	return e, nil
}

func (e *rtEnv) close() {
	_ = e.router.Close()
	e.cancel()
	select {
	case <-e.runDone:
	case <-time.After(settleTimeout):
	}
}

func (e *rtEnv) run(c *pcase) string {
	msg := c.message()
	hi := c.newHerr()
	perr := c.pubErr()
	e.ppub.reset(msg, perr)
	var operr error
	if !c.opubOk {
		operr = errors.New("outputs publisher down")
	}
	e.opub.reset(msg, operr)
	e.mu.Lock()
	e.cur, e.curHi, e.seen, e.seenOut, e.seenErr = c, hi, false, nil, nil
	e.mu.Unlock()
	select {
	case e.sub.ch <- msg:
	case <-time.After(settleTimeout):
		return "P0 O:- E:other:" + wh.HexS("router did not take the message") + " A:- S:timeout"
	}
	settle := "timeout"
	select {
	case <-msg.Acked():
		settle = "ack"
	case <-msg.Nacked():
		settle = "nack"
	case <-time.After(settleTimeout):
	}
	e.mu.Lock()
	seen, ret := e.seen, e.seenErr
	e.mu.Unlock()
	ec := "other:" + wh.HexS("middleware did not return")
	if seen {
		ec = errClass(ret, hi, perr)
	}
	// outputs as handed to the Router's publisher
	e.opub.mu.Lock()
	var os []string
	for _, r := range e.opub.recs {
		os = append(os, wh.HexS(r.uuid))
	}
	e.opub.mu.Unlock()
	o := "-"
	if len(os) > 0 {
		o = strings.Join(os, ",")
	}
	return e.ppub.render() + " O:" + o + " E:" + ec + " A:" + wh.Meta(msg.Metadata) + " S:" + settle
}

// ---------------------------------------------------------------- generators

var metaKeyPool = []string{"k", "key2", "", "reason_poisoned", "topic_poisoned", "handler_poisoned", "subscriber_poisoned",
	"reason_poisoned ", "Reason_poisoned", "_watermill_requeuer_retries", "\xff\xfe", "ünï"}

func rndStr(r *wh.Rng, max int) string {
	n := r.Intn(max + 1)
	b := make([]byte, n)
	for i := range b {
		switch r.Intn(6) {
		case 0:
			b[i] = byte(r.Intn(256))
		case 1:
			b[i] = "\n\t *:=,;|"[r.Intn(9)]
		default:
			b[i] = byte('a' + r.Intn(26))
		}
	}
	return string(b)
}

func rndMeta(r *wh.Rng, variant int) map[string]string {
	m := map[string]string{}
	switch variant {
	case 0:
	case 1:
		for i, n := 0, 1+r.Intn(4); i < n; i++ {
			m[metaKeyPool[r.Intn(len(metaKeyPool))]] = rndStr(r, 6)
		}
	case 2: // all four poison keys already there (a message that was poisoned before)
		m["reason_poisoned"] = "old reason"
		m["topic_poisoned"] = "old topic"
		m["handler_poisoned"] = rndStr(r, 5)
		m["subscriber_poisoned"] = ""
		m["other"] = rndStr(r, 5)
	case 3: // some of them
		m[metaKeyPool[3+r.Intn(4)]] = rndStr(r, 5)
		m[rndStr(r, 4)] = rndStr(r, 5)
	}
	return m
}

var errKinds = []string{"nil", "new", "sentinel", "wrapw", "wrappkg", "custom", "multi"}

func (c *pcase) fillErr(r *wh.Rng, kind string) {
	c.errKind = kind
	c.errText, c.partS = nil, nil
	switch kind {
	case "nil", "sentinel":
	case "multi":
		n := 1 + r.Intn(3)
		for i := 0; i < n; i++ {
			c.errText = append(c.errText, "part"+strconv.Itoa(i)+rndStr(r, 4))
			c.partS = append(c.partS, r.Intn(3) == 0)
		}
	default:
		c.errText = []string{"boom " + rndStr(r, 8)}
	}
}

// filterFor picks a concrete filter of the given family for this case (text filters get a needle that hits or misses).
func (c *pcase) fillFilter(r *wh.Rng, fam string) {
	switch fam {
	case "text-hit":
		_, _, parts, _ := c.buildErr()
		needle := "boom"
		if len(parts) > 0 && len(parts[0]) > 0 {
			p := parts[0]
			a := r.Intn(len(p))
			b := a + 1 + r.Intn(len(p)-a)
			needle = p[a:b]
		}
		c.filter = "text:" + needle
	case "text-miss":
		c.filter = "text:" + "zz" + rndStr(r, 3) + "#"
	case "text-empty":
		c.filter = "text:"
	default:
		c.filter = fam
	}
}

var filterFams = []string{"all", "fall", "none", "is", "text-hit", "text-miss", "text-empty"}

func count(out *wh.Out, c *pcase, obs string) {
	out.Count("mode." + c.mode)
	out.Count("err." + c.errKind)
	f := c.filter
	if i := strings.Index(f, ":"); i >= 0 {
		f = f[:i]
	}
	out.Count("filter." + f)
	if c.pubFail != "" {
		out.Count("pub.fail")
	} else {
		out.Count("pub.ok")
	}
	out.Count("outs." + strconv.Itoa(c.nouts))
	switch {
	case strings.HasPrefix(obs, "P1"):
		out.Count("branch.poisoned")
	case strings.HasPrefix(obs, "P0"):
		out.Count("branch.not_poisoned")
	}
	for _, k := range []string{"reason_poisoned", "topic_poisoned", "handler_poisoned", "subscriber_poisoned"} {
		if _, ok := c.meta[k]; ok {
			out.Count("meta.preexisting_poison_key")
			break
		}
	}
	if i := strings.Index(obs, " S:"); i >= 0 {
		out.Count("settle." + obs[i+3:])
	}
	if i := strings.Index(obs, " E:"); i >= 0 {
		e := obs[i+3:]
		if j := strings.IndexAny(e, ": "); j >= 0 {
			e = e[:j]
		}
		out.Count("ret." + e)
	}
}

func genSA(out *wh.Out, rng *wh.Rng, reps int) {
	for rep := 0; rep < reps; rep++ {
		for _, ek := range errKinds {
			for _, ff := range filterFams {
				for _, pf := range []bool{false, true} {
					for _, nouts := range []int{0, 2} {
						for mv := 0; mv < 4; mv++ {
							c := &pcase{mode: "sa", ptopic: "poison-" + rndStr(rng, 4), uuid: rndStr(rng, 10), nouts: nouts, meta: rndMeta(rng, mv), opubOk: true}
							if rng.Intn(3) > 0 {
								c.payload = []byte(rndStr(rng, 12))
							}
							if pf {
								c.pubFail = "x" + "publisher down " + rndStr(rng, 4)
							}
							if rng.Intn(3) == 0 {
								for i, n := 0, 1+rng.Intn(2); i < n; i++ {
									c.sets = append(c.sets, [2]string{metaKeyPool[rng.Intn(len(metaKeyPool))], rndStr(rng, 4)})
								}
							}
							c.fillErr(rng, ek)
							c.fillFilter(rng, ff)
							obs := runSA(c)
							out.Case(c.req(), obs)
							count(out, c, obs)
						}
					}
				}
			}
		}
	}
}

func genRT(out *wh.Out, rng *wh.Rng, perRouter int) {
	for _, ff := range filterFams {
		for _, level := range []bool{false, true} {
			proto := &pcase{mode: "rt", ptopic: "poison-" + rndStr(rng, 4), ctxT: "in-" + rndStr(rng, 5), ctxH: "h-" + rndStr(rng, 5), ctxS: "sub." + rndStr(rng, 5)}
			// one filter per router: text filters use a fixed needle
			switch ff {
			case "text-hit":
				proto.filter = "text:boom"
			case "text-miss":
				proto.filter = "text:part1"
			case "text-empty":
				proto.filter = "text:"
			default:
				proto.filter = ff
			}
			env, err := newRT(proto, level)
			if err != nil {
				out.Note("rt setup failed: " + err.Error())
				fmt.Fprintln(os.Stderr, "rt setup failed:", err)
				os.Exit(3)
			}
			// the poison publisher fails from the k-th failing message on, or at random
			failFrom := rng.Intn(perRouter)
			for i := 0; i < perRouter; i++ {
				c := *proto
				c.uuid = rndStr(rng, 10)
				if rng.Intn(3) > 0 {
					c.payload = []byte(rndStr(rng, 12))
				}
				c.meta = rndMeta(rng, rng.Intn(4))
				c.nouts = []int{0, 0, 1, 3}[rng.Intn(4)]
				c.opubOk = rng.Intn(4) > 0
				if (level && i >= failFrom) || (!level && rng.Intn(3) == 0) {
					c.pubFail = "x" + "poison publisher down " + rndStr(rng, 3)
				}
				if rng.Intn(4) == 0 {
					c.sets = append(c.sets, [2]string{metaKeyPool[rng.Intn(len(metaKeyPool))], rndStr(rng, 4)})
				}
				c.fillErr(rng, errKinds[rng.Intn(len(errKinds))])
				obs := env.run(&c)
				out.Case(c.req(), obs)
				count(out, &c, obs)
				if level {
					out.Count("rt.middleware.handler_level")
				} else {
					out.Count("rt.middleware.router_level")
				}
			}
			env.close()
		}
	}
}

func ctorCases(out *wh.Out, rng *wh.Rng) {
	for _, t := range []string{"", "poison", " ", rndStr(rng, 6) + "x"} {
		for _, withFilter := range []bool{false, true} {
			var err error
			if withFilter {
				_, err = middleware.PoisonQueueWithFilter(&recPub{}, t, func(error) bool { return true })
			} else {
				_, err = middleware.PoisonQueue(&recPub{}, t)
			}
			o := "ok"
			if err != nil {
				o = "err"
				if err != middleware.ErrInvalidPoisonQueueTopic {
					o = "err-other"
				}
			}
			out.Case("ctor "+wh.HexS(t), o)
			out.Count("ctor")
		}
	}
}

// ---------------------------------------------------------------- replay

func unhex(s string) string {
	if s == "-" {
		return ""
	}
	b := make([]byte, len(s)/2)
	for i := range b {
		v, _ := strconv.ParseUint(s[2*i:2*i+2], 16, 8)
		b[i] = byte(v)
	}
	return string(b)
}

func parsePairs(s string) [][2]string {
	if s == "-" {
		return nil
	}
	var out [][2]string
	for _, kv := range strings.Split(s, ",") {
		p := strings.SplitN(kv, "=", 2)
		out = append(out, [2]string{unhex(p[0]), unhex(p[1])})
	}
	return out
}

// replay rebuilds a case from its request line. Error kinds are reconstructed from what the line tells
// (text, sentinel flag, plain/multi), which is all the model sees of them.
func replay(out *wh.Out, line string) {
	f := strings.Fields(line)
	if len(f) == 2 && f[0] == "ctor" {
		_, err := middleware.PoisonQueue(&recPub{}, unhex(f[1]))
		o := "ok"
		if err != nil {
			o = "err"
		}
		out.Case(line, o)
		return
	}
	if len(f) != 15 || f[0] != "pq" {
		fmt.Fprintln(os.Stderr, "cannot replay:", line)
		os.Exit(2)
	}
	c := &pcase{mode: f[1], ptopic: unhex(f[2]), ctxT: unhex(f[5]), ctxH: unhex(f[6]), ctxS: unhex(f[7]), uuid: unhex(f[8]), meta: map[string]string{}}
	c.filter = f[3]
	if strings.HasPrefix(f[3], "text:") {
		c.filter = "text:" + unhex(f[3][5:])
	}
	if strings.HasPrefix(f[4], "fail:") {
		c.pubFail = "x" + unhex(f[4][5:])
	}
	if f[9] != "-" {
		c.payload = []byte(unhex(f[9]))
	}
	for _, kv := range parsePairs(f[10]) {
		c.meta[kv[0]] = kv[1]
	}
	c.sets = parsePairs(f[11])
	c.nouts, _ = strconv.Atoi(f[12])
	c.opubOk = f[14] != "fail"
	e := strings.Split(f[13], ":")
	suffix := ": " + sentinel.Error()
	switch e[0] {
	case "nil":
		c.errKind = "nil"
	case "plain":
		t := unhex(e[2])
		switch {
		case e[1] == "0":
			c.errKind, c.errText = "new", []string{t}
		case t == sentinel.Error():
			c.errKind = "sentinel"
		case strings.HasSuffix(t, suffix):
			c.errKind, c.errText = "wrapw", []string{strings.TrimSuffix(t, suffix)}
		default:
			c.errKind, c.errText = "custom", []string{t}
		}
	case "multi":
		c.errKind = "multi"
		for _, p := range strings.Split(e[2], ";") {
			t := unhex(p)
			s := strings.HasSuffix(t, suffix)
			c.errText = append(c.errText, strings.TrimSuffix(t, suffix))
			c.partS = append(c.partS, s)
		}
	}
	if c.mode == "sa" {
		out.Case(c.req(), runSA(c))
		return
	}
	env, err := newRT(c, false)
	if err != nil {
		fmt.Fprintln(os.Stderr, "rt setup failed:", err)
		os.Exit(3)
	}
	out.Case(c.req(), env.run(c))
	env.close()
}

func main() {
	a := wh.ParseArgs()
	out := wh.NewOut(a.Out)
	defer out.Close()
	if a.Replay != "" {
		replay(out, a.Replay)
		return
	}
	rng := wh.NewRng(a.Seed)
	reps, perRouter := 1, 40
	if a.Thorough() {
		reps, perRouter = 40, 1200
	}
	ctorCases(out, rng)
	genSA(out, rng, reps)
	genRT(out, rng, perRouter)
}
