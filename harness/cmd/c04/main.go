// Harness for C04: GoChannel delivers every published message to every current subscriber (copies, redelivery on Nack).
// Emits per-subscription streams (conformance with M_sub) and topic-level traces (C04 monitor), see harness/gc.
package main

import (
	"fmt"

	"wmverif/gc"
	"wmverif/wh"
)

func main() {
	a := wh.ParseArgs()
	out := wh.NewOut(a.Out)
	defer out.Close()
	n := 250
	if a.Thorough() {
		n = 4000
	}
	rng := wh.NewRng(a.Seed)
	f := gc.Focus{Blocking: 250, Persistent: 350, Cancel: 120, Hold: 0, Nested: 80, Late: 350, CloseRace: 50, MaxSubs: 3, MaxPubs: 3, MaxMsgs: 4}
	// messages that share a UUID or have an empty one (set on the struct, not through the constructor): identified by payload
	for i := 0; i < n/60+2; i++ {
		sc := gc.DupUUIDs(rng.Next())
		sc.Persistent = i%2 == 0
		out.Begin(sc.Describe())
		res := gc.Run(sc)
		gc.Emit(out, res)
		out.Count("cfg.dupuuid")
	}
	// subscriptions whose Subscribe context cannot be cancelled (context.Background()): every delivery still gets a context of its
	// own that ends after the Ack
	for i := 0; i < 3; i++ {
		sc := gc.Scenario{Buf: i % 2, Persistent: i == 1, Blocking: i == 2, Seed: rng.Next(),
			Subs: []gc.SubSpec{
				{Topic: 0, Phase: 0, CancelAtRecv: -1, NestedTopic: -1, PlainCtx: true, NackFirst: 1, NackEvery: 2},
				{Topic: 0, Phase: i % 2, CancelAtRecv: -1, NestedTopic: -1, PlainCtx: true}},
			Pubs: []gc.PubSpec{{Topic: 0, Calls: 3, Batch: 1}}}
		out.Begin(sc.Describe())
		res := gc.Run(sc)
		gc.Emit(out, res)
		out.Count("cfg.subscribe_context_without_cancel")
	}
	// the earliest subscription of the topic never settles what it gets (and is not cancelled until the others have everything):
	// the other subscriptions must not wait for it
	for i := 0; i < 3; i++ {
		sc := gc.Scenario{Buf: i % 2, Persistent: i == 2, Seed: rng.Next(),
			Subs: []gc.SubSpec{
				{Topic: 0, Phase: 0, CancelAtRecv: -1, NestedTopic: -1, HoldAll: true, HoldQuiet: true},
				{Topic: 0, Phase: 0, CancelAtRecv: -1, NestedTopic: -1},
				{Topic: 0, Phase: 0, CancelAtRecv: -1, NestedTopic: -1, NackFirst: 1}},
			Pubs: []gc.PubSpec{{Topic: 0, Calls: 3, Batch: 1}}}
		out.Begin(sc.Describe())
		res := gc.Run(sc)
		gc.Emit(out, res)
		out.Count("cfg.first_subscription_holds")
	}
	for i := 0; i < n; i++ {
		sc := gc.Random(rng, f)
		out.Begin(sc.Describe())
		res := gc.Run(sc)
		gc.Emit(out, res)
		out.Count(fmt.Sprintf("cfg.buf%d.persist%v.block%v", sc.Buf, sc.Persistent, sc.Blocking))
		if gc.TooManyStuck() {
			out.Note("stopped generating: three scenarios ran into the liveness bound")
			break
		}
	}
}
