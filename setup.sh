#!/bin/bash
# MANIFEST.setup_cmd: build the framework offline from files on disk.
set -e
cd "$(dirname "$0")"
export GOFLAGS=-mod=mod GOPROXY=off GOSUMDB=off GOTOOLCHAIN=local CGO_ENABLED=1
mkdir -p .build facts/actual evidence
MODFILE=$(python3 -c "import checklib; print(checklib.modfile('setup'))")
(cd harness && go build -modfile=$MODFILE -o ../.build/extract ./cmd/extract && (../.build/extract -repo /repo -lean ../lean/WmModel/Gen -facts ../facts/actual || echo "WARNING: an extractor reported an error; the check of that property will report it"))
(cd lean && lake build) || echo "WARNING: lake build of the whole library failed; each check builds its own targets and will report"
# warm the Go build cache (race-instrumented standard library included) so the first quick run is fast
(cd harness && for d in cmd/*/; do n=$(basename $d); [ "$n" = extract ] && continue; go build -modfile=$MODFILE -tags verif -race -o ../.build/warm_$n ./cmd/$n || true; rm -f ../.build/warm_$n; done)
echo setup done
