#!/bin/bash
# Regenerates lean/WmModel/Gen/*.lean and facts/actual/*.json from /repo (the committed form of Gen/ is the one of the
# unchanged tree; runs against scratch trees - VERIF_REPO=... - overwrite these files, so call this before committing).
set -e
cd "$(dirname "$0")/.."
export GOFLAGS=-mod=mod GOPROXY=off GOSUMDB=off GOTOOLCHAIN=local CGO_ENABLED=1
mkdir -p .build facts/actual
MODFILE=$(VERIF_REPO=/repo python3 -c "import checklib; print(checklib.modfile('setup'))")
(cd harness && go build -modfile=$MODFILE -o ../.build/extract ./cmd/extract && ../.build/extract -repo /repo -lean ../lean/WmModel/Gen -facts ../facts/actual)
git status --short lean/WmModel/Gen
