#!/bin/bash
# tools/commit.sh "<message>" – regenerates lean/WmModel/Gen/* from /repo (scratch-tree runs overwrite them), then commits everything.
cd "$(dirname "$0")/.."
if pgrep -f "tools/try_seed.sh|tools/revalidate_seeds.sh" >/dev/null; then echo "a scratch-tree job is running: Gen/* may be overwritten again - commit later or add files selectively"; fi
tools/regen_gen.sh >/dev/null 2>&1
git add -A && git commit -qm "$1" && git log --oneline | head -1
