#!/usr/bin/env python3
"""tools/gen_seed_table.py – prints the markdown table of the round-2 seeded changes (DESIGN.md 0.7) from seeded/*_r2_*/meta.json
(first reaction of the checks = `check`, reaction of the current checks = `check_now`) and the one-line descriptions below."""
import json, os
V = os.path.dirname(os.path.dirname(os.path.abspath(__file__)))
D = {
 "C01_r2_1": "GoChannel.Publish keeps `closedLock` for the whole call (blocking mode, stages chained on one GoChannel)",
 "C01_r2_2": "redelivery copies the nacked attempt, not the published message (stage edits its copy in place, then fails)",
 "C01_r2_3": "publish failure wrapping `context.Canceled` returns before `msg.Nack()` (delivery stays unsettled for ever)",
 "C02_r2_1": "handler-error branch falls through: messages returned together with an error are published",
 "C02_r2_2": "`callHandler` recovers a panic by a type switch without default (panic(42), struct, []byte → Ack)",
 "C02_r2_3": "run loop skips a message received after the handler context was cancelled (never handled, never settled)",
 "C03_r2_1": "zero-value handling hoisted above the first-wins check (losing call installs `closedchan`: both channels closed)",
 "C03_r2_2": "`ackMutex` becomes RWMutex, `Nack` takes the read lock (two Nacks double-close)",
 "C03_r2_3": "`Acked()`/`Nacked()` lazily create the channel outside the mutex (racing reader re-opens a closed channel)",
 "C04_r2_1": "fan-out copies from the publisher's own object (`messages[i]`), publisher edits after Publish leak",
 "C04_r2_2": "early `return g.waitForAck…` inside the per-message loop (blocking mode, batch of ≥ 2: only m1 delivered)",
 "C04_r2_3": "locks dropped while waiting for the ack (persistent+blocking, Subscribe mid-batch: message doubled)",
 "C05_r2_1": "32 striped topic locks by FNV hash (nested publish to a colliding topic name deadlocks)",
 "C05_r2_2": "unsubscribe goroutine takes topic mutex before `subscribersLock` (lock-order inversion with Publish)",
 "C05_r2_3": "extra `case <-ctx.Done(): return` in the settle wait (next message handed out while one is unsettled)",
 "C06_r2_1": "Close answers nil at once when `!IsRunning()` (Close before/while Run starts, handlers still run afterwards)",
 "C06_r2_2": "RunHandlers calls `IsClosed()` under `handlersLock` (lock-order inversion with Close)",
 "C06_r2_3": "Close cancels the handlers' contexts itself before it signals the closing (subscriber not closed by Close)",
 "C07_r2_1": "Close sets `persistedMessages = nil` before `subscribersWg.Wait()` (replay loop indexes a nil map → panic)",
 "C07_r2_2": "decorator Subscribe: `subscribeWg.Add(1)` before the inner Subscribe, no `Done()` on its error (Close hangs)",
 "C07_r2_3": "`topicSubscribers` returns the live slice (cancel of one subscription mid-dispatch: survivor misses a message)",
 "C08_r2_1": "middleware `appliesTo` uses `HandlerName == \"\"` (handler named \"\" leaks its middleware to every handler)",
 "C08_r2_2": "`addHandlerContext` builds the value chain once per batch (outputs 1..n-1 get output 0's context)",
 "C08_r2_3": "RunHandlers decorates all handlers in a first loop without the `started` guard (running handlers re-wrapped)",
 "C09_r2_1": "stacked transform decorators fused in place (shared pre-decorated subscriber object: decorators twice, foreign context)",
 "C09_r2_2": "`addHandlerLevelMiddleware` copy-on-write (overlapping AddMiddleware calls lose registrations, race detector silent)",
 "C09_r2_3": "Run loads plugins after RunHandlers (registrations made by a RouterPlugin miss handlers added before Run)",
 "C10_r2_1": "`h.started = true` before the fallible steps (a handler whose Subscribe failed once is never retried)",
 "C10_r2_2": "`isRunning` reset when Run returns (a second Run after the first returned is not refused)",
 "C10_r2_3": "RunHandlers returns nil early when the router is closed (and takes `closedLock` under `handlersLock`)",
 "C11_r2_1": "`removeSubscriber` swap-remove without write-back (`[C,B,C]`: last subscription gets later messages twice)",
 "C11_r2_2": "backlogs > 1000 replayed by one goroutine reading the live backlog after the locks are released (message doubled)",
 "C11_r2_3": "≤ 1000 replay goroutines with an integer-division share (remainder of a backlog > 1000 never replayed)",
 "C12_r2_1": "zero back-off never looks at the message context (`if waitTime > 0 { select … }`)",
 "C12_r2_2": "output of a failed attempt survives into the successful result",
 "C12_r2_3": "back-off measured from the start of the previous attempt (slow handler eats the pause)",
 "C13_r2_1": "filter consulted twice (stateful filter: yes then no → acked and lost)",
 "C13_r2_2": "`events`/`err` shared across concurrent messages of one handler",
 "C13_r2_3": "topic/handler/subscriber metadata cached with `sync.Once` (second handler's poison messages mislabelled)",
 "C14_r2_1": "`IsDuplicate` returns `ctx.Err()` after storing the key (cancelled first delivery consumes the key)",
 "C14_r2_2": "expired-but-uncleaned key re-armed + clean-up deletes without re-checking (key erased inside its window)",
 "C14_r2_3": "Adler hasher appends `len(m.Payload)` instead of the bytes read (equal prefixes hash differently)",
 "C15_r2_1": "unmarshal moved above the event-name check (unknown event with undecodable payload nacked despite AckOnUnknownEvent)",
 "C15_r2_2": "JSON marshaler decodes a valid prefix (`{..}{..}` handled and acked)",
 "C15_r2_3": "`CtxWithOriginalMessage` keeps an already attached message (downstream handler sees the upstream message)",
 "C16_r2_1": "`ToProtoMarshaler` drops the configured `GenerateName` on the std-proto fallback path",
 "C16_r2_2": "`Copy()` via `maps.Clone` (nil metadata stays nil: first `Set` on the copy panics)",
 "C16_r2_3": "envelope payload as `string` (invalid UTF-8 rewritten by `encoding/json`: binary payloads corrupted)",
 "C17_r2_1": "forwarder error paths merged: destination Publish error acked when `AckWhenCannotUnwrap`",
 "C17_r2_2": "requeuer bumps the counter before `GeneratePublishTopic` (budget policies see the wrong counter)",
 "C17_r2_3": "empty envelope UUID replaced by a fresh one on unwrap",
 "C18_r2_1": "foreign replies unmarshalled before the operation-id filter (a foreign undecodable reply fails the own request)",
 "C18_r2_2": "`HasError` flag no longer consulted when a reply is unmarshalled (error text decides)",
 "C18_r2_3": "`close(replyChan)` folded into the hook's deferred function behind its nil guard (no hook: channel never closed)",
 "C19_r2_1": "Throttle wait also fires on `ctx.Done()` and falls through (cancelled messages skip their tick)",
 "C19_r2_2": "Recoverer drops the `panicked` flag (`panic(nil)` under GODEBUG panicnil=1 becomes success)",
 "C19_r2_3": "CorrelationID loop `break`s instead of `continue` at an already correlated output",
 "C20_r2_1": "metrics subscriber goroutine gives up on `ctx.Done()` (settlement after subscription cancel not counted)",
 "C20_r2_2": "zero context delay no longer beats the default generator (`ok && !delay.IsZero()`)",
 "C20_r2_3": "decorator Close calls the wrapped Close only inside `closingOnce.Do` (retried Close never reaches it)",
}

D3 = {
 "C01_r3_1": "`sendMessage` inlined into the batch loop, dispatcher goroutines capture the loop variable (batch Publish: m2 twice, m1 never)",
 "C01_r3_2": "`topicSubscribers` returns `subscribers[:n:n]` (fan-out ≥ 3, a sibling leaves during dispatch: one branch misses the message)",
 "C01_r3_3": "per-handler mutex around the handler call released without defer (handler panic wedges the stage)",
 "C02_r3_1": "error switch: the `context.DeadlineExceeded` arm lost `msg.Nack()`",
 "C02_r3_2": "`h.publisher == nil` checked before `len(produced) == 0` (nil-publisher handler with no output nacked for ever)",
 "C02_r3_3": "RWMutex fast path in Ack/Nack without re-check under the write lock (handler's own settlement from a helper goroutine overridden)",
 "C03_r3_1": "`ackSentType` atomic with a lock-free fast path (caller between state write and close sees Ack()==true, Acked() open)",
 "C03_r3_2": "`TryLock` + wait-for-outcome select on channels captured as nil (zero-value message: overlapping call blocks for ever)",
 "C03_r3_3": "`ackMutex` a lazily created `*sync.Mutex` (zero-value message: two first callers lock different mutexes)",
 "C04_r3_1": "Publish reuses the caller's variadic slice (publisher edits through `batch[i]` leak into deliveries)",
 "C04_r3_2": "per-redelivery context whose cancel is never called (copy delivered after a Nack stays live after its Ack)",
 "C04_r3_3": "`Message.Copy` via `maps.Clone` (nil metadata delivered as nil map: subscriber's `Set` panics)",
 "C05_r3_1": "`defer persistedMessagesLock.Unlock()` inside Publish (persistent+blocking: lock held through the ack wait)",
 "C05_r3_2": "defensive copies skipped in blocking mode with one subscriber (publisher's own object, with its ack state, is delivered)",
 "C05_r3_3": "Close takes `subscribersLock` before `close(g.closing)` (blocking Publish and Close wait for each other)",
 "C06_r3_1": "CloseTimeout covers only the second wait (`handlersWg.Wait()` unbounded: Close hangs instead of timing out)",
 "C06_r3_2": "`handlersWg.Done()` on a failed Subscribe (retried handler's loop not counted: Close returns nil while it runs)",
 "C06_r3_3": "publisher close de-duplicated by publisher type name (second instance of the same type never closed)",
 "C07_r3_1": "Close unlocks `closedLock` right after signalling (overlapping second Close returns while goroutines remain)",
 "C07_r3_2": "`persistMessages` helper returns between Lock and `defer Unlock` (lock leaked: next Publish hangs after Close)",
 "C07_r3_3": "decorator `closing` channel created once per decorator value (same value on two subscribers / twice in a chain: panic, drops)",
 "C08_r3_1": "handler context added by an innermost publisher decorator (router's publisher decorators see empty context values)",
 "C08_r3_2": "decorated-publisher cache keyed by publisher type name (two instances of one type share the first one's publisher)",
 "C08_r3_3": "router's context decorator skipped for application-wrapped transform subscribers (context getters return \"\")",
 "C09_r3_1": "router keeps the caller's decorator slice (caller edits/append on spare capacity change the chain)",
 "C09_r3_2": "RunHandlers decorates in a first pass without the `started` check (decorators applied twice to running handlers)",
 "C09_r3_3": "'already registered' middlewares skipped by code pointer (second closure from one constructor dropped)",
 "C10_r3_1": "`close(r.closedCh)` after the timeout return (Close timed out: Run blocks for ever)",
 "C10_r3_2": "handler.run waits on the router-wide running-handlers WaitGroup under the shared lock (Stop of a busy handler blocks the others)",
 "C10_r3_3": "handler goroutine `TryLock`s `handlersLock` and returns on failure (Stopped() never closed)",
 "C11_r3_1": "`topicLock` Load-then-Store + backlog append outside `persistedMessagesLock` (two first publishers: one backlog entry lost)",
 "C11_r3_2": "blocking Publish returns before persisting when the topic has no subscribers",
 "C11_r3_3": "per-subscriber 'already delivered' set keyed by UUID (distinct publications sharing a UUID dropped)",
 "C12_r3_1": "MaxElapsedTime context derived from `context.Background()` (message-context cancel ignored)",
 "C12_r3_2": "pause clamped to the remaining budget (retry after the deadline)",
 "C12_r3_3": "'context ended' inferred from the error value (handler error wrapping context.Canceled stops retrying)",
 "C13_r3_1": "poison-loop guard returns nil when subscribe topic = poison topic (acked, never published)",
 "C13_r3_2": "`!shouldGoToPoisonQueue(err) || err == nil` (filter called with nil for every success)",
 "C13_r3_3": "default filter excludes `context.Canceled`",
 "C14_r3_1": "clean-up swaps the map and filters it without the lock (duplicates accepted during a pass)",
 "C14_r3_2": "SHA-256 read limit rounded down to whole blocks",
 "C14_r3_3": "clean-up deletes at most 1024 expired tags per tick",
 "C15_r3_1": "command processor: `ctx` hoisted, shared by concurrent messages",
 "C15_r3_2": "event bus caches GeneratePublishTopic by event name (content-derived topics wrong from the second event on)",
 "C15_r3_3": "group processor: later handler's error after an earlier success is acked",
 "C16_r3_1": "`Metadata.Set` deletes the key for an empty value (Copy loses \"\"-valued entries)",
 "C16_r3_2": "reply error rebuilt with `fmt.Errorf(text)` (text used as format string)",
 "C16_r3_3": "`proto.UnmarshalOptions{DiscardUnknown: true}`",
 "C17_r3_1": "forwarder envelope payload as `string` (binary payloads corrupted at wrap time)",
 "C17_r3_2": "forwarder 'loop guard': destination topic named like the forwarder topic treated as not unwrappable",
 "C17_r3_3": "fanin handler returns the message in a slice allocated once (concurrent deliveries overwrite each other)",
 "C18_r3_1": "hand-over select watches the caller's context instead of the derived time-out context",
 "C18_r3_2": "reply error rebuilt with `fmt.Errorf(text)`",
 "C18_r3_3": "time-out context armed only if the caller's context has no deadline",
 "C19_r3_1": "`RecoveredPanicError.Cause()` returns nil for non-error panics (IgnoreErrors(Recoverer(h)) dereferences nil)",
 "C19_r3_2": "Timeout restores `context.WithoutCancel(ctx)` (message detached from its parent for good)",
 "C19_r3_3": "CircuitBreaker hands outputs over through a variable shared by concurrent calls",
 "C20_r3_1": "metrics builder returns `NewCollector` instead of `ExistingCollector` on AlreadyRegistered",
 "C20_r3_2": "decorator Subscribe: `subscribeWg.Add(1)` before the wrapped Subscribe, no Done on error",
 "C20_r3_3": "`defer m.observe(ctx, labels, time.Now(), err)` (err evaluated at defer time: failures exported as success)",
}
D.update(D3)

def short(c):
    if not c: return "–"
    if not c.get("detected"):
        v = c.get("violation_line") or ""
        return "**escaped**" if not v or v.startswith("VIOLATION") is False and "applies" not in v and "build" not in v else v
    if c.get("with_failing_input"):
        return "failing input, `%s`" % (c.get("monitor_rule") or "").replace("violated:", "")
    return "static legs only"
import sys
RND = sys.argv[1] if len(sys.argv) > 1 else "_r2_"
rows = []
for d in sorted(os.listdir(os.path.join(V, "seeded"))):
    if RND not in d: continue
    m = json.load(open(os.path.join(V, "seeded", d, "meta.json")))
    rows.append("| %s | %s | %s | %s |" % (d, D.get(d, ""), short(m.get("check")), short(m.get("check_now"))))
print("| Seed | change (what it needs to manifest) | checks at the time of seeding | current checks |")
print("|---|---|---|---|")
print("\n".join(rows))
