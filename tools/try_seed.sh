#!/bin/bash
# tools/try_seed.sh <seed-dir> <Cxx> <worktree> <pkg> <test-regex> [tier]
# Confirms a seeded change in a scratch worktree (builds, existing tests of the package pass, the demonstration fails with the
# change and passes without it) and runs the check of property Cxx against the changed tree. Prints a summary line.
set -u
sd=$1; prop=$2; wt=$3; pkg=$4; rx=$5; tier=${6:-quick}
export GOFLAGS=-mod=mod GOPROXY=off GOSUMDB=off GOTOOLCHAIN=local
cd "$wt" || exit 2
git checkout -q -- . ; git clean -fdq -e dev/ >/dev/null 2>&1
demos=$(ls "$sd" | grep '_test.go$')
git apply "$sd/patch.diff" || { echo "SEED $sd: patch does not apply"; exit 2; }
go build ./... && go vet "$pkg" >/dev/null 2>&1 || { echo "SEED $sd: does not build"; git checkout -q -- .; exit 2; }
existing=pass; timeout 600 go test -count=1 "$pkg" >/tmp/seed_existing.log 2>&1 || existing=FAIL
for d in $demos; do cp "$sd/$d" "$wt/${pkg#./}/"; done
demo_with=pass; timeout 300 go test -tags verif -count=1 -run "$rx" "$pkg" >/tmp/seed_demo_with.log 2>&1 || demo_with=fail
git checkout -q -- .
demo_without=pass; timeout 300 go test -tags verif -count=1 -run "$rx" "$pkg" >/tmp/seed_demo_without.log 2>&1 || demo_without=fail
for d in $demos; do rm -f "$wt/${pkg#./}/$d"; done
git apply "$sd/patch.diff"
cd /verif
out=$(VERIF_REPO="$wt" timeout 1500 ./check "$prop" --tier "$tier" 2>&1)
rc=$?
cd "$wt" && git checkout -q -- .
viol=$(echo "$out" | grep '^VIOLATION' | head -1)
echo "SEED $sd prop=$prop existing_tests=$existing demo_with_change=$demo_with demo_without=$demo_without check_rc=$rc :: $viol"
echo "$out" | grep -A4 '^failing input\|^no longer checks' | head -12
