#!/bin/bash
# tools/revalidate_mutants.sh <Cxx>...  – re-runs the current quick checks against the builders' mutants (mutants/<Cxx>/*.patch) in a scratch
# worktree of /repo's HEAD (/tmp/wtm_<cxx>, removed afterwards) and prints one MUTANT line per patch: detected with a failing input /
# detected by static legs only / NOT detected / patch does not apply (mutants written against an earlier head).
set -u
export GOFLAGS=-mod=mod GOPROXY=off GOSUMDB=off GOTOOLCHAIN=local
head=$(git -C /repo rev-parse HEAD)
for prop in "$@"; do
  wt=/tmp/wtm_$(echo $prop | tr 'C' 'c')
  [ -d "$wt" ] || git -C /repo worktree add -q --detach "$wt" "$head"
  for patch in /verif/mutants/$prop/*.patch; do
    [ -f "$patch" ] || continue
    cd "$wt" || continue
    git reset -q --hard "$head" >/dev/null 2>&1; git clean -fdq >/dev/null 2>&1
    if git apply "$patch" 2>/dev/null || git apply -3 "$patch" >/dev/null 2>&1 && ! git diff --name-only --diff-filter=U | grep -q .; then
      if go build ./... >/dev/null 2>&1; then
        cd /verif
        out=$(VERIF_REPO="$wt" timeout 2400 ./check "$prop" --tier quick 2>&1); rc=$?
        viol=$(echo "$out" | grep '^VIOLATION' | head -1)
        if [ -z "$viol" ]; then v="NOT-DETECTED"; elif echo "$viol" | grep -q no-failing-input-found; then v="static"; else v="input"; fi
        echo "MUTANT $prop $(basename $patch) rc=$rc $v"
      else
        echo "MUTANT $prop $(basename $patch) rc=- does-not-build"
      fi
    else
      echo "MUTANT $prop $(basename $patch) rc=- does-not-apply"
    fi
  done
  cd /verif; git -C /repo worktree remove --force "$wt" 2>/dev/null
done
