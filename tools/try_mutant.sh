#!/bin/bash
# tools/try_mutant.sh <patch-file> <Cxx> [tier]  – apply a patch to /repo, run the check, undo the patch.
set -u
patch=$1; prop=$2; tier=${3:-quick}
cd /repo || exit 2
if ! git diff --quiet; then echo "/repo has uncommitted changes"; exit 2; fi
git apply "$patch" || { echo "patch does not apply"; exit 2; }
trap 'git -C /repo checkout -- . ' EXIT
cd /verif && ./check "$prop" --tier "$tier"
echo "check exit code: $?"
