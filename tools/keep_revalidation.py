#!/usr/bin/env python3
"""tools/keep_revalidation.py <log>... – files RESULT lines of tools/revalidate_seeds.sh into seeded/<id>/meta.json (key check_now)."""
import json, os, re, sys, subprocess
V = os.path.dirname(os.path.dirname(os.path.abspath(__file__)))
head = subprocess.run(["git", "-C", "/repo", "rev-parse", "--short", "HEAD"], capture_output=True, text=True).stdout.strip()
vhead = subprocess.run(["git", "-C", V, "rev-parse", "--short", "HEAD"], capture_output=True, text=True).stdout.strip()
for log in sys.argv[1:]:
    for l in open(log, errors="replace"):
        m = re.match(r"RESULT (\S+) prop=(\S+) rc=(\S+) :: ?(.*?) :: ?(.*)$", l.rstrip("\n"))
        if not m:
            continue
        sid, prop, rc, viol, rule = m.groups()
        p = os.path.join(V, "seeded", sid, "meta.json")
        if not os.path.exists(p):
            continue
        meta = json.load(open(p))
        meta["check_now"] = {"repo_head": head, "verif_head": vhead, "exit_code": rc, "violation_line": viol,
                             "detected": viol.startswith("VIOLATION"),
                             "with_failing_input": viol.startswith("VIOLATION") and "no-failing-input-found" not in viol,
                             "monitor_rule": rule or None}
        json.dump(meta, open(p, "w"), indent=1)
        print(sid, "detected+input" if meta["check_now"]["with_failing_input"] else ("detected(static)" if meta["check_now"]["detected"] else viol or "ESCAPED"))
