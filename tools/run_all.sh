#!/bin/bash
# tools/run_all.sh [tier] [ids...] – runs the registered checks one after the other on /repo and prints one line each.
tier=${1:-quick}; shift
cd "$(dirname "$0")/.."
ids="$@"
[ -z "$ids" ] && ids=$(python3 -c "import json;print(' '.join(c['property_id'] for c in json.load(open('MANIFEST.json'))['checks']))")
for p in $ids; do
  s=$(date +%s)
  out=$(timeout 3000 ./check $p --tier $tier 2>&1); rc=$?
  e=$(date +%s)
  echo "$p rc=$rc $((e-s))s $(echo "$out" | grep -c '^KNOWN-FINDING') known :: $(echo "$out" | grep '^VIOLATION' | head -1) $(echo "$out" | tail -1 | cut -c1-100)"
done
