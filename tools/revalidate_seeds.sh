#!/bin/bash
# tools/revalidate_seeds.sh <lane-name> <seed-id>...   – re-runs the current checks against filed seeded changes (seeded/<id>/patch.diff)
# in the scratch worktree of the seed's property (/tmp/wt_cXX, moved to /repo's HEAD), one after the other, and prints one RESULT line
# per seed; tools/keep_revalidation.py files the lines into seeded/<id>/meta.json ("check_now").
set -u
lane=$1; shift
export GOFLAGS=-mod=mod GOPROXY=off GOSUMDB=off GOTOOLCHAIN=local
head=$(git -C /repo rev-parse HEAD)
for id in "$@"; do
  sd=/verif/seeded/$id
  patch=$sd/patch.diff; [ -f "$sd/patch_on_current_head.diff" ] && patch=$sd/patch_on_current_head.diff
  prop=$(python3 -c "import json;print(json.load(open('$sd/meta.json'))['property'])")
  wt=/tmp/wt_$(echo $prop | tr 'C' 'c')
  [ -d "$wt" ] || git -C /repo worktree add -q --detach "$wt" "$head"
  cd "$wt" || continue
  git reset -q --hard >/dev/null 2>&1; git clean -fdq -e dev/ >/dev/null 2>&1; git checkout -q --detach "$head" 2>/dev/null; git reset -q --hard "$head" >/dev/null 2>&1
  if git apply "$patch" 2>/dev/null || { git reset -q --hard "$head" >/dev/null 2>&1; git apply -3 "$patch" >/dev/null 2>&1 && ! git diff --name-only --diff-filter=U | grep -q .; }; then
    if go build ./... >/dev/null 2>&1; then
      cd /verif
      out=$(VERIF_REPO="$wt" timeout 2400 ./check "$prop" --tier quick 2>&1); rc=$?
      viol=$(echo "$out" | grep '^VIOLATION' | head -1)
      rule=$(echo "$out" | grep -m1 '^  monitor:' | sed 's/^  monitor: *//')
      echo "RESULT $id prop=$prop rc=$rc :: $viol :: $rule"
    else
      echo "RESULT $id prop=$prop rc=- :: does-not-build-on-current-head ::"
    fi
  else
    echo "RESULT $id prop=$prop rc=- :: patch-no-longer-applies-to-current-head ::"
  fi
  cd "$wt" && git reset -q --hard "$head" >/dev/null 2>&1 && git clean -fdq -e dev/ >/dev/null 2>&1
done
