#!/bin/bash
# usage: rl_mutants.sh C06|C10 [seed]   – harness+monitor only (fast loop while building; the real self-test uses ./check with VERIF_REPO)
P=$1; SEED=${2:-1}; p=$(echo $P | tr A-Z a-z)
export GOFLAGS=-mod=mod GOPROXY=off GOSUMDB=off GOTOOLCHAIN=local
for m in ${MUTS:-/verif/mutants/$P/*.patch}; do
  S=/tmp/wm_${p}_mut_$$; rm -rf $S; cp -r /repo $S
  (cd $S && git apply $m) || { echo "$m: does not apply"; continue; }
  MOD=$(cd /verif && VERIF_REPO=$S python3 -c "import checklib;print(checklib.modfile('mut_$p'))")
  (cd /verif/harness && go build -modfile=$MOD -tags verif -race -o /tmp/h_${p}_mut ./cmd/$p) || { echo "$m: build failed"; continue; }
  timeout 600 /tmp/h_${p}_mut -tier quick -seed $SEED -out /tmp/${p}_mut.cases > /tmp/${p}_mut.log 2>&1
  echo "== $(basename $m): $(grep -c '^REQ' /tmp/${p}_mut.cases) cases, races: $(grep -c 'DATA RACE' /tmp/${p}_mut.log)"
  grep "^REQ" /tmp/${p}_mut.cases | sed 's/^REQ /P /; s/$/ ## ok/' | /verif/lean/.lake/build/bin/drv_$p | sort | uniq -c | sort -rn | head -5
  rm -rf $S
done
