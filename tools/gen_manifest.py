#!/usr/bin/env python3
"""Regenerates MANIFEST.json from checks/*.py (run after adding or changing a property configuration)."""
import json, os, sys
sys.path.insert(0, os.path.join(os.path.dirname(__file__), ".."))
import checklib

V = checklib.VERIF
props = [json.loads(l) for l in open(os.path.join(V, "properties.jsonl"))]
hooks_commits = os.popen("git -C /repo log --format=%H --grep='^verif hooks'").read().split()
checks, na = [], []
NA_REASONS = {}
na_path = os.path.join(V, "checks", "not_applicable.json")
if os.path.exists(na_path):
    NA_REASONS = json.load(open(na_path))
for p in props:
    pid = p["id"]
    path = os.path.join(V, "checks", pid.lower() + ".py")
    if not os.path.exists(path):
        na.append({"property_id": pid, "reason": NA_REASONS.get(pid, "not claimed yet: the Lean model, theorems and correspondence check for this property are not built yet (see DESIGN.md section 6 for the plan)")})
        continue
    P = checklib.load_prop(pid)
    checks.append({
        "property_id": pid,
        "quick_cmd": "./check %s --tier quick" % pid,
        "thorough_cmd": "./check %s --tier thorough" % pid,
        "evidence_file": "/verif/evidence/%s.json" % pid,
        "replay_cmd_template": "./check %s --replay {path}" % pid,
        "engine": "lean4-proof+correspondence",
        "level_claimed": {
            "category": "proof",
            "text": P.get("level_text", P.get("explanation", "")),
            "design_ref": P.get("design_ref", "DESIGN.md section 6, " + pid),
        },
        "level_note": P.get("level_note", "Trusted base: " + "; ".join(P.get("trusted_base", []))),
        "technique": P.get("technique", "Lean 4 theorems over a hand-written executable model + differential correspondence check against the Go code"),
    })
m = {
    "version": 1,
    "setup_cmd": "./setup.sh",
    "hooks": {
        "guard": "verif",
        "enable": "go build -tags verif (harness module /verif/harness with replace github.com/ThreeDotsLabs/watermill => /repo)",
        "baseline_off_cmd": "for m in $(cat /w/out/gomods.txt); do MF=$(cd /repo/$m && . /w/out/goenv.sh && gomodflag); (cd /repo/$m && go test $MF -json -vet=off -count=1 -timeout 25m ./...); done",
        "source_commits": hooks_commits,
        "add_only": True,
    },
    "engines": [{
        "name": "lean4-proof+correspondence",
        "path": "/verif/lean, /verif/harness, /verif/checklib.py",
        "serves_properties": [c["property_id"] for c in checks],
        "kind_free_text": "Lean 4 (core-only models, theorems in WmModel/Props, axiom audit, leanchecker in the thorough tier); go/ast extractor regenerating deep-embedded bodies + structural facts on every run; Go harness running the real code with -tags verif [-race]; Lean line-protocol drivers (model + property monitor) diffed against the implementation",
    }],
    "checks": checks,
    "not_applicable": na,
    "notes": "See DESIGN.md. Every check: exit 0 = held; exit 1 + 'VIOLATION property=<id> replay=<path>' (ending in no-failing-input-found when a proof obligation/correspondence broke but no concrete failing input was found). known-findings.json lists recorded defects.",
}
json.dump(m, open(os.path.join(V, "MANIFEST.json"), "w"), indent=1)
print("MANIFEST.json: %d checks, %d not claimed" % (len(checks), len(na)))
