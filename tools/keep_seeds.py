#!/usr/bin/env python3
"""tools/keep_seeds.py <results.log>... – files confirmed seeded changes under /verif/seeded/<id>/ (patch.diff, demonstration,
README.md of the seeder, meta.json) from the SEED lines printed by tools/try_seed.sh."""
import json, os, re, shutil, sys
V = os.path.dirname(os.path.dirname(os.path.abspath(__file__)))
for log in sys.argv[1:]:
    lines = open(log, errors="replace").read().split("\n")
    for i, l in enumerate(lines):
        m = re.match(r"SEED (\S+) prop=(\S+) existing_tests=(\S+) demo_with_change=(\S+) demo_without=(\S+) check_rc=(\d+) :: ?(.*)", l)
        if not m:
            continue
        sd, prop, ex, dw, dwo, rc, viol = m.groups()
        base = os.path.basename(sd)
        sid = base.replace("seed_", "")
        for rnd in ("2", "3", "4", "5", "6", "7"):
            if base.startswith("seed%s_" % rnd):
                pr, n = base[len("seed%s_" % rnd):].rsplit("_", 1)
                sid = "%s_r%s_%s" % (pr, rnd, n)
        confirmed = ex == "pass" and dw == "fail" and dwo == "pass"
        detail = []
        for x in lines[i + 1:i + 8]:
            if x.startswith("SEED"):
                break
            if x:
                detail.append(x)
        rule = next((x.split(":", 1)[1].strip() for x in detail if x.strip().startswith("monitor:")), None)
        dst = os.path.join(V, "seeded", sid)
        if not confirmed:
            print("not kept (not confirmed):", sid, ex, dw, dwo)
            continue
        os.makedirs(dst, exist_ok=True)
        for f in os.listdir(sd):
            if f == "patch.diff" or f.endswith("_test.go") or f == "README.md" or f.endswith(".go"):
                shutil.copy(os.path.join(sd, f), os.path.join(dst, f if not f.endswith("_test.go") else f + ".txt"))
        readme = open(os.path.join(sd, "README.md"), errors="replace").read() if os.path.exists(os.path.join(sd, "README.md")) else ""
        needs = ""
        mm = re.search(r"(?is)(needs?|what it needs[^\n]*)[:\n](.{0,600})", readme)
        if mm:
            needs = " ".join(mm.group(2).split())[:500]
        meta = {
            "id": sid, "property": prop,
            "source": "independent sub-agent given only the property text and a scratch git worktree",
            "needs_to_manifest": needs,
            "confirmed": {"existing_tests_of_touched_package_with_change": ex, "demonstration_with_change": dw, "demonstration_without_change": dwo,
                          "how": "tools/try_seed.sh in a scratch worktree (go build ./..., go vet, go test -count=1 <pkg>, go test -run <demo>)"},
            "check": {"command": "VERIF_REPO=<worktree with patch> ./check %s --tier quick" % prop, "exit_code": int(rc),
                      "violation_line": viol, "detected": viol.startswith("VIOLATION"),
                      "with_failing_input": viol.startswith("VIOLATION") and "no-failing-input-found" not in viol, "monitor_rule": rule,
                      "detail": detail[:6]},
        }
        json.dump(meta, open(os.path.join(dst, "meta.json"), "w"), indent=1)
        print("kept", sid, "detected" if meta["check"]["detected"] else "ESCAPED", rule or "")
