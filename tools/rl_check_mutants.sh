#!/bin/bash
# usage: rl_check_mutants.sh C06|C10 – the real self-test: every mutant through ./check with VERIF_REPO=<scratch copy>
P=$1; p=$(echo $P | tr A-Z a-z)
for m in ${MUTS:-/verif/mutants/$P/*.patch}; do
  S=/tmp/wm_${p}_chk_$$; rm -rf $S; cp -r /repo $S
  (cd $S && git apply $m) || { echo "$m: does not apply"; continue; }
  VERIF_REPO=$S timeout 1500 /verif/check $P --tier quick > /tmp/${p}_chk.log 2>&1
  echo "== $(basename $m): exit $? :: $(grep -c VIOLATION /tmp/${p}_chk.log) VIOLATION line(s)"
  grep "monitor:\|no longer checks\|^VIOLATION" /tmp/${p}_chk.log | cut -c1-260 | head -4
  rm -rf $S
done
cd /verif && ./check $P --tier quick > /dev/null 2>&1; echo "unchanged tree again: exit $?"
