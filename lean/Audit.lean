import Audit.C03
