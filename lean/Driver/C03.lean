import WmModel.Basic
import WmModel.Ack
import WmModel.Lin
open Wm Wm.Ack

deriving instance BEq for Res

def kindOf : String → Option Kind
  | "new" => some .new | "copy" => some .copy | "zero" => some .zero | _ => none

def opOf : Char → Option Op
  | 'a' => some .ack | 'n' => some .nack | 'A' => some .readAcked | 'N' => some .readNacked | _ => none

def resChar : Res → Char
  | .bool true => 't' | .bool false => 'f'
  | .chan .closed => 'c' | .chan .opn => 'o' | .chan .nil => 'z' | .panic => 'P'

def resOf : Char → Option Res
  | 't' => some (.bool true) | 'f' => some (.bool false)
  | 'c' => some (.chan .closed) | 'o' => some (.chan .opn) | 'z' => some (.chan .nil) | 'P' => some .panic
  | _ => none

/-- `c` = SetContext(nil), a call outside the four the property is about: it has no result of its own and must not change
    what the settlement calls around it do, so it is dropped before the model and the monitor see the sequence -/
def opsOf (s : String) : Option (List Op) :=
  if s = "-" then some [] else (s.toList.filter (fun c => c != 'c' && c != 'O' && c != 'Q')).mapM opOf

/-- `O` / `Q` (kind `copy` only): read `Acked()` / `Nacked()` of the ORIGINAL the copy was taken from (it was acked before the
    copy was made). Whatever happens to the copy, the original stays as it was: acked channel closed, nacked channel open. -/
def origExpected (c : Char) : Option Char := if c == 'O' then some 'c' else if c == 'Q' then some 'o' else none

/-- model results with the expected reads of the original put back at their positions -/
def weave (ops : List Char) (res : List Char) : List Char :=
  match ops with
  | [] => []
  | o :: rest =>
    if o == 'c' then weave rest res
    else match origExpected o with
      | some e => e :: weave rest res
      | none => match res with
        | r :: rs => r :: weave rest rs
        | [] => []

/-- splits an observation into the results of the four calls and the verdict on the reads of the original -/
def unweave (ops : List Char) (obs : List Char) : List Char × Bool :=
  match ops, obs with
  | [], _ => ([], true)
  | o :: rest, obs =>
    if o == 'c' then unweave rest obs
    else match obs with
      | [] => ([], true)
      | x :: xs =>
        match origExpected o with
        | some e => let (r, ok) := unweave rest xs; (r, ok && x == e)
        | none => let (r, ok) := unweave rest xs; (x :: r, ok)

def dash (s : String) : String := if s.isEmpty then "-" else s

/-- the property itself, evaluated on an observed result string (independent of `Ack.run`):
    no panic; every Ack answers `winner-so-far-including-me = ack`, every Nack likewise;
    reads show `closed` exactly for the winner, never both -/
def monitor (k : Kind) (ops : List Op) (obs : List Res) : String := Id.run do
  if ops.length != obs.length then return "violated:length"
  let mut win : Sent := .none
  let nilCh := k == .zero
  for (o, r) in ops.zip obs do
    if r == .panic then return "violated:never_panics"
    match o with
    | .ack =>
      if win == .none then win := .ack
      if r != .bool (win == .ack) then return "violated:ack_true_iff"
    | .nack =>
      if win == .none then win := .nack
      if r != .bool (win == .nack) then return "violated:nack_true_iff"
    | .readAcked =>
      let want : Ch := if win == .ack then .closed else if nilCh then .nil else .opn
      if r != .chan want then return "violated:chan_closed_iff"
    | .readNacked =>
      let want : Ch := if win == .nack then .closed else if nilCh then .nil else .opn
      if r != .chan want then return "violated:chan_closed_iff"
  return "ok"

def parseEv (s : String) : Option (Lin.HEv Op Res) :=
  match s.splitOn ":" with
  | [o, c, r, x] => do
    let o ← opOf (o.toList.headD ' ')
    let c ← c.toNat?
    let r ← r.toNat?
    let x ← resOf (x.toList.headD ' ')
    pure ⟨o, c, r, x⟩
  | _ => none

def handle (line : String) : String :=
  match line.splitOn " " with
  | "M" :: "seq" :: k :: ops :: [] =>
    match kindOf k, opsOf ops with
    | some k, some mops => dash (String.ofList (weave (if ops = "-" then [] else ops.toList) ((run (initSt k) mops).2.map resChar)))
    | _, _ => "bad-op"
  | "P" :: "seq" :: k :: ops :: "##" :: obs :: [] =>
    if obs.contains 'B' then "violated:never_blocks(a call did not return within the watchdog bound)" else
    let (own, origOk) := unweave (if ops = "-" then [] else ops.toList) (if obs = "-" then [] else obs.toList)
    if !origOk then "violated:settling_a_copy_changed_the_original" else
    match kindOf k, opsOf ops, own.mapM resOf with
    | some k, some ops, some obs => monitor k ops obs
    | _, _, _ => "bad-op"
  -- `first`: the same calls as `seq`, made as the very first settlements of a fresh process while other goroutines settle
  -- other messages at the same moment; what one message promises does not depend on that
  | "M" :: "first" :: k :: ops :: [] =>
    match kindOf k, opsOf ops with
    | some k, some ops => dash (String.ofList ((run (initSt k) ops).2.map resChar))
    | _, _ => "bad-op"
  | "P" :: "first" :: k :: ops :: "##" :: obs :: [] =>
    if obs.contains 'B' then "violated:never_blocks(a call did not return within the watchdog bound)" else
    match kindOf k, opsOf ops, (if obs = "-" then some [] else obs.toList.mapM resOf) with
    | some k, some ops, some obs => monitor k ops obs
    | _, _, _ => "bad-op"
  | "M" :: "hist" :: k :: evs =>
    match kindOf k, evs.mapM parseEv with
    | some k, some evs =>
      if evs.any (fun e => e.res == .panic) then "notlin:panic"
      else if Lin.linearizable step (initSt k) evs.toArray then "lin" else "notlin"
    | _, _ => "bad-op"
  | "P" :: "hist" :: k :: rest =>   -- the property for a concurrent history *is* linearizability (+ no panic)
    if rest.any (fun t => t.endsWith ":B") then "violated:never_blocks(a call did not return within the watchdog bound)" else
    match kindOf k, (rest.takeWhile (· != "##")).mapM parseEv with
    | some k, some evs =>
      if evs.any (fun e => e.res == .panic) then "violated:never_panics"
      else if Lin.linearizable step (initSt k) evs.toArray then "ok" else "violated:not_linearizable"
    | _, _ => "bad-op"
  | _ => "bad-op"

def main : IO Unit := driverMain handle
