import WmModel.Basic
import WmModel.GcConf
import WmModel.GcMon
import WmModel.GcTopicConf
import WmModel.GcRegConf
import WmModel.GcProdConf
open Wm

/-- `sub` streams: model = conformance with M_sub (subset construction); monitor = at most one unsettled copy,
    read off the stream itself: every `R` must find all earlier receipts settled.
    `top` traces: model answers `ok` (nothing to predict); monitor = the C05 clauses of GcMon. -/
def subMonitor (toks : List String) : String := Id.run do
  let mut received := 0
  let mut settled : List Nat := []
  for t in toks do
    match t.toList with
    | ['R'] =>
      for k in [0:received] do
        if !settled.contains k then return "violated:one_unsettled(next-delivered-before-settle)"
      received := received + 1
    | 'A' :: ds => if let some k := (String.ofList ds).toNat? then settled := k :: settled
    | 'N' :: ds => if let some k := (String.ofList ds).toNat? then settled := k :: settled
    | _ => pure ()
  return "ok"

def handle (line : String) : String :=
  let (req, _obs) := match line.splitOn " ## " with
    | [r, o] => (r, o)
    | _ => (line, "")
  match req.splitOn " " with
  | "M" :: "sub" :: cap :: toks =>
    match cap.toNat? with
    | some c => GcConf.checkSub c (if toks == ["-"] then [] else toks)
    | none => "bad-op"
  | "P" :: "sub" :: _ :: toks => subMonitor toks
  | "M" :: "reg" :: toks => GcRegConf.checkReg toks
  | "P" :: "reg" :: _ => "ok"
  | "M" :: "topic" :: toks => GcTopicConf.checkTopic toks
  | "P" :: "topic" :: _ => "ok"
  -- merged registry + subscription streams: conformance with the composition M_prod
  | "M" :: "prod" :: toks => GcProdConf.checkProd toks
  | "P" :: "prod" :: _ => "ok"
  | "M" :: "top" :: _ => "ok"
  | "P" :: "top" :: toks => GcMon.runMon GcMon.monC05 toks
  | _ => "bad-op"

def main : IO Unit := driverMain handle
