import WmModel.Basic
import WmModel.Poison
open Wm Wm.Poison

/-!
  Line protocol of C13 (all strings hex, empty = `-`):

    pq <mode> <ptopic> <filter> <pubout> <ctxTopic> <ctxHandler> <ctxSubscriber> <uuid> <payload> <meta> <sets> <nouts> <err> <opub>
      mode    sa (middleware called directly) | rt (inside a running message.Router)
      filter  all (PoisonQueue) | fall | none | text:<needle> | is        (PoisonQueueWithFilter …)
      pubout  ok | fail:<text> | panic:<value the poison publisher panics with>
      meta    k=v,k=v… sorted | -            sets  k=v,… in the order the handler wrote them | -
      err     nil | plain:<isSentinel 0/1>:<text> | multi:<isSentinel>:<part>;<part>…
      opub    ok | fail   (outcome of the Router's own publisher for the outputs; `-` in mode sa)
    observation:  P<n>[:<topic>|<uuid>|<payload>|<meta>|<sameObject>|<unsettledAtPublish>;…] O:<out uuids> E:<err> A:<meta after> S:<settle>
      E  nil | same | both:<Error() text>:<flags H=handler error kept, P=publish error kept>     S  - | ack | nack
    ctor <ptopic>   →  ok | err
    pqc <same 14 fields> <in|h>:<k=v,…>     as pq; additionally the message context holds application values under plain
        STRING keys (e.g. "handler_name"), carried in with the message (in) or set by the handler before it fails (h):
        they are not the Router's values (its keys have their own type) and must not show up in the poison metadata
    pqs <same 14 fields> <live|cin|dl|ch>:<-|ack|nack>     as pq; the message's context is live / was cancelled (deadline passed)
        when it arrived / is cancelled by the handler, and the handler acked / nacked the message itself before failing:
        neither changes what the middleware publishes and returns; the settlement is the handler's (first wins)
    pqf <same 14 fields, filter = seq:<answers>>     a stateful filter scripted as the answers ("1"/"0") it still has
        when this message arrives (none left = refuses); observation = as pq plus F:<consultations of the filter>
    pq2 <lvl r|h|-> <block> <14 fields of A> <14 fields of B>     two messages through ONE middleware value:
        block = after (B after A completed) | filter | publish | handler (B runs completely while A is stopped inside
        the filter / the poison publisher / at the end of its handler); lvl = middleware installed router-level /
        on each handler / both stand-alone; observation = observation of A followed by observation of B
-/

def dropS (s : String) (n : Nat) : String := String.ofList (s.toList.drop n)

def bytesLt : List UInt8 → List UInt8 → Bool
  | [], [] => false
  | [], _ :: _ => true
  | _ :: _, [] => false
  | a :: as, b :: bs => a < b || (a == b && bytesLt as bs)

def insertKV (kv : Str × Str) : Meta → Meta
  | [] => [kv]
  | x :: rest => if bytesLt kv.1 x.1 then kv :: x :: rest else x :: insertKV kv rest

def sortMeta (m : Meta) : Meta := m.foldr insertKV []

def showMeta (m : Meta) : String :=
  if m.isEmpty then "-" else
  ",".intercalate ((sortMeta m).map (fun kv => hexEnc kv.1 ++ "=" ++ hexEnc kv.2))

def parseKV (s : String) : Option (Str × Str) :=
  match s.splitOn "=" with
  | [k, v] => do pure ((← hexDec k), (← hexDec v))
  | _ => none

/-- ordered list of pairs; duplicate keys allowed (used for the handler's writes) -/
def parsePairs (s : String) : Option (List (Str × Str)) :=
  if s = "-" then some [] else (s.splitOn ",").mapM parseKV

def keysNodup : List (Str × Str) → Bool
  | [] => true
  | kv :: rest => !(rest.any (fun x => x.1 == kv.1)) && keysNodup rest

def parseMeta (s : String) : Option Meta := do
  let m ← parsePairs s
  if keysNodup m then some m else none

def contains (needle : Str) : Str → Bool
  | [] => needle.isEmpty
  | c :: rest => needle.isPrefixOf (c :: rest) || contains needle rest

def parseAnswers (bits : String) : Option (List Bool) :=
  if bits = "-" then some [] else
  bits.toList.mapM (fun c => if c = '1' then some true else if c = '0' then some false else none)

def parseFilter (s : String) : Option (HErr → Bool) :=
  match s.splitOn ":" with
  | ["all"] => some (fun _ => true)
  | ["fall"] => some (fun _ => true)
  | ["none"] => some (fun _ => false)
  | ["is"] => some (fun e => match e with | .plain _ b => b | .multi _ b => b)
  | ["text", n] => (hexDec n).map (fun n e => contains n e.text)
  | ["seq", bits] => (parseAnswers bits).map (fun a _ => a.headD false)
  | _ => none

def parsePOut (s : String) : Option POut :=
  match s.splitOn ":" with
  | ["ok"] => some .ok
  | ["fail", t] => (hexDec t).map .fail
  | ["panic", t] => (hexDec t).map .panic
  | _ => none

def parseBit : String → Option Bool
  | "0" => some false | "1" => some true | _ => none

def parseErr (s : String) : Option (Option HErr) :=
  match s.splitOn ":" with
  | ["nil"] => some none
  | ["plain", b, t] => do pure (some (.plain (← hexDec t) (← parseBit b)))
  | ["multi", b, ps] => do pure (some (.multi (← (ps.splitOn ";").mapM hexDec) (← parseBit b)))
  | _ => none

def outMsg (i : Nat) : Msg := ⟨ascii ("out-" ++ toString i), ascii (toString i), []⟩

structure Req where
  rt     : Bool
  ptopic : Str
  filter : HErr → Bool
  pub    : POut
  ctx    : Ctx
  msg    : Msg
  res    : HRes
  opub   : Bool
  answers : Option (List Bool)    -- kind pqf: the scripted answers of the stateful filter

def parseReq (f : List String) : Option Req :=
  match f with
  | [mode, pt, fl, po, ct, ch, cs, u, p, m, sets, n, e, op] => do
    let rt ← (match mode with | "sa" => some false | "rt" => some true | _ => none)
    let opub ← (match rt, op with | false, "-" => some true | true, "ok" => some true | true, "fail" => some false | _, _ => none)
    let n ← n.toNat?
    pure { rt := rt, ptopic := (← hexDec pt), filter := (← parseFilter fl), pub := (← parsePOut po),
           ctx := ⟨(← hexDec ct), (← hexDec ch), (← hexDec cs)⟩,
           msg := ⟨(← hexDec u), (← hexDec p), (← parseMeta m)⟩,
           res := ⟨(← parsePairs sets), (List.range n).map outMsg, (← parseErr e)⟩, opub := opub,
           answers := (match fl.splitOn ":" with | ["seq", bits] => parseAnswers bits | _ => none) }
  | _ => none

def showErr : Option RErr → String
  | none => "nil"
  | some (.same _) => "same"
  | some (.both e t) => "both:" ++ hexEnc (RErr.both e t).text ++ ":HP"
  | some (.panicked t) => "panic(" ++ hexEnc t ++ ")"

def showUuids (ms : List Msg) : String :=
  if ms.isEmpty then "-" else ",".intercalate (ms.map (fun m => hexEnc m.uuid))

def showSettle : Settle → String
  | .ack => "ack" | .nack => "nack"

/-- the model's observation -/
def modelObs (r : Req) (pre : String := "-") : String :=
  let o := middleware r.ptopic r.filter r.pub r.ctx r.msg r.res
  -- a message the handler settled itself is no longer unsettled when it is published to the poison topic
  let uns := if pre == "-" then "1" else "0"
  let pubs := o.pubs.map (fun p => "|".intercalate [hexEnc p.1, hexEnc p.2.uuid, hexEnc p.2.payload, showMeta p.2.md, "1", uns])
  let pstr := "P" ++ toString pubs.length ++ (if pubs.isEmpty then "" else ":" ++ ";".intercalate pubs)
  -- mode rt: the outputs are what the Router hands to its publisher (only when the chain returned no error)
  let outs := if r.rt && o.err.isSome then [] else o.outs
  -- the first settlement wins (C03): what the Router does afterwards does not change it
  let settle := if !r.rt then "-" else if pre != "-" then pre else showSettle (routerSettle o r.opub)
  " ".intercalate [pstr, "O:" ++ showUuids outs, "E:" ++ showErr o.err, "A:" ++ showMeta o.msg.md, "S:" ++ settle]

/-! ### the property monitor: the statement of C13 evaluated on the observation, not through `middleware` -/

structure PubObs where
  topic : Str
  uuid : Str
  payload : Str
  md : Meta
  same : Bool
  unsettled : Bool

structure Obs where
  pubs : List PubObs
  outs : List Str
  err : String           -- nil | same | both…
  after : Meta
  settle : String

def parsePubObs (s : String) : Option PubObs :=
  match s.splitOn "|" with
  | [t, u, p, m, sm, un] => do
    pure ⟨(← hexDec t), (← hexDec u), (← hexDec p), (← parseMeta m), (← parseBit sm), (← parseBit un)⟩
  | _ => none

def parseObs (f : List String) : Option Obs :=
  match f with
  | [p, o, e, a, s] => do
    let pubs ← (match p.splitOn ":" with
      | [_] => some []
      | [_, l] => (l.splitOn ";").mapM parsePubObs
      | _ => none)
    let cnt ← (p.splitOn ":").head?.bind (fun h => (dropS h 1).toNat?)
    if !p.startsWith "P" || cnt != pubs.length then none
    let outs ← (if o = "O:-" then some [] else if o.startsWith "O:" then ((dropS o 2).splitOn ",").mapM hexDec else none)
    if !e.startsWith "E:" || !a.startsWith "A:" || !s.startsWith "S:" then none
    pure ⟨pubs, outs, dropS e 2, (← parseMeta (dropS a 2)), dropS s 2⟩
  | _ => none

def look (m : Meta) (k : Str) : Option Str := List.lookup k m

/-- metadata as a map: same keys, same values -/
def metaEq (a b : Meta) : Bool :=
  a.length == b.length && a.all (fun kv => look b kv.1 == some kv.2)

def monitor (r : Req) (o : Obs) (pre : String := "-") : String := Id.run do
  -- pre ≠ "-": the handler acked / nacked the message itself before it failed; the settlement is then its own doing and
  -- the rules about WHEN and HOW the message is settled do not apply – what the middleware publishes and returns does
  let free := pre == "-"
  let handled := r.res.err.isNone
  let accepted := match r.res.err with | some e => r.filter e | none => false
  -- a panic leaves the middleware only when the poison publisher itself panicked while it was asked to publish
  let pubPanics := match r.pub with | .panic _ => true | _ => false
  if o.err.startsWith "panic" && !(accepted && pubPanics) then return "violated:panic"
  -- the message as the handler left it
  let base := msets r.msg.md r.res.sets
  let wantOuts := r.res.outs.map (·.uuid)
  if accepted then
    let some e := r.res.err | return "violated:internal"
    -- published exactly once to the poison topic
    match o.pubs with
    | [p] =>
      if p.topic != r.ptopic then return "violated:poison_topic"
      -- same UUID and payload
      if p.uuid != r.msg.uuid || p.payload != r.msg.payload then return "violated:poison_once_same_identity"
      -- metadata naming reason, topic, handler, subscriber
      if look p.md reasonKey != some e.text then return "violated:poison_reason"
      if look p.md topicKey != some r.ctx.topic then return "violated:poison_topic_key"
      if look p.md handlerKey != some r.ctx.handler then return "violated:poison_handler_key"
      if look p.md subscriberKey != some r.ctx.subscriber then return "violated:poison_subscriber_key"
      -- … plus the metadata it had
      if !(base.all (fun kv => poisonKeys.contains kv.1 || look p.md kv.1 == some kv.2)) then return "violated:poison_metadata_kept"
      if !(p.md.all (fun kv => poisonKeys.contains kv.1 || look base kv.1 == some kv.2)) then return "violated:poison_metadata_kept"
      -- "only then reported as success": the publish happened while the message was still unsettled
      if r.rt && free && !p.unsettled then return "violated:acked_before_poisoned"
    | _ => return "violated:poison_published_once"
    match r.pub with
    | .ok =>
      -- reported as success so that it gets acked
      if o.err != "nil" then return "violated:poison_decision"
      if r.rt && free && (wantOuts.isEmpty || r.opub) && o.settle != "ack" then return "violated:poisoned_not_acked"
    | .fail _ =>
      -- the error is still returned and the message is Nacked
      if o.err == "nil" then return "violated:poison_decision"
      -- "the error is still returned": the handler's error itself, or an error that still holds it
      let keepsHandlerErr := o.err == "same" ||
        (match o.err.splitOn ":" with | ["both", _, flags] => flags.toList.contains 'H' | _ => false)
      if !keepsHandlerErr then return "violated:handler_error_lost"
      if r.rt && free && o.settle != "nack" then return "violated:publish_failed_not_nacked"
    | .panic _ =>
      -- a publisher that panics did not store the message: success must not be reported, the message is Nacked
      if o.err == "nil" then return "violated:poison_decision"
      if r.rt && free && o.settle != "nack" then return "violated:publish_failed_not_nacked"
  else
    -- success and filtered-out errors pass through unchanged and publish nothing
    if !o.pubs.isEmpty then return "violated:pass_through_publishes"
    if handled then
      if o.err != "nil" then return "violated:pass_through_error"
      if o.outs != wantOuts then return "violated:pass_through_outputs"
    else
      if o.err != "same" then return "violated:pass_through_error"
      if !r.rt && o.outs != wantOuts then return "violated:pass_through_outputs"
      if r.rt && free && o.settle != "nack" then return "violated:failed_not_nacked"
    if !metaEq o.after base then return "violated:pass_through_message"
  -- acked implies handled or present in the poison topic
  if r.rt then
    if o.settle != "ack" && o.settle != "nack" then return "violated:not_settled"
    if o.settle == "ack" && !handled && pre != "ack" then
      let inPoison := accepted && r.pub == .ok &&
        o.pubs.any (fun p => p.topic == r.ptopic && p.uuid == r.msg.uuid && p.payload == r.msg.payload)
      if !inPoison then return "violated:acked_implies_handled_or_poisoned"
  return "ok"

/-- `<in|h>:<k=v,…>`: string-keyed context values carried in by the subscriber / set by the handler before it fails -/
def okApp (s : String) : Bool :=
  match s.splitOn ":" with
  | [w, kvs] => (w == "in" || w == "h") && (parsePairs kvs).isSome
  | _ => false

/-- `<ctx>:<settled>`: state of the message when the handler fails – its context (live | cin = already cancelled when
    it arrived | dl = deadline passed when it arrived | ch = cancelled by the handler) and whether the handler settled the
    message itself (- | ack | nack).  Returns the pre-settlement.  The middleware's decision does not depend on either. -/
def parseState (s : String) : Option String :=
  match s.splitOn ":" with
  | [c, p] => if (c == "live" || c == "cin" || c == "dl" || c == "ch") && (p == "-" || p == "ack" || p == "nack") then some p else none
  | _ => none

def okLvl (s : String) : Bool := s == "r" || s == "h" || s == "-"
def okBlock (s : String) : Bool := s == "after" || s == "filter" || s == "publish" || s == "handler"

/-- the statement with a stateful filter.  `n` = observed consultations for this message, `ans` = the answers the
    filter had left.  "An error the filter accepts" = the answer it gave; when it was (wrongly or not) asked several
    times and the answers differ, only what holds under either reading is demanded – the message is either published
    once and reported as success, or not published and still failing – so that nothing is demanded that the statement
    does not say, while a message that is acked without being handled or poisoned is always a violation. -/
def monitorF (r : Req) (ans : List Bool) (n : Nat) (o : Obs) : String :=
  let given := (List.range n).map (fun i => (ans.drop i).headD false)
  let first := ans.headD false
  let asYes := monitor { r with filter := fun _ => true } o
  let asNo := monitor { r with filter := fun _ => false } o
  if r.res.err.isNone then asNo
  else if given.all (· == first) then (if first then asYes else asNo)
  else if asYes == "ok" || asNo == "ok" then "ok"
  else (if first then asYes else asNo)

def handle (line : String) : String :=
  match line.splitOn " " with
  | ["M", "ctor", t] => match hexDec t with
    | some t => if ctorOk t then "ok" else "err"
    | none => "bad-op"
  | ["P", "ctor", t, "##", o] => match hexDec t with
    | some _ => if o = "ok" || o = "err" then "ok" else "violated:ctor"   -- the statement does not speak about construction
    | none => "bad-op"
  | "M" :: "pq" :: rest => match parseReq rest with
    | some r => if r.answers.isNone then modelObs r else "bad-op"
    | none => "bad-op"
  | "M" :: "pqc" :: rest =>
    -- application values in the message context under plain string keys: they are not the Router's values
    match parseReq (rest.take 14), rest.drop 14 with
    | some r, [app] => if r.answers.isNone && okApp app then modelObs r else "bad-op"
    | _, _ => "bad-op"
  | "P" :: "pqc" :: rest =>
    let req := rest.takeWhile (· != "##")
    match parseReq (req.take 14), req.drop 14, parseObs ((rest.dropWhile (· != "##")).drop 1) with
    | some r, [app], some o => if r.answers.isNone && okApp app then monitor r o else "bad-op"
    | _, _, _ => "bad-op"
  | "M" :: "pqs" :: rest =>
    match parseReq (rest.take 14), (rest.drop 14).map parseState with
    | some r, [some pre] => if r.answers.isNone then modelObs r pre else "bad-op"
    | _, _ => "bad-op"
  | "P" :: "pqs" :: rest =>
    let req := rest.takeWhile (· != "##")
    match parseReq (req.take 14), (req.drop 14).map parseState, parseObs ((rest.dropWhile (· != "##")).drop 1) with
    | some r, [some pre], some o => if r.answers.isNone then monitor r o pre else "bad-op"
    | _, _, _ => "bad-op"
  | "M" :: "pqf" :: rest => match parseReq rest with
    | some r => if r.answers.isSome then modelObs r ++ " F:" ++ toString (consultations r.res) else "bad-op"
    | none => "bad-op"
  | "P" :: "pqf" :: rest =>
    let obs := (rest.dropWhile (· != "##")).drop 1
    match parseReq (rest.takeWhile (· != "##")), parseObs (obs.take 5), (obs.drop 5) with
    | some r, some o, [f] =>
      match r.answers, (if f.startsWith "F:" then (dropS f 2).toNat? else none) with
      | some ans, some n => monitorF r ans n o
      | _, _ => "bad-op"
    | some _, none, _ => if obs.any (·.startsWith "E:panic") then "violated:panic" else "bad-op"
    | _, _, _ => "bad-op"
  | "M" :: "pq2" :: lvl :: block :: rest =>
    match okLvl lvl && okBlock block, parseReq (rest.take 14), parseReq (rest.drop 14) with
    | true, some a, some b =>
      if a.answers.isNone && b.answers.isNone then modelObs a ++ " " ++ modelObs b else "bad-op"
    | _, _, _ => "bad-op"
  | "P" :: "pq2" :: lvl :: block :: rest =>
    let req := rest.takeWhile (· != "##")
    let obs := (rest.dropWhile (· != "##")).drop 1
    match okLvl lvl && okBlock block && req.length == 28, parseReq (req.take 14), parseReq (req.drop 14),
          parseObs (obs.take 5), parseObs (obs.drop 5) with
    | true, some a, some b, some oa, some ob =>
      -- every message must come out as the statement demands for it alone: the middleware keeps nothing between messages
      match monitor a oa, monitor b ob with
      | "ok", "ok" => "ok"
      | "ok", vb => "violated:B:" ++ dropS vb 9
      | va, _ => "violated:A:" ++ dropS va 9
    | true, some _, some _, _, _ => if obs.any (·.startsWith "E:panic") then "violated:panic" else "bad-op"
    | _, _, _, _, _ => "bad-op"
  | "P" :: "pq" :: rest =>
    match parseReq (rest.takeWhile (· != "##")), parseObs ((rest.dropWhile (· != "##")).drop 1) with
    | some r, some o => monitor r o
    | some _, none =>
      if ((rest.dropWhile (· != "##")).drop 1).any (·.startsWith "panic") then "violated:panic" else "bad-op"
    | _, _ => "bad-op"
  | _ => "bad-op"

def main : IO Unit := driverMain handle
