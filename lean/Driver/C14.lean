-- stub: the driver of C14 is not built yet
import WmModel.Basic
def main : IO Unit := Wm.driverMain (fun _ => "bad-op")
