/-
  Line-protocol driver of C14 (Deduplicator).  `M <req>` → the model's observation, `P <req> ## <obs>` → the property
  monitor on the implementation's observation.  Request kinds: see harness/cmd/c14/main.go.
  The monitors are written against the *statement* (per-key bookkeeping over the keys the real key factory gave,
  pairwise window inequalities on recorded stamps) and do not call the model functions.
-/
import WmModel.Basic
import WmModel.Dedup
open Wm Wm.Dedup

/-! ### tokens -/

def tok (s : String) : List String := (s.splitOn " ").filter (· ≠ "")

def dashJoin (sep : String) (xs : List String) : String :=
  if xs.isEmpty then "-" else sep.intercalate xs

inductive HCfg
  | adler (l : Int)
  | sha (l : Int)
  | metaF (fieldHex : String)
  | dflt                      -- nil KeyFactory / nil Deduplicator: Adler-32 over the whole payload

def parseHasher (s : String) : Option HCfg :=
  match s.splitOn ":" with
  | ["default"] => some .dflt
  | ["nil"] => some .dflt
  | ["adler", l] => l.toInt?.map .adler
  | ["sha", l] => l.toInt?.map .sha
  | ["meta", f] => if (hexDec f).isSome then some (.metaF f) else none
  | _ => none

/-- metadata `k=v,k=v` (hex tokens, kept as hex) -/
def parseMeta (s : String) : Option (List (String × String)) :=
  if s = "-" then some [] else
  (s.splitOn ",").mapM fun kv =>
    match kv.splitOn "=" with
    | [k, v] => if (hexDec k).isSome && (hexDec v).isSome then some (k, v) else none
    | _ => none

def be4 (n : Nat) : List UInt8 :=
  [UInt8.ofNat (n / 16777216 % 256), UInt8.ofNat (n / 65536 % 256), UInt8.ofNat (n / 256 % 256), UInt8.ofNat (n % 256)]

/-- the model's key of a message; SHA-256 is represented by the prefix it digests (injective on prefixes – the stated assumption) -/
def modelKey (h : HCfg) (payload : List UInt8) (md : List (String × String)) : KeyRes String :=
  match h with
  | .adler l => .key ("a:" ++ toString (hasherKey adler32 l payload))
  | .dflt => .key ("a:" ++ toString (hasherKey adler32 9223372036854775807 payload))
  | .sha l => .key ("s:" ++ hexEnc (hasherKey id l payload))
  | .metaF f => match metaKey f md with
    | .key v => .key ("m:" ++ v)
    | .err => .err

def bigWindow : Nat := 3600000000000

/-! ### repo -/

def resLetter : Res → Char
  | .verdict false => 'a'
  | .verdict true => 'd'
  | .cleaned => 'c'

def mRepo (keys : List String) : String :=
  let ops : List (Op String) := keys.zipIdx.map fun (k, i) => .arrive k i
  let out := (run bigWindow [] ops).2.map resLetter
  if out.isEmpty then "-" else String.ofList out

/-- statement: of all arrivals of one key within the window exactly the first is accepted -/
def pRepo (keys : List String) (obs : String) : String := Id.run do
  let letters := if obs = "-" then [] else obs.toList
  if letters.length != keys.length then return "violated:length"
  let mut seen : List String := []
  for (k, c) in keys.zip letters do
    if seen.contains k then
      if c != 'd' then return "violated:one_per_window"
    else
      if c != 'a' then return "violated:first_arrival_not_accepted"
      seen := k :: seen
  return "ok"

/-! ### mw -/

structure MwStep where
  payload : List UInt8
  md : List (String × String)
  outcome : String
  realKey : String

def parseMwStep (t : String) : Option MwStep :=
  match t.splitOn "/" with
  | [p, m, o, k] => do
    let p ← hexDec p
    let m ← parseMeta m
    if !(["o0", "o1", "o2", "e", "b", "p"].contains o) then none
    if k ≠ "!" && (hexDec k).isNone then none
    pure ⟨p, m, o, k⟩
  | _ => none

def passToken : String → String
  | "o0" => "pass:0:0/1" | "o1" => "pass:1:0/1" | "o2" => "pass:2:0/1"
  | "e" => "pass:0:1/1" | "b" => "pass:1:1/1" | _ => "panic/1"

def mMw (h : HCfg) (steps : List MwStep) : String := Id.run do
  let mut r : Repo String := []
  let mut out : List String := []
  let mut now := 0
  for s in steps do
    let (r', res, _) := middleware bigWindow r (modelKey h s.payload s.md) now s.outcome
    r := r'
    now := now + 1
    out := (match res with
      | .keyErr => "kerr/0"
      | .dropped => "drop/0"
      | .handled o => passToken o) :: out
  return dashJoin " " out.reverse

/-- statement: per real key exactly the first message reaches the handler (one invocation); every other one is
    dropped as a success – `(nil, nil)` – without invoking it -/
def pMw (steps : List MwStep) (obs : List String) : String := Id.run do
  if steps.length != obs.length then return "violated:length"
  let mut seen : List String := []
  for (s, o) in steps.zip obs do
    if s.realKey = "!" then continue            -- no key: the statement is silent
    if seen.contains s.realKey then
      if o != "drop/0" then return "violated:duplicate_not_dropped_as_success"
    else
      seen := s.realKey :: seen
      if !(o.endsWith "/1") then return "violated:first_message_did_not_reach_handler_once"
  return "ok"

/-! ### dec -/

structure DecMsg where
  payload : List UInt8
  md : List (String × String)
  realKey : String

structure DecCall where
  fail : Bool
  msgs : List DecMsg

def parseDecCall (t : String) : Option DecCall :=
  match t.splitOn "|" with
  | [f, ms] => do
    let fail ← (if f = "f" then some true else if f = "o" then some false else none)
    let msgs ← (if ms = "" then some [] else (ms.splitOn ";").mapM fun mt =>
      match mt.splitOn "/" with
      | [p, m, k] => do
        let p ← hexDec p
        let m ← parseMeta m
        if k ≠ "!" && (hexDec k).isNone then none
        pure (⟨p, m, k⟩ : DecMsg)
      | _ => none)
    pure ⟨fail, msgs⟩
  | _ => none

def mDec (h : HCfg) (calls : List DecCall) : String := Id.run do
  let mut r : Repo String := []
  let mut out : List String := []
  let mut now := 0
  for c in calls do
    let pm : List (PMsg String) := c.msgs.zipIdx.map fun (m, i) => ⟨i, modelKey h m.payload m.md, now + i⟩
    now := now + c.msgs.length
    let (r', o) := decorate bigWindow r pm c.fail
    r := r'
    let e := match o.err with | .none => "n" | .key => "k" | .inner => "i"
    let fw := match o.forwarded with
      | none => "x"
      | some ids => dashJoin "." (ids.map toString)
    -- settlement after the call: acked by the decorator, everything else untouched (the recording publisher settles nothing)
    let flags := (List.range c.msgs.length).map fun i => if o.acked.contains i then 'a' else 'u'
    let fl := if flags.isEmpty then "-" else String.ofList flags
    let tp := if o.forwarded.isSome then "t" else "x"
    out := (e ++ "|" ++ fw ++ "|" ++ fl ++ "|" ++ tp) :: out
  return dashJoin " " out.reverse

def parseIdxList (s : String) : Option (List Nat) :=
  if s = "-" then some [] else (s.splitOn ".").mapM (·.toNat?)

/-- statement: per real key exactly one message is handed to the wrapped publisher; every other one is not forwarded
    and is acked; a message may only be dropped-as-success when one with its key did reach the wrapped publisher -/
def pDec (calls : List DecCall) (obs : List String) : String := Id.run do
  if calls.length != obs.length then return "violated:length"
  let mut reached : List String := []
  for (c, o) in calls.zip obs do
    match o.splitOn "|" with
    | [e, fw, fl, _] =>
      if fw = "multi" then return "violated:wrapped_publisher_called_twice"
      let fwd ← match (if fw = "x" then some [] else parseIdxList fw) with
        | some l => pure l
        | none => return "bad-op"
      let flags := if fl = "-" then [] else fl.toList
      if flags.length != c.msgs.length then return "violated:length"
      -- forwarded ones first, in the order the wrapped publisher saw them
      for i in fwd do
        match c.msgs[i]? with
        | none => return "violated:forwarded_unknown_message"
        | some m =>
          if m.realKey = "!" then continue
          if reached.contains m.realKey then return "violated:duplicate_forwarded"
          reached := m.realKey :: reached
      if e = "k" then continue     -- the call failed before the batch was complete: nothing was dropped *as a success*
      for (m, i) in c.msgs.zipIdx do
        if m.realKey = "!" then continue
        if fwd.contains i then continue
        if flags[i]? != some 'a' then return "violated:dropped_not_acked"
        if !(reached.contains m.realKey) then return "violated:dropped_but_none_reached"
    | _ => return "bad-op"
  return "ok"

/-! ### mwc / decc -/

def parseAssign (s : String) (batches : Bool) : Option (List (List (List Nat))) :=
  (s.splitOn ";").mapM fun g =>
    (if batches then g.splitOn "+" else [g]).mapM fun b => (b.splitOn ".").mapM (·.toNat?)

def nKeys (gs : List (List (List Nat))) : Nat :=
  gs.foldl (fun m g => g.foldl (fun m b => b.foldl (fun m k => max m (k + 1)) m) m) 0

def countOf (xs : List Nat) (k : Nat) : Nat := (xs.filter (· == k)).length

def mMwc (gs : List (List (List Nat))) : String := Id.run do
  let arrivals : List Nat := gs.flatten.flatten
  let mut r : Repo String := []
  let mut calls : List Nat := []
  let mut passed : List Nat := []
  let mut dropped : List Nat := []
  let mut now := 0
  for k in arrivals do
    let (r', res, n) := middleware bigWindow r (.key (toString k)) now ()
    r := r'
    now := now + 1
    if n > 0 then calls := k :: calls
    match res with
    | .handled _ => passed := k :: passed
    | .dropped => dropped := k :: dropped
    | .keyErr => pure ()
  let parts := (List.range (nKeys gs)).map fun k =>
    s!"k{k}={countOf calls k}:{countOf passed k}:{countOf dropped k}:0"
  return ",".intercalate parts

def parseKeyStats (s : String) : Option (List (List Nat)) :=
  (s.splitOn ",").mapM fun p =>
    match p.splitOn "=" with
    | [_, v] => (v.splitOn ":").mapM (·.toNat?)
    | _ => none

/-- statement: however concurrently they arrive, exactly one message per key reaches the handler, the others are (nil, nil) -/
def pMwc (gs : List (List (List Nat))) (obs : String) : String := Id.run do
  let arrivals := gs.flatten.flatten
  match parseKeyStats obs with
  | none => return "bad-op"
  | some st =>
    if st.length != nKeys gs then return "violated:length"
    for (v, k) in st.zipIdx do
      let n := countOf arrivals k
      match v with
      | [calls, passed, dropped, errs] =>
        if n = 0 then
          if calls + passed + dropped + errs != 0 then return "violated:phantom"
        else
          if calls != 1 then return "violated:concurrent_exactly_one"
          if errs != 0 then return "violated:error_or_panic"
          if dropped + 1 != n then return "violated:drop_is_success"
          if passed != 1 then return "violated:accepted_result_not_passed"
      | _ => return "bad-op"
    return "ok"

def mDecc (gs : List (List (List Nat))) : String := Id.run do
  let mut r : Repo String := []
  let mut fw : List Nat := []
  let mut ak : List Nat := []
  let mut now := 0
  for g in gs do
    for b in g do
      let pm : List (PMsg String) := b.zipIdx.map fun (k, i) => ⟨i, .key (toString k), now + i⟩
      now := now + b.length
      let (r', o) := decorate bigWindow r pm false
      r := r'
      let keyAt := fun (i : Nat) => b[i]?.getD 0
      fw := (o.forwarded.getD []).map keyAt ++ fw
      ak := o.acked.map keyAt ++ ak
  let parts := (List.range (nKeys gs)).map fun k => s!"k{k}={countOf fw k}:{countOf ak k}:0:0"
  return ",".intercalate parts ++ " e=0"

def pDecc (gs : List (List (List Nat))) (obs : List String) : String := Id.run do
  let arrivals := gs.flatten.flatten
  match obs with
  | [stats, e] =>
    if e != "e=0" then return "violated:publish_error"
    match parseKeyStats stats with
    | none => return "bad-op"
    | some st =>
      if st.length != nKeys gs then return "violated:length"
      for (v, k) in st.zipIdx do
        let n := countOf arrivals k
        match v with
        | [forwarded, droppedAcked, _fwAcked, droppedNotAcked] =>
          if n = 0 then
            if forwarded + droppedAcked + droppedNotAcked != 0 then return "violated:phantom"
          else
            if forwarded != 1 then return "violated:concurrent_exactly_one"
            if droppedNotAcked != 0 then return "violated:dropped_not_acked"
            if droppedAcked + 1 != n then return "violated:drop_is_success"
        | _ => return "bad-op"
      return "ok"
  | _ => return "bad-op"

/-! ### ctx / ctxc: deliveries with cancelled or expired message contexts -/

structure CtxStep where
  key : Nat
  mode : Char
  deriving Inhabited

def parseCtxStep (t : String) : Option CtxStep :=
  match t.toList.reverse with
  | m :: ds@(_ :: _) =>
    if "lcxht".toList.contains m then (String.ofList ds.reverse).toNat?.map fun k => ⟨k, m⟩ else none
  | _ => none

/-- the model: the repository does not look at the context, the mode of a delivery is irrelevant -/
def mCtx (via : String) (steps : List CtxStep) : String := Id.run do
  let mut r : Repo String := []
  let mut out : List Char := []
  let mut now := 0
  for s in steps do
    if via = "mw" then
      let (r', res, _) := middleware bigWindow r (.key (toString s.key)) now ()
      r := r'
      out := (match res with | .handled _ => 'p' | .dropped => 'd' | .keyErr => 'e') :: out
    else
      let (r', o) := decorate bigWindow r [⟨0, .key (toString s.key), now⟩] false
      r := r'
      out := (if o.err != .none then 'e' else if o.forwarded == some [0] then 'p' else if o.acked == [0] then 'd' else '?') :: out
    now := now + 1
  return if out.isEmpty then "-" else String.ofList out.reverse

/-- statement: per key exactly one message reaches the handler / wrapped publisher – in particular a delivery that was
    rejected with an error has not used up the key: nothing is dropped as a success unless a message of that key did
    reach, nothing reaches twice, and a key that had a delivery with a live context has reached by the end -/
def pCtx (steps : List CtxStep) (obs : String) : String := Id.run do
  let letters := if obs = "-" then [] else obs.toList
  if letters.length != steps.length then return "violated:length"
  let mut reached : List Nat := []
  for (s, c) in steps.zip letters do
    if c == 'p' then
      if reached.contains s.key then return "violated:duplicate_reached"
      reached := s.key :: reached
    else if c == 'd' then
      if !(reached.contains s.key) then return "violated:dropped_but_none_reached"
    else if c == 'e' then
      if s.mode == 'l' then return "violated:live_delivery_rejected"
    else return "violated:error_or_panic"
  for s in steps do
    if s.mode == 'l' && !(reached.contains s.key) then return "violated:live_delivery_but_none_reached"
  return "ok"

def parseCtxAssign (s : String) : Option (List (List CtxStep)) :=
  (s.splitOn ";").mapM fun g => (g.splitOn ".").mapM parseCtxStep

def mCtxc (gs : List (List CtxStep)) : String :=
  let arrivals := gs.flatten.map (·.key)
  let nk := arrivals.foldl (fun m k => max m (k + 1)) 0
  -- by `concurrent_exactly_one` / `keys_independent` every interleaving gives the same counts
  let r := (run bigWindow [] (arrivals.zipIdx.map fun (k, i) => Op.arrive (toString k) i)).2
  let acc := (arrivals.zip r).filterMap fun (k, x) => if x == Res.verdict false then some k else none
  ",".intercalate ((List.range nk).map fun k => s!"k{k}={countOf acc k}:{countOf arrivals k - countOf acc k}:0")

def pCtxc (gs : List (List CtxStep)) (obs : String) : String := Id.run do
  let all := gs.flatten
  let nk := all.foldl (fun m s => max m (s.key + 1)) 0
  match parseKeyStats obs with
  | none => return "bad-op"
  | some st =>
    if st.length != nk then return "violated:length"
    for (v, k) in st.zipIdx do
      let mine := all.filter (·.key == k)
      let live := mine.any (·.mode == 'l')
      match v with
      | [reached, dropped, errs] =>
        if reached + dropped + errs != mine.length then return "violated:length"
        if reached > 1 then return "violated:concurrent_exactly_one"
        if dropped > 0 && reached == 0 then return "violated:dropped_but_none_reached"
        if live && reached != 1 then return "violated:live_delivery_but_none_reached"
        if errs > (mine.filter (·.mode != 'l')).length then return "violated:live_delivery_rejected"
      | _ => return "bad-op"
    return "ok"

/-! ### volume: many keys expiring together with a few probes -/

/-- the model run behind a volume case: probes, other keys, the sentinel last; a clean-up whose tick is past the sentinel's
    expiry (that such a clean-up ran is what the sentinel's re-acceptance proves); the sentinel again, then every probe again -/
def mVolume (nOther nProbes : Nat) : String :=
  let w := 1000
  let probes := (List.range nProbes).map fun i => s!"p{i}"
  -- by `keys_independent` the other keys cannot matter; a few of them are kept in the run
  let others := (List.range (min nOther 50)).map fun i => s!"o{i}"
  let first : List (Op String) := (probes ++ others ++ ["z"]).zipIdx.map fun (k, i) => Op.arrive k i
  let t1 := first.length + w + 1
  let second : List (Op String) := Op.clean t1 t1 :: (("z" :: probes).zipIdx.map fun (k, i) => Op.arrive k (t1 + i))
  let res := (run w [] (first ++ second)).2
  let firstAcc := (res.take first.length).filter (· == Res.verdict false) |>.length
  let z := match res[first.length + 1]? with | some (.verdict false) => "reaccepted" | _ => "stuck"
  let pr := (res.drop (first.length + 2)).map resLetter
  -- the harness stores 8 sentinels (any of them is the witness); the model run carries one
  s!"first={firstAcc + (nOther - min nOther 50) + 7}/{nOther + nProbes + 8} z={z} probes={String.ofList pr}"

/-- statement: a key is accepted again after it expired – the sentinel's re-acceptance shows that the clean-up past the
    probes' expiry has run, so every probe must be accepted again; and everything is accepted when it first arrives -/
def pVolume (nOther nProbes : Nat) (obs : List String) : String :=
  match obs with
  | [first, z, probes] =>
    if first != s!"first={nOther + nProbes + 8}/{nOther + nProbes + 8}" then "violated:first_arrival_not_accepted"
    else if z != "z=reaccepted" then "violated:accepted_again_after_expiry"
    else match probes.splitOn "=" with
      | ["probes", ls] =>
        if ls.length != nProbes then "violated:length"
        else if ls.toList.all (· == 'a') then "ok" else "violated:accepted_again_after_expiry"
      | _ => "bad-op"
  | _ => "bad-op"

/-! ### share / sharec: several wrappers built from one Deduplicator value -/

structure ShStep where
  kind : Char      -- m, d, D
  idx : Nat
  key : Nat
  deriving Inhabited

def parseShStep (nMw nDec : Nat) (t : String) : Option ShStep :=
  match t.splitOn ":" with
  | [wr, k] => do
    let k ← k.toNat?
    match wr.toList with
    | ['D'] => pure ⟨'D', 0, k⟩
    | c :: ds@(_ :: _) => do
      let i ← (String.ofList ds).toNat?
      if c == 'm' && i < nMw then pure ⟨'m', i, k⟩
      else if c == 'd' && i < nDec then pure ⟨'d', i, k⟩
      else none
    | _ => none
  | _ => none

/-- which repository a presentation goes to: a Deduplicator value has ONE state that all its wrappers (and its own
    `IsDuplicate`) use – the defaults are written into the value by the first wrapper; a nil `*Deduplicator` has no value,
    every wrapper built from it is a Deduplicator of its own -/
def shSlot (cfg : String) (nMw : Nat) (s : ShStep) : Nat :=
  if cfg = "nilptr" then (if s.kind == 'm' then s.idx else nMw + s.idx) else 0

def shLetters (cfg : String) (nMw : Nat) (steps : List ShStep) : List Char := Id.run do
  let mut repos : List (Nat × Repo String) := []
  let mut out : List Char := []
  let mut now := 0
  for s in steps do
    let slot := shSlot cfg nMw s
    let r := (repos.lookup slot).getD []
    let (r', res, _) := middleware bigWindow r (.key (toString s.key)) now ()
    repos := (slot, r') :: repos.filter (·.1 != slot)
    now := now + 1
    out := (match res with | .handled _ => 'p' | .dropped => 'd' | .keyErr => 'e') :: out
  return out.reverse

def validCfg (cfg : String) (steps : List ShStep) : Bool :=
  ["defrepo", "defall", "explicit", "nilptr"].contains cfg && !(cfg = "nilptr" && steps.any (·.kind == 'D'))

/-- statement: among all messages of one key presented to one Deduplicator – through whichever of its wrappers –
    exactly one gets through, the others are dropped as successes -/
def pShare (cfg : String) (nMw : Nat) (steps : List ShStep) (obs : String) : String := Id.run do
  let letters := if obs = "-" then [] else obs.toList
  if letters.length != steps.length then return "violated:length"
  let mut reached : List (Nat × Nat) := []
  for (s, c) in steps.zip letters do
    let id := (shSlot cfg nMw s, s.key)
    if c == 'p' then
      if reached.contains id then return "violated:duplicate_reached"
      reached := id :: reached
    else if c == 'd' then
      if !(reached.contains id) then return "violated:dropped_but_none_reached"
    else return "violated:error_or_panic"
  return "ok"

def parseShAssign (nMw nDec : Nat) (s : String) : Option (List (List ShStep)) :=
  (s.splitOn ";").mapM fun g => (g.splitOn ".").mapM (parseShStep nMw nDec)

def shStats (cfg : String) (nMw : Nat) (all : List ShStep) : List (Nat × Nat) :=
  -- per key: number of distinct deduplicators it was presented to (= messages that get through), presentations
  let nk := all.foldl (fun m s => max m (s.key + 1)) 0
  (List.range nk).map fun k =>
    let mine := all.filter (·.key == k)
    (((mine.map (shSlot cfg nMw)).eraseDups).length, mine.length)

def mSharec (cfg : String) (nMw : Nat) (gs : List (List ShStep)) : String :=
  let all := gs.flatten
  let letters := shLetters cfg nMw all           -- any interleaving gives the same counts (`concurrent_exactly_one`)
  let nk := all.foldl (fun m s => max m (s.key + 1)) 0
  ",".intercalate ((List.range nk).map fun k =>
    let mine := (all.zip letters).filter (·.1.key == k)
    s!"k{k}={(mine.filter (·.2 == 'p')).length}:{(mine.filter (·.2 == 'd')).length}:0")

def pSharec (cfg : String) (nMw : Nat) (gs : List (List ShStep)) (obs : String) : String := Id.run do
  let want := shStats cfg nMw gs.flatten
  match parseKeyStats obs with
  | none => return "bad-op"
  | some st =>
    if st.length != want.length then return "violated:length"
    for (v, (through, n)) in st.zip want do
      match v with
      | [reached, dropped, errs] =>
        if errs != 0 then return "violated:error_or_panic"
        if reached + dropped != n then return "violated:length"
        if reached > through then return "violated:concurrent_exactly_one"
        if reached < through then return "violated:dropped_but_none_reached"
      | _ => return "bad-op"
    return "ok"

/-! ### hash / metakey / timeout / router / expire -/

def mHash (algo : String) (l : Int) (p1 p2 : List UInt8) : String :=
  if algo = "adler" then
    hexEnc (be4 (hasherKey adler32 l p1)) ++ " " ++ hexEnc (be4 (hasherKey adler32 l p2))
  else if hasherKey id l p1 = hasherKey id l p2 then "eq" else "ne"

/-- statement: equal up to the read limit (never below 64) ⇒ equal keys; SHA-256: different within it ⇒ different keys -/
def pHash (algo : String) (l : Int) (p1 p2 : List UInt8) (obs : List String) : String :=
  let lim : Nat := if l < 64 then 64 else l.toNat
  let samePrefix := p1.take lim == p2.take lim
  match algo, obs with
  | "adler", [k1, k2] => if samePrefix && k1 != k2 then "violated:hash_equal_prefix" else "ok"
  | "sha", ["eq"] => if samePrefix then "ok" else "violated:sha_distinct"
  | "sha", ["ne"] => if samePrefix then "violated:hash_equal_prefix" else "ok"
  | _, _ => "violated:hasher_failed"

def mMetaKey (field : String) (md : List (String × String)) : String :=
  match metaKey field md with
  | .key v => "key:" ++ v
  | .err => "err"

def mTimeout (via : String) (cfg lo hi : Int) (cv : String) : String :=
  let eff : Int := if via = "direct" then cfg else if cfg < 5000000 then 5000000 else cfg
  if lo ≤ eff && eff ≤ hi && cv = "1" then "ok" else s!"timeout-mismatch:expected {eff}"

/-! ### hist: stamped concurrent history against the timed model -/

structure TEv where
  key : Nat
  c : Nat
  r : Nat
  res : Char
  deriving Inhabited

def parseTEv (s : String) : Option TEv :=
  match s.splitOn ":" with
  | [k, c, r, x] => do
    let k ← k.toNat?
    let c ← c.toNat?
    let r ← r.toNat?
    if c > r then none
    match x.toList with
    | [ch] => pure ⟨k, c, r, ch⟩
    | _ => none
  | _ => none

/-- the window statement on conservative stamps: two accepted arrivals of one key are more than a window apart
    (whatever instants inside the two calls the code read its clock), and a duplicate verdict needs an accepted arrival
    of that key that can have come first -/
def pHist (w : Nat) (evs : List TEv) : String := Id.run do
  if evs.any (fun e => e.res != 'a' && e.res != 'd') then return "violated:error_or_panic"
  let arr := evs.toArray
  for i in [0:arr.size] do
    let a := arr[i]!
    if a.res == 'a' then
      for j in [i+1:arr.size] do
        let b := arr[j]!
        if b.res == 'a' && b.key == a.key then
          if !(a.c + w < b.r || b.c + w < a.r) then return "violated:one_per_window"
  for d in evs do
    if d.res == 'd' then
      if !(evs.any fun a => a.res == 'a' && a.key == d.key && a.c ≤ d.r) then return "violated:duplicate_without_accepted"
  return "ok"

/-- remove the first element satisfying `p` -/
def removeFirst (p : TEv → Bool) : List TEv → List TEv
  | [] => []
  | x :: xs => if p x then xs else x :: removeFirst p xs

/-- search for a linearisation of the events of one key: an order respecting real time (x before y if x returned before
    y was called), clock readings inside the calls and non-decreasing along the order, a clean-up inserted where the key
    is accepted again.  `T` = earliest possible clock reading, `cur` = expiry of the present entry.
    Everything is scheduled as early as possible (smaller readings and expiries never hurt).  An accepted arrival that can
    be placed now without making another pending call impossible is tried first (placing it later only raises its
    expiry); the alternatives – another accepted arrival, or the pending duplicate with the earliest call – are
    explored on failure.  `fuel` bounds the number of nodes; the result is `(witness?, fuel left)`. -/
partial def searchKey (w : Nat) (k : String) (rem : List TEv) (T : Nat) (cur : Option Nat)
    (ops : List (Op String)) (want : List Bool) (fuel : Nat) : Option (List (Op String) × List Bool) × Nat :=
  match rem with
  | [] => (some (ops.reverse, want.reverse), fuel)
  | e0 :: _ =>
    if fuel = 0 then (none, 0) else
    let fuel := fuel - 1
    let floorAcc := match cur with | some E => max T (E + 1) | none => T   -- earliest reading of any further accepted arrival
    if rem.any (fun x => T > x.r || (x.res == 'a' && floorAcc > x.r)) then (none, fuel) else
    let minRet := rem.foldl (fun m x => min m x.r) e0.r
    let adm := fun (x : TEv) => x.c ≤ minRet
    let timeOf := fun (a : TEv) => max floorAcc a.c
    let accs := rem.filter (fun x => x.res == 'a' && adm x)
    -- accepted arrivals whose placement now does not overtake the return of any other pending call
    let safe := accs.filter fun a => rem.all fun x => x.r ≥ timeOf a || (x.c == a.c && x.r == a.r && x.res == 'a')
    let placeAcc := fun (a : TEv) (fuel : Nat) =>
      let t := timeOf a
      let ops' := match cur with
        | some E => Op.arrive k t :: Op.clean (E + 1) t :: ops
        | none => Op.arrive k t :: ops
      searchKey w k (removeFirst (fun x => x.c == a.c && x.r == a.r && x.res == 'a') rem) t (some (t + w)) ops' (false :: want) fuel
    let rec tryAccs (l : List TEv) (fuel : Nat) : Option (List (Op String) × List Bool) × Nat :=
      match l with
      | [] => (none, fuel)
      | a :: rest =>
        match placeAcc a fuel with
        | (some wit, f) => (some wit, f)
        | (none, f) => if f = 0 then (none, 0) else tryAccs rest f
    match tryAccs safe fuel with
    | (some wit, f) => (some wit, f)
    | (none, f) =>
      if f = 0 then (none, 0) else
      match cur, rem.find? (fun x => x.res == 'd' && adm x) with
      | some _, some d =>
        let t := max T d.c
        searchKey w k (removeFirst (fun x => x.c == d.c && x.r == d.r && x.res == 'd') rem) t cur
          (.arrive k t :: ops) (true :: want) f
      | _, _ => (none, f)

def verdictsOnly (rs : List Res) : List Bool :=
  rs.filterMap fun | .verdict b => some b | .cleaned => none

def searchFuel : Nat := 300000

/-- `lin`: every key's events have a witness run of the proven model (well-timed, same verdicts, clock readings inside
    the calls); `notlin:k<i>`: the search space of key i is exhausted without one.  If the node budget runs out the key is
    passed (the budget is a guard against pathological histories, not a verdict; the window inequalities of the monitor
    are checked independently on every history). -/
def mHist (w : Nat) (evs : List TEv) : String := Id.run do
  if evs.any (fun e => e.res != 'a' && e.res != 'd') then return "notlin:error"
  let keys := (evs.map (·.key)).eraseDups
  for k in keys do
    let sub := evs.filter (·.key == k)
    match searchKey w (toString k) sub 0 none [] [] searchFuel with
    | (none, 0) => pure ()
    | (none, _) => return s!"notlin:k{k}"
    | (some (ops, want), _) =>
      -- the witness is replayed on the proven model: well-timed, and the model gives exactly the observed verdicts
      if !(decide (WellTimed ops)) then return s!"notlin:witness-not-well-timed:k{k}"
      if verdictsOnly (run w [] ops).2 != want then return s!"notlin:witness-replay:k{k}"
  return "lin"

/-! ### dispatcher -/

def handle (line : String) : String :=
  match tok line with
  | "M" :: "repo" :: keys => mRepo keys
  | "P" :: "repo" :: rest =>
    match rest.span (· ≠ "##") with
    | (keys, ["##", obs]) => pRepo keys obs
    | _ => "bad-op"
  | "M" :: "mw" :: h :: steps =>
    match parseHasher h, steps.mapM parseMwStep with
    | some h, some steps => mMw h steps
    | _, _ => "bad-op"
  | "P" :: "mw" :: h :: rest =>
    match rest.span (· ≠ "##") with
    | (steps, "##" :: obs) =>
      match parseHasher h, steps.mapM parseMwStep with
      | some _, some steps => pMw steps (if obs = ["-"] then [] else obs)
      | _, _ => "bad-op"
    | _ => "bad-op"
  | "M" :: "dec" :: h :: calls =>
    match parseHasher h, calls.mapM parseDecCall with
    | some h, some calls => mDec h calls
    | _, _ => "bad-op"
  | "P" :: "dec" :: h :: rest =>
    match rest.span (· ≠ "##") with
    | (calls, "##" :: obs) =>
      match parseHasher h, calls.mapM parseDecCall with
      | some _, some calls => pDec calls (if obs = ["-"] then [] else obs)
      | _, _ => "bad-op"
    | _ => "bad-op"
  | ["M", "mwc", h, _, a] =>
    match parseHasher h, parseAssign a false with
    | some _, some gs => mMwc gs
    | _, _ => "bad-op"
  | ["P", "mwc", h, _, a, "##", obs] =>
    match parseHasher h, parseAssign a false with
    | some _, some gs => pMwc gs obs
    | _, _ => "bad-op"
  | ["M", "decc", h, _, a] =>
    match parseHasher h, parseAssign a true with
    | some _, some gs => mDecc gs
    | _, _ => "bad-op"
  | "P" :: "decc" :: h :: _ :: a :: "##" :: obs =>
    match parseHasher h, parseAssign a true with
    | some _, some gs => pDecc gs obs
    | _, _ => "bad-op"
  | ["M", "hash", algo, l, p1, p2] =>
    match l.toInt?, hexDec p1, hexDec p2 with
    | some l, some p1, some p2 => if algo = "adler" || algo = "sha" then mHash algo l p1 p2 else "bad-op"
    | _, _, _ => "bad-op"
  | "P" :: "hash" :: algo :: l :: p1 :: p2 :: "##" :: obs =>
    match l.toInt?, hexDec p1, hexDec p2 with
    | some l, some p1, some p2 => if algo = "adler" || algo = "sha" then pHash algo l p1 p2 obs else "bad-op"
    | _, _, _ => "bad-op"
  | ["M", "metakey", f, m] =>
    match hexDec f, parseMeta m with
    | some _, some md => mMetaKey f md
    | _, _ => "bad-op"
  | "P" :: "metakey" :: _ => "ok"        -- not part of the statement; model comparison only
  | ["M", "timeout", via, cfg, lo, hi, cv] =>
    match cfg.toInt?, lo.toInt?, hi.toInt? with
    | some cfg, some lo, some hi => if ["mw", "dec", "direct"].contains via then mTimeout via cfg lo hi cv else "bad-op"
    | _, _, _ => "bad-op"
  | "P" :: "timeout" :: _ => "ok"        -- not part of the statement; model comparison only
  | "M" :: "hist" :: w :: _ :: evs =>
    match w.toNat?, evs.mapM parseTEv with
    | some w, some evs => mHist w evs
    | _, _ => "bad-op"
  | "P" :: "hist" :: w :: _ :: rest =>
    match w.toNat?, (rest.takeWhile (· ≠ "##")).mapM parseTEv with
    | some w, some evs => pHist w evs
    | _, _ => "bad-op"
  | "M" :: "ctx" :: via :: h :: steps =>
    match parseHasher h, steps.mapM parseCtxStep with
    | some _, some steps => if via = "mw" || via = "dec" then mCtx via steps else "bad-op"
    | _, _ => "bad-op"
  | "P" :: "ctx" :: via :: h :: rest =>
    match rest.span (· ≠ "##") with
    | (steps, ["##", obs]) =>
      match parseHasher h, steps.mapM parseCtxStep with
      | some _, some steps => if via = "mw" || via = "dec" then pCtx steps obs else "bad-op"
      | _, _ => "bad-op"
    | _ => "bad-op"
  | ["M", "ctxc", via, h, _, a] =>
    match parseHasher h, parseCtxAssign a with
    | some _, some gs => if via = "mw" || via = "dec" then mCtxc gs else "bad-op"
    | _, _ => "bad-op"
  | ["P", "ctxc", via, h, _, a, "##", obs] =>
    match parseHasher h, parseCtxAssign a with
    | some _, some gs => if via = "mw" || via = "dec" then pCtxc gs obs else "bad-op"
    | _, _ => "bad-op"
  | "M" :: "share" :: cfg :: nMw :: nDec :: steps =>
    match nMw.toNat?, nDec.toNat? with
    | some nMw, some nDec =>
      match steps.mapM (parseShStep nMw nDec) with
      | some steps => if validCfg cfg steps then
          (let l := shLetters cfg nMw steps; if l.isEmpty then "-" else String.ofList l) else "bad-op"
      | none => "bad-op"
    | _, _ => "bad-op"
  | "P" :: "share" :: cfg :: nMw :: nDec :: rest =>
    match nMw.toNat?, nDec.toNat?, rest.span (· ≠ "##") with
    | some nMw, some nDec, (steps, ["##", obs]) =>
      match steps.mapM (parseShStep nMw nDec) with
      | some steps => if validCfg cfg steps then pShare cfg nMw steps obs else "bad-op"
      | none => "bad-op"
    | _, _, _ => "bad-op"
  | ["M", "sharec", cfg, nMw, nDec, _, a] =>
    match nMw.toNat?, nDec.toNat? with
    | some nMw, some nDec =>
      match parseShAssign nMw nDec a with
      | some gs => if validCfg cfg gs.flatten then mSharec cfg nMw gs else "bad-op"
      | none => "bad-op"
    | _, _ => "bad-op"
  | ["P", "sharec", cfg, nMw, nDec, _, a, "##", obs] =>
    match nMw.toNat?, nDec.toNat? with
    | some nMw, some nDec =>
      match parseShAssign nMw nDec a with
      | some gs => if validCfg cfg gs.flatten then pSharec cfg nMw gs obs else "bad-op"
      | none => "bad-op"
    | _, _ => "bad-op"
  | ["M", "idle", via, ms, wk, bud] =>
    if ["repo", "mw", "dec"].contains via && ms.toNat?.isSome && wk.toNat?.isSome && bud.toNat?.isSome then "reaccepted" else "bad-op"
  | ["P", "idle", _, _, _, _, "##", obs] =>
    if obs = "reaccepted" then "ok" else "violated:accepted_again_after_expiry"
  | ["M", "volume", via, ms, n, np] =>
    match ms.toNat?, n.toNat?, np.toNat? with
    | some _, some n, some np => if ["repo", "mw", "dec"].contains via then mVolume n np else "bad-op"
    | _, _, _ => "bad-op"
  | "P" :: "volume" :: via :: ms :: n :: np :: "##" :: obs =>
    match ms.toNat?, n.toNat?, np.toNat? with
    | some _, some n, some np => if ["repo", "mw", "dec"].contains via then pVolume n np obs else "bad-op"
    | _, _, _ => "bad-op"
  | "M" :: "stall" :: via :: wms :: sp :: gp :: evs =>   -- a hist history whose held-up call is stamped at the end of the hook action
    match wms.toNat?, sp.toNat?, gp.toNat?, evs.mapM parseTEv with
    | some w, some _, some _, some evs => if ["repo", "mw", "dec"].contains via then mHist (w * 1000000) evs else "bad-op"
    | _, _, _, _ => "bad-op"
  | "P" :: "stall" :: via :: wms :: sp :: gp :: rest =>
    match wms.toNat?, sp.toNat?, gp.toNat?, (rest.takeWhile (· ≠ "##")).mapM parseTEv with
    | some w, some _, some _, some evs => if ["repo", "mw", "dec"].contains via then pHist (w * 1000000) evs else "bad-op"
    | _, _, _, _ => "bad-op"
  | ["M", "expire", _, ms] => if ms.toNat?.isSome then "reaccepted" else "bad-op"
  | ["P", "expire", _, _, "##", obs] =>
    if obs = "reaccepted" then "ok"
    else if obs = "first-not-accepted" then "violated:first_arrival_not_accepted"
    else "violated:accepted_again_after_expiry"
  | ["M", "router", n, nk] =>
    match n.toNat?, nk.toNat? with
    | some n, some nk => s!"handled={min n nk} acked={n}"
    | _, _ => "bad-op"
  | ["P", "router", n, nk, "##", h, a] =>
    match n.toNat?, nk.toNat? with
    | some n, some nk =>
      if h != s!"handled={min n nk}" then "violated:concurrent_exactly_one"
      else if a != s!"acked={n}" then "violated:drop_is_success"
      else "ok"
    | _, _ => "bad-op"
  | _ => "bad-op"

def main : IO Unit := driverMain handle
