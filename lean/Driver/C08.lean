/-
  Line-protocol driver of C08.

    M route <tok>*              → the model's observation (Wm.Route.route)
    P route <tok>* ## <obs>     → the property monitor on the implementation's observation

  request tokens (strings are lowercase hex of their UTF-8 bytes, `-` = empty string):
    S<id>=<name>                       subscriber object and its StructName
    W<id>=<name>                       subscriber object that the APPLICATION has wrapped itself with the public
                                       MessageTransformSubscriberDecorator (name: type name of what is inside, irrelevant);
                                       its StructName is that of watermill's decorator type
    P<id>=<name>                       publisher object and its StructName
    h=<name>:<subId>:<subTopic>:<pubSpec>:<pubTopic>:<mwOut>
                                       AddHandler; pubSpec = p<id> | np (AddNoPublisherHandler) | nil (nil publisher)
    D<id> / E<id>                      AddPublisherDecorators / AddSubscriberDecorators (recording decorator number id);
                                       with a trailing `!` the decorator returns an error the first time it is applied
                                       (RunHandlers fails and is called again until it succeeds)
    T<n>                               Stop() of handler number n (counted from 0 in the order of the h= tokens), waiting until
                                       it has stopped; it receives nothing afterwards and its name may be used by a handler
                                       added later - a handler of its own, decorated by the next RunHandlers like any other
    M<id>                              AddPublisherDecorators(message.MessageTransformPublisherDecorator(no-op)), unrecorded
    K                                  the application puts values of its own into the message context under the PLAIN
                                       STRING keys "handler_name", "publisher_name", "subscriber_name", "subscribe_topic",
                                       "publish_topic" (in a subscriber decorator and in a middleware, i.e. after the router
                                       has set its values); the router's keys are of a private type, nothing may change
    RUN                                Run (first) / RunHandlers (later); handlers declared after it are added to the
                                       running router; a final RunHandlers is implied before the messages arrive
    d=<subId>:<topic>:<mid>:<shape>[:<ctx>[:<done>]]
                                       a message arrives at (subscriber, topic); shape = E (function errs) | - (no outputs)
                                       | `.`-separated objects c (the consumed message) / f<k> (k-th fresh object);
                                       ctx = n (nothing) | `.`-separated `<keyIdx>_<value>` already on the incoming context
                                       (innermost first); done = x (the message's context is cancelled before delivery) |
                                       k (the function cancels it, then returns) | t (deadline the function overruns)
  observation:
    subs=<total>:<c0>,<c1>,…  orphans=<n>  H<i>:<msg>;<msg>…   (one H block per handler that received something)
    msg  = <mid>/<fns>/<ctx5>/<A|N|T>/<pubs>/<path>  fns = `+`-joined handler indices whose function got the copy, `-` none
                                                     path = subscriber decorators the copy passed, `.`-joined, `-` none
    ctx5 = <handler>:<pubName>:<subName>:<subTopic>:<pubTopic>
    pubs = - | `+`-joined  P<id>@<topic>!<path>[<item>,…]   path = publisher decorators the call passed, `.`-joined
                                       <id>=<ctx5>: decorator id and the context values it READ on the messages (the distinct
                                       ones, `|`-joined), `-` no decorator
    item = <c|f<k>|m<k>|x>~<u|M>~<ctx5>~<owner>      owner = whose own context the element's context still derives from
-/
import WmModel.Basic
import WmModel.Route
open Wm Wm.Route

def splitOnChar (c : Char) : List Char → List (List Char)
  | [] => [[]]
  | x :: rest =>
    match splitOnChar c rest with
    | [] => [[]]
    | cur :: more => if x == c then [] :: cur :: more else (x :: cur) :: more

def natOf (cs : List Char) : Option Nat :=
  if cs.isEmpty || !cs.all Char.isDigit then none else some (cs.foldl (fun n c => 10 * n + (c.toNat - 48)) 0)

def isHexTok (cs : List Char) : Bool :=
  cs == ['-'] || (!cs.isEmpty && cs.length % 2 == 0 && cs.all fun c => c.isDigit || ('a' ≤ c && c ≤ 'f'))

/-- a name token → the string the model works with: `""` for `-`, otherwise the hex text itself (hex of a non-empty
    string is non-empty and hex is injective, so equality and emptiness are preserved) -/
def strOf (cs : List Char) : Option String :=
  if !isHexTok cs then none else if cs == ['-'] then some "" else some (String.ofList cs)

def tokOfStr (s : String) : String := if s.isEmpty then "-" else s

def hexOfAscii (s : String) : String := hexEnc s.toUTF8.toList

def disabledPublisherName : String := hexOfAscii "message.disabledPublisher"
def nilName : String := hexOfAscii "<nil>"
def transformDecoratorName : String := hexOfAscii "message.messageTransformSubscriberDecorator"

inductive RawOp | dec (pub : Bool) (id : Nat) | h | run

structure Req where
  subs : List (Nat × String) := []
  pubs : List (Nat × String) := []
  hs   : List HCfg := []
  ds   : List Delivery := []
  st   : RSt := {}               -- the model's router state (decorators, started handlers)
  raw  : List RawOp := []        -- the same operations, untouched, for the monitor
  stopped : List Nat := []       -- handlers (numbers) that were stopped: they receive nothing any more

def refOf (cs : List Char) : Option Ref :=
  match cs with
  | ['c'] => some .consumed
  | 'f' :: r => (natOf r).map .fresh
  | 'm' :: r => (natOf r).map .mw
  | _ => none

def shapeOf (cs : List Char) : Option Shape :=
  if cs == ['E'] then some .err
  else if cs == ['-'] then some (.outs [])
  else ((splitOnChar '.' cs).mapM fun t => match refOf t with
    | some (.mw _) => none      -- the function itself never returns middleware objects
    | r => r).map .outs

def keyOf : Nat → Option Key
  | 0 => some .handlerName | 1 => some .publisherName | 2 => some .subscriberName
  | 3 => some .subscribeTopic | 4 => some .publishTopic | _ => none

def doneOf (cs : List Char) : Option CtxDone :=
  match cs with
  | ['x'] => some .cancelledBefore | ['k'] => some .cancelledDuring | ['t'] => some .deadlineOverrun | _ => none

def ctxOf (cs : List Char) : Option Ctx :=
  if cs == ['n'] then some [] else
  (splitOnChar '.' cs).mapM fun t =>
    match splitOnChar '_' t with
    | [k, v] => do
      let k ← natOf k
      let k ← keyOf k
      let v ← strOf v
      pure (k, v)
    | _ => none

def addTok (r : Req) (tok : String) : Option Req :=
  match splitOnChar '=' tok.toList with
  | ['h'] :: [body] =>
    match splitOnChar ':' body with
    | [name, sub, st, ps, pt, mw] => do
      let name ← strOf name
      let sub ← natOf sub
      let st ← strOf st
      let pt ← strOf pt
      let mw ← natOf mw
      let (_, sn) ← r.subs.find? (·.1 == sub)
      -- names are unique among the handlers that have not been stopped
      if r.hs.zipIdx.any (fun (h, i) => h.name == name && !r.stopped.contains i) then none else
      let add (h : HCfg) : Req :=
        { r with hs := r.hs ++ [h], st := rstep r.st (.addHandler h), raw := r.raw ++ [.h] }
      match ps with
      | ['n', 'p'] => if pt != "" then none else
          pure (add ⟨name, sub, st, sn, none, "", disabledPublisherName, mw, true, false⟩)
      | ['n', 'i', 'l'] => pure (add ⟨name, sub, st, sn, none, pt, nilName, mw, false, true⟩)
      | 'p' :: p => do
        let p ← natOf p
        let (_, pn) ← r.pubs.find? (·.1 == p)
        pure (add ⟨name, sub, st, sn, some p, pt, pn, mw, false, false⟩)
      | _ => none
    | _ => none
  | ['d'] :: [body] =>
    match splitOnChar ':' body with
    | [sub, t, mid, sh] => do
      let sub ← natOf sub
      let t ← strOf t
      let mid ← natOf mid
      let sh ← shapeOf sh
      pure { r with ds := r.ds ++ [⟨sub, t, mid, sh, [], .live⟩] }
    | [sub, t, mid, sh, cx] => do
      let sub ← natOf sub
      let t ← strOf t
      let mid ← natOf mid
      let sh ← shapeOf sh
      let cx ← ctxOf cx
      pure { r with ds := r.ds ++ [⟨sub, t, mid, sh, cx, .live⟩] }
    | [sub, t, mid, sh, cx, dn] => do
      let sub ← natOf sub
      let t ← strOf t
      let mid ← natOf mid
      let sh ← shapeOf sh
      let cx ← ctxOf cx
      let dn ← doneOf dn
      pure { r with ds := r.ds ++ [⟨sub, t, mid, sh, cx, dn⟩] }
    | _ => none
  | [['R', 'U', 'N']] => pure { r with st := rstep r.st .runHandlers, raw := r.raw ++ [.run] }
  | [('T' :: n)] => do
    -- Handler.Stop() of handler number n (it must have been started: a RUN after its h= token)
    let n ← natOf n
    if n ≥ r.hs.length || r.stopped.contains n then none else
    match (r.st.hs)[n]? with
    | some rh => if rh.started then pure { r with stopped := r.stopped ++ [n] } else none
    | none => none
  | [('M' :: n)] => do
    -- watermill's own MessageTransformPublisherDecorator with a transform that changes nothing, not recorded
    let _ ← natOf n
    pure r
  | [['K']] => pure r      -- application values under plain string keys: invisible to the router's accessors
  | [('D' :: id)] => do
    -- `D<id>!`: the decorator fails the first time it is applied; RunHandlers reports the error and is retried –
    -- a failed attempt commits nothing for the handler it failed on, so the retry ends like a call that never failed
    let id ← natOf (if id.getLast? == some '!' then id.dropLast else id)
    pure { r with st := rstep r.st (.pubDec id), raw := r.raw ++ [.dec true id] }
  | [('E' :: id)] => do
    let id ← natOf (if id.getLast? == some '!' then id.dropLast else id)
    pure { r with st := rstep r.st (.subDec id), raw := r.raw ++ [.dec false id] }
  | ('W' :: id) :: [name] => do
    let id ← natOf id
    let _ ← strOf name
    if r.subs.any (·.1 == id) then none else pure { r with subs := r.subs ++ [(id, transformDecoratorName)] }
  | ('S' :: id) :: [name] => do
    let id ← natOf id
    let name ← strOf name
    if r.subs.any (·.1 == id) then none else pure { r with subs := r.subs ++ [(id, name)] }
  | ('P' :: id) :: [name] => do
    let id ← natOf id
    let name ← strOf name
    if r.pubs.any (·.1 == id) then none else pure { r with pubs := r.pubs ++ [(id, name)] }
  | _ => none

def parseReq (toks : List String) : Option Req := toks.foldlM addTok {}

/-! ### rendering the model's observation -/

def ctx5Str (c : Ctx5) : String :=
  ":".intercalate [tokOfStr c.handler, tokOfStr c.pubName, tokOfStr c.subName, tokOfStr c.subTopic, tokOfStr c.pubTopic]

def refStr : Ref → String
  | .consumed => "c" | .fresh k => "f" ++ toString k | .mw k => "m" ++ toString k

def pathStr (p : List Nat) : String := if p.isEmpty then "-" else ".".intercalate (p.map toString)

/-- the publisher decorators run inside `Publish`, i.e. after `addHandlerContext(produced…)`: each of them reads on the
    messages the same context values the publisher finds -/
def decPathStr (path : List Nat) (c : PubCall) : String :=
  if path.isEmpty then "-" else
  let seen := "|".intercalate ((c.items.map fun it => ctx5Str it.2).eraseDups)
  ".".intercalate (path.map fun i => toString i ++ "=" ++ seen)

def callStr (path : List Nat) (c : PubCall) : String :=
  "P" ++ toString c.pub ++ "@" ++ tokOfStr c.topic ++ "!" ++ decPathStr path c ++ "[" ++
    ",".intercalate ((c.items.zip c.owners).map fun ((r, x), o) =>
      refStr r ++ "~u~" ++ ctx5Str x ++ "~" ++ (match o with | some y => refStr y | none => "-")) ++ "]"

def resultStr (hs : List HCfg) (self : Nat) (rh : RH) (r : Result) : String :=
  -- the number of the handler whose function the model invoked: `self` when that is the handler's own name (always,
  -- theorem handleOne_fn); names may repeat once a handler has been stopped, so the number is not looked up by name alone
  let fnIdx := if (hs[self]?.map (·.name)) == some r.fn then toString self else
    match hs.findIdx? (·.name == r.fn) with | some i => toString i | none => "?"
  "/".intercalate [toString r.mid, fnIdx, ctx5Str r.inCtx,
    (match r.settle with | .ack => "A" | .nack => "N"),
    (if r.calls.isEmpty then "-" else "+".intercalate (r.calls.map (callStr rh.pubPath))),
    pathStr rh.subPath]

def model (q : Req) : String :=
  let calls := subscribeCalls q.hs
  let subs := "subs=" ++ toString calls.length ++ ":" ++
    ",".intercalate (q.hs.map fun h => toString (calls.count (h.sub, h.subTopic)))
  let st := rstep q.st .runHandlers     -- whatever is not started yet is started before the messages arrive
  let blocks := (((route q.hs q.ds).zip st.hs).zipIdx.filter fun (((_, rs), _), i) => !rs.isEmpty && !q.stopped.contains i).map
    fun (((_, rs), rh), i) => "H" ++ toString i ++ ":" ++ ";".intercalate (rs.map (resultStr q.hs i rh))
  " ".intercalate ([subs, "orphans=0"] ++ blocks)

/-! ### the property, evaluated on an observation – written without `handleOne` / `route` / `addHandlerContext` -/

structure OItem where
  ref : String
  flag : String
  ctx : List String
  owner : String

structure OCall where
  pub : String
  topic : String
  path : List (String × List (List String))    -- decorator id, the context values it read (distinct ones)
  items : List OItem

structure OMsg where
  mid : Nat
  fns : List String
  ctx : List String
  settle : String
  calls : List OCall
  subPath : String

def parseItem (cs : List Char) : Option OItem :=
  match splitOnChar '~' cs with
  | [r, f, c, o] => some ⟨String.ofList r, String.ofList f, (splitOnChar ':' c).map String.ofList, String.ofList o⟩
  | _ => none

def parseCall (cs : List Char) : Option OCall :=
  match cs with
  | 'P' :: rest =>
    match splitOnChar '@' rest with
    | [p, tail] =>
      match splitOnChar '[' tail with
      | [tp, its] =>
        match splitOnChar '!' tp, its.reverse with
        | [t, path], ']' :: body =>
          let body := body.reverse
          let path? : Option (List (String × List (List String))) :=
            if path == ['-'] then some [] else (splitOnChar '.' path).mapM fun e =>
              match splitOnChar '=' e with
              | [i, cs] => some (String.ofList i, (splitOnChar '|' cs).map fun c => (splitOnChar ':' c).map String.ofList)
              | _ => none
          match path? with
          | none => none
          | some path =>
            if body.isEmpty then some ⟨String.ofList p, String.ofList t, path, []⟩
            else ((splitOnChar ',' body).mapM parseItem).map fun is => ⟨String.ofList p, String.ofList t, path, is⟩
        | _, _ => none
      | _ => none
    | _ => none
  | _ => none

def parseMsg (cs : List Char) : Option OMsg :=
  match splitOnChar '/' cs with
  | [mid, fns, ctx, st, pubs, sp] => do
    let mid ← natOf mid
    let fns := if fns == ['-'] then [] else (splitOnChar '+' fns).map String.ofList
    let calls ← if pubs == ['-'] then some [] else (splitOnChar '+' pubs).mapM parseCall
    pure ⟨mid, fns, (splitOnChar ':' ctx).map String.ofList, String.ofList st, calls, String.ofList sp⟩
  | _ => none

def parseBlock (tok : String) : Option (Nat × List OMsg) :=
  match tok.toList with
  | 'H' :: rest =>
    match splitOnChar ':' rest with
    | idx :: more => do
      let i ← natOf idx
      -- the message list itself contains ':' (ctx5): re-join
      let body := (":".intercalate (more.map String.ofList)).toList
      let msgs ← (splitOnChar ';' body).mapM parseMsg
      pure (i, msgs)
    | _ => none
  | _ => none

/-- does an observed ctx5 report handler `h`?  The publisher type name is demanded only when `h` has a publisher.
    Whatever the incoming context carried: the handler's own values, an empty field as `-`. -/
def ctxOk (h : HCfg) (c : List String) : Bool :=
  match c with
  | [hn, pn, sn, st, pt] =>
    hn == tokOfStr h.name && sn == tokOfStr h.subName && st == tokOfStr h.subTopic && pt == tokOfStr h.pubTopic &&
      (h.pub.isNone || pn == tokOfStr h.pubName)
  | _ => false

/-- decorators registered before the `RunHandlers` call that starts handler number `i`: (publisher, subscriber) -/
def expectedDecs (raw : List RawOp) (i : Nat) : List Nat × List Nat := Id.run do
  let mut seen := 0
  let mut added := false
  let mut pd : List Nat := []
  let mut sd : List Nat := []
  for o in raw do
    match o with
    | .h =>
      if seen == i then added := true
      seen := seen + 1
    | .run => if added then return (pd, sd)
    | .dec true id => pd := pd ++ [id]
    | .dec false id => sd := sd ++ [id]
  return (pd, sd)

def judgeMsg (i : Nat) (h : HCfg) (pd sd : List Nat) (d : Delivery) (m : OMsg) : String :=
  if m.mid != d.mid then "violated:routing"
  else if m.settle == "T" && m.fns.isEmpty then "violated:not_delivered"
  else if m.fns != [toString i] then "violated:wrong_function"
  else if m.subPath != pathStr sd then "violated:subscriber_decorators_once"
  else if !ctxOk h m.ctx then "violated:ctx_in_handler"
  else
    -- objects the chain returned: what the function returned, then what the handler's middleware added
    let returned : Option (List String) := match d.shape with
      | .err => none
      | .outs rs => some ((if h.fnMute then [] else rs.map refStr) ++ (List.range h.mwOut).map fun k => "m" ++ toString k)
    match returned with
    | none => if m.calls.isEmpty then "ok" else "violated:published_elsewhere"
    | some [] =>
      if !m.calls.isEmpty then "violated:published_elsewhere"
      -- "a handler registered without a publisher whose chain NEVERTHELESS RETURNS MESSAGES gets a Nack": one whose
      -- chain returns none (and no error) does not
      else if h.pub.isNone && m.settle == "N" then "violated:nopub_nack_without_outputs"
      else "ok"
    | some outs =>
      match h.pub with
      | none =>
        if !m.calls.isEmpty then "violated:nopub_published"
        else if m.settle != "N" then "violated:nopub_nack" else "ok"
      | some p =>
        -- every Publish call caused by this message goes to the handler's own publisher and topic; together, in call
        -- order, the calls carry exactly the returned objects (the statement does not fix the number of calls)
        let items := m.calls.foldl (fun acc c => acc ++ c.items) []
        if m.calls.isEmpty then "violated:not_published"
        else if m.calls.any (·.pub != toString p) then "violated:publish_target"
        else if m.calls.any (·.topic != tokOfStr h.pubTopic) then "violated:publish_topic"
        else if items.map (·.ref) != outs then "violated:publish_order_or_identity"
        else if items.any (·.flag != "u") then "violated:modified"
        else if m.calls.any (fun c => c.path.map (·.1) != pd.map toString) then "violated:publisher_decorators_once"
        else if m.calls.any (fun c => c.path.any fun e => e.2.any fun cx => !ctxOk h cx) then "violated:ctx_at_publisher_decorator"
        else if items.any (fun it => it.owner != it.ref) then "violated:context_replaced"
        else if items.any (fun it => !ctxOk h it.ctx) then "violated:ctx_on_produced"
        else "ok"

def monitor (q : Req) (obs : List String) : String := Id.run do
  -- the process running the router died / a panic reached the harness / the router did not come up or did not settle
  if let [o] := obs then
    if o.startsWith "crash(" || o.startsWith "panic(" then return "violated:crash"
    if o.startsWith "timeout" || o.startsWith "run-returned" then return "violated:not_delivered"
  match obs with
  | _subs :: orph :: blocks =>
    if orph != "orphans=0" then return (if orph.startsWith "orphans=" then "violated:published_elsewhere" else "violated:shape")
    -- a subscription whose messages no handler function ever received
    if blocks.any (·.startsWith "H?:") then return "violated:not_delivered"
    let some parsed := blocks.mapM parseBlock | return "violated:shape"
    -- no block for a handler that does not exist, no handler twice
    for (i, _) in parsed do
      if i ≥ q.hs.length then return "violated:routing"
      if (parsed.filter (·.1 == i)).length != 1 then return "violated:routing"
    let mut i := 0
    for h in q.hs do
      let want := if q.stopped.contains i then [] else q.ds.filter fun d => d.sub == h.sub && d.topic == h.subTopic
      let got := match parsed.find? (·.1 == i) with | some (_, ms) => ms | none => []
      if got.length != want.length then return "violated:routing"
      for (d, m) in want.zip got do
        let (pd, sd) := expectedDecs q.raw i
        let v := judgeMsg i h pd sd d m
        if v != "ok" then return v
      i := i + 1
    return "ok"
  | _ => return "violated:shape"

def handle (line : String) : String :=
  match line.splitOn " " with
  | "M" :: "route" :: toks =>
    match parseReq toks with
    | some q => model q
    | none => "bad-op"
  | "P" :: "route" :: rest =>
    let toks := rest.takeWhile (· != "##")
    let obs := (rest.dropWhile (· != "##")).drop 1
    if obs.isEmpty then "bad-op" else
    match parseReq toks with
    | some q => monitor q obs
    | none => "bad-op"
  | _ => "bad-op"

def main : IO Unit := driverMain handle
