import WmModel.Basic
import WmModel.GcConf
import WmModel.GcMon
import WmModel.GcTopicConf
import WmModel.GcRegConf
import WmModel.GcProdConf
open Wm

/-- `sub` streams: model = conformance with M_sub (subset construction), no property verdict of its own here;
    `top` traces: monitor = the C11 clauses of GcMon (the statement of the property on the recorded execution). -/
def handle (line : String) : String :=
  let req := match line.splitOn " ## " with
    | [r, _] => r
    | _ => line
  match req.splitOn " " with
  | "M" :: "sub" :: cap :: toks =>
    match cap.toNat? with
    | some c => GcConf.checkSub c (if toks == ["-"] then [] else toks)
    | none => "bad-op"
  | "P" :: "sub" :: _ => "ok"
  | "M" :: "reg" :: toks => GcRegConf.checkReg toks
  | "P" :: "reg" :: _ => "ok"
  | "M" :: "topic" :: toks => GcTopicConf.checkTopic toks
  | "P" :: "topic" :: _ => "ok"
  -- merged registry + subscription streams: conformance with the composition M_prod
  | "M" :: "prod" :: toks => GcProdConf.checkProd toks
  | "P" :: "prod" :: _ => "ok"
  | "M" :: "top" :: _ => "ok"
  | "P" :: "top" :: toks => GcMon.runMon GcMon.monC11 toks
  | _ => "bad-op"

def main : IO Unit := driverMain handle
