/-
  Line-protocol driver of C15 (CQRS buses and processors).

    bus  <c|e> <name> <topic> <hook> <mod> <pub> <enc> <info>
         name  hex of Marshaler.Name(v)          topic  p:<hex prefix> (prefix ++ name) | k:<hex> (constant) | err
         hook  n|o|e  (OnSend/OnPublish: none, ok (sets x-hook=1), error)     mod  n|o|e (modify of SendWithModifiedMessage)
         pub   o|e    (publisher result)          enc    hex of the library encoding | x (Marshal fails)
      observation: effect tokens  T:<name>  H:<name>:<meta>:<payload>  M:<meta>:<payload>  P:<topic>:<meta>:<payload>
                   followed by  R:<ok|marshal|topic|hook|modify|publish>

    busseq <c|e> <hook> <mod> <info> <send>*        several values through ONE bus, in this order
         send   <name>/<topic>/<pub>/<enc>/<vinfo>   topic  k:<hex> | err : what the configured GeneratePublishTopic yields for THAT
                value (it may read the value, or state the application changed before this send), computed outside the bus
      observation: the effect tokens of every send as for `bus`, sends separated by the token `|`

    proc <c|e|g> <flags> <oh> <reg> <info> <msg>*
         flags  <AckCommandHandlingErrors><AckOnUnknownEvent> as 0/1     oh  n|p (OnHandle nil / pass-through)
         reg    <namehex>.<ty>,…     msg  <meta>/<payload>/<ctx n|s>/<dec per Go type: x|hex,…>/<outcomes o|e|p per handler>/<sent -|ty.hex>
      observation: one token per message; deliveries joined by `|`; delivery = <invocations>=<a|n|t>;
                   invocations = - | <handler>.<value hex>.<o|s|z>,…   (o: OriginalMessageFromCtx = the delivered message)

  `M` answers with the model (WmModel/Cqrs.lean), `P` evaluates the property's clauses on the observation without
  calling the model's decision functions.
-/
import WmModel.Basic
import WmModel.Cqrs
open Wm Wm.Cqrs

def hexStr (s : String) : String := hexEnc s.toUTF8.toList

def unhexStr (h : String) : Option String := do
  let bs ← hexDec h
  String.fromUTF8? (ByteArray.mk bs.toArray)

/-- canonical metadata: sorted by key, `k=v` in hex, comma separated, `-` when empty (wh.Meta) -/
def insertSorted (p : String × String) : List (String × String) → List (String × String)
  | [] => [p]
  | q :: r => if p.1 < q.1 then p :: q :: r else q :: insertSorted p r

def metaStr (md : Meta) : String :=
  -- keep the first binding of every key (Go map), then sort
  let dedup := md.foldl (fun acc p => if acc.any (fun q => q.1 == p.1) then acc else acc ++ [p]) []
  let sorted := dedup.foldr insertSorted []
  if sorted.isEmpty then "-" else
  ",".intercalate (sorted.map (fun p => hexStr p.1 ++ "=" ++ hexStr p.2))

def parseMeta (s : String) : Option Meta :=
  if s = "-" then some [] else
  (s.splitOn ",").mapM (fun kv =>
    match kv.splitOn "=" with
    | [k, v] => do pure ((← unhexStr k), (← unhexStr v))
    | _ => none)

/-! ### bus -/

def parseTopic (s : String) : Option (String → Option String) :=
  if s = "err" then some (fun _ => none) else
  match s.splitOn ":" with
  | ["p", h] => do let p ← unhexStr h; pure (fun n => some (p ++ n))
  | ["k", h] => do let p ← unhexStr h; pure (fun _ => some p)
  | _ => none

def parseCallback (key : String) (s : String) : Option (Option Callback) :=
  match s with
  | "n" => some none
  | "o" => some (some (some (fun md => metaSet md key "1")))
  | "e" => some (some none)
  | _ => none

def effStr : BusEff → String
  | .topicGen n => "T:" ++ hexStr n
  | .hook n md p => "H:" ++ hexStr n ++ ":" ++ metaStr md ++ ":" ++ hexEnc p
  | .modify md p => "M:" ++ metaStr md ++ ":" ++ hexEnc p
  | .publish t md p => "P:" ++ hexStr t ++ ":" ++ metaStr md ++ ":" ++ hexEnc p

def errStr : Option BusErr → String
  | none => "ok" | some .marshal => "marshal" | some .topic => "topic" | some .hook => "hook"
  | some .modify => "modify" | some .publish => "publish"

structure BusReq where
  isCmd : Bool
  name : String
  topicSpec : String
  topicOf : String → Option String
  hookS : String
  modS : String
  pubOk : Bool
  enc : Option Bytes

def parseBus : List String → Option BusReq
  | [b, name, topic, hook, mod, pub, enc, _info] => do
    let isCmd ← (match b with | "c" => some true | "e" => some false | _ => none)
    let name ← unhexStr name
    let topicOf ← parseTopic topic
    let _ ← parseCallback "x" hook
    let _ ← parseCallback "x" mod
    if !isCmd && mod != "n" then none
    let pubOk ← (match pub with | "o" => some true | "e" => some false | _ => none)
    let enc ← (if enc = "x" then some none else (hexDec enc).map some)
    pure ⟨isCmd, name, topic, topicOf, hook, mod, pubOk, enc⟩
  | _ => none

def busModel (r : BusReq) : String :=
  match parseCallback "x-hook" r.hookS, parseCallback "x-mod" r.modS with
  | some hook, some mod =>
    let cfg : BusCfg Unit := ⟨fun _ => r.enc, fun _ => r.name, fun n _ => r.topicOf n, hook, mod, r.pubOk⟩
    let (effs, res) := send cfg ()
    " ".intercalate (effs.map effStr ++ ["R:" ++ errStr res])
  | _, _ => "bad-op"

/-- the bus clause of the property on the observed effect tokens -/
def busMonitor (r : BusReq) (obs : List String) : String := Id.run do
  let some resTok := obs.getLast? | return "bad-op"
  if !resTok.startsWith "R:" then return "bad-op"
  let res := (resTok.drop 2).toString
  let effs := obs.dropLast
  let pubs := effs.filter (·.startsWith "P:")
  let hookIdx := effs.findIdx? (·.startsWith "H:")
  let pubIdx := effs.findIdx? (·.startsWith "P:")
  -- published at most once, exactly once when the send succeeded
  if pubs.length > 1 then return "violated:bus_publishes_once"
  if res == "ok" && pubs.length != 1 then return "violated:bus_publishes_once"
  -- a send can only succeed when everything before the publish succeeded and the publisher accepted
  if res == "ok" && (r.enc.isNone || (r.topicOf r.name).isNone || r.hookS == "e" || r.modS == "e" || !r.pubOk) then
    return "violated:bus_error_reported"
  -- nothing fails: the send succeeds
  if res != "ok" && r.enc.isSome && (r.topicOf r.name).isSome && r.hookS != "e" && r.modS != "e" && r.pubOk then
    return "violated:bus_publishes_once"
  -- the hook runs before the publish, its error aborts
  if r.hookS == "e" && pubs.length != 0 then return "violated:bus_hook_error_aborts"
  if r.modS == "e" && pubs.length != 0 then return "violated:bus_hook_error_aborts"
  match hookIdx, pubIdx with
  | some h, some p => if p < h then return "violated:bus_hook_before_publish"
  | none, some _ => if r.hookS != "n" then return "violated:bus_hook_before_publish"
  | _, _ => pure ()
  -- the one publish: generated topic, metadata name = type name, payload = encoding
  match pubs with
  | [p] =>
    match p.splitOn ":" with
    | [_, topic, md, payload] =>
      let some topicWant := r.topicOf r.name | return "violated:bus_topic"
      if topic != hexStr topicWant then return "violated:bus_topic"
      let some md := parseMeta md | return "bad-op"
      if md.lookup "name" != some r.name then return "violated:bus_name_metadata"
      let some encWant := r.enc | return "violated:bus_payload"
      if payload != hexEnc encWant then return "violated:bus_payload"
      return "ok"
    | _ => return "bad-op"
  | _ => return "ok"

/-! ### processors -/

structure MsgReq where
  md : Meta
  payload : Bytes
  stale : Bool
  dec : List (Option Bytes)
  outs : List Outcome
  sent : Option (Nat × Bytes)

structure ProcReq where
  kind : Kind
  fl : Flags
  oh : String
  reg : List Handler
  msgs : List MsgReq

def parseKind : String → Option Kind
  | "c" => some .command | "e" => some .event | "g" => some .group | _ => none

def parseFlags (s : String) : Option Flags :=
  match s.toList with
  | [a, b] => do
    let a ← (match a with | '0' => some false | '1' => some true | _ => none)
    let b ← (match b with | '0' => some false | '1' => some true | _ => none)
    pure ⟨a, b⟩
  | _ => none

def parseReg (s : String) : Option (List Handler) :=
  if s = "-" then some [] else
  (s.splitOn ",").mapM (fun e =>
    match e.splitOn "." with
    | [n, t] => do pure ⟨(← unhexStr n), (← t.toNat?)⟩
    | _ => none)

def parseOutcome : Char → Option Outcome
  | 'o' => some .ok | 'e' => some .err | 'p' => some .panic | _ => none

def parseMsg (s : String) : Option MsgReq :=
  match s.splitOn "/" with
  | [md, payload, ctx, dec, outs, sent] => do
    let md ← parseMeta md
    let payload ← hexDec payload
    let stale ← (match ctx with | "n" => some false | "s" => some true | _ => none)
    let dec ← (dec.splitOn ",").mapM (fun d => if d = "x" then some none else (hexDec d).map some)
    let outs ← (if outs = "-" then some [] else outs.toList.mapM parseOutcome)
    let sent ← (if sent = "-" then some none else
      match sent.splitOn "." with
      | [t, v] => do pure (some ((← t.toNat?), (← hexDec v)))
      | _ => none)
    pure ⟨md, payload, stale, dec, outs, sent⟩
  | _ => none

def parseProc : List String → Option ProcReq
  | k :: fl :: oh :: reg :: _info :: msgs => do
    let k ← parseKind k
    let fl ← parseFlags fl
    if oh != "n" && oh != "p" then none
    let reg ← parseReg reg
    let msgs ← msgs.mapM parseMsg
    -- every message scripts an outcome for every handler
    if msgs.any (fun m => m.outs.length != reg.length) then none
    pure ⟨k, fl, oh, reg, msgs⟩
  | _ => none

def settleChar : Settle → String
  | .ack => "a" | .nack => "n"

def invStr (msgId : Nat) (i : Invocation Bytes) : String :=
  toString i.h ++ "." ++ hexEnc i.value ++ "." ++
    (match i.orig with
     | none => "z"
     | some x => if x = msgId then "o" else "s")

def deliveryStr (msgId : Nat) (d : Delivery Bytes) : String :=
  (if d.inv.isEmpty then "-" else ",".intercalate (d.inv.map (invStr msgId))) ++ "=" ++ settleChar d.settle

def toMsg (m : MsgReq) : Msg :=
  { id := 1, md := m.md, payload := m.payload,
    ctx := if m.stale then [(CtxKey.other 0, 7), (CtxKey.originalMessage, 2)] else [(CtxKey.other 0, 7)],
    out := fun i => (m.outs[i]?).getD .ok }

def procModel (r : ProcReq) : String :=
  if r.msgs.isEmpty then "-" else
  " ".intercalate (r.msgs.map (fun m =>
    let codec : Codec Bytes := ⟨fun ty _ => (m.dec[ty]?).getD none⟩
    "|".intercalate ((processMsg codec r.kind r.fl r.reg (toMsg m)).map (deliveryStr 1))))

/-- observed invocation -/
structure ObsInv where
  h : Nat
  value : String
  orig : String

structure ObsDel where
  inv : List ObsInv
  settle : String

def parseObsDel (s : String) : Option ObsDel :=
  match s.splitOn "=" with
  | [invs, st] => do
    let inv ← (if invs = "-" then some [] else
      (invs.splitOn ",").mapM (fun i =>
        match i.splitOn "." with
        | [h, v, o] => do pure (⟨← h.toNat?, v, o⟩ : ObsInv)
        | _ => none))
    if st != "a" && st != "n" && st != "t" then none
    pure ⟨inv, st⟩
  | _ => none

/-- the monitor's own reading of the message name: the value under the metadata key `name`, "" when absent -/
def obsName (md : Meta) : String :=
  match md.find? (fun p => p.1 == "name") with
  | some p => p.2
  | none => ""

def decOf (m : MsgReq) (ty : Nat) : Option Bytes := (m.dec[ty]?).getD none
def outOf (m : MsgReq) (i : Nat) : Outcome := (m.outs[i]?).getD .ok

/-- clauses about one invocation: value equal to the decoded / sent one, original message in the context -/
def checkInv (m : MsgReq) (h : Handler) (i : ObsInv) : Option String :=
  match decOf m h.ty with
  | none => some "violated:invoked_iff_name_matches"     -- invoked although there is no value to invoke it with
  | some v =>
    if i.value != hexEnc v then some "violated:value_equal"
    else if (match m.sent with | some (t, sv) => t == h.ty && i.value != hexEnc sv | none => false) then some "violated:value_equal_sent"
    else if i.orig != "o" then some "violated:original_message_in_ctx"
    else none

/-- command / event processor: delivery to the subscription of handler `j` -/
def monSingle (r : ProcReq) (m : MsgReq) (j : Nat) (h : Handler) (d : ObsDel) : Option String := Id.run do
  if d.settle == "t" then return some "violated:settled"
  let nm := obsName m.md
  -- nobody but handler j, and at most once
  if d.inv.any (fun i => i.h != j) then return some "violated:invoked_iff_name_matches"
  if d.inv.length > 1 then return some "violated:invoked_iff_name_matches"
  if nm != h.tyName then
    if !d.inv.isEmpty then return some "violated:invoked_iff_name_matches"
    let want := if r.kind == .command then "a" else if r.fl.ackUnknown then "a" else "n"
    if d.settle != want then return some "violated:ack_unknown"
    return none
  match decOf m h.ty with
  | none =>
    if !d.inv.isEmpty then return some "violated:invoked_iff_name_matches"
    if d.settle != "n" then return some "violated:decode_error_nack"
    return none
  | some _ =>
    match d.inv with
    | [i] =>
      if let some e := checkInv m h i then return some e
      match outOf m j with
      | .ok => if d.settle != "a" then return some "violated:ack_handled"
      | .err =>
        let want := if r.kind == .command && r.fl.ackCmdErr then "a" else "n"
        if d.settle != want then return some "violated:handler_error_policy"
      | .panic => pure ()
      return none
    | _ => return some "violated:invoked_iff_name_matches"

def isPrefix : List Nat → List Nat → Bool
  | [], _ => true
  | _ :: _, [] => false
  | a :: as, b :: bs => a == b && isPrefix as bs

/-- group processor: one delivery -/
def monGroup (r : ProcReq) (m : MsgReq) (d : ObsDel) : Option String := Id.run do
  if d.settle == "t" then return some "violated:settled"
  let nm := obsName m.md
  let idx := (List.range r.reg.length).zip r.reg
  let matching := (idx.filter (fun p => p.2.tyName == nm)).map (·.1)
  let invoked := d.inv.map (·.h)
  -- only matching handlers
  if invoked.any (fun i => !matching.contains i) then return some "violated:invoked_iff_name_matches"
  -- registration order, none skipped, none twice
  if !isPrefix invoked matching then return some "violated:group_order_prefix"
  -- per invocation: value, context
  for i in d.inv do
    match r.reg[i.h]? with
    | none => return some "violated:invoked_iff_name_matches"
    | some h => if let some e := checkInv m h i then return some e
  -- stops at the first error: nobody is called after a handler that failed
  let failedEarlier : Bool := (invoked.dropLast).any (fun i => outOf m i != .ok)
  if failedEarlier then return some "violated:group_stops_at_first_error"
  let lastFailed : Bool := match invoked.getLast? with
    | some i => outOf m i != .ok
    | none => false
  let lastPanicked : Bool := match invoked.getLast? with
    | some i => outOf m i == .panic
    | none => false
  -- does not stop without a reason: the next matching handler, if any, must be one the message does not decode for
  let next := (matching.drop invoked.length).head?
  let mut stoppedOnDecode := false
  if !lastFailed then
    match next with
    | none => pure ()
    | some j =>
      match r.reg[j]? with
      | none => return some "bad-op"
      | some h =>
        if (decOf m h.ty).isSome then return some "violated:invoked_iff_name_matches"
        stoppedOnDecode := true
  -- settlement
  if lastPanicked then return none
  if lastFailed then
    if d.settle != "n" then return some "violated:handler_error_policy"
    return none
  if stoppedOnDecode then
    if d.settle != "n" then return some "violated:decode_error_nack"
    return none
  if !matching.isEmpty then
    if d.settle != "a" then return some "violated:ack_handled"
    return none
  let want := if r.fl.ackUnknown then "a" else "n"
  if d.settle != want then return some "violated:ack_unknown"
  return none

def procMonitor (r : ProcReq) (obs : List String) : String := Id.run do
  let obs := if obs == ["-"] then [] else obs
  if obs.length != r.msgs.length then return "violated:length"
  for (m, o) in r.msgs.zip obs do
    let some dels := (o.splitOn "|").mapM parseObsDel | return "bad-op"
    match r.kind with
    | .group =>
      match dels with
      | [d] => if let some e := monGroup r m d then return e
      | _ => return "violated:length"
    | _ =>
      if dels.length != r.reg.length then return "violated:length"
      let idx := (List.range r.reg.length).zip r.reg
      for ((j, h), d) in idx.zip dels do
        if let some e := monSingle r m j h d then return e
  return "ok"

/-! ### sequences through one bus -/

def parseSend (isCmd : Bool) (hook mod : String) (s : String) : Option BusReq :=
  match s.splitOn "/" with
  | [name, topic, pub, enc, vinfo] =>
    if topic.startsWith "p:" then none else parseBus [if isCmd then "c" else "e", name, topic, hook, mod, pub, enc, vinfo]
  | _ => none

def parseBusSeq : List String → Option (List BusReq)
  | b :: hook :: mod :: _info :: sends => do
    let isCmd ← (match b with | "c" => some true | "e" => some false | _ => none)
    sends.mapM (parseSend isCmd hook mod)
  | _ => none

def splitOnTok (sep : String) (l : List String) : List (List String) :=
  (l.foldr (fun t acc => if t == sep then [] :: acc else match acc with
    | [] => [[t]]
    | a :: r => (t :: a) :: r) [[]])

def busSeqModel (rs : List BusReq) : String :=
  match rs with
  | [] => "-"
  | r0 :: _ =>
    match parseCallback "x-hook" r0.hookS, parseCallback "x-mod" r0.modS with
    | some hook, some mod =>
      -- the value is the position in the sequence; encoding, name and generated topic are read off the value
      let arr := rs.toArray
      let cfgOf (r : BusReq) : BusCfg Nat :=
        ⟨fun i => (arr[i]?).bind (·.enc), fun i => ((arr[i]?).map (·.name)).getD "",
         fun n i => (arr[i]?).bind (fun q => q.topicOf n), hook, mod, r.pubOk⟩
      let outs := sendSeq ((List.range rs.length).zip rs |>.map (fun p => (cfgOf p.2, p.1)))
      " | ".intercalate (outs.map (fun o => " ".intercalate (o.1.map effStr ++ ["R:" ++ errStr o.2])))
    | _, _ => "bad-op"

/-- each send on its own: published once on the topic generated for that value -/
def busSeqMonitor (rs : List BusReq) (obs : List String) : String := Id.run do
  let parts := if rs.isEmpty && obs == ["-"] then [] else splitOnTok "|" obs
  if parts.length != rs.length then return "violated:length"
  for (r, o) in rs.zip parts do
    if o.isEmpty then return "bad-op"
    let v := busMonitor r o
    if v != "ok" then return v
  return "ok"

def splitObs (l : List String) : List String × List String :=
  (l.takeWhile (· != "##"), (l.dropWhile (· != "##")).drop 1)

def handle (line : String) : String :=
  match line.splitOn " " with
  | "M" :: "bus" :: rest =>
    match parseBus rest with
    | some r => busModel r
    | none => "bad-op"
  | "P" :: "bus" :: rest =>
    let (req, obs) := splitObs rest
    match parseBus req with
    | some r => if obs.isEmpty then "bad-op" else busMonitor r obs
    | none => "bad-op"
  | "M" :: "busseq" :: rest =>
    match parseBusSeq rest with
    | some rs => busSeqModel rs
    | none => "bad-op"
  | "P" :: "busseq" :: rest =>
    let (req, obs) := splitObs rest
    match parseBusSeq req with
    | some rs => if obs.isEmpty then "bad-op" else busSeqMonitor rs obs
    | none => "bad-op"
  | "M" :: "proc" :: rest =>
    match parseProc rest with
    | some r => procModel r
    | none => "bad-op"
  | "P" :: "proc" :: rest =>
    let (req, obs) := splitObs rest
    match parseProc req with
    | some r => if obs.isEmpty then "bad-op" else procMonitor r obs
    | none => "bad-op"
  | _ => "bad-op"

def main : IO Unit := driverMain handle
