import WmModel.Basic
import WmModel.PipelineMon
open Wm

/-- `M pl …` → conformance of the recorded trace with the Pipeline model (`ok` | `stuck` | `reject:…`);
    `P pl … ## obs` → the C01 monitor on the same trace (`ok` | `violated:<rule>`). -/
def handle (line : String) : String :=
  let req := match line.splitOn " ## " with
    | [r, _] => r
    | _ => line
  match req.splitOn " " with
  | "M" :: fields => Wm.Pipeline.Mon.conformance fields
  | "P" :: fields => Wm.Pipeline.Mon.monitor fields
  | _ => "bad-op"

def main : IO Unit := driverMain handle
