import WmModel.Basic
import WmModel.RouterMon
import WmModel.RouterConf
open Wm

/-- `trace …` requests: M = conformance of the recorded trace with RouterLife (RouterConf), P = the C06 monitor. -/
def handle (line : String) : String :=
  let (req, _obs) := match line.splitOn " ## " with
    | [r, o] => (r, o)
    | _ => (line, "")
  match req.splitOn " " with
  | "M" :: "trace" :: toks => RouterConf.check toks
  | "S" :: "trace" :: toks => RouterConf.stats toks
  | "P" :: "trace" :: toks => RouterMon.runMon RouterMon.monC06 toks
  | _ => "bad-op"

def main : IO Unit := driverMain handle
