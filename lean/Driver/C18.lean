import WmModel.Basic
import WmModel.ReqReply
import WmModel.ReqReplyConf
import WmModel.ReqReplyMon
open Wm Wm.ReqReply

/-!
  Line protocol of C18 (requests written by harness/cmd/c18):

  `cmd <ackErrs> <pre> <pub> <bad> <res> <err>`   M: the effect list of `ReqReply.onCommandProcessed`, printed as the harness
                                                   prints what the real handler did;  P: `ReqReplyMon.monCmd` on the observation
  `lst <spec> <i> <hasTimeout> <tok>*`             M: inclusion of the recorded stream of one request in the listener model
                                                   (`ReqReplyConf.checkLst`: `ok` | `reject@<i>`);  P: `ReqReplyMon.monLst`
  `top <spec> <ackErrs> <hasTimeout> <n> <event>*` M: `ok` (nothing to predict);  P: `ReqReplyMon.monTop` – the property on the trace
-/

def preOf : String → Option Pre
  | "ok" => some .ok | "marshal" => some .marshalFails | "noop" => some .noOpId | "modify" => some .modifyFails
  | "topic" => some .topicFails | _ => none

def pubOf : String → Option PubRes
  | "ok" => some .ok | "fail" => some .failed | "failh" => some .failed | "handled" => some .failedHandled | _ => none

def showErr : Option String → String
  | none => "-"
  | some e => "=" ++ e

/-- print the model's effects the way harness/cmd/c18/cmdcase.go prints the real ones -/
def modelCmd (r : ReqReplyMon.CmdReq) : String :=
  match preOf r.pre, pubOf r.pub, ReqReplyConf.parseErr r.err with
  | some pre, some p, some err =>
    let (effs, retErr) := onCommandProcessed r.ackErrs pre 0 ⟨r.res, err, r.bad⟩ p
    let toks := effs.map fun e => match e with
      | .publishCall n => s!"pub,{if n.op == 0 then "1" else "0"},{n.res},{showErr n.err},{if n.bad then "fail" else "ok"}"
      | .publishRet ok => if ok then "pr,ok" else "pr,err"
      | .ack => "ack" | .nack => "nack"
    " ".intercalate (toks ++ [if retErr then "ret,err" else "ret,nil"])
  | _, _, _ => "bad-op"

def handle (line : String) : String :=
  let (req, obs) := match line.splitOn " ## " with
    | [r, o] => (r, o)
    | _ => (line, "")
  match req.splitOn " " with
  | "M" :: "cmd" :: f =>
    match ReqReplyMon.parseCmd f with
    | some r => modelCmd r
    | none => "bad-op"
  | "P" :: "cmd" :: f =>
    match ReqReplyMon.parseCmd f with
    | some r => ReqReplyMon.monCmd r (obs.splitOn " " |>.filter (· ≠ ""))
    | none => "bad-op"
  | "M" :: "lst" :: _spec :: i :: t :: toks =>
    match i.toNat?, ReqReplyMon.b01 t with
    | some _, some t => ReqReplyConf.checkLst t (if toks == ["-"] then [] else toks)
    | _, _ => "bad-op"
  | "P" :: "lst" :: _spec :: _i :: _t :: toks => ReqReplyMon.monLst toks
  | "M" :: "top" :: toks => if (ReqReplyMon.parseTop toks).isSome then "ok" else "bad-op"
  | "P" :: "top" :: toks => ReqReplyMon.monTop toks
  | _ => "bad-op"

def main : IO Unit := driverMain handle
