import WmModel.Basic
import WmModel.Poison
import WmModel.Relay
open Wm Wm.Poison Wm.Relay

/-!
  Line protocol of C17 (strings hex, empty = `-`; metadata `k=v,k=v` sorted, empty = `-`; dest = ok | fail | panic
  – the destination publisher accepts / returns an error / panics; a panic is recovered by the Router, which Nacks):

    atoi <str>                                   →  <int> | err
    itoa <int>                                   →  <str>
    utf8 <str>                                   →  1 | 0      (utf8.ValidString)
    rq <delay> <cancelled> <ok:<topic>|err> <dest> <uuid> <payload> <meta>
         →  P<n>[:<topic>|<uuid>|<payload>|<meta>|<sameObject>|<unsettledAtPublish>;…] A:<meta after> S:<ack|nack>
    rqp <delay> <cancelled> <policy> <dest> <uuid> <payload> <meta>     GeneratePublishTopic reads the message it is shown:
         policy = budget:<k>:<work>:<dead> (retries header >= k -> dead letter) | meta:<key> (topic = that metadata value)
         →  as rq, plus G:<metadata of the message the topic function was shown | ! if it was not called>
    fwdtopic <configured>                        →  <topic the forwarder subscribes to>
    fwd <ackWhenCannotUnwrap> <bad | e:<dest>:<uuid>:<payload>:<meta>> <dest> <class> <configured forwarder topic>
         (class and forwarder topic are for the harness/replay only: what the forwarder does may not depend on them)
         →  P<n>[:<topic>|<uuid>|<payload>|<meta>|<unsettled>;…] S:<ack|nack>
    fpub <cfgTopic> <topic> <- | uuid|payload|meta;…> <dest>
         →  C<n>[:<topic>|<k>|<dest>~<uuid>~<payload>~<meta>+…;…] E:<0|1> U:<fresh envelope uuids>
    fpubr <cfgTopic> <topic1> <topic2> <msgs> <dest1> <dest2>     the caller hands ONE batch to the Publisher twice (second
         destination, or a retry): observation = the fpub observation of the first call followed by that of the second
    e2e <s|g|gr> <cfgTopic> <ack> <topic> <uuid> <payload> <meta> <dest>
         →  F:<publisher error> P<n>[…as fwd…] S:<ack|nack|->
    faninctor <sources|-> <target>               →  ok | err
    fanin <sources> <target> <index> <dest> <uuid> <payload> <meta>
         →  P<n>[:<topic>|<uuid>|<payload>|<meta>|<sameObject>|<unsettled>;…] S:<ack|nack>
    crash <section>                              →  no-crash   (observation: the recovered panic text)
    fanout <subscribers per topic> <uuid> <payload> <meta>
         →  D<n>[:<uuid>|<payload>|<meta>;…] X:<stray deliveries> S:<ack|nack>
-/

def dropS (s : String) (n : Nat) : String := String.ofList (s.toList.drop n)

def bytesLt : List UInt8 → List UInt8 → Bool
  | [], [] => false
  | [], _ :: _ => true
  | _ :: _, [] => false
  | a :: as, b :: bs => a < b || (a == b && bytesLt as bs)

def insertKV (kv : Str × Str) : Meta → Meta
  | [] => [kv]
  | x :: rest => if bytesLt kv.1 x.1 then kv :: x :: rest else x :: insertKV kv rest

def sortMeta (m : Meta) : Meta := m.foldr insertKV []

def showMeta (m : Meta) : String :=
  if m.isEmpty then "-" else
  ",".intercalate ((sortMeta m).map (fun kv => hexEnc kv.1 ++ "=" ++ hexEnc kv.2))

def parseKV (s : String) : Option (Str × Str) :=
  match s.splitOn "=" with
  | [k, v] => do pure ((← hexDec k), (← hexDec v))
  | _ => none

def keysNodup : List (Str × Str) → Bool
  | [] => true
  | kv :: rest => !(rest.any (fun x => x.1 == kv.1)) && keysNodup rest

def parseMeta (s : String) : Option Meta := do
  let m ← (if s = "-" then some [] else (s.splitOn ",").mapM parseKV)
  if keysNodup m then some m else none

def parseBit : String → Option Bool
  | "0" => some false | "1" => some true | _ => none

def parseDest : String → Option POut
  | "ok" => some .ok | "fail" => some (.fail []) | "panic" => some (.panic []) | _ => none

def parseMsg (u p m : String) : Option Msg := do pure ⟨(← hexDec u), (← hexDec p), (← parseMeta m)⟩

def showInt (i : Int) : String := toString i

def parseInt (s : String) : Option Int := s.toInt?

def look (m : Meta) (k : Str) : Option Str := List.lookup k m

def metaEq (a b : Meta) : Bool :=
  a.length == b.length && a.all (fun kv => look b kv.1 == some kv.2)

def bitS (b : Bool) : String := if b then "1" else "0"

def showSettle : Settle → String
  | .ack => "ack" | .nack => "nack"

/-- P<n>[:entry;…] -/
def showEntries (pfx : String) (es : List String) : String :=
  pfx ++ toString es.length ++ (if es.isEmpty then "" else ":" ++ ";".intercalate es)

def msgFields (m : Msg) : List String := [hexEnc m.uuid, hexEnc m.payload, showMeta m.md]

/-! ### observations -/

structure PubObs where
  topic : Str
  msg : Msg
  flags : List Bool

def parsePubObs (nflags : Nat) (s : String) : Option PubObs :=
  match s.splitOn "|" with
  | t :: u :: p :: m :: fl => do
    if fl.length != nflags then none
    pure ⟨(← hexDec t), (← parseMsg u p m), (← fl.mapM parseBit)⟩
  | _ => none

/-- parse `X<n>[:a;b;…]` into its entries -/
def parseEntries (pfx : String) (s : String) : Option (List String) :=
  if !s.startsWith pfx then none else
  match (dropS s pfx.length).splitOn ":" with
  | [n] => if n.toNat? == some 0 then some [] else none
  | [n, l] => let es := l.splitOn ";"; if n.toNat? == some es.length then some es else none
  | _ => none

def parsePubs (nflags : Nat) (s : String) : Option (List PubObs) := do
  (← parseEntries "P" s).mapM (parsePubObs nflags)

def tagged (tag : String) (s : String) : Option String :=
  if s.startsWith tag then some (dropS s tag.length) else none

/-- the message is what was relayed: same uuid, payload, metadata (as a map) -/
def sameMsg (a b : Msg) : Bool := a.uuid == b.uuid && a.payload == b.payload && metaEq a.md b.md

/-! ### requeuer -/

structure RqReq where
  waitCancelled : Bool
  tg : TopicGen
  dest : POut
  msg : Msg

def parseRq : List String → Option RqReq
  | [d, c, tg, dest, u, p, m] => do
    let d ← parseBit d
    let c ← parseBit c
    let tg ← (if tg = "err" then some TopicGen.err else (tagged "ok:" tg).bind (fun t => (hexDec t).map TopicGen.ok))
    pure ⟨d && c, tg, (← parseDest dest), (← parseMsg u p m)⟩
  | _ => none

def rqModel (r : RqReq) : String :=
  let o := requeuer r.waitCancelled r.tg r.dest r.msg
  let es := o.pubs.map (fun p => "|".intercalate ([hexEnc p.1] ++ msgFields p.2 ++ ["1", "1"]))
  " ".intercalate [showEntries "P" es, "A:" ++ showMeta o.msg.md, "S:" ++ showSettle o.settle]

/-- the statement for the Requeuer, evaluated on the observation: relayed to the computed topic with uuid and payload
    intact, only the retries key changed, to (atoi-or-0 of the old value) + 1 as a mathematical integer; acked only
    after the destination accepted, nacked when it failed; never acked without an accepted publish. -/
def rqMonitor (r : RqReq) (f : List String) : String := Id.run do
  match f with
  | [p, a, s] =>
    let some pubs := parsePubs 2 p | return "bad-op"
    let some _after := (tagged "A:" a).bind parseMeta | return "bad-op"
    let some settle := tagged "S:" s | return "bad-op"
    if settle != "ack" && settle != "nack" then return "violated:not_settled"
    match r.waitCancelled, r.tg with
    | false, .ok t =>
      match pubs with
      | [pb] =>
        if pb.topic != t then return "violated:relay_topic"
        if pb.msg.uuid != r.msg.uuid || pb.msg.payload != r.msg.payload then return "violated:relay_preserves"
        -- only the retries key changes
        if !(r.msg.md.all (fun kv => kv.1 == retriesKey || look pb.msg.md kv.1 == some kv.2)) then return "violated:relay_preserves_metadata"
        if !(pb.msg.md.all (fun kv => kv.1 == retriesKey || look r.msg.md kv.1 == some kv.2)) then return "violated:relay_preserves_metadata"
        -- raised by exactly one
        let prior : Int := (atoi ((look r.msg.md retriesKey).getD [])).getD 0
        if look pb.msg.md retriesKey != some (itoa (prior + 1)) then return "violated:requeuer_counter"
        if pb.flags != [true, true] && pb.flags != [false, true] then return "violated:ack_after_destination"
        if r.dest == .ok && settle != "ack" then return "violated:accepted_not_acked"
        if r.dest != .ok && settle != "nack" then return "violated:nack_on_destination_failure"
      | _ => return "violated:relayed_once"
    | _, _ =>
      -- no destination could be computed (or the wait was cancelled): nothing may be acked as relayed
      if settle == "ack" then return "violated:acked_without_relay"
      if !pubs.isEmpty then return "violated:invented_publish"
    return "ok"
  | _ => return "bad-op"

/-! ### requeuer with a topic function that reads the message -/

def parsePolicy (s : String) : Option TopicPolicy :=
  match s.splitOn ":" with
  | ["budget", k, w, d] => do pure (budgetPolicy (← k.toInt?) (← hexDec w) (← hexDec d))
  | ["meta", k] => (hexDec k).map metaPolicy
  | _ => none

structure RqpReq where
  waitCancelled : Bool
  pol : TopicPolicy
  dest : POut
  msg : Msg

def parseRqp : List String → Option RqpReq
  | [d, c, pol, dest, u, p, m] => do
    pure ⟨(← parseBit d) && (← parseBit c), (← parsePolicy pol), (← parseDest dest), (← parseMsg u p m)⟩
  | _ => none

def rqpModel (r : RqpReq) : String :=
  rqModel ⟨r.waitCancelled, r.pol r.msg, r.dest, r.msg⟩ ++ " G:" ++ (if r.waitCancelled then "!" else showMeta r.msg.md)

/-- the statement: relayed to the COMPUTED destination topic = the topic function applied to the consumed message
    (counter not yet raised), counter of the published message raised by one; the topic function is shown the
    consumed message -/
def rqpMonitor (r : RqpReq) (f : List String) : String :=
  match f with
  | [p, a, s, g] =>
    match rqMonitor ⟨r.waitCancelled, r.pol r.msg, r.dest, r.msg⟩ [p, a, s] with
    | "ok" =>
      match tagged "G:" g with
      | some "!" => "ok"
      | some shown => match parseMeta shown with
        | some md => if metaEq md r.msg.md then "ok" else "violated:topic_function_not_shown_consumed_message"
        | none => "bad-op"
      | none => "bad-op"
    | v => v
  | _ => "bad-op"

/-! ### forwarder -/

def parseParsed (s : String) : Option Parsed :=
  if s = "bad" then some .bad else
  match s.splitOn ":" with
  | ["e", d, u, p, m] => do pure (.env ⟨(← hexDec d), (← hexDec u), (← hexDec p), (← parseMeta m)⟩)
  | _ => none

def fwdEntries (o : Relay.Out) : List String :=
  o.pubs.flatMap (fun c => c.2.map (fun m => "|".intercalate ([hexEnc c.1] ++ msgFields m ++ ["1"])))

def fwdModel (ack : Bool) (p : Parsed) (dest : POut) : String :=
  let o := forwarder ack p dest
  showEntries "P" (fwdEntries o) ++ " S:" ++ showSettle o.settle

/-- the statement for the Forwarder on one consumed message whose payload parsed to `p` -/
def fwdMonitor (ack : Bool) (p : Parsed) (dest : POut) (pobs sobs : String) : String := Id.run do
  let some pubs := parsePubs 1 pobs | return "bad-op"
  let some settle := tagged "S:" sobs | return "bad-op"
  if settle != "ack" && settle != "nack" then return "violated:not_settled"
  let validEnv : Option Envelope := match p with
    | .bad => none
    | .env e => if e.dest.isEmpty then none else some e
  match validEnv with
  | none =>
    -- not a valid envelope: never forwarded; acked or nacked as the flag says
    if !pubs.isEmpty then return "violated:invalid_envelope_never_forwarded"
    if settle != (if ack then "ack" else "nack") then return "violated:invalid_envelope_settlement"
  | some e =>
    match pubs with
    | [pb] =>
      if pb.topic != e.dest then return "violated:relay_topic"
      if !sameMsg pb.msg ⟨e.uuid, e.payload, e.md⟩ then return "violated:relay_preserves"
      if pb.flags != [true] then return "violated:ack_after_destination"
      if dest == .ok && settle != "ack" then return "violated:accepted_not_acked"
      if dest != .ok && settle != "nack" then return "violated:nack_on_destination_failure"
    | _ => return "violated:relayed_once"
  return "ok"

/-! ### forwarder.Publisher -/

def parseMsgs (s : String) : Option (List Msg) :=
  if s = "-" then some [] else
  (s.splitOn ";").mapM (fun e => match e.splitOn "|" with
    | [u, p, m] => parseMsg u p m
    | _ => none)

def showEnv (e : Envelope) : String := "~".intercalate [hexEnc e.dest, hexEnc e.uuid, hexEnc e.payload, showMeta e.md]

def fpubModel (cfg topic : Str) (msgs : List Msg) (dest : POut) : String :=
  let o := fwdPublish cfg topic msgs dest
  let cs := o.calls.map (fun c => "|".intercalate [hexEnc c.1, toString c.2.length,
    if c.2.isEmpty then "-" else "+".intercalate (c.2.map showEnv)])
  showEntries "C" cs ++ " E:" ++ bitS o.err ++ " U:1"

def parseEnvObs (s : String) : Option Envelope :=
  match s.splitOn "~" with
  | [d, u, p, m] => do pure ⟨(← hexDec d), (← hexDec u), (← hexDec p), (← parseMeta m)⟩
  | _ => none

/-- the statement for the Publisher: a message published through it is enveloped with the topic it was published
    to, uuid/payload/metadata intact; success is reported only if the wrapped publisher accepted it -/
def fpubMonitor (topic : Str) (msgs : List Msg) (dest : POut) (f : List String) : String := Id.run do
  match f with
  | [c, e, _u] =>
    let some calls := parseEntries "C" c | return "bad-op"
    let some err := (tagged "E:" e).bind parseBit | return "bad-op"
    if err then
      return "ok"
    -- reported success: everything must be on its way, named correctly
    if dest != .ok && !msgs.isEmpty then return "violated:success_without_acceptance"
    let mut envs : List Envelope := []
    for call in calls do
      match call.splitOn "|" with
      | [_, _, es] =>
        if es != "-" then
          let some l := (es.splitOn "+").mapM parseEnvObs | return "violated:envelope_undecodable"
          envs := envs ++ l
      | _ => return "bad-op"
    if envs.length != msgs.length then return "violated:publisher_lost_or_invented"
    for (e, m) in envs.zip msgs do
      if e.dest != topic then return "violated:envelope_topic"
      if !sameMsg ⟨e.uuid, e.payload, e.md⟩ m then return "violated:relay_preserves"
    return "ok"
  | _ => return "bad-op"

/-! ### end to end -/

def e2eModel (transport : String) (cfg : Str) (ack : Bool) (topic : Str) (m : Msg) (dest : POut) : String :=
  let o := fwdPublish cfg topic [m] .ok
  match o.err, o.calls with
  | false, [(_, [e])] =>
    let r := forwarder ack (.env e) dest
    "F:0 " ++ showEntries "P" (fwdEntries r) ++ " S:" ++ showSettle r.settle
  | _, _ => if transport != "s" then "F:1 P0 S:ack" else "F:1 P0 S:-"

def e2eMonitor (topic : Str) (m : Msg) (dest : POut) (f : List String) : String := Id.run do
  match f with
  | [fo, p, s] =>
    let some ferr := (tagged "F:" fo).bind parseBit | return "bad-op"
    let some pubs := parsePubs 1 p | return "bad-op"
    let some settle := tagged "S:" s | return "bad-op"
    if ferr then
      if !pubs.isEmpty then return "violated:invented_publish"
      return "ok"
    -- delivered to the topic named when it was published through the Publisher
    match pubs with
    | [pb] =>
      if pb.topic != topic then return "violated:forwarder_end_to_end_topic"
      if !sameMsg pb.msg m then return "violated:forwarder_end_to_end"
      if pb.flags != [true] then return "violated:ack_after_destination"
      if dest == .ok && settle != "ack" then return "violated:accepted_not_acked"
      if dest != .ok && settle != "nack" then return "violated:nack_on_destination_failure"
    | _ => return "violated:relayed_once"
    return "ok"
  | _ => return "bad-op"

/-! ### fan-in / fan-out -/

def parseHexList (s : String) : Option (List Str) :=
  if s = "-" then some [] else (s.splitOn ",").mapM hexDec

def faninModel (c : FanInCfg) (i : Nat) (m : Msg) (dest : POut) : String :=
  let o := fanIn c i m dest
  let es := o.pubs.flatMap (fun c => c.2.map (fun m => "|".intercalate ([hexEnc c.1] ++ msgFields m ++ ["1", "1"])))
  showEntries "P" es ++ " S:" ++ showSettle o.settle

def faninMonitor (c : FanInCfg) (m : Msg) (dest : POut) (f : List String) : String := Id.run do
  match f with
  | [p, s] =>
    let some pubs := parsePubs 2 p | return "bad-op"
    let some settle := tagged "S:" s | return "bad-op"
    if settle != "ack" && settle != "nack" then return "violated:not_settled"
    match pubs with
    | [pb] =>
      if pb.topic != c.target then return "violated:relay_topic"
      if !sameMsg pb.msg m then return "violated:relay_preserves"
      if (pb.flags.drop 1) != [true] then return "violated:ack_after_destination"
      if dest == .ok && settle != "ack" then return "violated:accepted_not_acked"
      if dest != .ok && settle != "nack" then return "violated:nack_on_destination_failure"
    | _ => return "violated:relayed_once"
    return "ok"
  | _ => return "bad-op"

def fanoutModel (subs : Nat) (m : Msg) : String :=
  showEntries "D" ((fanOutDeliveries subs m).map (fun d => "|".intercalate (msgFields d))) ++ " X:0 S:ack"

def fanoutMonitor (subs : Nat) (m : Msg) (f : List String) : String := Id.run do
  match f with
  | [d, x, s] =>
    let some ds := parseEntries "D" d | return "bad-op"
    let some stray := (tagged "X:" x).bind (·.toNat?) | return "bad-op"
    let some settle := tagged "S:" s | return "bad-op"
    if ds.length != subs then return "violated:fanout_lost_or_invented"
    if stray != 0 then return "violated:fanout_invented"
    for e in ds do
      match e.splitOn "|" with
      | [u, p, md] =>
        let some got := parseMsg u p md | return "bad-op"
        if !sameMsg got m then return "violated:relay_preserves"
      | _ => return "violated:fanout_lost_or_invented"
    -- the internal Pub/Sub accepted the message (it never refuses while running): the consumed message is acked
    if settle != "ack" then return "violated:accepted_not_acked"
    return "ok"
  | _ => return "bad-op"

/-! ### dispatch -/

def splitObs (rest : List String) : List String × List String :=
  (rest.takeWhile (· != "##"), (rest.dropWhile (· != "##")).drop 1)

def handleM : List String → String
  | ["crash", _] => "no-crash"      -- the harness reports a panic of the code under test on its own goroutine
  | ["atoi", s] => match hexDec s with
    | some s => (match atoi s with | some i => showInt i | none => "err")
    | none => "bad-op"
  | ["itoa", i] => match parseInt i with
    | some i => hexEnc (itoa i)
    | none => "bad-op"
  | ["utf8", s] => match hexDec s with
    | some s => bitS (validUtf8 s)
    | none => "bad-op"
  | "rq" :: rest => match parseRq rest with
    | some r => rqModel r
    | none => "bad-op"
  | "rqp" :: rest => match parseRqp rest with
    | some r => rqpModel r
    | none => "bad-op"
  | ["fwdtopic", t] => match hexDec t with
    | some t => hexEnc (effTopic t)
    | none => "bad-op"
  | ["fwdtopic", t, "r"] => match hexDec t with      -- Forwarder on a Router supplied by the caller: same default
    | some t => hexEnc (effTopic t)
    | none => "bad-op"
  | ["fwd", a, e, d, _, _] => match parseBit a, parseParsed e, parseDest d with
    | some a, some e, some d => fwdModel a e d
    | _, _, _ => "bad-op"
  | ["fpub", c, t, ms, d] => match hexDec c, hexDec t, parseMsgs ms, parseDest d with
    | some c, some t, some ms, some d =>
      -- scope of the Forwarder clauses: topic, uuid and metadata are valid UTF-8 (JSON is the wire contract)
      if ms.all (fun m => (wrap t m).utf8) && validUtf8 t then fpubModel c t ms d else "bad-op"
    | _, _, _, _ => "bad-op"
  | ["fpubr", c, t1, t2, ms, d1, d2] => match hexDec c, hexDec t1, hexDec t2, parseMsgs ms, parseDest d1, parseDest d2 with
    | some c, some t1, some t2, some ms, some d1, some d2 =>
      -- the caller's batch is the caller's: the second call envelopes the same messages as the first
      if ms.all (fun m => (wrap t1 m).utf8 && (wrap t2 m).utf8) && validUtf8 t1 && validUtf8 t2
      then fpubModel c t1 ms d1 ++ " " ++ fpubModel c t2 ms d2 else "bad-op"
    | _, _, _, _, _, _ => "bad-op"
  | ["e2e", tr, c, a, t, u, p, m, d] => match hexDec c, parseBit a, hexDec t, parseMsg u p m, parseDest d with
    | some c, some a, some t, some m, some d =>
      if (tr == "s" || tr == "g" || tr == "gr") && (wrap t m).utf8 then e2eModel tr c a t m d else "bad-op"
    | _, _, _, _, _ => "bad-op"
  | ["faninctor", ss, t] => match parseHexList ss, hexDec t with
    | some ss, some t => if (FanInCfg.mk ss t).valid then "ok" else "err"
    | _, _ => "bad-op"
  | ["fanin", ss, t, i, d, u, p, m] => match parseHexList ss, hexDec t, i.toNat?, parseDest d, parseMsg u p m with
    | some ss, some t, some i, some d, some m =>
      if i < ss.length && (FanInCfg.mk ss t).valid then faninModel ⟨ss, t⟩ i m d else "bad-op"
    | _, _, _, _, _ => "bad-op"
  | ["fanout", n, u, p, m] => match n.toNat?, parseMsg u p m with
    | some n, some m => fanoutModel n m
    | _, _ => "bad-op"
  | _ => "bad-op"

def handleP (req obs : List String) : String :=
  match req with
  | ["crash", _] => "violated:panic"
  | ["atoi", _] | ["itoa", _] | ["utf8", _] | ["fwdtopic", _] | ["fwdtopic", _, "r"] | ["faninctor", _, _] =>
    -- library / construction behaviour: the statement does not speak about it; the model diff does
    if handleM req == "bad-op" then "bad-op" else "ok"
  | "rq" :: rest => match parseRq rest with
    | some r => rqMonitor r obs
    | none => "bad-op"
  | "rqp" :: rest => match parseRqp rest with
    | some r => rqpMonitor r obs
    | none => "bad-op"
  | ["fwd", a, e, d, _, _] => match parseBit a, parseParsed e, parseDest d, obs with
    | some a, some e, some d, [p, s] => fwdMonitor a e d p s
    | _, _, _, _ => "bad-op"
  | ["fpub", c, t, ms, d] => match hexDec c, hexDec t, parseMsgs ms, parseDest d with
    | some _, some t, some ms, some d =>
      if ms.all (fun m => (wrap t m).utf8) && validUtf8 t then fpubMonitor t ms d obs else "bad-op"
    | _, _, _, _ => "bad-op"
  | ["fpubr", c, t1, t2, ms, d1, d2] => match hexDec c, hexDec t1, hexDec t2, parseMsgs ms, parseDest d1, parseDest d2 with
    | some _, some t1, some t2, some ms, some d1, some d2 =>
      if !(ms.all (fun m => (wrap t1 m).utf8 && (wrap t2 m).utf8) && validUtf8 t1 && validUtf8 t2) || obs.length != 6 then "bad-op"
      else match fpubMonitor t1 ms d1 (obs.take 3), fpubMonitor t2 ms d2 (obs.drop 3) with
        | "ok", "ok" => "ok"
        | "ok", v2 => if v2 == "bad-op" then v2 else "violated:second_publish_of_batch:" ++ dropS v2 9
        | v1, _ => v1
    | _, _, _, _, _, _ => "bad-op"
  | ["e2e", _, c, a, t, u, p, m, d] => match hexDec c, parseBit a, hexDec t, parseMsg u p m, parseDest d with
    | some _, some _, some t, some m, some d => if (wrap t m).utf8 then e2eMonitor t m d obs else "bad-op"
    | _, _, _, _, _ => "bad-op"
  | ["fanin", ss, t, i, d, u, p, m] => match parseHexList ss, hexDec t, i.toNat?, parseDest d, parseMsg u p m with
    | some ss, some t, some _, some d, some m => faninMonitor ⟨ss, t⟩ m d obs
    | _, _, _, _, _ => "bad-op"
  | ["fanout", n, u, p, m] => match n.toNat?, parseMsg u p m with
    | some n, some m => fanoutMonitor n m obs
    | _, _ => "bad-op"
  | _ => "bad-op"

def handle (line : String) : String :=
  match line.splitOn " " with
  | "M" :: rest => handleM rest
  | "P" :: rest => let (req, obs) := splitObs rest; handleP req obs
  | _ => "bad-op"

def main : IO Unit := driverMain handle
