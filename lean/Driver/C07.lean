import WmModel.Basic
import WmModel.GcConf
import WmModel.GcMon
import WmModel.GcTopicConf
import WmModel.GcRegConf
import WmModel.GcProdConf
import WmModel.GcDecConf
open Wm

/-- `sub` streams: model = conformance with M_sub (subset construction), no property verdict of its own here;
    `top` traces: monitor = the C07 clauses of GcMon (the statement of the property on the recorded execution). -/
def handle (line : String) : String :=
  let req := match line.splitOn " ## " with
    | [r, _] => r
    | _ => line
  match req.splitOn " " with
  | "M" :: "sub" :: cap :: toks =>
    match cap.toNat? with
    | some c => GcConf.checkSub c (if toks == ["-"] then [] else toks)
    | none => "bad-op"
  | "P" :: "sub" :: _ => "ok"
  | "M" :: "reg" :: toks => GcRegConf.checkReg toks
  | "P" :: "reg" :: _ => "ok"
  | "M" :: "topic" :: toks => GcTopicConf.checkTopic toks
  | "P" :: "topic" :: _ => "ok"
  -- `dec` streams: model = conformance with M_dec; the property part of the record is the watchdog of the harness
  | "M" :: "dec" :: toks => GcDecConf.checkDec (toks.filter (fun t => !t.startsWith "stuck:"))
  | "P" :: "dec" :: toks =>
    match toks.find? (fun t => t.startsWith "stuck:") with
    | some t => "violated:" ++ (t.drop 6).toString
    | none => "ok"
  -- merged registry + subscription streams: conformance with the composition M_prod
  | "M" :: "prod" :: toks => GcProdConf.checkProd toks
  | "P" :: "prod" :: _ => "ok"
  | "M" :: "top" :: _ => "ok"
  | "P" :: "top" :: toks => GcMon.runMon GcMon.monC07 toks
  | _ => "bad-op"

def main : IO Unit := driverMain handle
