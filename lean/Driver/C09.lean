/-
  Line-protocol driver of C09.

    M chain <op>*                 → the model's observation (Wm.Chain.exec)
    P chain <op>* ## <obs>        → the property monitor on the implementation's observation

  op tokens:  R<ids>  router.AddMiddleware(ids...)        H<h>:<ids>  handler h .AddMiddleware(ids...)
              A<h>p | A<h>n  AddHandler / AddNoPublisherHandler of handler number h, named "h<h>", or
              A<h>p=<nameHex> with an explicit name (hex of its UTF-8 bytes, `-` = the empty name)
              P<ids>  AddPublisherDecorators(ids...)      S<ids>      AddSubscriberDecorators(ids...)
              RUN     Run (first) / RunHandlers (later), then one message through every started handler
  ids = comma separated numbers.  Observation: one block per RUN, blocks separated by spaces, `none` without RUN;
  block = `-` or `;`-separated entries `h<h>=<ev>.<ev>…` with ev ∈ s<i>c | s<i>n | e<i> | h | l<i> | p<i> | P.
-/
import WmModel.Basic
import WmModel.Chain
open Wm Wm.Chain

def splitOnChar (c : Char) : List Char → List (List Char)
  | [] => [[]]
  | x :: rest =>
    match splitOnChar c rest with
    | [] => [[]]
    | cur :: more => if x == c then [] :: cur :: more else (x :: cur) :: more

def natOf (cs : List Char) : Option Nat :=
  if cs.isEmpty || !cs.all Char.isDigit then none else some (cs.foldl (fun n c => 10 * n + (c.toNat - 48)) 0)

def idsOf (cs : List Char) : Option (List Nat) := (splitOnChar ',' cs).mapM natOf

def isHexTok (cs : List Char) : Bool :=
  cs == ['-'] || (!cs.isEmpty && cs.length % 2 == 0 && cs.all fun c => c.isDigit || ('a' ≤ c && c ≤ 'f'))

/-- a handler name as the model sees it: `""` for `-`, otherwise the lowercase hex text of its UTF-8 bytes (injective,
    non-empty for a non-empty name – equality and emptiness are those of the real names) -/
def nameOfTok (cs : List Char) : Option String :=
  if !isHexTok cs then none else if cs == ['-'] then some "" else some (String.ofList cs)

/-- the default name of handler number `n` is "h<n>" -/
def hname (n : Nat) : String := hexEnc ("h" ++ toString n).toUTF8.toList

/-- one token; `names` = handler number ↦ name, filled by the A tokens (`A<h>p`, `A<h>n`, optionally `=<nameHex>`) -/
def opOf (names : List (Nat × String)) (tok : String) : Option (Op × List (Nat × String)) :=
  if tok == "RUN" then some (.run, names) else
  match tok.toList with
  | 'R' :: rest => (idsOf rest).map fun ids => (.routerMw ids, names)
  | 'P' :: rest => (idsOf rest).map fun ids => (.pubDec ids, names)
  | 'S' :: rest => (idsOf rest).map fun ids => (.subDec ids, names)
  | 'H' :: rest =>
    match splitOnChar ':' rest with
    | [h, ids] => do
      let h ← natOf h
      let ids ← idsOf ids
      let (_, name) ← names.find? (·.1 == h)
      pure (.handlerMw name ids, names)
    | _ => none
  | 'A' :: rest =>
    let (spec, name?) := match splitOnChar '=' rest with
      | [a, n] => (a, some n)
      | _ => (rest, none)
    match spec.reverse with
    | k :: h => do
      let hasPub ← if k == 'p' then some true else if k == 'n' then some false else none
      let h ← natOf h.reverse
      let name ← match name? with | some n => nameOfTok n | none => some (hname h)
      if names.any (·.1 == h) then none else
      pure (.addHandler name hasPub, names ++ [(h, name)])
    | _ => none
  | _ => none

def opsOf (toks : List String) : Option (List Op × List (Nat × String)) :=
  toks.foldlM (fun (acc : List Op × List (Nat × String)) t => do
    let (o, names) ← opOf acc.2 t
    pure (acc.1 ++ [o], names)) ([], [])

/-- observation key of a handler: `h<number>` -/
def keyOf (names : List (Nat × String)) (name : String) : String :=
  match names.find? (·.2 == name) with
  | some (n, _) => "h" ++ toString n
  | none => "h?"

def evStr : Ev → String
  | .sub i c => "s" ++ toString i ++ (if c then "c" else "n")
  | .enter i => "e" ++ toString i
  | .handler => "h"
  | .leave i => "l" ++ toString i
  | .pub i => "p" ++ toString i
  | .published => "P"

def blockStr (names : List (Nat × String)) (b : List (String × List Ev)) : String :=
  if b.isEmpty then "-" else
  ";".intercalate (b.map fun (n, t) => keyOf names n ++ "=" ++ ".".intercalate (t.map evStr))

def obsStr (names : List (Nat × String)) (obs : List (List (String × List Ev))) : String :=
  if obs.isEmpty then "none" else " ".intercalate (obs.map (blockStr names))

def model (toks : List String) : String :=
  match opsOf toks with
  | none => "bad-op"
  | some (ops, names) =>
    match exec {} ops with
    | none => "bad-op"
    | some s => obsStr names s.obs

/-! ### the property, evaluated on an observation – written without `Wm.Chain.wrap`/`exec` -/

/-- observed event token -/
inductive Tok | s (i : Nat) | e (i : Nat) | h | l (i : Nat) | p (i : Nat) | P
  deriving DecidableEq

def tokOf (cs : List Char) : Option Tok :=
  match cs with
  | ['h'] => some .h
  | ['P'] => some .P
  | 'e' :: r => (natOf r).map .e
  | 'l' :: r => (natOf r).map .l
  | 'p' :: r => (natOf r).map .p
  | 's' :: r =>
    match r.reverse with
    | 'c' :: d => (natOf d.reverse).map .s
    | 'n' :: d => (natOf d.reverse).map .s
    | _ => none
  | _ => none

def sameMultiset (a b : List Nat) : Bool :=
  a.length == b.length && a.all (fun x => a.count x == b.count x)

/-- the statement of C09 for one handler's one-message trace.
    `own`: ids registered router-level or for this handler before it started, in registration order;
    `foreign`: ids registered for other handlers (anywhere in the program);
    `sd`/`pd`: decorator ids added before it started, in the order added. -/
def judgeTrace (own foreign sd pd : List Nat) (hasPub : Bool) (t : List Tok) : String :=
  let ss := t.takeWhile (fun x => match x with | .s _ => true | _ => false)
  let r1 := t.drop ss.length
  let es := r1.takeWhile (fun x => match x with | .e _ => true | _ => false)
  let r2 := r1.drop es.length
  match r2 with
  | .h :: r3 =>
    let ls := r3.takeWhile (fun x => match x with | .l _ => true | _ => false)
    let r4 := r3.drop ls.length
    let ps := r4.takeWhile (fun x => match x with | .p _ => true | _ => false)
    let r5 := r4.drop ps.length
    let sIds := ss.filterMap (fun x => match x with | .s i => some i | _ => none)
    let eIds := es.filterMap (fun x => match x with | .e i => some i | _ => none)
    let lIds := ls.filterMap (fun x => match x with | .l i => some i | _ => none)
    let pIds := ps.filterMap (fun x => match x with | .p i => some i | _ => none)
    if eIds.any (fun i => foreign.contains i && !own.contains i) then "violated:foreign_middleware"
    else if !sameMultiset eIds own then "violated:exactly_router_level_plus_own"
    else if eIds != own then "violated:nesting_order"
    else if lIds != eIds.reverse then "violated:nesting_order"
    else if sIds != sd then "violated:sub_decorator_order"
    else if hasPub then
      (if r5 != [.P] then "violated:shape" else if pIds != pd then "violated:pub_decorator_order" else "ok")
    else (if !r5.isEmpty || !pIds.isEmpty then "violated:shape" else "ok")
  | _ => "violated:shape"

def parseEntry (cs : List Char) : Option (String × List Tok) :=
  match splitOnChar '=' cs with
  | [n, t] => do
    let toks ← (splitOnChar '.' t).mapM tokOf
    pure (String.ofList n, toks)
  | _ => none

def parseBlock (b : String) : Option (List (String × List Tok)) :=
  if b == "-" then some [] else (splitOnChar ';' b.toList).mapM parseEntry

def monitor (names : List (Nat × String)) (ops : List Op) (blocks : List String) : String := Id.run do
  -- well-formedness of the program (same conditions as the API: a handler exists before it gets middleware, names unique)
  let mut known : List String := []
  for o in ops do
    match o with
    | .addHandler h _ => if known.contains h then return "bad-op" else known := known ++ [h]
    | .handlerMw h _ => if !known.contains h then return "bad-op"
    | _ => pure ()
  let nRuns := (ops.filter (· == .run)).length
  if blocks.length != nRuns then return "violated:shape"
  let allForeign (h : String) : List Nat :=
    ops.foldl (fun acc o => match o with | .handlerMw g ids => if g != h then acc ++ ids else acc | _ => acc) []
  -- walk the program; `seen` = operations so far
  let mut seen : List Op := []
  let mut started : List (String × Bool × List Op) := []   -- handler, hasPub, operations that preceded its start
  let mut rest := blocks
  for o in ops do
    if o == .run then
      -- every handler added so far and not yet started starts now, after all of `seen`
      for x in seen do
        match x with
        | .addHandler h p => if !(started.any (·.1 == h)) then started := started ++ [(h, p, seen)]
        | _ => pure ()
      match rest with
      | [] => return "violated:shape"
      | b :: more =>
        rest := more
        match parseBlock b with
        | none => return "violated:shape"
        | some entries =>
          if entries.map (·.1) != started.map (fun x => keyOf names x.1) then return "violated:shape"
          for (k, t) in entries do
            match started.find? (fun x => keyOf names x.1 == k) with
            | none => return "violated:shape"
            | some (h, hasPub, pre) =>
              let own := pre.foldl (fun acc x => match x with
                | .routerMw ids => acc ++ ids
                | .handlerMw g ids => if g == h then acc ++ ids else acc
                | _ => acc) []
              let sd := pre.foldl (fun acc x => match x with | .subDec ids => acc ++ ids | _ => acc) []
              let pd := pre.foldl (fun acc x => match x with | .pubDec ids => acc ++ ids | _ => acc) []
              let v := judgeTrace own (allForeign h) sd pd hasPub t
              if v != "ok" then return v
    seen := seen ++ [o]
  return "ok"

def handle (line : String) : String :=
  match line.splitOn " " with
  | "M" :: "chain" :: toks => model toks
  | "P" :: "chain" :: rest =>
    let toks := rest.takeWhile (· != "##")
    let obs := (rest.dropWhile (· != "##")).drop 1
    if obs.isEmpty then "bad-op" else
    match opsOf toks with
    | none => "bad-op"
    | some (ops, names) =>
      if obs == ["none"] then monitor names ops []
      else if let [o] := obs then
        (if o.startsWith "crash(" || o.startsWith "panic(" then "violated:crash"
         else if o.startsWith "timeout" || o.startsWith "run-returned" || o.startsWith "runhandlers-error" then "violated:not_processed"
         else monitor names ops obs)
      else monitor names ops obs
  | _ => "bad-op"

def main : IO Unit := driverMain handle
