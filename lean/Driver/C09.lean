/-
  Line-protocol driver of C09.

    M chain <op>*                 → the model's observation (Wm.Chain.exec)
    P chain <op>* ## <obs>        → the property monitor on the implementation's observation
    M cchain <op>* @@ <obs>       → programs with a block of overlapping calls (C token): the recorded observation is part
                                    of the request; `consistent` iff SOME linearisation of the block makes the model
                                    produce exactly that observation, else `inconsistent`
    P cchain <op>* @@ <obs> ## …  → the property monitor on the recorded observation

  op tokens:  R<ids>  router.AddMiddleware(ids...)        H<h>:<ids>  handler h .AddMiddleware(ids...)
              A<h>p | A<h>n  AddHandler / AddNoPublisherHandler of handler number h, named "h<h>" (A<h>d: its function returns
              two distinct messages with the same UUID; A<h>e: three distinct messages with empty UUIDs), or
              A<h>p=<nameHex> with an explicit name (hex of its UTF-8 bytes, `-` = the empty name)
              A<h>p@<g> (also with =<name>): the handler gets the application-decorated subscriber object number g – one
              MessageTransformSubscriberDecorator-wrapped subscriber built by the application, shared by all handlers with that g
              P<ids>  AddPublisherDecorators(ids...)      S<ids>      AddSubscriberDecorators(ids...)
              G<item>+<item>…  AddPlugin: a RouterPlugin that, when Run executes it, registers item ∈ R<ids> | P<ids> | S<ids>
              P<ids>! / S<ids>!  as P / S, but the last decorator of the call returns an error the first time it is applied
                               (RunHandlers fails and is called again until it succeeds)
              T<h>             handler h .Stop(), wait for Stopped(): the handler leaves the router; a handler added later may
                               use its name (middlewares are registered per NAME: it then also runs what was registered
                               under that name before). T<h> on a handler that has already stopped does nothing.
              X                the application edits every slice it has passed so far in a `xs...` call (all registrations
                               are made from caller-owned slices with spare capacity): overwrites every element with a
                               foreign recorder (ids >= 9000), appends one on the spare capacity, hands the result to a
                               second router – the model ignores it (the router's lists are value copies)
              C<gor>|<gor>…    overlapping calls from several goroutines, gor = `+`-joined H<h>:<ids> (each goroutine's
                               Handler.AddMiddleware calls in its order)
              RUN     Run (first) / RunHandlers (later), then one message through every started handler
  ids = comma separated numbers.  Observation: one block per RUN, blocks separated by spaces, `none` without RUN;
  block = `-` or `;`-separated entries `h<h>=<ev>.<ev>…` with ev ∈ a<g> | s<i>c | s<i>n | e<i> | h | l<i> | p<i> | P
  (a<g>: the application's transform of shared subscriber g; s<i>w / hx: the decorator / the handler function saw
  ANOTHER handler's context values on the message).
-/
import WmModel.Basic
import WmModel.Chain
open Wm Wm.Chain

def splitOnChar (c : Char) : List Char → List (List Char)
  | [] => [[]]
  | x :: rest =>
    match splitOnChar c rest with
    | [] => [[]]
    | cur :: more => if x == c then [] :: cur :: more else (x :: cur) :: more

def natOf (cs : List Char) : Option Nat :=
  if cs.isEmpty || !cs.all Char.isDigit then none else some (cs.foldl (fun n c => 10 * n + (c.toNat - 48)) 0)

def idsOf (cs : List Char) : Option (List Nat) := (splitOnChar ',' cs).mapM natOf

def isHexTok (cs : List Char) : Bool :=
  cs == ['-'] || (!cs.isEmpty && cs.length % 2 == 0 && cs.all fun c => c.isDigit || ('a' ≤ c && c ≤ 'f'))

/-- a handler name as the model sees it: `""` for `-`, otherwise the lowercase hex text of its UTF-8 bytes (injective,
    non-empty for a non-empty name – equality and emptiness are those of the real names) -/
def nameOfTok (cs : List Char) : Option String :=
  if !isHexTok cs then none else if cs == ['-'] then some "" else some (String.ofList cs)

/-- the default name of handler number `n` is "h<n>" -/
def hname (n : Nat) : String := hexEnc ("h" ++ toString n).toUTF8.toList

/-- program element: a sequential operation, or a block of overlapping `Handler.AddMiddleware` calls
    (one list per goroutine, its calls in its own order) -/
inductive DOp | seq (o : Op) | conc (gs : List (List Op))

def DOp.flat : DOp → List Op
  | .seq o => [o]
  | .conc gs => gs.flatten

def popOf (cs : List Char) : Option POp :=
  match cs with
  | 'R' :: rest => (idsOf rest).map .routerMw
  | 'P' :: rest => (idsOf rest).map .pubDec
  | 'S' :: rest => (idsOf rest).map .subDec
  | _ => none

def hmwOf (names : List (Nat × String)) (cs : List Char) : Option Op :=
  match cs with
  | 'H' :: rest =>
    match splitOnChar ':' rest with
    | [h, ids] => do
      let h ← natOf h
      let ids ← idsOf ids
      let (_, name) ← names.find? (·.1 == h)
      pure (.handlerMw name ids)
    | _ => none
  | _ => none

/-- one token; `names` = handler number ↦ name, filled by the A tokens -/
def opOf1 (gone : List Nat) (names : List (Nat × String)) (tok : String) : Option (DOp × List (Nat × String)) :=
  if tok == "RUN" then some (.seq .run, names) else
  if tok == "X" then some (.seq .callerEdits, names) else
  -- `P<ids>!` / `S<ids>!`: the (last) decorator of the call returns an error the first time it is applied; RunHandlers
  -- reports it and is called again until it succeeds – a failed decoration commits nothing, the retry ends like a call
  -- that never failed
  let tok := if tok.endsWith "!" && (tok.startsWith "P" || tok.startsWith "S") then String.ofList tok.toList.dropLast else tok
  match tok.toList with
  | 'R' :: rest => (idsOf rest).map fun ids => (.seq (.routerMw ids), names)
  | 'P' :: rest => (idsOf rest).map fun ids => (.seq (.pubDec ids), names)
  | 'S' :: rest => (idsOf rest).map fun ids => (.seq (.subDec ids), names)
  | 'T' :: rest => do
    let h ← natOf rest
    let (_, name) ← names.find? (·.1 == h)
    -- Stop() through the handle of a handler that has already stopped does nothing (whoever holds its name now)
    if gone.contains h then pure (.seq .stopAgain, names) else pure (.seq (.stopHandler name), names)
  | 'G' :: rest => ((splitOnChar '+' rest).mapM popOf).map fun ps => (.seq (.plugin ps), names)
  | 'C' :: rest =>
    ((splitOnChar '|' rest).mapM fun g => (splitOnChar '+' g).mapM (hmwOf names)).map fun gs => (.conc gs, names)
  | 'H' :: rest => (hmwOf names ('H' :: rest)).map fun o => (.seq o, names)
  | 'A' :: rest =>
    let (spec, name?) := match splitOnChar '=' rest with
      | [a, n] => (a, some n)
      | _ => (rest, none)
    let (spec, app?) := match splitOnChar '@' spec with
      | [a, g] => (a, some g)
      | _ => (spec, none)
    match spec.reverse with
    | k :: h => do
      -- p: returns one message; n: AddNoPublisherHandler; d: returns two distinct messages with the SAME UUID;
      -- e: returns three distinct messages with EMPTY UUIDs
      -- t: like p, but registered with the EMPTY publish topic (a publisher all the same: decorated like any other)
      -- z: AddHandler with a nil publisher and a function that returns nothing (not decorated, nothing published)
      let hasPub ← if k == 'p' || k == 't' then some 1 else if k == 'n' || k == 'z' then some 0 else if k == 'd' then some 2
        else if k == 'e' then some 3 else none
      let h ← natOf h.reverse
      let name ← match name? with | some n => nameOfTok n | none => some (hname h)
      let app ← match app? with | some g => (natOf g).map some | none => some none
      if names.any (·.1 == h) then none else
      pure (.seq (.addHandler name hasPub app), names ++ [(h, name)])
    | _ => none
  | _ => none

def opsOf (toks : List String) : Option (List DOp × List (Nat × String)) :=
  (toks.foldlM (fun (acc : List DOp × List (Nat × String) × List Nat) t => do
    let (o, names) ← opOf1 acc.2.2 acc.2.1 t
    let gone := match o, t.toList with
      | .seq (.stopHandler _), 'T' :: rest => match natOf rest with | some h => acc.2.2 ++ [h] | none => acc.2.2
      | _, _ => acc.2.2
    pure (acc.1 ++ [o], names, gone)) ([], [], [])).map fun (r : List DOp × List (Nat × String) × List Nat) => (r.1, r.2.1)

/-- all orders in which the lock can serialise the goroutines' calls (each goroutine's own order kept) -/
def interleave : Nat → List (List Op) → List (List Op)
  | 0, _ => [[]]
  | f + 1, gs =>
    if gs.all List.isEmpty then [[]] else
    (List.range gs.length).flatMap fun i =>
      match gs[i]? with
      | some (x :: rest) => (interleave f (gs.set i rest)).map (x :: ·)
      | _ => []

def linearise : List DOp → List (List Op)
  | [] => [[]]
  | .seq o :: r => (linearise r).map (o :: ·)
  | .conc gs :: r =>
    let tails := linearise r
    (interleave (gs.flatten.length + 1) gs).flatMap fun il => tails.map (il ++ ·)

/-- for every `run` of a (linear) program: which handler NUMBER holds each name at that moment (a name can be used again
    by a new handler once its holder has stopped; the k-th AddHandler of the program is handler number `names[k].1`) -/
def keyMaps (names : List (Nat × String)) (ops : List Op) : List (List (String × Nat)) := Id.run do
  let mut cur : List (String × Nat) := []
  let mut k := 0
  let mut out : List (List (String × Nat)) := []
  for o in ops do
    match o with
    | .addHandler n _ _ =>
      let num := match names[k]? with | some (h, _) => h | none => 0
      cur := cur.filter (·.1 != n) ++ [(n, num)]
      k := k + 1
    | .run => out := out ++ [cur]
    | _ => pure ()
  return out

/-- observation key of a handler: `h<number>` -/
def keyOf (km : List (String × Nat)) (name : String) : String :=
  match km.find? (·.1 == name) with
  | some (_, n) => "h" ++ toString n
  | none => "h?"

def evStr : Ev → String
  | .app g => "a" ++ toString g
  | .sub i c => "s" ++ toString i ++ (if c then "c" else "n")
  | .enter i => "e" ++ toString i
  | .handler => "h"
  | .leave i => "l" ++ toString i
  | .pub i => "p" ++ toString i
  | .published => "P"

def blockStr (km : List (String × Nat)) (b : List (String × List Ev)) : String :=
  if b.isEmpty then "-" else
  ";".intercalate (b.map fun (n, t) => keyOf km n ++ "=" ++ ".".intercalate (t.map evStr))

def obsStr (kms : List (List (String × Nat))) (obs : List (List (String × List Ev))) : String :=
  if obs.isEmpty then "none" else " ".intercalate ((obs.zip kms).map fun (b, km) => blockStr km b)

def runModel (names : List (Nat × String)) (ops : List Op) : Option String :=
  (exec {} ops).map fun s => obsStr (keyMaps names ops) s.obs

def model (toks : List String) : String :=
  match opsOf toks with
  | none => "bad-op"
  | some (dops, names) =>
    match linearise dops with
    | [ops] => (runModel names ops).getD "bad-op"
    | _ => "bad-op"      -- overlapping calls: the model can only check (cchain)

/-- programs with overlapping calls: is the recorded observation what the model does under SOME serialisation? -/
def modelCheck (toks : List String) (recorded : String) : String :=
  match opsOf toks with
  | none => "bad-op"
  | some (dops, names) =>
    let lins := linearise dops
    if lins.length > 50000 then "bad-op"
    else if lins.any (fun ops => (exec {} ops).isNone) then "bad-op"
    else if lins.any (fun ops => runModel names ops == some recorded) then "consistent" else "inconsistent"

/-! ### the property, evaluated on an observation – written without `Wm.Chain.wrap`/`exec` -/

/-- observed event token -/
inductive Tok | a (g : Nat) | s (i : Nat) | e (i : Nat) | h | l (i : Nat) | p (i : Nat) | P | foreignCtx
  deriving DecidableEq

def tokOf (cs : List Char) : Option Tok :=
  match cs with
  | ['h'] => some .h
  | ['h', 'x'] => some .foreignCtx
  | ['P'] => some .P
  | 'a' :: r => (natOf r).map .a
  | 'e' :: r => (natOf r).map .e
  | 'l' :: r => (natOf r).map .l
  | 'p' :: r => (natOf r).map .p
  | 's' :: r =>
    match r.reverse with
    | 'c' :: d => (natOf d.reverse).map .s
    | 'n' :: d => (natOf d.reverse).map .s
    | 'w' :: d => (natOf d.reverse).map fun _ => .foreignCtx
    | _ => none
  | _ => none

def sameMultiset (a b : List Nat) : Bool :=
  a.length == b.length && a.all (fun x => a.count x == b.count x)

/-- `sub` is a subsequence of `l` -/
def isSubseq : List Nat → List Nat → Bool
  | [], _ => true
  | _ :: _, [] => false
  | x :: xs, y :: ys => if x == y then isSubseq xs ys else isSubseq (x :: xs) ys

/-- the statement of C09 for one handler's one-message trace.
    registrations that apply to the handler (router-level or its own, made before it started): `before` in order, then
    `groups` – what overlapping callers registered, one list per caller, each in the caller's order, order between
    callers free – then `after` in order;  `foreign`: ids registered for other handlers (anywhere in the program);
    `sd`/`pd`: decorator ids added before it started, in the order added; `app`: the application's own subscriber
    transform, if the handler was given a pre-decorated subscriber. -/
def judgeTrace (before : List Nat) (groups : List (List Nat)) (after foreign sd pd : List Nat) (outs : Nat)
    (app : Option Nat) (t : List Tok) : String :=
  if t.contains .foreignCtx then "violated:foreign_context" else
  let as := t.takeWhile (fun x => match x with | .a _ => true | _ => false)
  let r0 := t.drop as.length
  let ss := r0.takeWhile (fun x => match x with | .s _ => true | _ => false)
  let r1 := r0.drop ss.length
  let es := r1.takeWhile (fun x => match x with | .e _ => true | _ => false)
  let r2 := r1.drop es.length
  match r2 with
  | .h :: r3 =>
    let ls := r3.takeWhile (fun x => match x with | .l _ => true | _ => false)
    let r4 := r3.drop ls.length
    let ps := r4.takeWhile (fun x => match x with | .p _ => true | _ => false)
    let r5 := r4.drop ps.length
    let aIds := as.filterMap (fun x => match x with | .a i => some i | _ => none)
    let sIds := ss.filterMap (fun x => match x with | .s i => some i | _ => none)
    let eIds := es.filterMap (fun x => match x with | .e i => some i | _ => none)
    let lIds := ls.filterMap (fun x => match x with | .l i => some i | _ => none)
    let pIds := ps.filterMap (fun x => match x with | .p i => some i | _ => none)
    let own := before ++ groups.flatten ++ after
    let mid := (eIds.drop before.length).take (eIds.length - before.length - after.length)
    if eIds.any (fun i => foreign.contains i && !own.contains i) then "violated:foreign_middleware"
    else if !sameMultiset eIds own then "violated:exactly_router_level_plus_own"
    else if eIds.take before.length != before || eIds.drop (eIds.length - after.length) != after then "violated:nesting_order"
    else if groups.any (fun g => !isSubseq g mid) then "violated:nesting_order"
    else if lIds != eIds.reverse then "violated:nesting_order"
    else if aIds != app.toList then "violated:sub_decorator_order"
    else if sIds != sd then "violated:sub_decorator_order"
    -- every publisher decorator, in the order added, acts on each of the `outs` outgoing messages; then the publisher gets them
    else if r5 != List.replicate outs Tok.P then "violated:shape"
    else if pIds != pd.flatMap (fun i => List.replicate outs i) then "violated:pub_decorator_order"
    else "ok"
  | _ => "violated:shape"

def parseEntry (cs : List Char) : Option (String × List Tok) :=
  match splitOnChar '=' cs with
  | [n, t] => do
    let toks ← (splitOnChar '.' t).mapM tokOf
    pure (String.ofList n, toks)
  | _ => none

def parseBlock (b : String) : Option (List (String × List Tok)) :=
  if b == "-" then some [] else (splitOnChar ';' b.toList).mapM parseEntry

def monitor (names : List (Nat × String)) (dops : List DOp) (blocks : List String) : String := Id.run do
  let ops := dops.flatMap DOp.flat
  let nRuns := (ops.filter (· == .run)).length
  if blocks.length != nRuns then return "violated:shape"
  let allForeign (h : String) : List Nat :=
    ops.foldl (fun acc o => match o with | .handlerMw g ids => if g != h then acc ++ ids else acc | _ => acc) []
  -- walk the program; `seen` = what has been registered so far, in order
  let mut seen : List DOp := []
  let mut pending : List POp := []      -- what the plugins added so far will register when Run executes them
  let mut ran := false
  -- the handlers in the router: number, name, messages returned, app, what preceded its start (none: not started yet)
  let mut live : List (Nat × String × Nat × Option Nat × Option (List DOp)) := []
  let mut k := 0
  let mut rest := blocks
  for d in dops do
    match d with
    | .seq (.plugin ps) => pending := pending ++ ps
    | .seq (.addHandler h n a) =>
      -- names are unique among the handlers in the router (a stopped handler has left it)
      if live.any (·.2.1 == h) then return "bad-op"
      let num := match names[k]? with | some (x, _) => x | none => 0
      live := live ++ [(num, h, n, a, none)]
      k := k + 1
    | .seq (.handlerMw h _) => if !(live.any (·.2.1 == h)) then return "bad-op"
    | .conc gs =>
      for g in gs do
        for o in g do
          match o with
          | .handlerMw h _ => if !(live.any (·.2.1 == h)) then return "bad-op"
          | _ => pure ()
    | .seq (.stopHandler h) =>
      -- only a running handler can be stopped; from now on it gets no messages and appears in no block
      if !(live.any fun x => x.2.1 == h && x.2.2.2.2.isSome) then return "bad-op"
      live := live.filter (·.2.1 != h)
    | .seq .run =>
      -- Run executes the plugins first (once; RunHandlers on the running router does not)
      if !ran then
        ran := true
        seen := seen ++ pending.map fun q => DOp.seq (match q with
          | .routerMw ids => Op.routerMw ids | .pubDec ids => Op.pubDec ids | .subDec ids => Op.subDec ids)
      -- every handler in the router that is not started yet starts now, after all of `seen`
      let snapshot := seen
      live := live.map fun x => match x.2.2.2.2 with | some _ => x | none => (x.1, x.2.1, x.2.2.1, x.2.2.2.1, some snapshot)
      match rest with
      | [] => return "violated:shape"
      | b :: more =>
        rest := more
        match parseBlock b with
        | none => return "violated:shape"
        | some entries =>
          if entries.map (·.1) != live.map (fun x => "h" ++ toString x.1) then return "violated:shape"
          for (key, t) in entries do
            match live.find? (fun x => "h" ++ toString x.1 == key) with
            | some (_, h, outs, app, some pre) =>
              let idsFor (o : Op) : List Nat := match o with
                | .routerMw ids => ids
                | .handlerMw g ids => if g == h then ids else []
                | _ => []
              let (before, groups, after) := pre.foldl (fun (acc : List Nat × List (List Nat) × List Nat) x =>
                match x with
                | .seq o => if acc.2.1.isEmpty then (acc.1 ++ idsFor o, acc.2.1, acc.2.2) else (acc.1, acc.2.1, acc.2.2 ++ idsFor o)
                | .conc gs => (acc.1, acc.2.1 ++ (gs.map fun g => g.flatMap idsFor), acc.2.2)) ([], [], [])
              let flatPre := pre.flatMap DOp.flat
              let sd := flatPre.foldl (fun acc x => match x with | .subDec ids => acc ++ ids | _ => acc) []
              let pd := flatPre.foldl (fun acc x => match x with | .pubDec ids => acc ++ ids | _ => acc) []
              let v := judgeTrace before groups after (allForeign h) sd pd outs app t
              if v != "ok" then return v
            | _ => return "violated:shape"
    | _ => pure ()
    match d with
    | .seq (.plugin _) => pure ()
    | _ => seen := seen ++ [d]
  return "ok"

def special (obs : List String) : Option String :=
  match obs with
  | [o] =>
    if o.startsWith "crash(" || o.startsWith "panic(" then some "violated:crash"
    else if o.startsWith "timeout" || o.startsWith "run-returned" || o.startsWith "runhandlers-error" then some "violated:not_processed"
    else none
  | _ => none

def judge (toks obs : List String) : String :=
  if obs.isEmpty then "bad-op" else
  match opsOf toks with
  | none => "bad-op"
  | some (dops, names) =>
    if obs == ["none"] then monitor names dops []
    else match special obs with
      | some v => v
      | none => monitor names dops obs

def handle (line : String) : String :=
  match line.splitOn " " with
  | "M" :: "chain" :: toks => model toks
  | "P" :: "chain" :: rest => judge (rest.takeWhile (· != "##")) ((rest.dropWhile (· != "##")).drop 1)
  | "M" :: "cchain" :: rest =>
    modelCheck (rest.takeWhile (· != "@@")) (" ".intercalate ((rest.dropWhile (· != "@@")).drop 1))
  | "P" :: "cchain" :: rest =>
    let body := rest.takeWhile (· != "##")
    judge (body.takeWhile (· != "@@")) ((body.dropWhile (· != "@@")).drop 1)
  | _ => "bad-op"

def main : IO Unit := driverMain handle
