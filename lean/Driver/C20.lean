import WmModel.Basic
import WmModel.Decor
open Wm Wm.Decor

/-! Line-protocol driver of C20: `M <req>` = observation predicted by the model `WmModel/Decor.lean`,
    `P <req> ## <obs>` = the property's statement evaluated on the implementation's observation
    (written apart from the model functions: it never calls `publish`, `applyDelay`, `deliver`, `routerRun`). -/

namespace C20

def strHex (s : String) : String := hexEnc s.toUTF8.toList

def hexStr? (h : String) : Option String := do
  let bs ← hexDec h
  String.fromUTF8? ⟨bs.toArray⟩

def sepOr (xs : List String) (sep : String) : String :=
  if xs.isEmpty then "-" else sep.intercalate xs

def splitOr (s sep : String) : List String := if s = "-" then [] else s.splitOn sep

def insertSorted (x : String) : List String → List String
  | [] => [x]
  | y :: r => if x < y then x :: y :: r else y :: insertSorted x r

def sortStr (xs : List String) : List String := xs.foldr insertSorted []

/-- sorted `key=count` lines of a list of keys -/
def countLines (keys : List String) : String :=
  let sorted := sortStr keys
  let rec go : List String → Option (String × Nat) → List String → List String
    | [], none, acc => acc.reverse
    | [], some (k, n), acc => (s!"{k}={n}" :: acc).reverse
    | x :: r, none, acc => go r (some (x, 1)) acc
    | x :: r, some (k, n), acc => if x = k then go r (some (k, n + 1)) acc else go r (some (x, 1)) (s!"{k}={n}" :: acc)
  sepOr (go sorted none []) ","

def boolStr (b : Bool) : String := if b then "true" else "false"

def pubKey (o : PubObs) : String :=
  s!"pub\{handler_name={strHex o.handler},publisher_name={strHex o.publisher},success={strHex (boolStr o.success)}}"
def subKey (o : SubObs) : String :=
  s!"sub\{acked={strHex (if o.acked then "acked" else "nacked")},handler_name={strHex o.handler},subscriber_name={strHex o.subscriber}}"
def hdlKey (o : HObs) : String :=
  s!"hdl\{handler_name={strHex o.handler},success={strHex (boolStr o.success)}}"

/-! ### request parsing -/

inductive GenSpec | absent | fail | zero | for_ (d : Int) | until_ (off zone : Int) | untilAbs (sec zone : Int) | odd (d : Int)
  deriving Repr, BEq

inductive LSpec | T (tag : String) | M | D (allow : Bool) (g : GenSpec)
  deriving Repr, BEq

/-- `<off>` or `<off>z<zone seconds east of UTC>` -/
def parseOffZone (s : String) : Option (Int × Int) :=
  match s.splitOn "z" with
  | [a] => a.toInt?.map (fun o => (o, 0))
  | [a, b] => do
    let o ← a.toInt?
    let z ← b.toInt?
    if z = 0 then none else pure (o, z)
  | _ => none

def parseGen (s : String) : Option GenSpec :=
  match s.toList with
  | ['n'] => some .absent
  | ['e'] => some .fail
  | ['z'] => some .zero
  | 'f' :: r => (String.ofList r).toInt?.map .for_
  | 'u' :: r => (parseOffZone (String.ofList r)).map (fun oz => .until_ oz.1 oz.2)
  | 'U' :: r => (parseOffZone (String.ofList r)).map (fun oz => .untilAbs oz.1 oz.2)
  | 'o' :: r => (String.ofList r).toInt?.map .odd
  | _ => none

def parseLayer (s : String) : Option LSpec :=
  match s.toList with
  | ['M'] => some .M
  | 'T' :: r => if r.length = 1 then some (.T (String.ofList r)) else none
  | 'D' :: a :: r =>
    if a = '0' ∨ a = '1' then (parseGen (String.ofList r)).map (.D (a = '1')) else none
  | _ => none

def parseStack (s : String) : Option (List LSpec) := (splitOr s ",").mapM parseLayer

def parseBits (s : String) : Option (List Bool) :=
  if s = "-" then some [] else s.toList.mapM (fun c => if c = '0' then some false else if c = '1' then some true else none)

def parseBit (s : String) : Option Bool := if s = "0" then some false else if s = "1" then some true else none

/-- `-` absent, `x<hex>` raw, `d<ns>`, `t<sec>` -/
def parseVal (s : String) : Option (Option Val) :=
  match s.toList with
  | ['-'] => some none
  | 'x' :: r => (hexStr? (String.ofList r)).map (fun v => some (.raw v))
  | 'd' :: r => (String.ofList r).toInt?.map (fun n => some (.dur n))
  | 't' :: r =>
    match (String.ofList r).splitOn "@" with
    | [a] => a.toInt?.map (fun n => some (.time n))
    | [a, z] => do
      let n ← a.toInt?
      let z ← z.toInt?
      if z = 0 then none else pure (some (.timeIn n z))
    | _ => none
  | _ => none

def valTok : Option Val → String
  | none => "-"
  | some (.raw s) => "x" ++ strHex s
  | some (.dur n) => s!"d{n}"
  | some (.time n) => s!"t{n}"
  | some (.timeIn n z) => s!"t{n}@{z}"

inductive CtxSpec | none | zero | for_ (d : Int) | until_ (off zone : Int) | untilAbs (sec zone : Int)
  deriving Repr, BEq

def parseCtx (s : String) : Option CtxSpec :=
  match s.toList with
  | ['-'] => some .none
  | ['z'] => some .zero
  | 'f' :: r => (String.ofList r).toInt?.map .for_
  | 'u' :: r => (parseOffZone (String.ofList r)).map (fun oz => .until_ oz.1 oz.2)
  | 'U' :: r => (parseOffZone (String.ofList r)).map (fun oz => .untilAbs oz.1 oz.2)
  | _ => Option.none

structure MSpec where
  pfor : Option Val
  puntil : Option Val
  ctx : CtxSpec
  deriving Repr

def parseMsg (s : String) : Option MSpec :=
  match s.splitOn "/" with
  | [a, b, c] => do
    let f ← parseVal a
    let u ← parseVal b
    let x ← parseCtx c
    pure ⟨f, u, x⟩
  | _ => none

inductive OpSpec | close | pub (topic : Nat) (ids : List Nat)
  deriving Repr

def parseOp (s : String) : Option OpSpec :=
  if s = "c" then some .close else
  match s.toList with
  | 'p' :: r =>
    match (String.ofList r).splitOn ":" with
    | [t, ids] => do
      let t ← t.toNat?
      let ids ← (if ids = "" then some [] else (ids.splitOn ".").mapM String.toNat?)
      pure (.pub t ids)
    | _ => none
  | _ => none

/-- recorded section: `key=value` tokens -/
def recGet (rec : List String) (key : String) : Option String :=
  rec.findSome? (fun t => match t.splitOn "=" with
    | [k, v] => if k = key then some v else none
    | _ => none)

structure Win where
  now : Int
  t0 : Int
  t1 : Int

def recWin (rec : List String) (key : String) : Option Win := do
  let v ← recGet rec key
  match v.splitOn ":" with
  | [a, b, c] => do
    let a ← a.toInt?
    let b ← b.toInt?
    let c ← c.toInt?
    pure ⟨a, b, c⟩
  | _ => none

def sec1 : Int := 1000000000

/-- every recorded clock reading lies in the window it was measured in (RFC 3339 drops < 1 s; 1 s slack) -/
def windowsOk (rec : List String) : Bool :=
  rec.all (fun t => match t.splitOn "=" with
    | [k, _] =>
      if k.startsWith "m" || k.startsWith "g" then
        match recWin rec k with
        | some w => decide (w.t0 - 2 * sec1 ≤ w.now) && decide (w.now ≤ w.t1 + sec1)
        | none => false
      else true
    | _ => false)

def rawOf : Val → String
  | .raw s => s
  | _ => ""

def tagFn (tag : String) : MD → MD := fun md => mset md "path" (.raw (rawOf (mget md "path") ++ tag))

def nowOf (rec : List String) (key : String) : Int := ((recWin rec key).map (·.now)).getD 0

def mkGen (rec : List String) (base : Int) (li : Nat) : GenSpec → Option (String → Msg → Option Delay)
  | .absent => none
  | .fail => some (fun _ _ => none)
  | .zero => some (fun _ _ => some Delay.zero)
  | .for_ d => some (fun _ m => some (Delay.for (nowOf rec s!"g{li}.{m.id}") d))
  | .until_ off zone => some (fun _ m => some (Delay.untilIn (nowOf rec s!"g{li}.{m.id}") (base + off) zone))
  | .untilAbs sec zone => some (fun _ m => some (Delay.untilIn (nowOf rec s!"g{li}.{m.id}") (sec * 1000000000) zone))
  | .odd d => some (fun _ m => if m.id % 2 = 1 then none else some (Delay.for (nowOf rec s!"g{li}.{m.id}") d))

def mkPubStack (rec : List String) (base : Int) : Nat → List LSpec → List PubLayer
  | _, [] => []
  | i, .T tag :: r => .transform (tagFn tag) :: mkPubStack rec base (i + 1) r
  | i, .M :: r => .metrics :: mkPubStack rec base (i + 1) r
  | i, .D a g :: r => .delay ⟨mkGen rec base i g, a⟩ :: mkPubStack rec base (i + 1) r

def mkSubStack : List LSpec → Option (List SubLayer)
  | [] => some []
  | .T tag :: r => (mkSubStack r).map (fun x => .transform (tagFn tag) :: x)
  | .M :: r => (mkSubStack r).map (fun x => .metrics :: x)
  | .D _ _ :: _ => none

def mkMsg (rec : List String) (base : Int) (id : Nat) (s : MSpec) : Msg :=
  let md0 : MD := [("k", .raw "v")]
  let md1 := match s.pfor with | some v => mset md0 forKey v | none => md0
  let md2 := match s.puntil with | some v => mset md1 untilKey v | none => md1
  let cd := match s.ctx with
    | .none => none
    | .zero => some Delay.zero
    | .for_ d => some (Delay.for (nowOf rec s!"m{id}") d)
    | .until_ off zone => some (Delay.untilIn (nowOf rec s!"m{id}") (base + off) zone)
    | .untilAbs sec zone => some (Delay.untilIn (nowOf rec s!"m{id}") (sec * 1000000000) zone)
  { id := id, md := md2, ctxDelay := cd }

def mfind : MD → String → Option Val
  | [], _ => none
  | (k, v) :: r, x => if k = x then some v else mfind r x

def msgTok (m : Msg) : String :=
  let others := m.md.filter (fun kv => kv.1 ≠ forKey ∧ kv.1 ≠ untilKey)
  let rest := sortStr (others.map (fun kv => strHex kv.1 ++ "=" ++ strHex (rawOf kv.2)))
  s!"{m.id}:{valTok (mfind m.md forKey)}:{valTok (mfind m.md untilKey)}:{sepOr rest "&"}"

def errTok : Option Err → String
  | none => "ok"
  | some .noDelay => "e:nodelay"
  | some .gen => "e:gen"
  | some .inner => "e:inner"
  | some .close => "e:close"
  | some .sub => "e:sub"

def callTok (c : InnerCall) : String :=
  strHex c.topic ++ "[" ++ ",".intercalate (c.msgs.map msgTok) ++ "]"

def writeBack (store : List Msg) (ms : List Msg) : List Msg :=
  store.map (fun s => (ms.find? (fun m => m.id = s.id)).getD s)

structure PubReq where
  stack : List LSpec
  script : List Bool
  closeErr : Bool
  msgs : List MSpec
  ops : List OpSpec
  rcd : List String
  inner : String
  base : Int

def parsePubReq (f : List String) (rec : List String) : Option PubReq :=
  match f with
  | [st, sc, ce, ms, ops] => do
    let st ← parseStack st
    let sc ← parseBits sc
    let ce ← parseBit ce
    let ms ← (splitOr ms ";").mapM parseMsg
    let ops ← (splitOr ops ";").mapM parseOp
    let inner ← (recGet rec "inner").bind hexStr?
    let base ← (recGet rec "base").bind String.toInt?
    -- ids must exist
    if ops.all (fun o => match o with | .close => true | .pub _ ids => ids.all (· < ms.length)) then
      pure ⟨st, sc, ce, ms, ops, rec, inner, base⟩
    else none
  | _ => none

def hasM (st : List LSpec) : Bool := st.any (· == .M)

/-- the harness' probe sits above the outermost metrics decorator: it sees a call iff no delay layer above it refused.
    The model computes it by running the layers above the first `M` only. -/
def splitAtM : List PubLayer → List PubLayer × List PubLayer
  | [] => ([], [])
  | .metrics :: r => ([], .metrics :: r)
  | l :: r => let (a, b) := splitAtM r; (l :: a, b)

def modelPub (q : PubReq) : String := Id.run do
  if !windowsOk q.rcd then return "clock-window"
  let stack := mkPubStack q.rcd q.base 0 q.stack
  let mut store : List Msg := (List.range q.msgs.length).zip q.msgs |>.map (fun (i, s) => mkMsg q.rcd q.base i s)
  let mut w : PWorld := { script := q.script }
  let mut res : List String := []
  -- probe bookkeeping (mirrors the harness' own counting layer)
  let (above, fromM) := splitAtM stack
  let mut pOk := 0
  let mut pErr := 0
  let mut pEmpty := 0
  let mut pRepub := 0
  let mut seen : List Nat := []
  for op in q.ops do
    match op with
    | .close =>
      let (e, w') := closePub stack q.closeErr w
      w := w'
      res := res ++ [errTok e ++ "/0"]
    | .pub t ids =>
      let batch := ids.filterMap (fun id => store.find? (·.id = id))
      let before := w.calls.length
      let (e, ms', w') := publish q.inner stack s!"topic{t}" batch w
      -- does the call reach the probe?  run the layers above it over a publisher that records the call
      if hasM q.stack then
        let (ea, _, wa) := publish q.inner above s!"topic{t}" batch { script := [] }
        if ea.isNone ∧ wa.calls.length = 1 then
          if e.isNone then pOk := pOk + 1 else pErr := pErr + 1
          if ids.isEmpty then pEmpty := pEmpty + 1
          else if seen.contains (ids.headD 0) then pRepub := pRepub + 1
          seen := seen ++ ids
      let _ := fromM
      store := writeBack store ms'
      w := w'
      res := res ++ [s!"{errTok e}/{w.calls.length - before}"]
  let probe := if hasM q.stack then s!"{pOk}/{pErr}/{pEmpty}/{pRepub}" else "-"
  let gens := sepOr (w.gens.map toString) ","
  return s!"{sepOr res ";"}|inner={sepOr (w.calls.map callTok) ";"}|gen={gens}|probe={probe}|metrics={countLines (w.obs.map pubKey)}|closes={w.closes}"

/-! ### sub -/

structure SubReq where
  stack : List LSpec
  subs : List Bool         -- one entry per Subscribe call: refused by the innermost subscriber? (at most one accepted)
  closes : List Bool       -- one entry per Close call: does the innermost subscriber's Close fail?
  n : Nat
  script : List Char
  reads : Nat
  inner : String

def parseSubReq (f : List String) (rec : List String) : Option SubReq :=
  match f with
  | [st, se, ce, n, sc, rd] => do
    let st ← parseStack st
    let se ← parseBits se
    let ce ← parseBits ce
    let n ← n.toNat?
    let sc := if sc = "-" then [] else sc.toList
    let rd ← rd.toNat?
    let inner ← (recGet rec "inner").bind hexStr?
    if sc.all (fun c => c = 'a' ∨ c = 'n' ∨ c = 'u' ∨ c = 'A' ∨ c = 'N' ∨ c = 'd' ∨ c = 'e') ∧
        -- drained messages (d / e) only at the tail, and then everything before them is read
        (let isD := fun (c : Char) => c = 'd' ∨ c = 'e'
         let pre := sc.takeWhile (fun c => !(decide (isD c)))
         (sc.drop pre.length).all (fun c => decide (isD c)) ∧ (pre.length = sc.length ∨ rd = pre.length) ∧ rd ≤ pre.length) ∧ sc.length = n ∧ rd ≤ n ∧ 1 ≤ ce.length ∧ ce.length ≤ 3 ∧ 1 ≤ se.length ∧ se.length ≤ 3 ∧ (se.filter (!·)).length ≤ 1 ∧ st.all (fun l => match l with | .D _ _ => false | _ => true) then
      pure ⟨st, se, ce, n, sc, rd, inner⟩
    else none
  | _ => none

/-- what happens to message `id`, in time order.  a / n: settled while subscribed; A / N: settled after the subscription
    context was cancelled; u: acked after Close (which cancels the message contexts as well).  `late = false`: the
    events up to snapshot A (before the cancellation). -/
def eventsOf (script : List Char) (late : Bool) (id : Nat) : List WEv :=
  match script[id]? with
  | some 'a' => [.ack] ++ (if late then [.cancel] else [])
  | some 'n' => [.nack] ++ (if late then [.cancel] else [])
  | some 'A' => if late then [.cancel, .ack] else []
  | some 'N' => if late then [.cancel, .nack] else []
  | some 'u' => if late then [.cancel, .ack] else []
  | some 'd' => if late then [.ack, .cancel] else []     -- handed out and acked while the wrapped Close drains
  | some 'e' => if late then [.nack, .cancel] else []
  | _ => []

def settleOf (script : List Char) (late : Bool) (id : Nat) : Settle :=
  settleOfRun (watcherRun (eventsOf script late id))

def closeToks (rs : List (Option Err)) (n : Nat) : String :=
  ",".intercalate (rs.map errTok) ++ s!"/{n}"

def modelSub (q : SubReq) : String :=
  match mkSubStack q.stack with
  | none => "bad-op"
  | some stack =>
    let cl := closeSubSeq stack q.closes 0
    let closeTok := closeToks cl.1 cl.2
    let subTok := ",".intercalate ((subscribeSeq stack q.subs).map errTok)
    if (subscribeSeq stack q.subs).all (·.isSome) then s!"sub={subTok}|recv=-|A=-|close={closeTok}|chan=-|drain=-|B=-" else
    let msgs : List Msg := (List.range q.n).map (fun i => { id := i, md := [("k", .raw "v")] })
    let nDrain := (q.script.filter (fun c => c = 'd' ∨ c = 'e')).length
    let (got, ws0) := subscribeRun q.inner stack (msgs.take (q.n - nDrain)) q.reads
    let (gotD, wsD) := closeDrain q.inner stack (msgs.drop (q.n - nDrain))
    let ws := ws0 ++ wsD
    let drainToks := gotD.map (fun m =>
      let st := match settleOf q.script true m.id with | .ack => "a" | .nack => "n" | .none => "-"
      s!"{m.id}:{strHex (rawOf (mget m.md "path"))}:s:{st}")
    let recv := got.map (fun m =>
      let st := match settleOf q.script false m.id with | .ack => "a" | .nack => "n" | .none => "-"
      s!"{m.id}:{strHex (rawOf (mget m.md "path"))}:s:{st}")
    let a := countLines ((subCounts (settleOf q.script false) ws).map subKey)
    let b := countLines ((subCounts (settleOf q.script true) ws).map subKey)
    s!"sub={subTok}|recv={sepOr recv ","}|A={a}|close={closeTok}|chan=closed|drain={sepOr drainToks ","}|B={b}"

/-! ### router -/

def parseOutcome (s : String) : Option Outcome :=
  match s.toList with
  | ['e'] => some .err
  | ['p'] => some .panic
  | 's' :: r => (String.ofList r).toNat?.map .ok
  | 't' :: r =>       -- t<pre>-<post>: pass-through of the consumed message between pre / post fresh ones
    match (String.ofList r).splitOn "-" with
    | [a, b] => do
      let a ← a.toNat?
      let b ← b.toNat?
      pure (.pass a b)
    | _ => none
  | _ => none

structure RtReq where
  kp : Nat
  ks : Nat
  km : Nat
  script : List Bool
  outs : List Outcome
  pub : String
  sub : String

def parseRtReq (f : List String) (rec : List String) : Option RtReq :=
  match f with
  | [kp, ks, km, sc, os] => do
    let kp ← kp.toNat?
    let ks ← ks.toNat?
    let km ← km.toNat?
    let sc ← parseBits sc
    let os ← (splitOr os ",").mapM parseOutcome
    let p ← (recGet rec "pub").bind hexStr?
    let s ← (recGet rec "sub").bind hexStr?
    pure ⟨kp, ks, km, sc, os, p, s⟩
  | _ => none

def modelRt (q : RtReq) : String :=
  let w := routerRun "h" q.pub q.sub q.kp q.ks q.km 0 q.outs { pw := { script := q.script } }
  let settle := String.ofList (w.settles.map (fun s => match s with | .ack => 'a' | .nack => 'n' | .none => '-'))
  -- result of each innermost Publish call: the script, as far as it was consumed
  let calls := (List.range w.pw.calls.length).zip w.pw.calls |>.map (fun (i, c) =>
    (if q.script.getD i false then "e:inner" else "ok") ++ s!":{c.msgs.length}")
  let keys := w.hobs.map hdlKey ++ w.pw.obs.map pubKey ++ w.sobs.map subKey
  s!"settle={if settle.isEmpty then "-" else settle}|pub={sepOr calls ";"}|inv={w.settles.length}|metrics={countLines keys}|close=ok"

/-! ### the property monitor (independent of the model functions) -/

def section? (obs : List String) (name : String) : Option String :=
  obs.findSome? (fun s => if s.startsWith (name ++ "=") then some (s.drop (name.length + 1)).toString else none)

/-- metrics lines → (family, labels as `k=hexv`, count) -/
def parseMetrics (s : String) : Option (List (String × List String × Nat)) :=
  if s = "-" then some [] else
  -- lines are separated by "," but label lists contain "," as well: split on "}" first
  let parts := (s.splitOn "}=")
  -- "fam{l1,l2" , "n,fam{l1,l2", "n"
  let rec go : List String → String → List (String × List String × Nat) → Option (List (String × List String × Nat))
    | [], _, _ => none
    | [last], cur, acc =>
      match cur.splitOn "{", last.toNat? with
      | [fam, ls], some n => some (acc ++ [(fam, ls.splitOn ",", n)])
      | _, _ => none
    | nxt :: rest, cur, acc =>
      match cur.splitOn "{", nxt.splitOn "," with
      | [fam, ls], n :: more =>
        match n.toNat? with
        | some n => go rest (",".intercalate more) (acc ++ [(fam, ls.splitOn ",", n)])
        | none => none
      | _, _ => none
  match parts with
  | [] => none
  | first :: rest => if rest.isEmpty then none else go rest first []

def metricCount (ms : List (String × List String × Nat)) (fam : String) (label : String) : Nat :=
  (ms.filter (fun m => m.1 = fam ∧ m.2.1.contains label)).foldl (fun a m => a + m.2.2) 0

def famTotal (ms : List (String × List String × Nat)) (fam : String) : Nat :=
  (ms.filter (fun m => m.1 = fam)).foldl (fun a m => a + m.2.2) 0

def lblTrue := "success=" ++ strHex "true"
def lblFalse := "success=" ++ strHex "false"
def lblAcked := "acked=" ++ strHex "acked"
def lblNacked := "acked=" ++ strHex "nacked"

/-- delay layers of a stack, outermost first, with their index -/
def delayLayers : Nat → List LSpec → List (Nat × Bool × GenSpec)
  | _, [] => []
  | i, .D a g :: r => (i, a, g) :: delayLayers (i + 1) r
  | i, _ :: r => delayLayers (i + 1) r

def genOk (g : GenSpec) (id : Nat) : Bool :=
  match g with
  | .absent => false | .fail => false | .zero => true | .for_ _ => true | .until_ _ _ => true | .untilAbs _ _ => true
  | .odd _ => id % 2 = 0

def genPresent (g : GenSpec) : Bool := match g with | .absent => false | _ => true

/-- `until = stamp time + for` up to the second RFC 3339 keeps and the time the call takes:
    with the clock read somewhere in `[t0, t1]`, 1 s slack on both sides -/
def agree (w : Win) (forNs untilSec : Int) : Bool :=
  decide ((w.t0 + forNs) / sec1 - 1 ≤ untilSec) && decide (untilSec ≤ (w.t1 + forNs) / sec1 + 1)

/-- delayed-for and delayed-until of an `Until` delay agree: `for = Time.Sub(until, now)` – the distance, SATURATED at the
    range of `time.Duration` – for a clock reading `now` in the measured window (1 s slack) and the instant anywhere in the
    second RFC 3339 keeps -/
def agreeU (w : Win) (forNs untilSec : Int) : Bool :=
  decide (satDur (untilSec * sec1 - (w.t1 + sec1)) ≤ forNs) && decide (forNs ≤ satDur (untilSec * sec1 + sec1 - (w.t0 - sec1)))

def untilMatches (wantSec : Int) (w : Option Win) (x s : Int) : String :=
  match w with
  | some w =>
    if !agreeU w x s then "agree"                        -- delayed-for and delayed-until describe different delays
    else if s ≠ wantSec then "source" else ""
  | none => "agree"

/-- does the observed stamp `(f, u)` match a delay built by For/Until/zero value?  "" = yes; "source" = the component
    that the source fixes exactly (For: the duration, Until: the instant) is not there; "agree" = it is, but
    delayed-for and delayed-until do not agree -/
def stampMatches (kind : CtxSpec) (base : Int) (w : Option Win) (f u : Option Val) : String :=
  -- the INSTANT the stamped delayed-until denotes (its rendering, `Z` or `+hh:mm`, is not the property's business)
  match kind, f, u.bind Val.instantSec with
  | .zero, some (.dur 0), some s => if s = zeroTimeSec then "" else "source"
  | .for_ d, some (.dur x), some s =>
    if x ≠ d then "source" else (match w with | some w => if agree w x s then "" else "agree" | none => "agree")
  | .until_ off _, some (.dur x), some s => untilMatches ((base + off) / sec1) w x s
  | .untilAbs a _, some (.dur x), some s => untilMatches a w x s
  | _, _, _ => "source"

def genAsCtx : GenSpec → CtxSpec
  | .zero => .zero | .for_ d => .for_ d | .until_ o z => .until_ o z | .untilAbs a z => .untilAbs a z | .odd d => .for_ d | _ => .none

def nonEmpty (v : Option Val) : Bool := match v with | none => false | some (.raw "") => false | some _ => true

/-- parse `id:for:until:rest` -/
def parseMsgTok (s : String) : Option (Nat × Option Val × Option Val × String) :=
  match s.splitOn ":" with
  | [i, f, u, r] => do
    let i ← i.toNat?
    let f ← parseVal f
    let u ← parseVal u
    pure (i, f, u, r)
  | _ => none

def parseCall (s : String) : Option (String × List (Nat × Option Val × Option Val × String)) :=
  match s.splitOn "[" with
  | [t, r] =>
    if r.endsWith "]" then do
      let body := (r.dropEnd 1).toString
      let ms ← (if body.isEmpty then some [] else (body.splitOn ",").mapM parseMsgTok)
      let t ← hexStr? t
      pure (t, ms)
    else none
  | _ => none

def monitorPub (q : PubReq) (obs : String) : String := Id.run do
  let secs := obs.splitOn "|"
  let some ress := secs.head? | return "bad-op"
  let some innerS := section? secs "inner" | return "bad-op"
  let some probeS := section? secs "probe" | return "bad-op"
  let some metricsS := section? secs "metrics" | return "bad-op"
  let some closesS := section? secs "closes" | return "bad-op"
  let ress := splitOr ress ";"
  if ress.length ≠ q.ops.length then return "violated:result_per_call"
  let some calls := (splitOr innerS ";").mapM parseCall | return "bad-op"
  let dls := delayLayers 0 q.stack
  let tags := q.stack.filterMap (fun l => match l with | .T t => some t | _ => none)
  let allIds := q.ops.flatMap (fun o => match o with | .pub _ ids => ids | .close => [])
  let republish := allIds.any (fun i => (allIds.filter (· = i)).length > 1)
  let mut stamped : List Nat := (List.range q.msgs.length).filter (fun i => nonEmpty ((q.msgs[i]?).bind (·.pfor)))
  let mut ci := 0          -- next inner call
  let mut nclose := 0
  for (op, r) in q.ops.zip ress do
    let (res, nc) ← match r.splitOn "/" with
      | [a, b] => match b.toNat? with
        | some n => pure (a, n)
        | none => return "bad-op"
      | _ => return "bad-op"
    match op with
    | .close =>
      nclose := nclose + 1
      if nc ≠ 0 then return "violated:close_publishes"
      if res ≠ (if q.closeErr then "e:close" else "ok") then return "violated:close_result_passes"
    | .pub t ids =>
      -- which error, if any, must the delay layers raise (layers outermost first, messages in order)?
      let mut want : Option String := none
      for (_, allow, g) in dls do
        if want.isNone then
          for id in ids do
            if want.isNone then
              let hasCtx := match (q.msgs[id]?).map (·.ctx) with | some .none => false | some _ => true | none => false
              if stamped.contains id then pure ()
              else if hasCtx then stamped := id :: stamped
              else if genPresent g then
                if genOk g id then stamped := id :: stamped else want := some "e:gen"
              else if allow then pure ()
              else want := some "e:nodelay"
      match want with
      | some e =>
        -- no delay available: nothing is published
        if nc ≠ 0 then return "violated:published_without_delay"
        if res ≠ e then return "violated:delay_error_expected"
      | none =>
        -- forwarded in exactly one call, same topic, same messages, same order; the inner result comes back
        if nc ≠ 1 then return "violated:batch_one_call"
        let some (topic, ms) := calls[ci]? | return "violated:batch_one_call"
        if res ≠ (if q.script.getD ci false then "e:inner" else "ok") then return "violated:inner_result_passes"
        ci := ci + 1
        if topic ≠ s!"topic{t}" then return "violated:topic_passes"
        if ms.map (·.1) ≠ ids then return "violated:messages_in_order"
        for (id, f, u, rest) in ms do
          let some spec := q.msgs[id]? | return "bad-op"
          -- the delay stamp, by precedence
          if nonEmpty spec.pfor then
            if f ≠ spec.pfor ∨ u ≠ spec.puntil then return "violated:delay_metadata_untouched"
          else if dls.isEmpty then
            if f ≠ spec.pfor ∨ u ≠ spec.puntil then return "violated:no_delay_layer_untouched"
          else if spec.ctx != .none then
            match stampMatches spec.ctx q.base (recWin q.rcd s!"m{id}") f u with
            | "" => pure ()
            | "agree" => return "violated:delay_for_until_agree"
            | _ => return "violated:delay_context_precedence"
          else
            match dls.find? (fun d => genPresent d.2.2) with
            | some (li, _, g) =>
              match stampMatches (genAsCtx g) q.base (recWin q.rcd s!"g{li}.{id}") f u with
              | "" => pure ()
              | "agree" => return "violated:delay_for_until_agree"
              | _ => return "violated:delay_generator_precedence"
            | none =>
              if f ≠ spec.pfor ∨ u ≠ spec.puntil then return "violated:allow_no_delay_untouched"
          -- transforms: once each, outermost first; other metadata untouched (checked when no object is published twice)
          if !republish then
            let path := String.join tags
            let wantRest := sortStr (["6b=76"] ++ (if path.isEmpty then [] else [strHex "path" ++ "=" ++ strHex path]))
            if rest ≠ sepOr wantRest "&" then return "violated:transform_once_in_order"
  if ci ≠ calls.length then return "violated:extra_inner_call"
  if closesS ≠ toString nclose then return "violated:close_once"
  -- metrics: every Publish call that entered the (outermost) metrics decorator is counted once, success iff it returned nil
  let some ms := parseMetrics metricsS | return "bad-op"
  if hasM q.stack then
    match probeS.splitOn "/" with
    | [a, b, _, _] =>
      let some a := a.toNat? | return "bad-op"
      let some b := b.toNat? | return "bad-op"
      if ms.any (fun m => m.1 ≠ "pub") then return "violated:metrics_foreign_series"
      if metricCount ms "pub" lblTrue ≠ a ∨ metricCount ms "pub" lblFalse ≠ b ∨ famTotal ms "pub" ≠ a + b then
        return "violated:metrics_publish_once"
    | _ => return "bad-op"
  else if !ms.isEmpty then return "violated:metrics_foreign_series"
  return "ok"

def monitorSub (q : SubReq) (obs : String) : String := Id.run do
  let secs := obs.splitOn "|"
  let some subS := section? secs "sub" | return "bad-op"
  let some recvS := section? secs "recv" | return "bad-op"
  let some aS := section? secs "A" | return "bad-op"
  let some bS := section? secs "B" | return "bad-op"
  let some closeS := section? secs "close" | return "bad-op"
  let some chanS := section? secs "chan" | return "bad-op"
  let some drainS := section? secs "drain" | return "bad-op"
  -- every Close call reaches the wrapped subscriber once and returns that call's own result
  let wantClose := ",".intercalate (q.closes.map (fun b => if b then "e:close" else "ok")) ++ s!"/{q.closes.length}"
  -- every call returns (a call the harness' watchdog had to give up on is reported as `stuck`)
  if (subS.splitOn ",").contains "stuck" then return "violated:subscribe_did_not_return"
  if (((closeS.splitOn "/").headD "").splitOn ",").contains "stuck" then return "violated:close_did_not_return"
  -- every Subscribe call returns the wrapped subscriber's own answer for that call
  if subS ≠ ",".intercalate (q.subs.map (fun b => if b then "e:sub" else "ok")) then return "violated:subscribe_error_passes"
  if q.subs.all (·) then
    if recvS ≠ "-" ∨ drainS ≠ "-" then return "violated:subscribe_error_passes"
    if aS ≠ "-" ∨ bS ≠ "-" then return "violated:metrics_subscribe_once"
    if closeS ≠ wantClose then return "violated:close_each_call_passes"
    return "ok"
  if closeS ≠ wantClose then return "violated:close_each_call_passes"
  if chanS ≠ "closed" then return "violated:close_closes_output"
  let recv := splitOr recvS ","
  if recv.length ≠ q.reads then return "violated:every_message_once"
  -- transforms act innermost first
  let path := String.join (q.stack.filterMap (fun l => match l with | .T t => some t | _ => none)).reverse
  let mut na := 0
  let mut nn := 0
  let mut nu := 0
  let mut nlN := 0
  for (i, r) in (List.range recv.length).zip recv do
    match r.splitOn ":" with
    | [id, p, same, st] =>
      if id ≠ toString i then return "violated:messages_in_order"
      if p ≠ strHex path then return "violated:transform_once_in_order"
      if same ≠ "s" then return "violated:same_object"
      let act := q.script.getD i 'u'
      let want := if act = 'a' then "a" else if act = 'n' then "n" else "-"
      if st ≠ want then return "violated:settle_reaches_inner"
      if act = 'a' then na := na + 1 else if act = 'n' then nn := nn + 1
      else if act = 'N' then nlN := nlN + 1 else nu := nu + 1     -- late acks: u (after Close) and A (after cancel)
    | _ => return "bad-op"
  -- every message the wrapped subscriber handed out while its Close was running (the consumer still reading) reaches
  -- the consumer: same object, transformed once, in order, and settling it settles the wrapped subscriber's message
  let nDrain := (q.script.filter (fun c => c = 'd' ∨ c = 'e')).length
  let drained := splitOr drainS ","
  if drained.length ≠ nDrain then return "violated:every_message_once"
  for (j, r) in (List.range drained.length).zip drained do
    match r.splitOn ":" with
    | [id, p, same, st] =>
      let i := q.n - nDrain + j
      if id ≠ toString i then return "violated:messages_in_order"
      if p ≠ strHex path then return "violated:transform_once_in_order"
      if same ≠ "s" then return "violated:same_object"
      let act := q.script.getD i 'd'
      if st ≠ (if act = 'e' then "n" else "a") then return "violated:settle_reaches_inner"
      if act = 'e' then nlN := nlN + 1 else nu := nu + 1
    | _ => return "bad-op"
  let some ma := parseMetrics aS | return "bad-op"
  let some mb := parseMetrics bS | return "bad-op"
  if q.stack.any (· == .M) then
    if (ma ++ mb).any (fun m => m.1 ≠ "sub") then return "violated:metrics_foreign_series"
    if metricCount ma "sub" lblAcked ≠ na ∨ metricCount ma "sub" lblNacked ≠ nn ∨ famTotal ma "sub" ≠ na + nn then
      return "violated:metrics_subscribe_once"
    -- at the end every received message is settled – some while subscribed, some after the subscription context was
    -- cancelled or the subscriber closed – and each is counted once with the label of its settlement
    if metricCount mb "sub" lblAcked ≠ na + nu ∨ metricCount mb "sub" lblNacked ≠ nn + nlN ∨ famTotal mb "sub" ≠ na + nn + nu + nlN then
      return "violated:metrics_subscribe_once"
  else if !(ma ++ mb).isEmpty then return "violated:metrics_foreign_series"
  if secs.length ≠ 7 then return "violated:liveness"     -- a quiesce-timeout marker and nothing more specific
  return "ok"

def countChar (s : String) (c : Char) : Nat := (s.toList.filter (· = c)).length

def monitorRt (q : RtReq) (obs : String) : String := Id.run do
  let secs := obs.splitOn "|"
  let some settleS := section? secs "settle" | return "bad-op"
  let some pubS := section? secs "pub" | return "bad-op"
  let some invS := section? secs "inv" | return "bad-op"
  let some metricsS := section? secs "metrics" | return "bad-op"
  let some closeS := section? secs "close" | return "bad-op"
  if secs.length ≠ 5 ∨ closeS ≠ "ok" then return "violated:liveness"
  let settle := if settleS = "-" then "" else settleS
  if settle.length ≠ q.outs.length ∨ settle.toList.any (fun c => c ≠ 'a' ∧ c ≠ 'n') then return "violated:liveness"
  let some inv := invS.toNat? | return "bad-op"
  let some ms := parseMetrics metricsS | return "bad-op"
  let calls := splitOr pubS ";"
  let pOk := (calls.filter (·.startsWith "ok:")).length
  let pErr := (calls.filter (·.startsWith "e:inner:")).length
  let hOk := (q.outs.filter (fun o => match o with | .ok _ => true | .pass _ _ => true | _ => false)).length
  if inv ≠ q.outs.length then return "violated:handler_invocations"
  if q.kp > 0 then
    if metricCount ms "pub" lblTrue ≠ pOk ∨ metricCount ms "pub" lblFalse ≠ pErr ∨ famTotal ms "pub" ≠ calls.length then
      return "violated:metrics_publish_once"
  else if famTotal ms "pub" ≠ 0 then return "violated:metrics_foreign_series"
  if q.ks > 0 then
    if metricCount ms "sub" lblAcked ≠ countChar settle 'a' ∨ metricCount ms "sub" lblNacked ≠ countChar settle 'n'
        ∨ famTotal ms "sub" ≠ settle.length then
      return "violated:metrics_subscribe_once"
  else if famTotal ms "sub" ≠ 0 then return "violated:metrics_foreign_series"
  if ms.any (fun m => m.1 ≠ "pub" ∧ m.1 ≠ "sub" ∧ m.1 ≠ "hdl") then return "violated:metrics_foreign_series"
  -- handler middleware (checked last, so that this rule means: everything else is as the property says): every
  -- invocation is observed exactly ONCE, however often the middleware is registered (km ≥ 1), success iff the handler
  -- returned nil without panicking.  km = 0 (middleware not registered) is outside the property.
  if q.km ≥ 1 then
    if metricCount ms "hdl" lblTrue ≠ hOk ∨ metricCount ms "hdl" lblFalse ≠ inv - hOk ∨ famTotal ms "hdl" ≠ inv then
      return "violated:metrics_handler_once"
  return "ok"

/-! ### chain: a message received through a subscriber stack is handed, same object, to a publisher stack -/

structure ChReq where
  subStack : List LSpec
  pubStack : List LSpec
  script : List Bool
  n : Nat
  sub : String
  pub : String

def parseChReq (f : List String) (rec : List String) : Option ChReq :=
  match f with
  | [ss, ps, sc, n] => do
    let ss ← parseStack ss
    let ps ← parseStack ps
    let sc ← parseBits sc
    let n ← n.toNat?
    let sub ← (recGet rec "sub").bind hexStr?
    let pub ← (recGet rec "pub").bind hexStr?
    let noD := fun (l : LSpec) => match l with | .D _ _ => false | _ => true
    if ss.all noD ∧ ps.all noD then pure ⟨ss, ps, sc, n, sub, pub⟩ else none
  | _ => none

def modelCh (q : ChReq) : String := Id.run do
  let some subStack := mkSubStack q.subStack | return "bad-op"
  let pubStack := mkPubStack [] 0 0 q.pubStack
  let mut w : PWorld := { script := q.script }
  let mut ws : List Watcher := []
  let mut res : List String := []
  let mut pOk := 0
  let mut pErr := 0
  for i in List.range q.n do
    let d := deliver q.sub subStack { id := i, md := [("k", .raw "v")] }
    ws := ws ++ d.2
    let (e, _, w') := publish q.pub pubStack "topic0" [d.1] w
    w := w'
    res := res ++ [errTok e]
    if e.isNone then pOk := pOk + 1 else pErr := pErr + 1
  let probe := if hasM q.pubStack then s!"{pOk}/{pErr}/0/0" else "-"
  let keys := w.obs.map pubKey ++ (subCounts (fun _ => .ack) ws).map subKey
  return s!"{sepOr res ";"}|probe={probe}|metrics={countLines keys}|recv={q.n}"

def monitorCh (q : ChReq) (obs : String) : String := Id.run do
  let secs := obs.splitOn "|"
  let some ress := secs.head? | return "bad-op"
  let some probeS := section? secs "probe" | return "bad-op"
  let some metricsS := section? secs "metrics" | return "bad-op"
  let some recvS := section? secs "recv" | return "bad-op"
  if secs.length ≠ 4 then return "violated:liveness"
  if recvS ≠ toString q.n then return "violated:every_message_once"
  let ress := splitOr ress ";"
  if ress.length ≠ q.n then return "violated:result_per_call"
  for (i, r) in (List.range ress.length).zip ress do
    if r ≠ (if q.script.getD i false then "e:inner" else "ok") then return "violated:inner_result_passes"
  let some ms := parseMetrics metricsS | return "bad-op"
  if ms.any (fun m => m.1 ≠ "pub" ∧ m.1 ≠ "sub") then return "violated:metrics_foreign_series"
  -- every Publish call that entered the metrics publisher decorator is counted once – a message that was only
  -- RECEIVED through a metrics subscriber decorator has not been published before
  if hasM q.pubStack then
    match probeS.splitOn "/" with
    | [a, b, _, _] =>
      let some a := a.toNat? | return "bad-op"
      let some b := b.toNat? | return "bad-op"
      if a + b ≠ q.n then return "violated:batch_one_call"
      if metricCount ms "pub" lblTrue ≠ a ∨ metricCount ms "pub" lblFalse ≠ b ∨ famTotal ms "pub" ≠ a + b then
        return "violated:metrics_publish_once"
    | _ => return "bad-op"
  else if famTotal ms "pub" ≠ 0 then return "violated:metrics_foreign_series"
  if hasM q.subStack then
    if metricCount ms "sub" lblAcked ≠ q.n ∨ famTotal ms "sub" ≠ q.n then return "violated:metrics_subscribe_once"
  else if famTotal ms "sub" ≠ 0 then return "violated:metrics_foreign_series"
  return "ok"

/-! ### overlapping invocations of one Router handler -/

structure RtoReq where
  ks : Nat
  rounds : Nat
  outs : List Outcome
  pub : String
  sub : String

def parseRtoReq (f : List String) (rec : List String) : Option RtoReq :=
  match f with
  | [ks, rd, os] => do
    let ks ← ks.toNat?
    let rd ← rd.toNat?
    let os ← (splitOr os ",").mapM parseOutcome
    let p ← (recGet rec "pub").bind hexStr?
    let s ← (recGet rec "sub").bind hexStr?
    -- no outputs in these scenarios
    if os.all (fun o => o == .ok 0 || o == .err || o == .panic) then pure ⟨ks, rd, os, p, s⟩ else none
  | _ => none

def settleChar : Settle → Char
  | .ack => 'a' | .nack => 'n' | .none => '-'

/-- the invocations share nothing, so the counts are those of the same invocations one after the other -/
def modelRto (q : RtoReq) : String :=
  let all := (List.replicate q.rounds q.outs).flatten
  let w := routerRun "h" q.pub q.sub 0 q.ks 1 0 all {}
  let round := String.ofList ((w.settles.take q.outs.length).map settleChar)
  let keys := w.hobs.map hdlKey ++ w.pw.obs.map pubKey ++ w.sobs.map subKey
  s!"settle={if round.isEmpty then "-" else round}|inv={w.settles.length}|metrics={countLines keys}|close=ok"

def monitorRto (q : RtoReq) (obs : String) : String := Id.run do
  -- a Go `fatal error` (e.g. concurrent map writes) in the child process that ran the scenario
  if obs.startsWith "crashed:" then return "violated:overlapping_invocations_crashed_process"
  let secs := obs.splitOn "|"
  let some settleS := section? secs "settle" | return "bad-op"
  let some invS := section? secs "inv" | return "bad-op"
  let some metricsS := section? secs "metrics" | return "bad-op"
  let some closeS := section? secs "close" | return "bad-op"
  if secs.length ≠ 4 ∨ closeS ≠ "ok" then return "violated:liveness"
  let some inv := invS.toNat? | return "bad-op"
  let some ms := parseMetrics metricsS | return "bad-op"
  let n := q.outs.length
  let total := q.rounds * n
  if inv ≠ total then return "violated:handler_invocations"
  let hOk := q.rounds * (q.outs.filter (· == .ok 0)).length
  -- every message is settled by ITS invocation's outcome, in every round
  let want := String.ofList (q.outs.map (fun o => if o == .ok 0 then 'a' else 'n'))
  if total > 0 ∧ settleS ≠ want then return "violated:settle_by_own_outcome"
  -- every invocation is observed once, with the label of ITS outcome, however the invocations overlap
  if metricCount ms "hdl" lblTrue ≠ hOk ∨ metricCount ms "hdl" lblFalse ≠ total - hOk ∨ famTotal ms "hdl" ≠ total then
    return "violated:metrics_handler_once"
  if q.ks > 0 then
    if metricCount ms "sub" lblAcked ≠ hOk ∨ metricCount ms "sub" lblNacked ≠ total - hOk ∨ famTotal ms "sub" ≠ total then
      return "violated:metrics_subscribe_once"
  else if famTotal ms "sub" ≠ 0 then return "violated:metrics_foreign_series"
  if ms.any (fun m => m.1 ≠ "sub" ∧ m.1 ≠ "hdl") then return "violated:metrics_foreign_series"
  return "ok"

def splitRec (toks : List String) : List String × List String :=
  (toks.takeWhile (· ≠ "@"), (toks.dropWhile (· ≠ "@")).drop 1)

def handle (line : String) : String :=
  match line.splitOn " " with
  | "M" :: kind :: rest =>
    let (f, rec) := splitRec rest
    match kind with
    | "pub" => match parsePubReq f rec with | some q => modelPub q | none => "bad-op"
    | "sub" => match parseSubReq f rec with | some q => modelSub q | none => "bad-op"
    | "rt" => match parseRtReq f rec with | some q => modelRt q | none => "bad-op"
    | "ch" => match parseChReq f rec with | some q => modelCh q | none => "bad-op"
    | "rto" => match parseRtoReq f rec with | some q => modelRto q | none => "bad-op"
    | _ => "bad-op"
  | "P" :: kind :: rest =>
    let req := rest.takeWhile (· ≠ "##")
    match (rest.dropWhile (· ≠ "##")).drop 1 with
    | [obs] =>
      let (f, rec) := splitRec req
      match kind with
      | "pub" => match parsePubReq f rec with | some q => monitorPub q obs | none => "bad-op"
      | "sub" => match parseSubReq f rec with | some q => monitorSub q obs | none => "bad-op"
      | "rt" => match parseRtReq f rec with | some q => monitorRt q obs | none => "bad-op"
      | "ch" => match parseChReq f rec with | some q => monitorCh q obs | none => "bad-op"
      | "rto" => match parseRtoReq f rec with | some q => monitorRto q obs | none => "bad-op"
      | _ => "bad-op"
    | _ => "bad-op"
  | _ => "bad-op"

end C20

def main : IO Unit := driverMain C20.handle
