/-
  Line-protocol driver of C12 (Retry middleware).

  Request (one line, fields in this order):
    retry mr=<int> init=<ns> max=<ns> mul=<p>/<q> rf=<a>/<b> el=<ns> hook=<0|1> log=<0|1>
          outs=<o0>,<o1>,…      one outcome per possible handler call: f<k> = fails (u<k>: with an error value of an uncomparable type; c<k>/d<k>: with an error wrapping context.Canceled /
                                 DeadlineExceeded, the message context being alive), s<k> = succeeds, with k output messages
                                 (call i returns the messages i.0 … i.(k-1) and, when it fails, the error e<i>)
          cancel=<j|->           the message context ends during call j
          ctxend=<call|pre|deadline|->   how (cancel() inside the call / cancelled before Retry is invoked / a deadline falls)
          sleep=<j>:<ns>|-       call j sleeps (only the harness uses it)
          pass=<P>:<i>|-         the same message object is handled P times in a row, this is pass i (harness only: every pass
                                 has to behave like the first – the caller does not touch the message or its context in between)
          conc=<M>:<i>:<ns>|-    the message is number i of M sent concurrently through one middleware instance (harness only:
                                 every message has to behave as if it were alone)
          n=<calls> d=<delays reported to OnRetryHook, in call order | -> ts=<start of call i>,… te=<end of call i>,… tr=<return> tq=<ns|->
                                 recorded from the real run (ns since the start of call 0)
  Observation:
    n=<calls> hooks=<num>:<delay>,…|- res=<msgs|->/<err|-> time=ok

  `M` explains the recorded run with the model: from the recorded delays it reconstructs the random draws, from the
  time stamps the lags and timer latenesses (none may be negative: `time.After` never fires early), from
  `cancel`/`tr` which alternative the `select` takes; then it runs `Wm.Retry.retry` and prints what the model does.
  `P` evaluates the clauses of the property on the observation without using `retry`.
-/
import WmModel.Basic
import WmModel.Retry
open Wm Wm.Retry

structure Req where
  cfg    : Cfg
  outs   : List Outcome
  cancel : Option Nat
  n      : Nat
  d      : List Int
  ts     : List Nat
  te     : List Nat
  tr     : Nat
  tq     : Option Nat   -- first time the context was asked for its deadline / Done after call 0

def kv (key : String) (tok : String) : Option String :=
  match tok.splitOn "=" with
  | [k, v] => if k = key then some v else none
  | _ => none

def natList (s : String) : Option (List Nat) :=
  if s = "-" then some [] else (s.splitOn ",").mapM String.toNat?

def intList (s : String) : Option (List Int) :=
  if s = "-" then some [] else (s.splitOn ",").mapM String.toInt?

def frac (s : String) : Option (Nat × Nat) :=
  match s.splitOn "/" with
  | [a, b] => do
    let a ← a.toNat?
    let b ← b.toNat?
    if b = 0 then none else pure (a, b)
  | _ => none

def outcomeOf (i : Nat) (s : String) : Option Outcome :=
  match s.toList with
  | 'f' :: r => do
    let k ← (String.ofList r).toNat?
    pure ⟨(List.range k).map (fun j => i * 100 + j), some i⟩
  | 'u' :: r => do      -- fails with an error value of an uncomparable dynamic type: a failure like any other
    let k ← (String.ofList r).toNat?
    pure ⟨(List.range k).map (fun j => i * 100 + j), some i⟩
  | 'c' :: r => do      -- fails with an error wrapping context.Canceled: a failure like any other
    let k ← (String.ofList r).toNat?
    pure ⟨(List.range k).map (fun j => i * 100 + j), some i⟩
  | 'd' :: r => do      -- fails with the call's own DeadlineExceeded
    let k ← (String.ofList r).toNat?
    pure ⟨(List.range k).map (fun j => i * 100 + j), some i⟩
  | 's' :: r => do
    let k ← (String.ofList r).toNat?
    pure ⟨(List.range k).map (fun j => i * 100 + j), none⟩
  | _ => none

def outcomesOf (s : String) : Option (List Outcome) :=
  let toks := s.splitOn ","
  (toks.zipIdx).mapM (fun (t, i) => outcomeOf i t)

def parseReq (toks : List String) : Option Req :=
  match toks with
  | [mr, ini, mx, mul, rf, el, hk, lg, outs, cancel, ctxend, _sleep, conc, pass, n, d, ts, te, tr, tq] => do
    let mr ← (← kv "mr" mr).toInt?
    let ini ← (← kv "init" ini).toNat?
    let mx ← (← kv "max" mx).toNat?
    let (p, q) ← frac (← kv "mul" mul)
    let (a, b) ← frac (← kv "rf" rf)
    if a > b then none
    let el ← (← kv "el" el).toNat?
    let hk ← (← kv "hook" hk).toNat?
    if hk > 1 then none
    let lg ← (← kv "log" lg).toNat?
    if lg > 1 then none
    let outs ← outcomesOf (← kv "outs" outs)
    let cs ← kv "cancel" cancel
    let cancel ← (if cs = "-" then some none else cs.toNat?.map some)
    let ce ← kv "ctxend" ctxend
    if !(["call", "pre", "deadline", "-"].contains ce) then none
    if (ce = "-") != cancel.isNone then none
    if ce = "pre" && cancel != some 0 then none
    let _ ← kv "sleep" _sleep
    let cc ← kv "conc" conc
    if cc ≠ "-" then
      match (cc.splitOn ":").mapM String.toNat? with
      | some [m, i, _] => if m < 2 || i ≥ m then none
      | _ => none
    let ps ← kv "pass" pass
    if ps ≠ "-" then
      match (ps.splitOn ":").mapM String.toNat? with
      | some [m, i] => if m < 2 || i ≥ m then none
      | _ => none
    let n ← (← kv "n" n).toNat?
    let d ← intList (← kv "d" d)
    let ts ← natList (← kv "ts" ts)
    let te ← natList (← kv "te" te)
    let tr ← (← kv "tr" tr).toNat?
    let tqs ← kv "tq" tq
    let tq ← (if tqs = "-" then some none else tqs.toNat?.map some)
    let cfg : Cfg := ⟨mr, ini, mx, p, q, a, b, el, hk == 1⟩
    -- one outcome for every call the model can make, one start/end stamp per observed call, stamps monotone
    if outs.length < max 1 mr.toNat + 1 then none
    if n = 0 || ts.length ≠ n || te.length ≠ n then none
    pure ⟨cfg, outs, cancel, n, d, ts, te, tr, tq⟩
  | _ => none

def failOutcome : Outcome := ⟨[], some 0⟩

/-- a wait shorter than this (10 ms) may have run out before the `select` is entered: with the context already done both
    alternatives are then ready and Go may take either, so ONE call after the context ended is explained by the race -/
def raceWait : Nat := 10000000

/-- a timer due this much later than the context's deadline cannot win the `select` (25 ms) -/
def budgetSlack : Nat := 25000000

/-- the MaxElapsedTime budget ran out during the wait before call k, by counting: the budget started no later than
    `tq` (or, for k ≥ 2, than `ts 1 − w 1`), so the context's deadline is at most that + MaxElapsedTime; the timer of
    pass k is due no earlier than the end of call k−1 + the wait `w k`.  Lateness only increases the left-hand side. -/
def overdue (r : Req) (w : Nat → Nat) (k : Nat) : Bool :=
  let ts (i : Nat) : Nat := r.ts[i]?.getD 0
  let te (i : Nat) : Nat := r.te[i]?.getD 0
  let bound : Option Nat := match r.tq with
    | some t => some t
    | none => if k ≥ 2 then some (ts 1 - w 1) else none
  match bound with
  | some b => r.cfg.maxElapsed != 0 && k ≥ 1 && decide (te (k - 1) + w k > b + r.cfg.maxElapsed + budgetSlack)
  | none => false

/-- a draw `k` (random = k/2^53 ∈ [0,1)) with `randomized cfg cur k = d`, if there is one:
    the middle of the pre-image, (d + 1/2 − lo)/R with lo = cur(1−rf), R = 2·cur·rf + 1 -/
def drawFor (cfg : Cfg) (cur d : Nat) : Option Nat :=
  let a := cfg.rfN
  let b := cfg.rfD
  let lo2 := 2 * cur * (b - a)            -- 2·b·lo
  let mid := if (2 * d + 1) * b ≥ lo2 then ((2 * d + 1) * b - lo2) * drawDen / (2 * (2 * cur * a + b)) else 0
  [mid, 0, drawDen - 1].find? (fun k => k < drawDen && randomized cfg cur k == d)

structure Built where
  sc       : Script
  badDelay : Option Nat

/-- the script that explains the recorded run (see the header) -/
def build (r : Req) : Built :=
  let cfg := r.cfg
  -- draws: the k-th hook call (k = 1, 2, …) reported the wait of pass k
  let drawOf (k : Nat) : Option Nat :=
    if cfg.hook then
      match r.d[k - 1]? with
      | some d => if d < 0 then none else drawFor cfg (curAt cfg (k - 1)) d.toNat
      | none => some 0
    else some 0
  let bad := (List.range r.d.length).find? (fun i => cfg.hook && (drawOf (i + 1)).isNone)
  let draw (k : Nat) : Nat := (drawOf k).getD 0
  let wOf (k : Nat) : Nat := randomized cfg (curAt cfg (k - 1)) (draw k)
  let ts (k : Nat) : Nat := r.ts[k]?.getD 0
  let te (k : Nat) : Nat := r.te[k]?.getD 0
  let resetLag := if r.n ≥ 2 then (ts 1 - te 0) - wOf 1 else 0
  let iter (k : Nat) : Iter :=
    let out := r.outs[k]?.getD failOutcome
    let cancelled := match r.cancel with | some j => decide (j < k) | none => false
    if k < r.n then
      let late := if k = 1 then 0 else (ts k - te (k - 1)) - wOf k
      -- the one call right after the context ended, made after a wait short enough to race ctx.Done(), is the timer's
      let raced := match r.cancel with | some j => k = j + 1 && decide (wOf k < raceWait) | none => false
      ⟨0, draw k, if (cancelled && !raced) || overdue r wOf k then .ctxDone else .timer late, te k - ts k, out⟩
    else
      -- the real run made no k-th call: the context is done if it was cancelled, or if MaxElapsedTime can have passed
      let expired := cfg.maxElapsed != 0 && decide (r.tr - te 0 ≥ cfg.maxElapsed)
      ⟨0, 0, if cancelled || expired then .ctxDone else .timer 0, 0, out⟩
  ⟨⟨r.outs.headD failOutcome, te 0, resetLag, iter⟩, bad.map (· + 1)⟩

def idStr (x : Nat) : String := toString (x / 100) ++ "." ++ toString (x % 100)

def msgsStr (l : List Nat) : String :=
  if l.isEmpty then "-" else "+".intercalate (l.map idStr)

def errStr : Option Nat → String
  | none => "-"
  | some e => "e" ++ toString e

def hooksStr (l : List (Nat × Nat)) : String :=
  if l.isEmpty then "-" else ",".intercalate (l.map fun (k, d) => toString k ++ ":" ++ toString d)

def modelObs (r : Req) : String :=
  let b := build r
  match b.badDelay with
  | some k => "bad-delay:" ++ toString k
  | none =>
    let run := retry r.cfg b.sc
    -- the model's time stamps must be the recorded ones (possible iff no recorded gap is shorter than the model's wait)
    let m := min run.attempts.length r.n
    let badT := (List.range m).find? (fun k =>
      match run.attempts[k]?, r.ts[k]?, r.te[k]? with
      | some a, some s, some e => !(a.start == s && a.stop == e)
      | _, _, _ => true)
    let time := match badT with
      | none => "ok"
      | some k => "gap:" ++ toString k
    "n=" ++ toString run.attempts.length ++ " hooks=" ++ hooksStr run.hooks ++
      " res=" ++ msgsStr run.msgs ++ "/" ++ errStr run.err ++ " time=" ++ time

/-! ### the property monitor (does not use `retry`) -/

structure Obs where
  n     : Nat
  hooks : List (Nat × Int)
  msgs  : String
  err   : String

def parseHooks (s : String) : Option (List (Nat × Int)) :=
  if s = "-" then some [] else
  (s.splitOn ",").mapM (fun t => match t.splitOn ":" with
    | [a, b] => do pure ((← a.toNat?), (← b.toInt?))
    | _ => none)

def parseObs (toks : List String) : Option Obs :=
  match toks with
  | [n, hooks, res, _time] => do
    let n ← (← kv "n" n).toNat?
    let hooks ← parseHooks (← kv "hooks" hooks)
    let res ← kv "res" res
    let _ ← kv "time" _time
    match res.splitOn "/" with
    | [m, e] => pure ⟨n, hooks, m, e⟩
    | _ => none
  | _ => none

/-- scaled closed form: `min(init·p^i, max·q^i)` and `q^i` (interval i+1 is their quotient) -/
def closedNum (cfg : Cfg) (i : Nat) : Nat := min (cfg.init * cfg.mulN ^ i) (cfg.maxInt * cfg.mulD ^ i)

/-- truncation allowance of the library's integer arithmetic after i multiplications, scaled by q^i -/
def truncSlack (cfg : Cfg) : Nat → Nat
  | 0 => 0
  | i + 1 => if cfg.mulD = 1 then 0 else truncSlack cfg i * cfg.mulN + cfg.mulD ^ (i + 1)

/-- `d ≥ min(init·mult^(k−1), max)·(1−rf)` up to the integer truncations of the library (k ≥ 1) -/
def atLeastBackoff (cfg : Cfg) (k d : Nat) : Bool :=
  let i := k - 1
  -- (d + 1)·q^i·b + slack_i·b  >  closed_i·(b − a)      (all scaled by q^i·b)
  (d + 1) * cfg.mulD ^ i * cfg.rfD + truncSlack cfg i * cfg.rfD > closedNum cfg i * (cfg.rfD - cfg.rfN)

/-- `d ≤ min(init·mult^(k−1), max)·(1+rf) + 1` (only meaningful when init ≤ max and mult ≥ 1) -/
def atMostBackoff (cfg : Cfg) (k d : Nat) : Bool :=
  let i := k - 1
  d * cfg.mulD ^ i * cfg.rfD ≤ closedNum cfg i * (cfg.rfD + cfg.rfN) + 2 * cfg.mulD ^ i * cfg.rfD

def monitor (r : Req) (o : Obs) : String := Id.run do
  let cfg := r.cfg
  if o.n ≠ r.n then return "bad-op"
  let n := o.n
  let out (i : Nat) : Outcome := r.outs[i]?.getD failOutcome
  let last := out (n - 1)
  -- first success wins: no call after a successful one; its outputs are returned with a nil error
  for i in List.range (n - 1) do
    if (out i).err.isNone then return "violated:first_success_wins"
  -- never turns a failure into success
  if o.err == "-" && last.err.isSome then return "violated:never_invents_success"
  if last.err.isNone then
    if !(o.err == "-" && o.msgs == msgsStr last.outs) then return "violated:first_success_wins"
  else
    -- finally returns the last error
    if o.err != errStr last.err then return "violated:last_error_returned"
  -- re-invokes while attempts fail: giving up with retries left needs one of the two stated reasons – the message context
  -- ended (during call j ≤ n−1), or MaxElapsedTime can have passed (the call returned ≥ MaxElapsedTime after call 0 ended)
  if last.err.isSome && decide ((n : Int) < 1 + max 1 cfg.maxRetries) then
    let ctxEnded := r.cancel.isSome
    let budgetOut := cfg.maxElapsed != 0 && decide (r.tr ≥ (r.te[0]?.getD 0) + cfg.maxElapsed)
    if !(ctxEnded || budgetOut) then return "violated:gives_up_without_reason"
  -- at most MaxRetries re-invocations
  if cfg.maxRetries ≥ 1 && decide ((n : Int) > 1 + cfg.maxRetries) then return "violated:at_most_max_retries"
  -- OnRetryHook with 1, 2, … in order, one per failed retry
  if cfg.hook then
    let failedRetries := ((List.range n).filter (fun i => i ≥ 1 && (out i).err.isSome)).length
    if o.hooks.map (·.1) != (List.range failedRetries).map (· + 1) then return "violated:hooks_in_order"
  -- gives up when the context ends: no call after the one that cancelled it
  match r.cancel with
  | some j =>
    -- one more call is tolerated when the wait before it was short enough to race ctx.Done() (reported delay, else the
    -- measured gap, which the wait cannot exceed); never a second one
    let short : Bool := match o.hooks[j]? with
      | some (_, d) => decide (d < (raceWait : Int))
      | none => match r.ts[j + 1]?, r.te[j]? with
        | some s, some e => decide (s < e + raceWait)
        | _, _ => false
    if n > j + 1 + (if short then 1 else 0) then return "violated:gives_up_on_ctx_end"
  | none => pure ()
  -- waits at least the configured back-off before the k-th retry
  let ts (k : Nat) : Nat := r.ts[k]?.getD 0
  let te (k : Nat) : Nat := r.te[k]?.getD 0
  for k in List.range n do
    if k ≥ 1 then
      if ts k < te (k - 1) then return "bad-op"
      let gap := ts k - te (k - 1)
      if !atLeastBackoff cfg k gap then return "violated:wait_at_least_backoff"
  for (k, di) in o.hooks do
    if k ≥ 1 && k < n then
      if di < 0 then return "violated:backoff_interval_low"
      let d := di.toNat
      if !atLeastBackoff cfg k d then return "violated:backoff_interval_low"
      if cfg.init ≤ cfg.maxInt && cfg.mulN ≥ cfg.mulD && !atMostBackoff cfg k d then return "violated:backoff_interval_high"
      if ts k - te (k - 1) < d then return "violated:wait_at_least_reported_delay"
  -- gives up when MaxElapsedTime has passed: no call is started after it
  if cfg.maxElapsed ≠ 0 then
    let w1 := match o.hooks with | (_, d) :: _ => d.toNat | [] => 0
    for k in List.range n do
      if k ≥ 2 then
        -- the back-off was reset no later than ts 1 − w1 and read its clock for pass k no earlier than te (k−1)
        if te (k - 1) + w1 > ts 1 + cfg.maxElapsed then return "violated:gives_up_on_elapsed"
    -- … nor after a wait during which the budget ran out (reported delays only)
    let dOf (k : Nat) : Nat := match o.hooks[k - 1]? with | some (_, d) => d.toNat | none => 0
    for k in List.range n do
      if k ≥ 1 && overdue r dOf k then return "violated:gives_up_on_elapsed"
  return "ok"

def handle (line : String) : String :=
  match line.splitOn " " with
  | "M" :: "retry" :: rest =>
    match parseReq rest with
    | some r => modelObs r
    | none => "bad-op"
  | "P" :: "retry" :: rest =>
    if ((rest.dropWhile (· != "##")).drop 1).any (fun t => t.startsWith "panic(") then "violated:panic" else
    match parseReq (rest.takeWhile (· != "##")), parseObs ((rest.dropWhile (· != "##")).drop 1) with
    | some r, some o => monitor r o
    | _, _ => "bad-op"
  | _ => "bad-op"

def main : IO Unit := driverMain handle
