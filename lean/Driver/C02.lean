/-
  Line-protocol driver of C02 (core-only).

    run <kind>/<topic hex>/<mws> <script>+
        kind   pub | pubdeco | dis | disdeco | nil | nildeco  (AddHandler+publisher | the same with a pass-through publisher
                                              decorator | AddNoPublisherHandler | the same with a recording publisher
                                              decorator | AddHandler with a nil publisher); optional 4th field /<E|N><sxo*>:
                                              a second handler on the router, see parseCfg
        mws    -  or a word over {p,o,r,P,O,R}: middlewares in registration order (first = outermost),
               p = passthrough, o = appends one output (id 100+position) to whatever the inner handler returned,
               r = copies the outputs into a fresh slice (empty but NON-NIL when there are none);
               lower case = router level (Router.AddMiddleware), upper case = handler level (Handler.AddMiddleware)
        script <self>.<result>.<pub>   self: - a n Aw Al Nw Nl   result: r<k> s<k> S<k> q<k> Q<k> z0 e<k> c<k> d<k> w<k> x<k> u<k> j<k> p<x>
               pub: ok err errc errw errd erru panic rej<k>
               (Aw/Al/Nw/Nl: the handler starts a helper goroutine that Acks/Nacks the message at the moment the Router
                settles it the other way; w/l = what the helper's call returned, recorded by the harness – the model checks)
               (r0 = nil slice, z0 = empty NON-NIL slice; e = plain error, c = context.Canceled, both with k outputs
                next to the error; rej<k> = the publisher refuses exactly the calls that contain output id k)

    late <how> <hold> <nEarly> <kind>/<topic hex>/<mws> <script>+
        how stop | cancel | close: Handler.Stop() / cancel of Run's context / Router.Close() happens after the first
        nEarly messages were fed (hold = h: those are still inside their handlers then, - : they are settled); the scripted
        subscriber hands out the remaining (>= 1) messages AFTER its context was cancelled and only then closes its
        channel.  The receive loop has no cancel-dependent skip: every message taken from the subscriber is handled and
        settled like any other, so the model's answer is that of `run` on the same scripts.
        result p<x>: x = v string, i int, s struct value, b []byte, g fmt.Stringer, e errors.New, c custom error, n nil

  Observation: one word per message, events joined by `;`
        H                         handler entered
        a | n                     handler settled the message itself
        P<topic hex>/<ids>/<st>   Publish entered with these outputs (ids joined by `.`), settlement state of the
                                  consumed message sampled inside Publish: - a n
        W<topic hex>/<ids>        these outputs were handed to the publisher of ANOTHER handler (which accepts them): they
                                  do not count as accepted by the handler's publisher
        R<ret>/<st>               Publish about to end: ok err nopub panic, state sampled again
        F<st>                     settlement state after handleMessage finished (B = both channels closed)
        D                         Router.Close() returned nil afterwards (runningHandlersWg.Done() was called)
  A request during which the process running the code under test died is observed as the single word `crashed`.

  `M` prints the model's observation (`Wm.Handle.handle` + `Wm.Ack` over the settle effects),
  `P` evaluates the statement of C02 on the implementation's observation (does not call `handle`).
-/
import WmModel.Basic
import WmModel.Handle
open Wm Wm.Handle

/-! ## parsing -/

structure DCfg where
  cfg     : Cfg
  visible : Bool          -- are Publish calls observable by the harness
  mws     : List (Mw Nat)
  kindTok : String

def parseMws (s : String) : Option (List (Mw Nat)) :=
  if s = "-" then some [] else
  (s.toList.zipIdx).mapM (fun (c, i) =>
    match c with
    | 'p' | 'P' => some Mw.pass                    -- upper case: the same middleware registered on the handler
    | 'r' | 'R' => some Mw.rebuild
    | 'o' | 'O' => some (Mw.addOut (100 + i))
    | _ => none)

def nbOk (s : String) : Bool :=
  match s.toList with
  | c :: rest => (c == 'E' || c == 'N') && rest.all (fun x => x == 's' || x == 'x' || x == 'o')
  | [] => false

def parseCfg (s : String) : Option DCfg :=
  -- optional 4th field: a second handler on the same router (E = registered with the empty name, N = named), with its
  -- own handler-level middlewares (s swallows errors, x rejects, o adds an output) and, for pub/pubdeco, its own publisher
  -- instance of the same Go type.  Nothing of it belongs to the chain or the publisher of handler "h": the model ignores it.
  let fields := s.splitOn "/"
  let core : Option (String × String × String) := match fields with
    | [k, t, m] => some (k, t, m)
    | [k, t, m, nb] => if nbOk nb then some (k, t, m) else none
    | _ => none
  match core with
  | some (k, t, m) => do
    let tb ← hexDec t
    let topic := String.ofList (tb.map (fun b => Char.ofNat b.toNat))   -- topics used by the harness are ASCII
    let mws ← parseMws m
    match k with
    | "pub"     => some ⟨⟨.withPub, topic⟩, true, mws, k⟩
    | "pubdeco" => some ⟨⟨.withPub, topic⟩, true, mws, k⟩   -- the same with a pass-through publisher decorator installed
    | "dis"     => if tb.isEmpty then some ⟨⟨.disabled, ""⟩, false, mws, k⟩ else none
    | "disdeco" => if tb.isEmpty then some ⟨⟨.disabled, ""⟩, true, mws, k⟩ else none
    | "nil"     => some ⟨⟨.nilPub, topic⟩, true, mws, k⟩
    | "nildeco" => some ⟨⟨.nilPub, topic⟩, true, mws, k⟩    -- nil publisher with a publisher decorator configured: still none
    | _ => none
  | none => none

/-- scripted publisher: a fixed verdict, or "refuse the call iff it contains output `k`" -/
inductive PubSpec | fixed (p : PubOutcome) | rejectIf (k : Nat)

def PubSpec.verdict : PubSpec → List Nat → PubOutcome
  | .fixed p, _ => p
  | .rejectIf k, ms => if ms.contains k then .error else .accept

structure Script where
  o : Outcome Nat
  p : PubSpec
  /-- `A`/`N` scripts: the handler's helper goroutine settles (ack/nack) concurrently with the Router; recorded outcome:
      `true` = the helper's call returned true (its settlement came first) -/
  race : Option (Settle × Bool) := none

def parseSelf : String → Option (Option Settle)
  | "-" => some none | "a" => some (some .ack) | "n" => some (some .nack) | _ => none

def parseResult (s : String) : Option (Result Nat) :=
  match s.toList with
  | ['p', 'v'] => some (.panics .value)   -- panic("text")
  | ['p', 'i'] => some (.panics .value)   -- panic(42)
  | ['p', 's'] => some (.panics .value)   -- panic(struct value)
  | ['p', 'b'] => some (.panics .value)   -- panic([]byte)
  | ['p', 'g'] => some (.panics .value)   -- panic(fmt.Stringer)
  | ['p', 'e'] => some (.panics .error)   -- panic(errors.New)
  | ['p', 'c'] => some (.panics .error)   -- panic(custom error type)
  | ['p', 'n'] => some (.panics .nil)
  | c :: ds =>
    if ds.isEmpty || !ds.all Char.isDigit then none else
    match (String.ofList ds).toNat? with
    | some k =>
      if k > 1000 then none else
      match c with
      | 'r' => some (.returns (List.range k) false)
      | 'z' => if k = 0 then some (.returns [] false) else none
      | 's' => some (.returns (List.range k) false)   -- different objects, identical content, empty UUID
      | 'S' => some (.returns (List.range k) false)   -- Message.Copy()s of one message
      | 'q' => some (.returns (List.range k) false)   -- outputs carrying an already cancelled context
      | 'Q' => some (.returns (List.range k) false)   -- outputs carrying a context whose deadline has passed
      | 'e' => some (.returns (List.range k) true)
      | 'c' => some (.returns (List.range k) true)
      | 'd' => some (.returns (List.range k) true)   -- context.DeadlineExceeded
      | 'w' => some (.returns (List.range k) true)   -- fmt.Errorf("%w", DeadlineExceeded)
      | 'x' => some (.returns (List.range k) true)   -- pkg/errors.Wrap(context.Canceled)
      | 'u' => some (.returns (List.range k) true)   -- custom error type
      | 'j' => some (.returns (List.range k) true)   -- errors.Join(plain, DeadlineExceeded)
      | _ => none
    | none => none
  | _ => none

def parsePub (s : String) : Option PubSpec :=
  match s with
  | "ok" => some (.fixed .accept) | "err" => some (.fixed .error) | "panic" => some (.fixed .panic)
  -- errors of other kinds: context.Canceled, fmt-wrapped Canceled, pkg/errors-wrapped DeadlineExceeded, custom type
  | "errc" => some (.fixed .error) | "errw" => some (.fixed .error) | "errd" => some (.fixed .error)
  | "erru" => some (.fixed .error)
  | _ =>
    if s.startsWith "rej" then
      let ds := (s.drop 3).toString
      if ds.isEmpty || !ds.toList.all Char.isDigit then none else ds.toNat?.map .rejectIf
    else none

def parseScript (s : String) : Option Script :=
  match s.splitOn "." with
  | [a, b, c] => do
    let r ← parseResult b
    let p ← parsePub c
    match a with
    | "Aw" => pure ⟨⟨none, r⟩, p, some (.ack, true)⟩
    | "Al" => pure ⟨⟨none, r⟩, p, some (.ack, false)⟩
    | "Nw" => pure ⟨⟨none, r⟩, p, some (.nack, true)⟩
    | "Nl" => pure ⟨⟨none, r⟩, p, some (.nack, false)⟩
    | _ =>
      let se ← parseSelf a
      pure ⟨⟨se, r⟩, p, none⟩
  | _ => none

/-! ## model observation -/

def sentTok : Ack.Sent → String
  | .none => "-" | .ack => "a" | .nack => "n"

def idsTok (ids : List Nat) : String :=
  if ids.isEmpty then "-" else ".".intercalate (ids.map toString)

def topicTok (t : String) : String := hexEnc t.toUTF8.toList

def retTok (k : Kind) : PubOutcome → String
  | .accept => "ok"
  | .error => if k = .disabled then "nopub" else "err"
  | .panic => "panic"

/-- walk the effect list keeping the settlement state (Wm.Ack) of a message built by `NewMessage` -/
def observeAux (d : DCfg) (showSelf : Bool := true) : Ack.St → List (Effect Nat) → List String
  | s, [] =>
    let both := s.ackCh = .closed ∧ s.nackCh = .closed
    [if both then "FB" else "F" ++ sentTok s.sent]
  | s, [.done] =>
    let both := s.ackCh = .closed ∧ s.nackCh = .closed
    [if both then "FB" else "F" ++ sentTok s.sent, "D"]
  | s, e :: rest =>
    let s' := match settleOp e with
      | some op => (Ack.step s op).1
      | none => s
    let here : List String := match e with
      | .handlerCalled => ["H"]
      | .selfAck => if showSelf then ["a"] else []    -- a helper goroutine's settlement is not logged by the handler
      | .selfNack => if showSelf then ["n"] else []
      | .publishCall t outs => if d.visible then ["P" ++ topicTok t ++ "/" ++ idsTok outs ++ "/" ++ sentTok s.sent] else []
      | .publishRet r => if d.visible then ["R" ++ retTok d.cfg.kind r ++ "/" ++ sentTok s.sent] else []
      | _ => []
    here ++ observeAux d showSelf s' rest

def modelObs (d : DCfg) (sc : Script) : String :=
  match sc.race with
  | none => ";".intercalate (observeAux d true (Ack.initSt .new) (handleWith d.cfg (chain d.mws sc.o) sc.p.verdict))
  | some (s, won) =>
    -- the helper's call lands right after the handler was entered (it came first) or right after the Router's settlement
    let co := chain d.mws sc.o
    let base := handle d.cfg ⟨none, co.result⟩ .accept
    let pos := if won then 1 else base.length - 1
    ";".intercalate (observeAux d false (Ack.initSt .new) (handleRace d.cfg co.result .accept s pos))

/-- racing scripts: nothing is published (no outputs) and the helper settles the other way than the Router -/
def raceOk (d : DCfg) (sc : Script) : Bool :=
  match sc.race with
  | none => true
  | some (s, _) =>
    match (chain d.mws sc.o).result with
    | .returns [] false => s == .nack     -- Router acks
    | .returns [] true => s == .ack       -- Router nacks
    | .panics _ => s == .ack
    | _ => false

/-! ## property monitor: the statement of C02 evaluated on an observation -/

structure PubRec where
  ids   : List Nat
  stIn  : String
  ret   : String := "?"
  stOut : String := "?"

structure Obs where
  hCount  : Nat := 0
  hFirst  : Bool := false
  selfTok : List String := []
  pubs    : List PubRec := []      -- most recent first
  finals  : List String := []
  doneTok : Bool := false
  foreign : Nat := 0               -- W tokens: Publish calls that reached ANOTHER handler's publisher

def parseIds (s : String) : Option (List Nat) :=
  if s = "-" then some [] else (s.splitOn ".").mapM String.toNat?

def stOk (s : String) : Bool := s = "-" || s = "a" || s = "n"

def parseObs (w : String) : Option Obs := do
  let toks := w.splitOn ";"
  let mut o : Obs := {}
  let mut first := true
  for t in toks do
    if o.doneTok then none               -- D is last
    if t = "D" then
      if o.finals.length != 1 then none  -- … and follows F
      o := { o with doneTok := true }
    else if o.finals.length > 0 then none
    else if t = "H" then
      o := { o with hCount := o.hCount + 1, hFirst := o.hFirst || first }
    else if t = "a" || t = "n" then
      o := { o with selfTok := o.selfTok ++ [t] }
    else if t.startsWith "P" then
      match (t.drop 1).toString.splitOn "/" with
      | [_, ids, st] =>
        let ids ← parseIds ids
        if !stOk st then none
        o := { o with pubs := ⟨ids, st, "?", "?"⟩ :: o.pubs }
      | _ => none
    else if t.startsWith "W" then
      match (t.drop 1).toString.splitOn "/" with
      | [_, ids] =>
        let _ ← parseIds ids
        o := { o with foreign := o.foreign + 1 }
      | _ => none
    else if t.startsWith "R" then
      match (t.drop 1).toString.splitOn "/" with
      | [r, st] =>
        if !stOk st then none
        if !(r = "ok" || r = "err" || r = "nopub" || r = "panic") then none
        -- the return belongs to the most recent call that has not returned yet (calls attributed to one message
        -- can only overlap when the code under test mixes up the outputs of different messages)
        let opened := o.pubs.takeWhile (fun p => p.ret != "?")
        match o.pubs.dropWhile (fun p => p.ret != "?") with
        | p :: ps => o := { o with pubs := opened ++ { p with ret := r, stOut := st } :: ps }
        | [] => none
      | _ => none
    else if t.startsWith "F" then
      let st := (t.drop 1).toString
      if !(stOk st || st = "B") then none
      o := { o with finals := o.finals ++ [st] }
    else none
    first := false
  if o.finals.length != 1 then none
  pure o

/-- outputs the chain returns, computed from the script directly (handler ids 0..k-1, then the `o`
    middlewares from the innermost to the outermost) -/
def chainOuts (mws : List (Mw Nat)) (k : Nat) : List Nat :=
  List.range k ++ (mws.filterMap (fun m => match m with | .addOut x => some x | _ => none)).reverse

def monitor1 (d : DCfg) (sc : Script) (w : String) : String :=
  match parseObs w with
  | none => "bad-op"
  | some o => Id.run do
    let (chainEnds, outs) : (String × List Nat) := match sc.o.result with
      | .panics _ => ("panic", [])
      | .returns hs true => ("error", chainOuts d.mws hs.length)
      | .returns hs false => ("ok", chainOuts d.mws hs.length)
    let fin := o.finals.headD "-"
    -- the handler chain is invoked (once, before anything else happens to the message)
    if o.hCount != 1 || !o.hFirst then return "violated:handler_invoked_once"
    -- settled exactly once
    if fin = "-" then return "violated:not_settled"
    if let some (s, won) := sc.race then
      -- the handler's own settlement (helper goroutine) raced the Router's opposite one: exactly one of them counts –
      -- the helper's iff its call reported success – and Acked()/Nacked() are never both closed
      if fin = "B" then return "violated:settled_twice"
      if o.pubs.length > 0 then return "violated:published_on_error"
      let own := if s == .ack then "a" else "n"
      let other := if s == .ack then "n" else "a"
      if won && fin != own then return "violated:self_settlement_overridden"
      if !won && fin != other then return "violated:settlement_changed_after_it_was_decided"
      return "ok"
    if fin = "B" then return "violated:settled_twice"
    let selfS : String := match sc.o.selfSettle with | none => "-" | some .ack => "a" | some .nack => "n"
    -- a settlement the handler made itself is never overridden
    if selfS != "-" && fin != selfS then return "violated:self_settlement_overridden"
    -- the Ack is never sent before the publish call has returned successfully
    for p in o.pubs do
      if selfS != "a" && (p.stIn = "a" || p.stOut = "a") then return "violated:ack_before_publish_returned"
      if selfS != "-" && (p.stIn != selfS || p.stOut != selfS) then return "violated:self_settlement_overridden"
    -- messages returned together with an error are not published (nor anything after a panic)
    if chainEnds != "ok" && (o.pubs.length > 0 || o.foreign > 0) then return "violated:published_on_error"
    if selfS = "-" then
      -- Ack iff no error and every returned message accepted by the handler's publisher
      let acceptedIds := (o.pubs.filter (fun p => p.ret = "ok")).flatMap (·.ids)
      let accepted := outs.isEmpty || (d.cfg.kind = .withPub && outs.all (fun x => acceptedIds.contains x))
      let wantAck := chainEnds = "ok" && accepted
      if wantAck && fin != "a" then return "violated:nack_but_handled_and_published"
      -- Nack only if the chain returned an error, panicked, or publishing failed or panicked: with a real publisher and a
      -- successful chain the Router must at least have offered every returned message to that publisher (unless a call
      -- already failed or panicked) – a Nack without asking the publisher has none of the stated reasons
      if !wantAck && fin = "n" && chainEnds = "ok" && d.cfg.kind = .withPub && !outs.isEmpty then
        let offered := o.pubs.flatMap (·.ids)
        let failed := o.pubs.any (fun p => p.ret != "ok")
        if !failed && !(outs.all (fun x => offered.contains x)) then
          return "violated:nack_without_offering_outputs_to_publisher"
      if !wantAck && fin = "a" then
        return (if chainEnds = "error" then "violated:ack_after_error"
                else if chainEnds = "panic" then "violated:ack_after_panic"
                else "violated:ack_without_accepted_publish")
    return "ok"

def zipAll (f : Script → String → String) : List Script → List String → Option (List String)
  | [], [] => some []
  | s :: ss, w :: ws => (zipAll f ss ws).map (f s w :: ·)
  | _, _ => none

/-- a NoPublishHandlerFunc cannot return messages: requests that say otherwise are malformed -/
def scriptsOk (d : DCfg) (scs : List Script) : Bool :=
  scs.all (raceOk d) && (d.cfg.kind != .disabled || scs.all (fun sc => match sc.o.result with
    | .returns outs _ => outs.isEmpty
    | .panics _ => true))

/-- `late` requests: validate the extra fields, then they are `run` requests -/
def lateOk (how hold nEarly : String) (nScripts : Nat) : Bool :=
  (how = "stop" || how = "cancel" || how = "close") && (hold = "h" || hold = "-") &&
  (match nEarly.toNat? with
   | some n => nEarly.toList.all Char.isDigit && n < nScripts
   | none => false)

def handleLine (line0 : String) : String :=
  -- rewrite `late <how> <hold> <nEarly> <cfg> …` to `run <cfg> …` after validation
  let line : String := match line0.splitOn " " with
    | mp :: "late" :: how :: hold :: ne :: c :: rest | mp :: "lateraw" :: how :: hold :: ne :: c :: rest =>
      let nScripts := (rest.takeWhile (· != "##")).length
      if lateOk how hold ne nScripts then " ".intercalate (mp :: "run" :: c :: rest) else "bad"
    | _ => line0
  match line.splitOn " " with
  | "M" :: "run" :: c :: scripts =>
    match parseCfg c, scripts.mapM parseScript with
    | some d, some scs =>
      if scs.isEmpty || !scriptsOk d scs then "bad-op" else " ".intercalate (scs.map (modelObs d))
    | _, _ => "bad-op"
  | "P" :: "run" :: c :: rest =>
    let scripts := rest.takeWhile (· != "##")
    let obs := (rest.dropWhile (· != "##")).drop 1
    match parseCfg c, scripts.mapM parseScript with
    | some d, some scs =>
      if scs.isEmpty || !scriptsOk d scs then "bad-op" else
      if obs = ["crashed"] then "violated:crashed_not_settled" else
      -- trailing X<n> (Publish calls the harness could not attribute to a consumed message) is not a statement of C02
      let obs := obs.filter (fun w => !w.startsWith "X")
      match zipAll (monitor1 d) scs obs with
      | none => "violated:one_observation_per_message"
      | some vs =>
        if vs.any (· == "bad-op") then "bad-op"
        else match vs.find? (· != "ok") with
          | some v => v
          | none => "ok"
    | _, _ => "bad-op"
  | _ => "bad-op"

def main : IO Unit := driverMain handleLine
