import WmModel.Basic
import WmModel.Middleware
open Wm Wm.Mw

/-! Line-protocol driver of C19.  `M <req>` prints the model's observation, `P <req> ## <obs>` evaluates the
    property on the implementation's observation (independent of `Wm.Mw.run`: it never threads a message state
    through the stack; it derives, clause by clause, what the statement of C19 demands). -/

namespace C19

/-! ### tokens -/

def strOfHex (s : String) : Option String := do
  let bs ← hexDec s
  String.fromUTF8? (ByteArray.mk bs.toArray)

def hexOfStr (s : String) : String := hexEnc s.toUTF8.toList

def splitC (s : String) (c : Char) : List String :=
  (s.splitOn (String.singleton c))

def dropN (s : String) (n : Nat) : String := String.ofList (s.toList.drop n)
def takeN (s : String) (n : Nat) : String := String.ofList (s.toList.take n)
def pfx (p s : String) : Bool := p.toList.isPrefixOf s.toList

/-- insertion sort of metadata by key -/
def insertKV (kv : String × String) : Meta → Meta
  | [] => [kv]
  | x :: rest => if kv.1 < x.1 then kv :: x :: rest else x :: insertKV kv rest
def sortMeta (m : Meta) : Meta := m.foldr insertKV []

def showMeta (m : Meta) : String :=
  if m.isEmpty then "-" else
  String.intercalate "," ((sortMeta m).map fun (k, v) => hexOfStr k ++ "=" ++ hexOfStr v)

def parseMeta (s : String) : Option Meta :=
  if s = "-" then some [] else
  (splitC s ',').mapM fun kv =>
    match splitC kv '=' with
    | [k, v] => do pure ((← strOfHex k), (← strOfHex v))
    | _ => none

def showOuts (os : List Out) : String :=
  if os.isEmpty then "-" else
  String.intercalate "+" (os.map fun o => hexOfStr o.id ++ "~" ++ showMeta o.md)

def parseOuts (s : String) : Option (List Out) :=
  if s = "-" then some [] else
  (splitC s '+').mapM fun o =>
    match splitC o '~' with
    | [i, m] => do pure ⟨(← strOfHex i), (← parseMeta m)⟩
    | _ => none

def showPVal : PVal → String
  | .list s => "l" ++ hexOfStr s
  | .str s => "s" ++ hexOfStr s
  | .err s => "e" ++ hexOfStr s
  | .nil => "n"

def parsePVal (s : String) : Option PVal :=
  if s = "n" then some .nil
  else if pfx "s" s then (strOfHex (dropN s 1)).map .str
  else if pfx "e" s then (strOfHex (dropN s 1)).map .err
  else if pfx "l" s then (strOfHex (dropN s 1)).map .list
  else none

def showErr : Err → String
  | .base t => "b" ++ hexOfStr t
  | .ubase t => "u" ++ hexOfStr t
  | .ctxErr d => if d then "d-" else "k-"
  | .pkgWrap m e => "p" ++ hexOfStr m ++ ">" ++ showErr e
  | .fmtWrap m e => "f" ++ hexOfStr m ++ ">" ++ showErr e
  | .recovered v => "recovered(" ++ showPVal v ++ ",1)"

def parseErrLayers : List String → Option Err
  | [] => none
  | [l] => if l = "d-" then some (.ctxErr true) else if l = "k-" then some (.ctxErr false)
           else if pfx "b" l then (strOfHex (dropN l 1)).map .base
           else if pfx "u" l then (strOfHex (dropN l 1)).map .ubase else none
  | l :: rest => do
    let inner ← parseErrLayers rest
    let m ← strOfHex (dropN l 1)
    if pfx "p" l then pure (.pkgWrap m inner)
    else if pfx "f" l then pure (.fmtWrap m inner)
    else none

def parseErr (s : String) : Option Err := parseErrLayers (splitC s '>')

def showRes : Res → String
  | .ret outs none => "ret/" ++ showOuts outs ++ "/none"
  | .ret outs (some e) => "ret/" ++ showOuts outs ++ "/" ++ showErr e
  | .panic v => "panic/" ++ showPVal v

def parseResult (s : String) : Option Res :=
  match splitC s '/' with
  | ["ok", o] => do pure (.ret (← parseOuts o) none)
  | ["er", e, o] => do pure (.ret (← parseOuts o) (some (← parseErr e)))
  | ["pn", v] => do pure (.panic (← parsePVal v))
  | _ => none

def parseScript (s : String) : Option (List Res) := do
  let rs ← (splitC s ';').mapM parseResult
  if rs.isEmpty then none else pure rs

def showDelay : Delay → String
  | .absent => "n"
  | .ns n => "ns" ++ toString n
  | .raw s => "raw" ++ hexOfStr s

def parseDelay (s : String) : Option Delay :=
  if s = "n" then some .absent
  else if pfx "ns" s then (dropN s 2).toNat?.map .ns
  else if pfx "raw" s then (strOfHex (dropN s 3)).map .raw
  else none

def parseCfg (s : String) : Option DelayCfg :=
  match (splitC s ':').mapM String.toNat? with
  | some [i, m, n, d] => if d = 0 then none else some ⟨i, m, n, d⟩
  | _ => none

def parseMw (t : String) : Option Mw :=
  if t = "T" then some (.timeout false)
  else if t = "T0" then some (.timeout true)
  else if t = "C" then some .correlation
  else if t = "R" then some .recoverer
  else if t = "A" then some .instantAck
  else if t = "H" then some .throttle
  else if t = "B" then some .breaker
  else if t = "I:" then some (.ignoreErrors [])
  else if pfx "I:" t then ((splitC (dropN t 2) '/').mapM strOfHex).map .ignoreErrors
  else if pfx "D:" t then (parseCfg (dropN t 2)).map .delayOnError
  else if pfx "Y:" t then (dropN t 2).toNat?.map .retry
  else none

def parseMws (s : String) : Option (List Mw) :=
  if s = "-" then some [] else (splitC s ',').mapM parseMw

structure MsgSpec where
  deadline : Bool
  done : Bool
  far : Bool                -- the caller's deadline lies beyond the horizon of the Timeouts
  acked : Bool              -- settled before it enters the chain
  nacked : Bool
  cid : Option String
  delay : Delay
  hcid : Option String      -- the handler overwrites the incoming correlation id with this value

def parseMsg (s : String) : Option MsgSpec :=
  match splitC s '/' with
  | [c0, cid, d, hc] => do
    -- <ctx> or <ctx>!a (acked before) or <ctx>!k (nacked before)
    let (c, ak, nk) ← (match c0.splitOn "!" with
      | [c] => some (c, false, false) | [c, "a"] => some (c, true, false) | [c, "k"] => some (c, false, true)
      | _ => none)
    let (dl, dn, far) ← (match c with
      | "live" => some (false, false, false) | "cancelled" => some (false, true, false)
      | "deadline" => some (true, false, false) | "far" => some (true, false, true)
      | _ => none)
    let cid ← (if cid = "n" then some none else (strOfHex cid).map some)
    let d ← parseDelay d
    let hc ← (if hc = "n" then some none else (strOfHex hc).map some)
    pure ⟨dl, dn, far, ak, nk, cid, d, hc⟩
  | _ => none

def b01 (b : Bool) : String := if b then "1" else "0"

def inMeta (m : MsgSpec) : Meta :=
  (match m.cid with | none => [] | some c => [(cidKey, c)]) ++ [("in_key", "in_val")]

def initSt (m : MsgSpec) (script : List Res) : St :=
  { ctx := ⟨0, m.deadline, m.done, m.far⟩, md := inMeta m, delay := m.delay, until_ := false, acked := m.acked,
    ticks := 0, script := script, log := [], hcid := m.hcid, nacked := m.nacked }

/-- deadline as the handler classifies it: 0 none, 1 within the Timeouts' horizon, 2 beyond it -/
def dlDigit (deadline far : Bool) : String := if !deadline then "0" else if far then "2" else "1"
/-- settlement: 0 none, 1 acked, 2 nacked -/
def settleDigit (acked nacked : Bool) : String := if acked then "1" else if nacked then "2" else "0"

def showCall (c : CallObs) : String :=
  dlDigit c.deadline c.far ++ b01 c.done ++ settleDigit c.acked c.nacked ++ "/" ++ showDelay c.delay

def showAfter (st0 st : St) : String :=
  b01 (st.ctx == st0.ctx) ++ dlDigit st.ctx.deadline st.ctx.far ++ b01 st.ctx.done ++ "/" ++ settleDigit st.acked st.nacked ++ "/" ++
    showDelay st.delay ++ "/" ++ b01 st.until_ ++ "/" ++ showMeta st.md

/-! ### M: the model -/

def modelStack (mws : List Mw) (m : MsgSpec) (script : List Res) : String :=
  let st0 := initSt m script
  let (r, st) := run mws scripted st0
  showRes r ++ " calls=" ++ (if st.log.isEmpty then "-" else String.intercalate "," (st.log.map showCall)) ++
    " after=" ++ showAfter st0 st

def parseSeq (s : String) : Option (List Bool) :=
  if s = "-" then some [] else
  s.toList.mapM fun c => if c = 'F' then some true else if c = 'S' then some false else none

/-- the DelayOnError middleware itself, called repeatedly on one message -/
def modelDelay (c : DelayCfg) (pre : Delay) (seq : List Bool) : String :=
  let st0 : St := { (initSt ⟨false, false, false, false, false, none, pre, none⟩ []) with md := [] }
  let rec go (st : St) : List Bool → List String
    | [] => []
    | f :: rest =>
      let r : Res := if f then .ret [⟨"o", []⟩] (some (.base "boom")) else .ret [⟨"o", []⟩] none
      let (r', st') := delayOnError c scripted { st with script := [r] }
      (showDelay st'.delay ++ "/" ++ b01 st'.until_ ++ b01 (r' == r)) :: go st' rest
  let parts := go st0 seq
  if parts.isEmpty then "-" else String.intercalate "," parts

/-! ### P: the property, clause by clause -/

/-- observation of a stack case as parsed by the monitor -/
structure Obs where
  res : String                 -- canonical result, compared as text with the expected canonical result
  isPanic : Bool
  calls : List (Nat × Bool × Nat × String)    -- deadline class, done, settlement class, delay
  same : Bool
  dl : Nat
  done : Bool
  acked : Nat
  delay : Delay
  until_ : String
  md : String

def bit (c : Char) : Option Bool := if c = '1' then some true else if c = '0' then some false else none

def digit3 (c : Char) : Option Nat := if c = '0' then some 0 else if c = '1' then some 1 else if c = '2' then some 2 else none

def parseCallObs (s : String) : Option (Nat × Bool × Nat × String) :=
  match splitC s '/' with
  | [f, d] => match f.toList with
    | [a, b, c] => do pure ((← digit3 a), (← bit b), (← digit3 c), d)
    | _ => none
  | _ => none

def parseObs (s : String) : Option Obs :=
  match s.splitOn " " with
  | [res, calls, after] =>
    if !(pfx "calls=" calls) || !(pfx "after=" after) then none else do
    let cs := dropN calls 6
    let calls ← (if cs = "-" then some [] else (splitC cs ',').mapM parseCallObs)
    match splitC (dropN after 6) '/' with
    | [f, ack, dly, unt, md] =>
      match f.toList, ack.toList with
      | [a, b, c], [k] => do
        pure ⟨res, pfx "panic/" res, calls, (← bit a), (← digit3 b), (← bit c), (← digit3 k), (← parseDelay dly), unt, md⟩
      | _, _ => none
    | _ => none
  | _ => none

def ctxErrTxt (d : Bool) : String := if d then "context deadline exceeded" else "context canceled"

def fullTxt : Err → Option String
  | .base t => some t
  | .ubase t => some t
  | .ctxErr d => some (ctxErrTxt d)
  | .pkgWrap m e => (fullTxt e).map (fun t => m ++ ": " ++ t)
  | .fmtWrap m e => (fullTxt e).map (fun t => m ++ ": " ++ t)
  | .recovered _ => none

/-- text of what `errors.Cause` of github.com/pkg/errors arrives at: only `Wrap` layers are seen through -/
def causeTxt : Err → Option String
  | .pkgWrap _ e => causeTxt e
  | .base t => some t
  | .ubase t => some t
  | .ctxErr d => some (ctxErrTxt d)
  | .fmtWrap m e => (fullTxt e).map (fun t => m ++ ": " ++ t)
  | .recovered _ => none

/-- the documented effect of one middleware on one result (Retry: none – its rule is applied separately) -/
def effect (cid : String) : Mw → Res → Res
  | .recoverer, .panic v => .ret [] (some (.recovered v))
  | .ignoreErrors l, .ret outs (some e) =>
    if (match causeTxt e with | some t => l.contains t | none => false) then .ret outs none else .ret outs (some e)
  | .correlation, .ret outs err =>
    .ret (outs.map fun o =>
      if (o.md.lookup cidKey).getD "" = "" then
        { o with md := if o.md.any (·.1 == cidKey) then o.md.map (fun kv => if kv.1 == cidKey then (kv.1, cid) else kv)
                       else o.md ++ [(cidKey, cid)] }
      else o) err
  | _, r => r

/-- effects of the middlewares `ms` (outermost first) on a result of what they wrap -/
def effects (cid : String) (ms : List Mw) (r : Res) : Res := ms.foldr (effect cid) r

def isErrRes : Res → Bool
  | .ret _ (some _) => true
  | _ => false

def nth (script : List Res) (i : Nat) : Res :=
  match script[i]? with
  | some r => r
  | none => script.getLastD (.ret [] none)

/-- Retry's own rule on the results `x i` of its attempts: (number of attempts, final result) -/
def retryOwn (x : Nat → Res) (maxR : Nat) (ctxDone : Bool) : Nat × Res :=
  if !isErrRes (x 0) then (1, x 0)
  else if ctxDone then (1, x 0)
  else
    let cap := if maxR = 0 then 1 else maxR
    let rec go (fuel j : Nat) : Nat × Res :=
      match fuel with
      | 0 => (j, x 0)
      | fuel + 1 =>
        if !isErrRes (x j) then (j + 1, x j)
        else if j = cap then
          (j + 1, match x j with | .ret _ e => .ret [] e | r => r)
        else go fuel (j + 1)
    go (cap + 1) 1

/-- exact comparison of `d` with `min(b·(num/den)^e, max)` in integers scaled by `den^e`:
    `d` may fall short of it only by the rounding to whole nanoseconds of the `e` multiplications -/
def delayWithin (c : DelayCfg) (b e d : Nat) : Bool :=
  let P := c.num ^ e
  let Q := c.den ^ e
  let target := Nat.min (b * P) (c.max * Q)             -- min(b·m^e, max) · Q
  -- what the e roundings to whole nanoseconds can lose, scaled by Q: (den-1)·Σ_{i<e} num^i·den^(e-1-i)  (0 for integer multipliers)
  let slack := (c.den - 1) * (List.range e).foldl (fun acc i => acc + c.num ^ i * c.den ^ (e - 1 - i)) 0
  decide (d * Q ≤ target) && decide (target ≤ d * Q + slack)

def splitAtRetry : List Mw → List Mw × Option Nat × List Mw
  | [] => ([], none, [])
  | .retry m :: rest => ([], some m, rest)
  | x :: rest => let (o, r, i) := splitAtRetry rest; (x :: o, r, i)

def countD (ms : List Mw) : Nat := (ms.filter fun m => match m with | .delayOnError _ => true | _ => false).length

def hasT0 (ms : List Mw) : Bool := ms.any fun m => m == .timeout true
def hasT (ms : List Mw) : Bool := ms.any fun m => match m with | .timeout _ => true | _ => false
def hasMw (ms : List Mw) (m : Mw) : Bool := ms.contains m

/-- expected delay check after `k` failures seen by the single DelayOnError `c` of a stack.
    Returns the rule violated, if any. -/
def delayRule (c : DelayCfg) (pre : Delay) (k : Nat) (obs : Delay) : Option String :=
  if k = 0 then (if obs == pre then none else some "delay_success_untouched")
  else match obs with
    | .ns d =>
      let (b, e) := match pre with
        | .ns n => (n, k)
        | _ => (c.init, k - 1)
      if delayWithin c b e d then none
      else if k = 1 && c.init > c.max && d = c.init && (match pre with | .ns _ => false | _ => true) then some "delay_first_uncapped"
      else some "delay_formula"
    | _ => some "delay_formula"

/-- the incoming message's metadata after the call: only the handler itself may have changed it -/
def inMetaAfter (m : MsgSpec) : Meta :=
  match m.hcid with
  | some v => [(cidKey, v), ("in_key", "in_val")]
  | none => inMeta m

def monitorStack (mws : List Mw) (m : MsgSpec) (script : List Res) (o : Obs) : String := Id.run do
  -- "the correlation id" of the incoming message: when the handler itself rewrites it during the call, the statement
  -- does not say whether the id before or after the call is meant – both are accepted
  let cidBefore := m.cid.getD ""
  let cidAfter := match m.hcid with
    | some v => v
    | none => cidBefore
  let (outer, ry, inner) := splitAtRetry mws
  let mut bad : List String := []
  let ctxDoneAtRetry := m.done || hasT0 outer
  -- what each attempt looks like at Retry's position (or at the top when there is no Retry)
  let xOf : String → Nat → Res := fun cid i => effects cid inner (nth script i)
  let finOf : String → Nat × Res := fun cid => match ry with
    | none => (1, xOf cid 0)
    | some maxR => retryOwn (xOf cid) maxR ctxDoneAtRetry
  let cid := cidAfter
  let (n, fin) := finOf cid
  let expected := effects cid outer fin
  let expectedAlt := effects cidBefore outer (finOf cidBefore).2
  -- a panic never escapes a Recoverer
  if o.isPanic && hasMw mws .recoverer then bad := bad ++ ["recoverer_never_escapes"]
  -- … and is turned into an error: a result that must carry a recovered panic but reports no error at all
  if (showRes expected).endsWith ",1)" && (pfx "ret/" o.res) && o.res.endsWith "/none" then
    bad := bad ++ ["recoverer_panic_becomes_error"]
  -- composition with Retry: the attempt count is Retry's own
  if o.calls.length != n then bad := bad ++ [if ry.isSome then "retry_attempt_count" else "handler_called_exactly_once"]
  -- outputs and error pass unchanged except for the documented effects
  if o.res != showRes expected && o.res != showRes expectedAlt then bad := bad ++ ["transparent_result"]
  -- a deadline is visible during the call exactly when a Timeout is in the stack (or the caller set one)
  -- settlement seen by the handler and left afterwards: acked if it was, or if an InstantAck is in the chain and no Nack was
  -- sent before (Ack is then a no-op); a message nacked before stays nacked – and still reaches the handler
  let settleAfter : Nat := if m.acked then 1 else if m.nacked then 2 else if hasMw mws .instantAck then 1 else 0
  for c in o.calls do
    -- under a Timeout the handler sees a deadline within its horizon, even when the caller had set a later one
    if c.1 != (if hasT mws then 1 else if !m.deadline then 0 else if m.far then 2 else 1) then bad := bad ++ ["timeout_deadline_visible"]
    if c.2.1 != (m.done || hasT0 mws) then bad := bad ++ ["context_done_during_call"]
    if c.2.2.1 != settleAfter then bad := bad ++ ["instant_ack_before_call"]
  -- the effect ends with the call
  if !o.same || o.dl != (if !m.deadline then 0 else if m.far then 2 else 1) || o.done != m.done then bad := bad ++ ["context_restored"]
  if o.acked != settleAfter then bad := bad ++ ["ack_only_by_instant_ack"]
  if o.md != showMeta (inMetaAfter m) then bad := bad ++ ["message_metadata_untouched"]
  -- delay metadata
  let ds := mws.filterMap fun mw => match mw with | .delayOnError c => some c | _ => none
  match ds with
  | [] =>
    if !(o.delay == m.delay) || o.until_ != "0" then bad := bad ++ ["delay_only_by_delay_on_error"]
  | [c] =>
    -- failures seen at the position of DelayOnError
    let inD := (inner.dropWhile fun mw => match mw with | .delayOnError _ => false | _ => true).drop 1
    let outD := (outer.dropWhile fun mw => match mw with | .delayOnError _ => false | _ => true).drop 1
    let k :=
      if countD inner = 1 then
        ((List.range n).filter fun i => isErrRes (effects cid inD (nth script i))).length
      else
        (if isErrRes (effects cid outD fin) then 1 else 0)
    match delayRule c m.delay k o.delay with
    | some r => bad := bad ++ [r]
    | none => pure ()
    if o.until_ != (if k = 0 then "0" else "1") then bad := bad ++ ["delay_until_written_with_for"]
  | _ => pure ()   -- two DelayOnError in one stack: the statement gives no closed form; the model diff covers it
  match bad.filter (· != "delay_first_uncapped") with
  | r :: _ => return "violated:" ++ r
  | [] => match bad with
    | r :: _ => return "violated:" ++ r
    | [] => return "ok"

def monitorDelay (c : DelayCfg) (pre : Delay) (seq : List Bool) (obs : String) : String := Id.run do
  let parts := if obs = "-" then [] else splitC obs ','
  if parts.length != seq.length then return "violated:length"
  let mut bad : List String := []
  let mut k := 0
  let mut prev := pre
  let mut anyFail := false
  for (f, p) in seq.zip parts do
    match splitC p '/' with
    | [d, flags] =>
      match parseDelay d, flags.toList with
      | some d, [u, ok] =>
        if ok != '1' then bad := bad ++ ["transparent_result"]
        if f then
          k := k + 1
          anyFail := true
          match delayRule c pre k d with
          | some r => bad := bad ++ [r]
          | none => pure ()
          if u != '1' then bad := bad ++ ["delay_until_written_with_for"]
        else
          if !(d == prev) then bad := bad ++ ["delay_success_untouched"]
          if u != (if anyFail then '1' else '0') then bad := bad ++ ["delay_success_untouched"]
        prev := d
      | _, _ => return "bad-op"
    | _ => return "bad-op"
  match bad.filter (· != "delay_first_uncapped") with
  | r :: _ => return "violated:" ++ r
  | [] => match bad with
    | r :: _ => return "violated:" ++ r
    | [] => return "ok"

/-! ### conc: n messages through ONE wrapped handler value at the same time -/

/-- number of i < n with i % t = k -/
def countOf (n t k : Nat) : Nat := if t = 0 then 0 else (n + t - 1 - k) / t

/-- the model has no state outside the message: every call is the sequential run of its own message -/
def modelConc (mws : List Mw) (m : MsgSpec) (templates : List Res) (n : Nat) : String :=
  let t := templates.length
  let groups := (List.range t).map fun k =>
    toString (countOf n t k) ++ "* " ++ modelStack mws m [templates.getD k (.ret [] none)]
  String.intercalate " || " groups

/-- every call returns its own handler's outputs and error: per template exactly one kind of observation, for all of
    its calls, and that observation satisfies the statement for a single call -/
def monitorConc (mws : List Mw) (m : MsgSpec) (templates : List Res) (n : Nat) (obs : String) : String := Id.run do
  let t := templates.length
  let groups := obs.splitOn " || "
  if groups.length != t then return "violated:unreadable_observation"
  let mut k := 0
  for g in groups do
    let entries := g.splitOn " ;; "
    let mut total := 0
    for e in entries do
      match e.splitOn "* " with
      | cnt :: rest =>
        match cnt.toNat? with
        | none => return "violated:unreadable_observation"
        | some c =>
          total := total + c
          let o := String.intercalate "* " rest
          if o = "hang" then return "violated:hang"
          match parseObs o with
          | none => return "violated:concurrent_call_returns_own_result"
          | some ob =>
            let v := monitorStack mws m [templates.getD k (.ret [] none)] ob
            if v != "ok" then
              -- calls of one kind disagreeing among themselves: interference between calls
              return (if entries.length > 1 then "violated:concurrent_call_returns_own_result" else v)
      | [] => return "violated:unreadable_observation"
    if total != countOf n t k then return "violated:concurrent_call_count"
    k := k + 1
  return "ok"

def ctxKindOk (c : String) : Bool := c = "live" || c = "cancelled" || c = "timeout"

/-- `stackn` = `stack` executed in a program with GODEBUG=panicnil=1 (recover() returns nil for panic(nil)): the
    statement, and the model, are the same – every panic value, nil included, is a panic -/
def handle (line : String) : String :=
  match line.splitOn " " with
  | ["M", kind, mws, msg, script] =>
    if kind != "stack" && kind != "stackn" then
      (match kind, parseCfg mws, parseDelay msg, parseSeq script with
       | "delay", some c, some p, some s => modelDelay c p s
       | _, _, _, _ => "bad-op")
    else
    match parseMws mws, parseMsg msg, parseScript script with
    | some mws, some m, some sc => modelStack mws m sc
    | _, _, _ => "bad-op"
  | "P" :: kind :: mws :: msg :: script :: "##" :: obs =>
    if kind = "delay" then
      (match obs, parseCfg mws, parseDelay msg, parseSeq script with
       | [o], some c, some p, some s => monitorDelay c p s o
       | _, _, _, _ => "bad-op")
    else if kind != "stack" && kind != "stackn" then "bad-op" else
    match parseMws mws, parseMsg msg, parseScript script with
    | some mws, some m, some sc =>
      if obs = ["hang"] then "violated:hang" else
      match parseObs (String.intercalate " " obs) with
      | some o => monitorStack mws m sc o
      | none => "violated:unreadable_observation"
    | _, _, _ => "bad-op"
  | ["M", "conc", mws, msg, templates, g, n] =>
    match parseMws mws, parseMsg msg, parseScript templates, g.toNat?, n.toNat? with
    | some mws, some m, some ts, some g, some n => if g = 0 || n = 0 then "bad-op" else modelConc mws m ts n
    | _, _, _, _, _ => "bad-op"
  | "P" :: "conc" :: mws :: msg :: templates :: g :: n :: "##" :: obs =>
    match parseMws mws, parseMsg msg, parseScript templates, g.toNat?, n.toNat? with
    | some mws, some m, some ts, some g, some n =>
      if g = 0 || n = 0 then "bad-op"
      else if obs = ["hang"] then "violated:hang"
      else monitorConc mws m ts n (String.intercalate " " obs)
    | _, _, _, _, _ => "bad-op"
  | ["M", "throttle", n, count, dur, k, ctx] =>
    match n.toNat?, count.toNat?, dur.toNat?, k.toNat? with
    | some n, some c, some d, some k =>
      -- the model's Throttle takes a tick for every message, whatever its context: the bound always holds
      if n = 0 || c = 0 || d / c = 0 || k = 0 || !ctxKindOk ctx then "bad-op" else "starts=" ++ toString n ++ " spaced=1"
    | _, _, _, _ => "bad-op"
  | ["P", "throttle", n, count, dur, k, ctx, "##", starts, spaced] =>
    match n.toNat?, count.toNat?, dur.toNat?, k.toNat? with
    | some n, some c, some d, some k =>
      if n = 0 || c = 0 || d / c = 0 || k = 0 || !ctxKindOk ctx then "bad-op"
      else if starts != "starts=" ++ toString n then "violated:transparent_result"
      else if spaced != "spaced=1" then "violated:throttle_rate"
      else "ok"
    | _, _, _, _ => "bad-op"
  | _ => "bad-op"

end C19

def main : IO Unit := driverMain C19.handle
