/-
  Line-protocol driver of C16 (value semantics).  `M <request>` answers with the model's observation,
  `P <request> ## <observation>` evaluates the property's statement on the implementation's observation.

  Strings and bytes are hex tokens (`-` = empty).  Message literal `MSG = <uuid>/<payload>/<metadata>`:
  payload `~` = nil slice, `-` = empty; metadata `~` = nil map, `-` = empty map, else `k=v,k=v`
  (requests: insertion order, keys unique; observations: sorted by key).

    pair MSG MSG                    -> four letters t/f: a.Equals(b) b.Equals(a) a.Equals(a) b.Equals(b)
    heap OP*                        -> per op `RES;MSG;…;MSG` (result, then every object of the heap)
         OP: n:U:P NewMessage | z:U:P &Message{UUID,Payload} | c:I Copy | a:I shallow struct copy (shares the map)
             s:I:K:V Metadata.Set | g:I:K Metadata.Get | e:I:J Equals | u:I:U set UUID | p:I:P set Payload
             t:I:N m.Payload = m.Payload[:N] (a shorter view of the same buffer; N <= len)
             w:I the message unwrap(wrap("t", m_I)) returns (a decoded message: nil metadata stays nil)
         RES: + created | cXY copied (copy.Equals(orig), orig.Equals(copy)) | . done | P panic | v<hex> | t | f
    env DEST MSG                    -> ok E:<dest>/<uuid>/<payload>/<meta> W:<wrapper metadata> U:<dest> <MSG> | err:wrap
    jenv DEST MSG                   -> hex of the JSON text of the envelope (stretch: Lean model of encoding/json) | err:wrap
    jdec RAW                        -> dest/uuid/payload/meta as decoded from the JSON text RAW (Lean decoder vs json.Unmarshal) | none
    fpub CFGTOPIC TOPIC MSG*        -> ok T:<topic published to> (<dest> <MSG>)* | err:wrap
    unenv DECODED RAW               -> ok <dest> <MSG> | err:unmarshal | err:invalid      (DECODED = none | dest/uuid/payload/meta)
    cqrs KIND UUIDOPT SER VALUE NAME-> ok <uuid|#> <metadata> <nameFromMessage> <value after Unmarshal> | err:marshal
    reply SER VALUE ERR             -> ok <metadata> <value> <err> | err:marshal        (ERR: ~ = no error, else text)
    unreply META VALUE              -> ok <value> <err>
-/
import WmModel.Basic
import WmModel.Value
import WmModel.ValueCodec
import WmModel.ValueJson
open Wm Wm.Value

/-! ### tokens -/

def strOfHex (s : String) : Option String := do
  let bs ← hexDec s
  String.fromUTF8? (ByteArray.mk bs.toArray)

def hexOfStr (s : String) : String := hexEnc s.toUTF8.toList

def payloadOf (s : String) : Option (Option Bytes) :=
  if s = "~" then some none else (hexDec s).map some

def payloadTok : Option Bytes → String
  | none => "~"
  | some b => hexEnc b

def entryOf (s : String) : Option (String × String) :=
  match s.splitOn "=" with
  | [k, v] => do pure (← strOfHex k, ← strOfHex v)
  | _ => none

def metaOf (s : String) : Option (Option Meta) :=
  if s = "~" then some none
  else if s = "-" then some (some [])
  else ((s.splitOn ",").mapM entryOf).map some

/-- canonical rendering: entries sorted by the hex of the key (= byte order of the key) -/
def metaTok : Option Meta → String
  | none => "~"
  | some [] => "-"
  | some m =>
    let es := m.map fun (k, v) => (hexOfStr k, hexOfStr v)
    let es := es.mergeSort fun a b => !(b.1 < a.1)
    ",".intercalate (es.map fun (k, v) => k ++ "=" ++ v)

def msgOf (s : String) : Option Msg :=
  match s.splitOn "/" with
  | [u, p, m] => do
    let u ← strOfHex u
    let p ← payloadOf p
    let m ← metaOf m
    if decide (NoDupKeys (m.getD [])) then pure ⟨u, p, m⟩ else none
  | _ => none

def msgTok (m : Msg) : String := hexOfStr m.uuid ++ "/" ++ payloadTok m.payload ++ "/" ++ metaTok m.metadata

def tf (b : Bool) : String := if b then "t" else "f"

/-! ### the property's notion of "coincide", written independently of `equals` -/

def sortedEntries (m : Msg) : List (String × String) :=
  (m.md.map fun (k, v) => (hexOfStr k, hexOfStr v)).mergeSort fun a b => !(b.1 < a.1)

/-- UUID, payload bytes and the complete metadata key/value set coincide -/
def coincide (a b : Msg) : Bool :=
  a.uuid == b.uuid && a.bytes == b.bytes && sortedEntries a == sortedEntries b

/-! ### heap programs -/

def opOf (s : String) : Option Op :=
  match s.splitOn ":" with
  | ["n", u, p] => do pure (.new (← strOfHex u) (← payloadOf p))
  | ["z", u, p] => do pure (.lit (← strOfHex u) (← payloadOf p))
  | ["c", i] => do pure (.copy (← i.toNat?))
  | ["a", i] => do pure (.alias (← i.toNat?))
  | ["s", i, k, v] => do pure (.set (← i.toNat?) (← strOfHex k) (← strOfHex v))
  | ["g", i, k] => do pure (.get (← i.toNat?) (← strOfHex k))
  | ["e", i, j] => do pure (.equals (← i.toNat?) (← j.toNat?))
  | ["u", i, u] => do pure (.setUuid (← i.toNat?) (← strOfHex u))
  | ["p", i, p] => do pure (.setPayload (← i.toNat?) (← payloadOf p))
  | ["w", i] => do pure (.rewrap (← i.toNat?))
  | ["t", i, n] => do pure (.truncPayload (← i.toNat?) (← n.toNat?))
  | _ => none

def resTok : Res → String
  | .created => "+"
  | .copied x y => "c" ++ tf x ++ tf y
  | .done => "."
  | .panic => "P"
  | .str s => "v" ++ hexOfStr s
  | .bool b => tf b
  | .bad => "!"

def heapDump (h : Heap) : List String :=
  (List.range h.objs.length).filterMap fun i => (h.view i).map msgTok

def heapModel (ops : List Op) : String :=
  let rs := run Heap.empty ops
  if rs.any (fun r => r.1 == .bad) then "bad-op"
  else if rs.isEmpty then "-"
  else " ".intercalate (rs.map fun (r, h) => ";".intercalate (resTok r :: heapDump h))

/-- one observed step: result token and the dump of every object -/
def obsStepOf (s : String) : Option (String × List Msg) :=
  match s.splitOn ";" with
  | r :: ms => (ms.mapM msgOf).map fun ms => (r, ms)
  | [] => none

/-- The property on an observed heap run.  `cls` = alias class of every object, maintained from the
    *operations* alone (`a:I` shares, everything else creates a fresh class). -/
def heapMonitor (ops : List Op) (obs : List (String × List Msg)) : String := Id.run do
  if ops.length != obs.length then return "bad-op"
  let mut cls : Array Nat := #[]
  let mut prev : Array Msg := #[]
  let mut fresh := 0
  -- which objects are results of `Copy()` (or share the map of one): the property promises them a map of their own
  let mut isCopy : Array Bool := #[]
  for (op, (res, dump)) in ops.zip obs do
    let cur := dump.toArray
    match op with
    | .new _ _ | .lit _ _ =>
      cls := cls.push fresh; fresh := fresh + 1; isCopy := isCopy.push false
    | .rewrap i =>
      cls := cls.push fresh; fresh := fresh + 1; isCopy := isCopy.push false
      -- through the forwarder envelope and back: "identity for … UUID, payload, metadata"
      match cur[prev.size]?, cur[i]? with
      | some c, some o => if !coincide c o then return "violated:envelope_round_trip_message"
      | _, _ => return "bad-op"
    | .alias i =>
      cls := cls.push (cls.getD i fresh); fresh := fresh + 1; isCopy := isCopy.push (isCopy.getD i false)
    | .copy i =>
      cls := cls.push fresh; fresh := fresh + 1; isCopy := isCopy.push true
      -- "Copy() yields a message that Equals the original"
      if res != "ctt" then return "violated:copy_equals"
      match cur[prev.size]?, cur[i]? with
      | some c, some o => if !coincide c o then return "violated:copy_equals"
      | _, _ => return "bad-op"
    | .set i _ _ =>
      -- "… and owns its metadata": a copy has a map of its own to write to, whatever the original looked like
      -- (nil Metadata included): a write through a copy must not panic.  (Whether a write through any *other*
      -- object with nil Metadata panics is Go's business, not a claim of this property.)
      if res == "P" && isCopy.getD i false then return "violated:copy_owns_metadata_nil_original"
      -- a write through one object is invisible through every object that is not
      -- a declared alias of it – in particular through its copies and through what it was copied from
      for x in [0:prev.size] do
        if cls.getD x 0 != cls.getD i 0 then
          match prev[x]?, cur[x]? with
          | some a, some b => if !(decide (a = b)) then return "violated:copy_owns_metadata"
          | _, _ => return "bad-op"
    | .equals i j =>
      -- "Equals is true exactly when UUID, payload bytes and the complete metadata key/value set coincide"
      match cur[i]?, cur[j]? with
      | some a, some b =>
        if res != tf (coincide a b) then return "violated:equals_iff"
      | _, _ => return "bad-op"
    | _ => pure ()
    prev := cur
  return "ok"

/-! ### codecs -/

def errTok : EnvErr → String
  | .unknownDestination => "err:wrap"
  | .cannotMarshal => "err:marshal"
  | .cannotUnmarshal => "err:unmarshal"
  | .invalidEnvelope => "err:invalid"

def envTok (e : Envelope) : String :=
  hexOfStr e.dest ++ "/" ++ hexOfStr e.uuid ++ "/" ++ payloadTok e.payload ++ "/" ++ metaTok e.metadata

def envOf (s : String) : Option Envelope :=
  match s.splitOn "/" with
  | [d, u, p, m] => do
    let d ← strOfHex d
    let u ← strOfHex u
    let p ← payloadOf p
    let m ← metaOf m
    if decide (NoDupKeys (m.getD [])) then pure ⟨d, u, p, m⟩ else none
  | _ => none

def envModel (dest : String) (m : Msg) : String :=
  match newEnvelope dest m, wrap Wire.envCodec "#" dest m with
  | .ok e, .ok w =>
    match unwrap Wire.envCodec w with
    | .ok (d, m') => s!"ok E:{envTok e} W:{metaTok w.metadata} U:{hexOfStr d} {msgTok m'}"
    | .error e => errTok e
  | .error e, _ => errTok e
  | _, .error e => errTok e

def fpubModel (cfg topic : String) (ms : List Msg) : String :=
  match publisherPublish Wire.envCodec cfg topic (ms.map fun m => ("#", m)) with
  | .error e => errTok e
  | .ok (t, ws) =>
    let parts := ws.map fun w =>
      match unwrap Wire.envCodec w with
      | .ok (d, m') => hexOfStr d ++ " " ++ msgTok m'
      | .error e => errTok e
    " ".intercalate (("ok T:" ++ hexOfStr t) :: parts)

/-- for the malformed stream the decoder's verdict is data of the request -/
def unenvModel (d : Option Envelope) : String :=
  let c : Codec Envelope := ⟨fun _ => none, fun _ => d⟩
  match unwrap c ⟨"", some [], some []⟩ with
  | .ok (dst, m) => s!"ok {hexOfStr dst} {msgTok m}"
  | .error e => errTok e

/-- values are opaque tokens; `ser = false`: the library refuses the value -/
def tokCodec (ser : Bool) : Codec Bytes := if ser then Wire.tokenCodec else ⟨fun _ => none, fun _ => none⟩

def cqrsModel (uuid : Option String) (ser : Bool) (value : Bytes) (name : String) : String :=
  let mar : Marshaler Bytes := ⟨tokCodec ser, fun _ => name⟩
  match marshal mar (uuid.getD "#") value with
  | none => "err:marshal"
  | some msg =>
    match unmarshal mar msg with
    | none => "err:unmarshal"
    | some v =>
      let u := match uuid with | none => "#" | some u => hexOfStr u
      s!"ok {u} {metaTok msg.metadata} {hexOfStr (nameFromMessage msg)} {hexEnc v}"

def errOptTok : Option String → String
  | none => "~"
  | some e => hexOfStr e

def errOptOf (s : String) : Option (Option String) :=
  if s = "~" then some none else (strOfHex s).map some

def replyModel (ser : Bool) (value : Bytes) (err : Option String) : String :=
  match marshalReply (tokCodec ser) "#" ⟨value, err⟩ with
  | none => "err:marshal"
  | some msg =>
    match unmarshalReply (tokCodec ser) msg with
    | none => "err:unmarshal"
    | some r => s!"ok {metaTok msg.metadata} {hexEnc r.result} {errOptTok r.err}"

def unreplyModel (md : Option Meta) (value : Bytes) : String :=
  match unmarshalReply Wire.tokenCodec ⟨"", some value, md⟩ with
  | none => "err:unmarshal"
  | some r => s!"ok {hexEnc r.result} {errOptTok r.err}"

def boolOf (s : String) : Option Bool :=
  if s = "s" then some true else if s = "u" then some false else none

def uuidOptOf (s : String) : Option (Option String) :=
  if s = "d" then some none
  else match s.splitOn ":" with
    | ["c", u] => (strOfHex u).map some
    | _ => none

/-! ### dispatch -/

def splitObs (ws : List String) : List String × List String :=
  (ws.takeWhile (· != "##"), (ws.dropWhile (· != "##")).drop 1)

def model (ws : List String) : String :=
  match ws with
  | ["pair", a, b] =>
    match msgOf a, msgOf b with
    | some a, some b => tf (equals a b) ++ tf (equals b a) ++ tf (equals a a) ++ tf (equals b b)
    | _, _ => "bad-op"
  | "heap" :: ops =>
    match ops.mapM opOf with
    | some ops => heapModel ops
    | none => "bad-op"
  | ["env", d, m] =>
    match strOfHex d, msgOf m with
    | some d, some m => envModel d m
    | _, _ => "bad-op"
  | ["jenv", d, m] =>
    -- stretch: the JSON text encoding/json produces for the envelope, byte for byte
    match strOfHex d, msgOf m with
    | some d, some m =>
      match newEnvelope d m with
      | .ok e => hexEnc (Json.jsonEnvelope e)
      | .error e => errTok e
    | _, _ => "bad-op"
  | ["jdec", raw] =>
    -- stretch: the Lean decoder on a JSON text the real encoder produced, against what json.Unmarshal makes of it
    match hexDec raw with
    | some b =>
      match Json.jsonCodec.dec b with
      | some e => envTok e
      | none => "none"
    | none => "bad-op"
  | "fpub" :: cfg :: topic :: ms =>
    match strOfHex cfg, strOfHex topic, ms.mapM msgOf with
    | some cfg, some topic, some ms => fpubModel cfg topic ms
    | _, _, _ => "bad-op"
  | ["unenv", d, _raw] =>
    if d = "none" then unenvModel none
    else match envOf d with
      | some e => unenvModel (some e)
      | none => "bad-op"
  | ["cqrs", kind, u, ser, v, n, _gen] =>
    if kind != "json" && kind != "proto" && kind != "gogo" then "bad-op" else
    match uuidOptOf u, boolOf ser, hexDec v, strOfHex n with
    | some u, some ser, some v, some n => cqrsModel u ser v n
    | _, _, _, _ => "bad-op"
  | ["reply", ser, v, e, _gen] =>
    match boolOf ser, hexDec v, errOptOf e with
    | some ser, some v, some e => replyModel ser v e
    | _, _, _ => "bad-op"
  | ["unreply", md, v, _seed] =>
    match metaOf md, hexDec v with
    | some md, some v => if decide (NoDupKeys (md.getD [])) then unreplyModel md v else "bad-op"
    | _, _ => "bad-op"
  | _ => "bad-op"

def monitor (req obs : List String) : String :=
  match req with
  | ["pair", a, b] =>
    match msgOf a, msgOf b, obs with
    | some a, some b, [o] =>
      if o.length != 4 || o.any (fun c => c != 't' && c != 'f' && c != 'P') then "bad-op"
      else
        -- a panicking call did not answer `true`
        let o := String.ofList (o.toList.map fun c => if c == 'P' then 'f' else c)
        let want := tf (coincide a b) ++ tf (coincide b a) ++ "tt"
        if o == want then "ok"
        else if (o.toList.drop 2) != ['t', 't'] then "violated:equals_refl"
        else "violated:equals_iff"
    | _, _, _ => "bad-op"
  | "heap" :: ops =>
    match ops.mapM opOf with
    | none => "bad-op"
    | some ops =>
      let obs := if obs == ["-"] then [] else obs
      match obs.mapM obsStepOf with
      | none => "bad-op"
      | some obs => heapMonitor ops obs
  | ["env", d, m] =>
    match strOfHex d, msgOf m with
    | some d, some m =>
      if d = "" then "ok"      -- the property speaks about non-empty destination topics only
      else match obs with
        | ["ok", _, _, u, m'] =>
          match (if u.startsWith "U:" then strOfHex (u.drop 2).toString else none), msgOf m' with
          | some d', some m' =>
            if d' != d then "violated:envelope_round_trip_destination"
            else if m'.uuid != m.uuid then "violated:envelope_round_trip_uuid"
            else if m'.bytes != m.bytes then "violated:envelope_round_trip_payload"
            else if !coincide m' m then "violated:envelope_round_trip_metadata"
            else "ok"
          | _, _ => "bad-op"
        | [e] => if e.startsWith "err:" then "violated:envelope_round_trip_error" else "bad-op"
        | _ => "bad-op"
    | _, _ => "bad-op"
  | "fpub" :: _cfg :: topic :: ms =>
    match strOfHex topic, ms.mapM msgOf with
    | some topic, some ms =>
      if topic = "" then "ok" else
      match obs with
      | "ok" :: _t :: rest =>
        if rest.length != 2 * ms.length then "violated:envelope_round_trip_count" else
        let rec go : List Msg → List String → String
          | [], _ => "ok"
          | m :: ms, d' :: m' :: rest =>
            match strOfHex d', msgOf m' with
            | some d', some m' =>
              if d' != topic then "violated:envelope_round_trip_destination"
              else if !coincide m' m then "violated:envelope_round_trip_message"
              else go ms rest
            | _, _ => "bad-op"
          | _, _ => "bad-op"
        go ms rest
      | [e] => if e.startsWith "err:" then "violated:envelope_round_trip_error" else "bad-op"
      | _ => "bad-op"
    | _, _ => "bad-op"
  | ["jenv", _, _] => if obs.isEmpty then "bad-op" else "ok"     -- wire text of the envelope: no clause of C16 (model diff only)
  | ["jdec", _] => if obs.isEmpty then "bad-op" else "ok"        -- decoder agreement: a test of the library, no clause of C16
  | ["unenv", _, _] => if obs.isEmpty then "bad-op" else "ok"     -- malformed envelopes: no clause of C16 (model diff only)
  | ["cqrs", _kind, _u, ser, v, n, _gen] =>
    match boolOf ser, hexDec v, strOfHex n with
    | some ser, some v, some n =>
      if !ser then (if obs.isEmpty then "bad-op" else "ok")   -- not serialisable: outside the quantifier
      else match obs with
        | ["ok", _u, _md, nfm, v'] =>
          match strOfHex nfm, hexDec v' with
          | some nfm, some v' =>
            if v' != v then "violated:marshal_round_trip"
            else if nfm != n then "violated:name_from_message"
            else "ok"
          | _, _ => "bad-op"
        | [e] => if e.startsWith "err:" then "violated:marshal_round_trip_error" else "bad-op"
        | _ => "bad-op"
    | _, _, _ => "bad-op"
  | ["reply", ser, v, e, _gen] =>
    match boolOf ser, hexDec v, errOptOf e with
    | some ser, some v, some e =>
      if !ser then (if obs.isEmpty then "bad-op" else "ok")
      else match obs with
        | ["ok", _md, v', e'] =>
          match hexDec v', errOptOf e' with
          | some v', some e' =>
            if v' != v then "violated:reply_round_trip_result"
            else if e' != e then "violated:reply_round_trip_error_text"
            else "ok"
          | _, _ => "bad-op"
        | [x] => if x.startsWith "err:" then "violated:reply_round_trip_error" else "bad-op"
        | _ => "bad-op"
    | _, _, _ => "bad-op"
  | ["unreply", _, _, _] => if obs.isEmpty then "bad-op" else "ok"  -- decoding hand-made messages: model diff only
  | _ => "bad-op"

def handle (line : String) : String :=
  match line.splitOn " " with
  | "M" :: ws => model ws
  | "P" :: ws =>
    let (req, obs) := splitObs ws
    monitor req obs
  | _ => "bad-op"

def main : IO Unit := driverMain handle
