/-
  M_dec – the message-transform subscriber decorator (message/decorator.go: `messageTransformSubscriberDecorator`
  Subscribe with its pump goroutine, Close), as a labelled transition system with explicit threads.
  Core-only, executable.

  What is modelled: `subscribeWg`, `subscribeWgLock` (fix 5f07168), `closing` + `closingOnce`, per Subscribe call the
  inner channel `in` (open/closed, number of messages waiting in it), the pump goroutine (`for msg := range in`,
  the `select { out <- msg | <-closing }`, `close(out)`, `subscribeWg.Done()`), any number of concurrent Subscribe and
  Close calls.  The inner subscriber is abstracted by what C07 states about it: `inner.Close()` returns only after every
  channel it handed out is closed, and Subscribe fails afterwards; before that it may deliver messages into its
  channels and close any of them at any time (context cancel).  The consumer of `out` is an unconstrained environment
  action (`deliver`); it may stop reading for good.
  `sync.WaitGroup` misuse is a panic of the model: `Done` at zero, and `Add` while another goroutine is inside `Wait`
  (what the decorator did before fix 5f07168).

  Threads are entries of `ths`; a thread id is its index.  Atomic steps = lock operations / channel operations.
-/
namespace Wm.GcDec

inductive SPc | inner | lock | add | unlock | spawn | retOk | retErr
  deriving DecidableEq, Repr, Hashable
inductive CPc | inner | once | lock | wait | unlock | ret
  deriving DecidableEq, Repr, Hashable
inductive PPc | recv | send | closeOut | wgDone | done
  deriving DecidableEq, Repr, Hashable

inductive Th
  | sub (ch : Nat) (pc : SPc)                               -- a Subscribe call; `ch`: index of its inner channel
  | closer (pc : CPc)                                       -- a Close call
  | pump (ch : Nat) (pc : PPc) (received forwarded dropped : Nat)   -- the goroutine started by Subscribe (ghost counters)
  deriving DecidableEq, Repr, Hashable

structure In where
  isOpen  : Bool
  pending : Nat
  deriving DecidableEq, Repr, Hashable

structure St where
  innerClosed : Bool               -- `t.sub.Close()` has returned
  ins         : List In            -- channels handed out by the inner Subscribe
  closing     : Bool               -- `t.closing` closed
  onceDone    : Bool               -- `closingOnce` used
  wgLock      : Option Nat         -- holder of `subscribeWgLock`
  wg          : Nat                -- `subscribeWg`
  outClosed   : List Nat           -- ghost: inner-channel indices whose `out` channel was closed
  ths         : List Th
  panicked    : Bool
  deriving DecidableEq, Repr, Hashable

def init : St :=
  { innerClosed := false, ins := [], closing := false, onceDone := false, wgLock := none, wg := 0, outClosed := [],
    ths := [], panicked := false }

inductive Action
  | newSub | newClose
  | push (k : Nat)          -- the inner subscriber delivers a message into channel `k`
  | inClose (k : Nat)       -- the inner subscriber closes channel `k` (its context was cancelled)
  | deliver (i : Nat)       -- the consumer takes the message pump `i` offers on `out`
  | subFail (i : Nat)       -- the inner Subscribe of thread `i` fails
  | step (i : Nat)
  deriving DecidableEq, Repr

def setTh (s : St) (i : Nat) (th : Th) : St := { s with ths := s.ths.set i th }

def isWaiting : Th → Bool
  | .closer .wait => true
  | _ => false

def stepSub (s : St) (i k : Nat) (pc : SPc) : Option St :=
  match pc with
  | .inner =>           -- `t.sub.Subscribe(ctx, topic)`
    if s.innerClosed then some (setTh s i (.sub k .retErr))
    else some (setTh { s with ins := s.ins ++ [⟨true, 0⟩] } i (.sub s.ins.length .lock))
  | .lock => if s.wgLock.isNone then some (setTh { s with wgLock := some i } i (.sub k .add)) else none
  | .add =>             -- `subscribeWg.Add(1)`: must not run while somebody is inside `Wait`
    if s.ths.any isWaiting then some { s with panicked := true }
    else some (setTh { s with wg := s.wg + 1 } i (.sub k .unlock))
  | .unlock => some (setTh { s with wgLock := none } i (.sub k .spawn))
  | .spawn => some { s with ths := s.ths.set i (.sub k .retOk) ++ [.pump k .recv 0 0 0] }
  | .retOk | .retErr => none

def stepCloser (s : St) (i : Nat) (pc : CPc) : Option St :=
  match pc with
  | .inner =>           -- `t.sub.Close()`: on return every channel it handed out is closed
    some (setTh { s with innerClosed := true, ins := s.ins.map (fun c => { c with isOpen := false }) } i (.closer .once))
  | .once =>            -- `closingOnce.Do(func() { close(t.closing) })`
    if s.onceDone then some (setTh s i (.closer .lock))
    else if s.closing then some { s with panicked := true }
    else some (setTh { s with closing := true, onceDone := true } i (.closer .lock))
  | .lock => if s.wgLock.isNone then some (setTh { s with wgLock := some i } i (.closer .wait)) else none
  | .wait => if s.wg = 0 then some (setTh s i (.closer .unlock)) else none
  | .unlock => some (setTh { s with wgLock := none } i (.closer .ret))
  | .ret => none

def stepPump (s : St) (i k : Nat) (pc : PPc) (r f d : Nat) : Option St :=
  match pc with
  | .recv =>            -- `for msg := range in`
    match s.ins[k]? with
    | some c =>
      if 0 < c.pending then
        some (setTh { s with ins := s.ins.set k { c with pending := c.pending - 1 } } i (.pump k .send (r + 1) f d))
      else if c.isOpen then none
      else some (setTh s i (.pump k .closeOut r f d))
    | none => none
  | .send =>            -- `select { case out <- msg: (action deliver) | case <-t.closing: }`
    if s.closing then some (setTh s i (.pump k .recv r f (d + 1))) else none
  | .closeOut =>        -- `close(out)`
    if s.outClosed.contains k then some { s with panicked := true }
    else some (setTh { s with outClosed := k :: s.outClosed } i (.pump k .wgDone r f d))
  | .wgDone =>          -- `subscribeWg.Done()`
    if s.wg = 0 then some { s with panicked := true }
    else some (setTh { s with wg := s.wg - 1 } i (.pump k .done r f d))
  | .done => none

def act (s : St) : Action → Option St
  | .newSub => some { s with ths := s.ths ++ [.sub 0 .inner] }
  | .newClose => some { s with ths := s.ths ++ [.closer .inner] }
  | .push k =>
    match s.ins[k]? with
    | some c => if c.isOpen then some { s with ins := s.ins.set k { c with pending := c.pending + 1 } } else none
    | none => none
  | .inClose k =>
    match s.ins[k]? with
    | some c => some { s with ins := s.ins.set k { c with isOpen := false } }
    | none => none
  | .deliver i =>
    match s.ths[i]? with
    | some (.pump k .send r f d) => some (setTh s i (.pump k .recv r (f + 1) d))
    | _ => none
  | .subFail i =>
    match s.ths[i]? with
    | some (.sub k .inner) => some (setTh s i (.sub k .retErr))
    | _ => none
  | .step i =>
    match s.ths[i]? with
    | some (.sub k pc) => stepSub s i k pc
    | some (.closer pc) => stepCloser s i pc
    | some (.pump k pc r f d) => stepPump s i k pc r f d
    | none => none

def someThreadEnabled (s : St) : Bool :=
  (List.range s.ths.length).any (fun i => (act s (.step i)).isSome)

end Wm.GcDec
