/-
  The watermill-side glue around the library codecs (encoding/json, protobuf), over an ABSTRACT codec:

  * forwarder envelope   components/forwarder/envelope.go  (newMessageEnvelope/validate/wrap/unwrap),
                         components/forwarder/publisher.go (Publisher.Publish)
  * CQRS marshalers      components/cqrs/marshaler_json.go, marshaler_protobuf.go, marshaler_protobuf_gogo.go
  * request-reply        components/requestreply/backend_pubsub_marshaler.go

  What the library does is a parameter (`Codec`); the round-trip theorems of `Props/C16.lean` assume
  `Codec.RoundTrips` and nothing else.  What watermill does around it – which fields go into the envelope,
  the `name` metadata key, the has-error/error encoding of replies, the validation of the destination topic –
  is modelled exactly.  Core-only, executable.
-/
import WmModel.Value
namespace Wm.Value

/-- a library codec for values of type `α`.  `enc = none`: the library reports an error. -/
structure Codec (α : Type) where
  enc : α → Option Bytes
  dec : Bytes → Option α

/-- the codec hypothesis (library behaviour, *tested* by the harness, never proved):
    whatever encodes successfully decodes to the same value -/
def Codec.RoundTrips (c : Codec α) : Prop := ∀ x b, c.enc x = some b → c.dec b = some x

/-! ### forwarder envelope -/

/-- `messageEnvelope` with its four JSON fields -/
structure Envelope where
  dest : String               -- `json:"destination_topic"`
  uuid : String               -- `json:"uuid"`
  payload : Option Bytes      -- `json:"payload"`
  metadata : Option Meta      -- `json:"metadata"`
  deriving DecidableEq, Repr, Inhabited

inductive EnvErr | unknownDestination | cannotMarshal | cannotUnmarshal | invalidEnvelope
  deriving DecidableEq, Repr

/-- `(*messageEnvelope).validate` -/
def Envelope.valid (e : Envelope) : Bool := e.dest ≠ ""

/-- `newMessageEnvelope` -/
def newEnvelope (dest : String) (m : Msg) : Except EnvErr Envelope :=
  let e : Envelope := ⟨dest, m.uuid, m.payload, m.metadata⟩
  if e.valid then .ok e else .error .unknownDestination

/-- `wrapMessageInEnvelope`; `newUUID` is what `watermill.NewUUID()` returned -/
def wrap (c : Codec Envelope) (newUUID : String) (dest : String) (m : Msg) : Except EnvErr Msg :=
  match newEnvelope dest m with
  | .error e => .error e
  | .ok e =>
    match c.enc e with
    | none => .error .cannotMarshal
    | some b => .ok ⟨newUUID, some b, some []⟩

/-- `unwrapMessageFromEnvelope` -/
def unwrap (c : Codec Envelope) (w : Msg) : Except EnvErr (String × Msg) :=
  match c.dec w.bytes with
  | none => .error .cannotUnmarshal
  | some e =>
    if e.valid then .ok (e.dest, ⟨e.uuid, e.payload, e.metadata⟩) else .error .invalidEnvelope

def defaultForwarderTopic : String := "forwarder_topic"

/-- `PublisherConfig.setDefaults` -/
def forwarderTopic (cfg : String) : String := if cfg = "" then defaultForwarderTopic else cfg

/-- the wrapping loop of `Publisher.Publish`: all messages are wrapped for `topic`; the first failure aborts -/
def wrapAll (c : Codec Envelope) (topic : String) : List (String × Msg) → Except EnvErr (List Msg)
  | [] => .ok []
  | (u, m) :: rest =>
    match wrap c u topic m with
    | .error e => .error e
    | .ok w =>
      match wrapAll c topic rest with
      | .error e => .error e
      | .ok ws => .ok (w :: ws)

/-- `Publisher.Publish(topic, msgs...)`: the call made on the wrapped publisher (`msgs` paired with the fresh UUIDs) -/
def publisherPublish (c : Codec Envelope) (cfgTopic topic : String) (msgs : List (String × Msg)) :
    Except EnvErr (String × List Msg) :=
  match wrapAll c topic msgs with
  | .error e => .error e
  | .ok ws => .ok (forwarderTopic cfgTopic, ws)

/-! ### CQRS marshalers (JSON, Protobuf, gogo Protobuf share this shape) -/

def nameKey : String := "name"

/-- a marshaler = a library codec plus the naming function (`GenerateName` or `FullyQualifiedStructName`,
    reflection: a parameter) -/
structure Marshaler (α : Type) where
  codec : Codec α
  name : α → String

/-- `Marshal`: `NewMessage(newUUID(), b)` + `msg.Metadata.Set("name", m.Name(v))` -/
def marshal (m : Marshaler α) (newUUID : String) (v : α) : Option Msg :=
  match m.codec.enc v with
  | none => none
  | some b => some ⟨newUUID, some b, some (set [] nameKey (m.name v))⟩

/-- `Unmarshal`: decodes `msg.Payload` -/
def unmarshal (m : Marshaler α) (msg : Msg) : Option α := m.codec.dec msg.bytes

/-- `NameFromMessage`: `msg.Metadata.Get("name")` -/
def nameFromMessage (msg : Msg) : String := get msg.md nameKey

/-- `ProtobufMarshaler` (gogo) with the std-proto fallback enabled: when the first library fails, the second is tried -/
def Codec.orElse (c₁ c₂ : Codec α) : Codec α where
  enc x := match c₁.enc x with | some b => some b | none => c₂.enc x
  dec b := match c₁.dec b with | some x => some x | none => c₂.dec b

/-! ### request-reply replies -/

def errorKey : String := "_watermill_requestreply_error"
def hasErrorKey : String := "_watermill_requestreply_has_error"

/-- what the caller gets / what the handler produced: the result and the text of the handler's error, if any -/
structure Reply (ρ : Type) where
  result : ρ
  err : Option String
  deriving DecidableEq, Repr

/-- metadata written by `MarshalReply` on the fresh message -/
def replyMeta (err : Option String) : Meta :=
  match err with
  | some e => set (set [] errorKey e) hasErrorKey "1"
  | none => set [] hasErrorKey "0"

/-- `BackendPubsubJSONMarshaler.MarshalReply` -/
def marshalReply (c : Codec ρ) (newUUID : String) (r : Reply ρ) : Option Msg :=
  match c.enc r.result with
  | none => none
  | some b => some ⟨newUUID, some b, some (replyMeta r.err)⟩

/-- the error `UnmarshalReply` reconstructs from the metadata: present iff the marker is exactly "1" -/
def replyErrOf (md : Meta) : Option String :=
  if get md hasErrorKey = "1" then some (get md errorKey) else none

/-- `BackendPubsubJSONMarshaler.UnmarshalReply` -/
def unmarshalReply (c : Codec ρ) (msg : Msg) : Option (Reply ρ) :=
  let err := replyErrOf msg.md
  match c.dec msg.bytes with
  | none => none
  | some r => some ⟨r, err⟩

/-! ### a concrete wire codec (used by the driver to *run* the glue, and as the witness that the codec
    hypothesis is satisfiable: `wire_round_trips` in `Lemmas/ValueWire.lean`) -/

namespace Wire

abbrev Parser (α : Type) := Bytes → Option (α × Bytes)

/-- lengths in unary, `0`-terminated -/
def serNat : Nat → Bytes
  | 0 => [0]
  | n + 1 => 1 :: serNat n

def parNat : Parser Nat
  | [] => none
  | b :: rest =>
    if b = 0 then some (0, rest)
    else if b = 1 then (parNat rest).map fun (n, r) => (n + 1, r)
    else none

/-- a character as three bytes, big endian (code points are below 2^21) -/
def serChar (c : Char) : Bytes :=
  [UInt8.ofNat (c.toNat / 65536), UInt8.ofNat (c.toNat / 256 % 256), UInt8.ofNat (c.toNat % 256)]

def serChars : List Char → Bytes
  | [] => []
  | c :: cs => serChar c ++ serChars cs

def parChars : Nat → Parser (List Char)
  | 0, rest => some ([], rest)
  | n + 1, a :: b :: c :: rest =>
    (parChars n rest).map fun (cs, r) => (Char.ofNat (a.toNat * 65536 + b.toNat * 256 + c.toNat) :: cs, r)
  | _ + 1, _ => none

def serStr (s : String) : Bytes := serNat s.toList.length ++ serChars s.toList

def parStr : Parser String := fun l =>
  match parNat l with
  | none => none
  | some (n, r) => (parChars n r).map fun (cs, r') => (String.ofList cs, r')

def serBytes (b : Bytes) : Bytes := serNat b.length ++ b

def parBytes : Parser Bytes := fun l =>
  match parNat l with
  | none => none
  | some (n, r) => if r.length < n then none else some (r.take n, r.drop n)

def serOpt (f : α → Bytes) : Option α → Bytes
  | none => [0]
  | some x => 1 :: f x

def parOpt (p : Parser α) : Parser (Option α)
  | [] => none
  | b :: rest =>
    if b = 0 then some (none, rest)
    else if b = 1 then (p rest).map fun (x, r) => (some x, r)
    else none

def serMeta : Meta → Bytes
  | [] => [0]
  | (k, v) :: rest => 1 :: (serStr k ++ serStr v ++ serMeta rest)

/-- fuel = length of the input (each entry consumes at least one byte) -/
def parMetaAux : Nat → Parser Meta
  | 0, _ => none
  | _ + 1, [] => none
  | f + 1, b :: rest =>
    if b = 0 then some ([], rest)
    else if b = 1 then
      match parStr rest with
      | none => none
      | some (k, r1) =>
        match parStr r1 with
        | none => none
        | some (v, r2) =>
          match parMetaAux f r2 with
          | none => none
          | some (m, r3) => some ((k, v) :: m, r3)
    else none

def parMeta : Parser Meta := fun l => parMetaAux (l.length + 1) l

def serEnv (e : Envelope) : Bytes :=
  serStr e.dest ++ serStr e.uuid ++ serOpt serBytes e.payload ++ serOpt serMeta e.metadata

def parEnv : Parser Envelope := fun l =>
  match parStr l with
  | none => none
  | some (d, r1) =>
    match parStr r1 with
    | none => none
    | some (u, r2) =>
      match parOpt parBytes r2 with
      | none => none
      | some (p, r3) =>
        match parOpt parMeta r3 with
        | none => none
        | some (m, r4) => some (⟨d, u, p, m⟩, r4)

def envCodec : Codec Envelope where
  enc e := some (serEnv e)
  dec b :=
    match parEnv b with
    | some (e, []) => some e
    | _ => none

/-- values of the CQRS / reply families are opaque tokens for the model: the identity codec on bytes -/
def tokenCodec : Codec Bytes := ⟨some, some⟩

end Wire

end Wm.Value
