/-
  Request-reply over a Pub/Sub (components/requestreply: `PubSubBackend.ListenForNotifications`,
  `handleNotifyMsg`, `OnCommandProcessed`, `NewCommandHandler[WithResult]`, `SendWithReplies`).
  Core-only, executable.

  Two layers.

  * Command side – sequential decision function `command`: what one handler invocation does with the
    command message, as an ordered effect list: the reply notification is published (carrying the
    operation id of the command, the handler's result and the handler's error text), *then* the command
    is acked / nacked according to `AckCommandErrors`; a failing reply `Publish` nacks unless
    `ReplyPublishErrorHandler` swallows the error; the early error returns (marshal, missing operation
    id, `ModifyNotificationMessage`, `GeneratePublishTopic`) publish nothing and nack.

  * Listener side – a labelled transition system with any number of concurrent requests.  Per request
    one listener goroutine (program counter = the rows of DESIGN.md A.4 re-derived from the code as it
    is now, i.e. with the D12 repair), its context, its reply channel (capacity 1: buffer + closed
    flag), the `OnListenForReplyFinished` counter, and the notifications its subscription has received
    and not yet consumed.  Every notification accepted by the shared reply topic may reach every
    listener (`deliver i k`, any order, any multiplicity: an over-approximation of GoChannel).
    The caller (read a reply / cancel / never read), the timeout (`timeout`) and the end of the
    subscription (`closeSub`) are unconstrained environment steps.
    Atomic steps = channel operations / `select` alternatives / deferred calls of the goroutine.
    Sending on a closed channel and closing a closed channel are explicit `panicked` states.

  `act true`  = the code as it is (every send on the reply channel sits in a `select` with `ctx.Done()`
                or `default`);
  `act false` = the code before the repair of D12 (blocking sends) – kept as the `Old` witness.
-/
namespace Wm.ReqReply

/-! ### data -/

/-- a reply notification on the reply topic: operation id metadata, marshalled result, error text
    (`none` = `has_error` is "0"), `bad` = the payload does not unmarshal at the caller's result type -/
structure Notif where
  op  : Nat
  res : String
  err : Option String
  bad : Bool
  deriving DecidableEq, Repr, Hashable

inductive Why | canceled | deadline | subClosed
  deriving DecidableEq, Repr, Hashable

/-- what the caller finds in its reply channel -/
inductive Reply
  | result (op : Nat) (res : String) (err : Option String)   -- `NotificationMessage` has operation id `op`
  | unmarshal (op : Nat)                                      -- `ReplyUnmarshalError`
  | timeout (w : Why)                                         -- `ReplyTimeoutError`
  deriving DecidableEq, Repr, Hashable

/-- operation id of the notification a reply was made from -/
def Reply.op? : Reply → Option Nat
  | .result op _ _ => some op
  | .unmarshal op => some op
  | .timeout _ => none

/-! ### command side (handler.go, `OnCommandProcessed`) -/

/-- what the handler function returned: result, error (its text), and whether the marshalled result can be
    unmarshalled at the caller's result type -/
structure HOut where
  res : String
  err : Option String
  bad : Bool
  deriving DecidableEq, Repr, Hashable

/-- the steps of `OnCommandProcessed` before `Publish`, in source order -/
inductive Pre | ok | marshalFails | noOpId | modifyFails | topicFails
  deriving DecidableEq, Repr, Hashable

/-- `Publisher.Publish` of the reply: accepted; error (no `ReplyPublishErrorHandler`, or it returns an error);
    error swallowed by `ReplyPublishErrorHandler` -/
inductive PubRes | ok | failed | failedHandled
  deriving DecidableEq, Repr, Hashable

inductive Eff
  | publishCall (n : Notif)
  | publishRet (ok : Bool)
  | ack | nack
  deriving DecidableEq, Repr, Hashable

def notifOf (op : Nat) (o : HOut) : Notif := ⟨op, o.res, o.err, o.bad⟩

/-- `OnCommandProcessed`: effects and whether it returns a non-nil error -/
def onCommandProcessed (ackErrs : Bool) (pre : Pre) (op : Nat) (o : HOut) (p : PubRes) : List Eff × Bool :=
  match pre with
  | .marshalFails | .noOpId | .modifyFails | .topicFails => ([], true)
  | .ok =>
    match p with
    | .failed => ([.publishCall (notifOf op o), .publishRet false], true)
    | .ok => ([.publishCall (notifOf op o), .publishRet true], !ackErrs && o.err.isSome)
    | .failedHandled => ([.publishCall (notifOf op o), .publishRet false], !ackErrs && o.err.isSome)

/-- one handler invocation: `OnCommandProcessed`, then the command processor / Router settle the command message
    (error ⇒ Nack, nil ⇒ Ack; C15 `ack_table`, C02 `ack_iff`) -/
def command (ackErrs : Bool) (pre : Pre) (op : Nat) (o : HOut) (p : PubRes) : List Eff :=
  let r := onCommandProcessed ackErrs pre op o p
  r.1 ++ [if r.2 then .nack else .ack]

/-- notifications the reply topic accepted -/
def accepted : List Eff → List Notif
  | .publishCall n :: .publishRet true :: rest => n :: accepted rest
  | _ :: rest => accepted rest
  | [] => []

/-! ### listener side -/

inductive Ctx | live | canceled | deadline
  deriving DecidableEq, Repr, Hashable

def Ctx.why : Ctx → Option Why
  | .live => none
  | .canceled => some .canceled
  | .deadline => some .deadline

inductive Pc
  | loop             -- at the outer `select`
  | send (r : Reply) -- at `select { case replyChan <- *reply: case <-ctx.Done(): }`  (hook `listen.before_send`)
  | ret0             -- `return` taken: deferred `cancel()` is next
  | ret1             -- deferred `close(replyChan)` is next
  | ret2             -- deferred `OnListenForReplyFinished` is next
  | done
  deriving DecidableEq, Repr, Hashable

structure Listener where
  op            : Nat
  pc            : Pc
  ctx           : Ctx
  subClosed     : Bool          -- `notifyMsgs` closed
  inbox         : List Notif    -- notifications delivered to the subscription, not yet consumed
  delivered     : Nat
  acked         : Nat           -- notifications acked by `handleNotifyMsg`
  ownDelivered  : Nat           -- ghost: delivered notifications carrying the listener's own operation id
  ownSeen       : Nat           -- ghost: consumed notifications for which a reply was built
  buf           : List Reply    -- `replyChan` (capacity 1)
  chanClosed    : Bool
  finishedCalls : Nat
  got           : List Reply    -- what the caller has read so far
  panicked      : Bool
  deriving DecidableEq, Repr, Hashable

def Listener.new (op : Nat) : Listener :=
  { op := op, pc := .loop, ctx := .live, subClosed := false, inbox := [], delivered := 0, acked := 0, ownDelivered := 0, ownSeen := 0, buf := [],
    chanClosed := false, finishedCalls := 0, got := [], panicked := false }

/-- steps of the listener goroutine -/
inductive LAct
  | ctx        -- outer select: `<-ctx.Done()`; inner `select { replyChan <- timeout-error; default }`; return
  | recv       -- outer select: a notification; `handleNotifyMsg` (ack; filter by operation id; unmarshal)
  | subClosed  -- outer select: `notifyMsgs` closed; inner select as for `ctx`; return
  | send       -- `replyChan <- *reply`
  | sendCtx    -- `<-ctx.Done()` instead of the send (repair of D12)
  | cancel | close | finish   -- the three deferred calls, in LIFO order
  deriving DecidableEq, Repr, Hashable

/-- environment: the caller, the timer, the subscription -/
inductive CAct
  | recv       -- caller reads one reply
  | cancel     -- caller calls `cancel()` / its parent context ends
  | timeout    -- `ListenForReplyTimeout` passes
  | closeSub   -- the subscription's output channel is closed (context ended, Pub/Sub closed)
  deriving DecidableEq, Repr, Hashable

def room (l : Listener) : Bool := l.buf.length < 1

/-- channel send with buffer space -/
def push (l : Listener) (r : Reply) : Listener :=
  if l.chanClosed then { l with panicked := true } else { l with buf := l.buf ++ [r] }

/-- `handleNotifyMsg` + construction of the reply -/
def replyFor (own : Nat) (n : Notif) : Option Reply :=
  if n.op ≠ own then none
  else if n.bad then some (.unmarshal n.op)
  else some (.result n.op n.res n.err)

def lstep (fixed : Bool) (l : Listener) : LAct → Option Listener
  | .ctx =>
    match l.pc, l.ctx.why with
    | .loop, some w =>
      if room l then some { push l (.timeout w) with pc := .ret0 }
      else if fixed then some { l with pc := .ret0 }          -- `default:` nobody is reading any more
      else none                                               -- old code: blocking send
    | _, _ => none
  | .recv =>
    match l.pc, l.inbox with
    | .loop, n :: rest =>
      match replyFor l.op n with
      | some r => some { l with inbox := rest, acked := l.acked + 1, ownSeen := l.ownSeen + 1, pc := .send r }
      | none => some { l with inbox := rest, acked := l.acked + 1 }
    | _, _ => none
  | .subClosed =>
    match l.pc, l.inbox with
    | .loop, [] =>
      if l.subClosed then
        if room l then some { push l (.timeout .subClosed) with pc := .ret0 }
        else if fixed then some { l with pc := .ret0 }
        else none
      else none
    | _, _ => none
  | .send =>
    match l.pc with
    | .send r => if room l then some { push l r with pc := .loop } else none
    | _ => none
  | .sendCtx =>
    match l.pc with
    | .send _ => if fixed && l.ctx != .live then some { l with pc := .loop } else none
    | _ => none
  | .cancel =>
    match l.pc with
    | .ret0 => some { l with pc := .ret1, ctx := if l.ctx = .live then .canceled else l.ctx }
    | _ => none
  | .close =>
    match l.pc with
    | .ret1 => if l.chanClosed then some { l with panicked := true }
               else some { l with pc := .ret2, chanClosed := true }
    | _ => none
  | .finish =>
    match l.pc with
    | .ret2 => some { l with pc := .done, finishedCalls := l.finishedCalls + 1 }
    | _ => none

def cstep (l : Listener) : CAct → Option Listener
  | .recv =>
    match l.buf with
    | r :: rest => some { l with buf := rest, got := l.got ++ [r] }
    | [] => none
  | .cancel => some { l with ctx := if l.ctx = .live then .canceled else l.ctx }
  | .timeout => if l.ctx = .live then some { l with ctx := .deadline } else none
  | .closeSub => some { l with subClosed := true }

/-- one handler invocation as recorded in the state -/
structure Inv where
  pre  : Pre
  op   : Nat
  out  : HOut
  pub  : PubRes
  effs : List Eff
  deriving DecidableEq, Repr, Hashable

structure St where
  ackErrs : Bool
  ls      : List Listener
  pub     : List Notif     -- notifications accepted by the reply topic, in order
  invs    : List Inv
  nextOp  : Nat            -- operation ids are fresh (UUIDs)
  deriving DecidableEq, Repr, Hashable

def init (ackErrs : Bool) : St := { ackErrs := ackErrs, ls := [], pub := [], invs := [], nextOp := 0 }

inductive Action
  | newReq                                                   -- `SendWithReplies`: listener subscribed, command sent
  | process (pre : Pre) (op : Nat) (o : HOut) (p : PubRes)   -- a handler invocation for the command with id `op`
  | deliver (i k : Nat)                                      -- notification `k` reaches the subscription of listener `i`
  | l (i : Nat) (a : LAct)
  | c (i : Nat) (a : CAct)
  deriving DecidableEq, Repr

def updL (s : St) (i : Nat) (f : Listener → Option Listener) : Option St :=
  match s.ls[i]? with
  | some l =>
    match f l with
    | some l' => some { s with ls := s.ls.set i l' }
    | none => none
  | none => none

def act (fixed : Bool) (s : St) : Action → Option St
  | .newReq => some { s with ls := s.ls ++ [Listener.new s.nextOp], nextOp := s.nextOp + 1 }
  | .process pre op o p =>
    let effs := command s.ackErrs pre op o p
    some { s with invs := s.invs ++ [⟨pre, op, o, p, effs⟩], pub := s.pub ++ accepted effs }
  | .deliver i k =>
    match s.pub[k]? with
    | some n => updL s i (fun l => some { l with inbox := l.inbox ++ [n], delivered := l.delivered + 1,
                                                     ownDelivered := l.ownDelivered + (if n.op = l.op then 1 else 0) })
    | none => none
  | .l i a => updL s i (fun l => lstep fixed l a)
  | .c i a => updL s i (fun l => cstep l a)

def isL (i : Nat) : Action → Bool
  | .l j _ => i == j
  | _ => false

def isDeliver (i : Nat) : Action → Bool
  | .deliver j _ => i == j
  | _ => false

def isClose (i : Nat) : Action → Bool
  | .l j .close => i == j
  | _ => false

def isFinish (i : Nat) : Action → Bool
  | .l j .finish => i == j
  | _ => false

/-- replies made from a notification (everything but the synthetic timeout replies) -/
def made (rs : List Reply) : Nat := (rs.filter (fun r => r.op?.isSome)).length

/-- notifications carrying operation id `own` -/
def ownIn (own : Nat) (ns : List Notif) : Nat := (ns.filter (fun n => n.op == own)).length

def allLActs : List LAct := [.ctx, .recv, .subClosed, .send, .sendCtx, .cancel, .close, .finish]

end Wm.ReqReply
