/-
  M_reg – the registry and lock protocol of GoChannel (pubsub/gochannel/pubsub.go: Publish l.83-127,
  waitForAckFromSubscribers, sendMessage, Subscribe l.177-252 with the unsubscribe and replay goroutines,
  removeSubscriber, isClosed, Close), as a labelled transition system with explicit threads.  Core-only, executable.

  What is modelled: `closed`/`closing`, `closedLock` (held by Close for its whole duration, taken by `isClosed` and by
  Subscribe's check), the subscribers RWMutex with Go's writer announcement (a writer that holds the writer mutex
  blocks every new RLock until it has had and released the lock), the per-topic mutexes, `subscribers[topic]`,
  `persistedMessages` (as nil / not nil and the per-topic log), `subscribersWg`, and per published message the
  dispatcher goroutine with the set of sender goroutines it still waits for (`ackedBySubscribers`).
  What is abstracted: what a sender goroutine does inside a subscription is M_sub (GcSub.lean); here a sender simply
  finishes at some point (`senderDone`) – except when the consumer of that delivery first calls Publish itself
  (`nested`): then the sender can finish only after that nested Publish has returned (the consumer acks afterwards).

  Threads are entries of `ths`; a thread id is its index.  Atomic steps = lock operations / lock-delimited regions.
-/
namespace Wm.GcReg

inductive PPc
  | start | rlock | tlock | persist | send | wait (d : Nat) | unlock | retOk | retErr
  deriving DecidableEq, Repr, Hashable

inductive UPc
  | start | wqueue | announce | drain | tlock | register | retOk | retErr
  deriving DecidableEq, Repr, Hashable

inductive TPc
  | idle | subClosed | announce | drain | tlock | remove | done
  deriving DecidableEq, Repr, Hashable

inductive CPc
  | start | waitWg | ret
  deriving DecidableEq, Repr, Hashable

inductive Th
  | pub (topic : Nat) (rest : List Nat) (pc : PPc) (ackOnRet : Option (Nat × Nat))
      -- a Publish call; `ackOnRet = some (d, sid)`: issued by the consumer of subscription `sid` before it acks the
      -- delivery that dispatcher `d` waits for
  | sub (topic : Nat) (sid : Nat) (pc : UPc)      -- a Subscribe call (in persistent mode continued by its replay goroutine)
  | td (topic : Nat) (sid : Nat) (pc : TPc)       -- the unsubscribe goroutine of subscription `sid`
  | closer (pc : CPc)                             -- a Close call
  deriving DecidableEq, Repr, Hashable

structure Cfg where
  persistent : Bool
  blocking   : Bool
  deriving DecidableEq, Repr, Hashable

structure St where
  cfg        : Cfg
  closed     : Bool
  closingSig : Bool                    -- `g.closing` closed
  closedLock : Option Nat              -- thread holding `closedLock` for longer than one step (only Close does)
  readers    : List Nat                -- threads holding `subscribersLock.RLock`
  ann        : Option Nat              -- writer that holds the RWMutex's writer mutex: new RLocks are blocked
  annHeld    : Bool                    -- … and has the write lock (readers drained)
  wqueue     : List Nat                -- writers waiting for the writer mutex
  tlocks     : List (Nat × Nat)        -- (topic, holder) for every held topic mutex
  subs       : List (Nat × Nat)        -- (sid, topic): `subscribers`
  logNil     : Bool                    -- `persistedMessages == nil`
  log        : List (Nat × Nat)        -- (topic, message) in persist order
  wg         : Nat                     -- `subscribersWg`
  nextSid    : Nat
  cancelled  : List Nat                -- subscriptions whose context was cancelled
  disp       : List (List Nat)         -- per dispatcher: subscriptions whose sender it still waits for
  reserved   : List (Nat × Nat)        -- (dispatcher, sid) pairs that finish only when a nested Publish returns
  started    : List (Nat × Nat)        -- (sid, message): sender goroutines ever started (C11 ghost)
  ths        : List Th
  panicked   : Bool
  deriving DecidableEq, Repr, Hashable

def init (cfg : Cfg) : St :=
  { cfg := cfg, closed := false, closingSig := false, closedLock := none, readers := [], ann := none, annHeld := false,
    wqueue := [], tlocks := [], subs := [], logNil := false, log := [], wg := 0, nextSid := 0, cancelled := [],
    disp := [], reserved := [], started := [], ths := [], panicked := false }

inductive Action
  -- environment
  | newPub (topic : Nat) (msgs : List Nat) (nested : Option (Nat × Nat))
  | newSub (topic : Nat)
  | newClose
  | cancel (sid : Nat)
  | senderDone (d sid : Nat)
  -- one step of thread `i`
  | step (i : Nat)
  deriving DecidableEq, Repr

def tlockFree (s : St) (t : Nat) : Bool := !(s.tlocks.any (·.1 == t))
def subsOf (s : St) (t : Nat) : List Nat := (s.subs.filter (·.2 == t)).map (·.1)
def setTh (s : St) (i : Nat) (th : Th) : St := { s with ths := s.ths.set i th }

/-- finish the sender that dispatcher `d` waits for on behalf of subscription `sid` -/
def finishSender (s : St) (d sid : Nat) : St :=
  { s with disp := s.disp.modify d (fun l => l.erase sid) }

/-- one step of a Publish thread -/
def stepPub (s : St) (i t : Nat) (rest : List Nat) (pc : PPc) (ao : Option (Nat × Nat)) : Option St :=
  let go (pc' : PPc) (s' : St) : Option St := some (setTh s' i (.pub t rest pc' ao))
  match pc with
  | .start =>           -- `isClosed()`
    if s.closedLock.isSome then none
    else if s.closed then go .retErr s else go .rlock s
  | .rlock =>           -- `subscribersLock.RLock()`: blocked by an announced writer
    if s.ann.isSome then none else go .tlock { s with readers := i :: s.readers }
  | .tlock =>           -- topic mutex
    if tlockFree s t then go .persist { s with tlocks := (t, i) :: s.tlocks } else none
  | .persist =>
    if s.cfg.persistent then
      if s.logNil then      -- fix D9: closed meanwhile → error, locks released by the defers
        go .retErr { s with tlocks := s.tlocks.filter (· != (t, i)), readers := s.readers.erase i }
      else go .send { s with log := s.log ++ rest.map (fun m => (t, m)) }
    else go .send s
  | .send =>
    match rest with
    | [] => go .unlock s
    | m :: r =>
      -- `sendMessage`: snapshot of the topic's subscribers, one dispatcher waiting for one sender each
      let snap := subsOf s t
      let d := s.disp.length
      let s1 := { s with disp := s.disp ++ [snap], started := s.started ++ snap.map (fun sid => (sid, m)) }
      if s.cfg.blocking then some (setTh s1 i (.pub t r (.wait d) ao))
      else some (setTh s1 i (.pub t r .send ao))
  | .wait d =>          -- `waitForAckFromSubscribers`: all senders done, or the Pub/Sub is closing
    if (s.disp[d]?.getD []).isEmpty || s.closingSig then go .send s else none
  | .unlock =>
    let s1 := { s with tlocks := s.tlocks.filter (· != (t, i)), readers := s.readers.erase i }
    -- the consumer that issued this nested Publish can ack its delivery only now: its sender may finish from here on
    let s2 := match ao with
      | some (d, sid) => { s1 with reserved := s1.reserved.erase (d, sid) }
      | none => s1
    some (setTh s2 i (.pub t rest .retOk ao))
  | .retOk | .retErr => none

def stepSub (s : St) (i t sid : Nat) (pc : UPc) : Option St :=
  let go (pc' : UPc) (s' : St) : Option St := some (setTh s' i (.sub t sid pc'))
  match pc with
  | .start =>           -- closed check under closedLock, `subscribersWg.Add(1)`
    if s.closedLock.isSome then none
    else if s.closed then go .retErr s else go .wqueue { s with wg := s.wg + 1 }
  | .wqueue => go .announce { s with wqueue := s.wqueue ++ [i] }
  | .announce =>        -- obtains the writer mutex: from now on new RLocks block
    if s.ann.isNone && s.wqueue.contains i then go .drain { s with ann := some i, wqueue := s.wqueue.erase i } else none
  | .drain => if s.readers.isEmpty && s.ann == some i then go .tlock { s with annHeld := true } else none
  | .tlock =>           -- topic mutex; the subscriber object and its unsubscribe goroutine are created
    if tlockFree s t then
      let sid' := s.nextSid
      some { (setTh { s with tlocks := (t, i) :: s.tlocks, nextSid := s.nextSid + 1 } i (.sub t sid' .register))
             with ths := (s.ths.set i (.sub t sid' .register)) ++ [.td t sid' .idle] }
    else none
  | .register =>        -- (persistent: replay – one sender per persisted message –) addSubscriber, unlock both
    let replay := if s.cfg.persistent && !s.logNil then
        (s.log.filter (·.1 == t)).map (fun tm => (sid, tm.2)) else []
    go .retOk { s with subs := s.subs ++ [(sid, t)], started := s.started ++ replay,
                        tlocks := s.tlocks.filter (· != (t, i)), ann := none, annHeld := false }
  | .retOk | .retErr => none

def stepTd (s : St) (i t sid : Nat) (pc : TPc) : Option St :=
  let go (pc' : TPc) (s' : St) : Option St := some (setTh s' i (.td t sid pc'))
  match pc with
  | .idle => if s.cancelled.contains sid || s.closingSig then go .subClosed s else none   -- then `s.Close()` (M_sub)
  | .subClosed => go .announce { s with wqueue := s.wqueue ++ [i] }
  | .announce =>
    if s.ann.isNone && s.wqueue.contains i then go .drain { s with ann := some i, wqueue := s.wqueue.erase i } else none
  | .drain => if s.readers.isEmpty && s.ann == some i then go .tlock { s with annHeld := true } else none
  | .tlock => if tlockFree s t then go .remove { s with tlocks := (t, i) :: s.tlocks } else none
  | .remove =>          -- `removeSubscriber` panics when the subscriber is not registered; `subscribersWg.Done()`
    if s.subs.contains (sid, t) then
      if s.wg = 0 then some { s with panicked := true }      -- negative WaitGroup counter
      else go .done { s with subs := s.subs.erase (sid, t), wg := s.wg - 1,
                              tlocks := s.tlocks.filter (· != (t, i)), ann := none, annHeld := false }
    else some { s with panicked := true }
  | .done => none

def stepCloser (s : St) (i : Nat) (pc : CPc) : Option St :=
  let go (pc' : CPc) (s' : St) : Option St := some (setTh s' i (.closer pc'))
  match pc with
  | .start =>
    if s.closedLock.isSome then none
    else if s.closed then go .ret s
    else go .waitWg { s with closedLock := some i, closed := true, closingSig := true }
  | .waitWg => if s.wg = 0 then go .ret { s with logNil := true, closedLock := none } else none
  | .ret => none

def act (s : St) : Action → Option St
  | .newPub t msgs nested =>
    match nested with
    | none => some { s with ths := s.ths ++ [.pub t msgs .start none] }
    | some (d, sid) =>
      -- the consumer of `sid` publishes before acking the delivery dispatcher `d` waits for
      if (s.disp[d]?.getD []).contains sid && !s.reserved.contains (d, sid) then
        some { s with ths := s.ths ++ [.pub t msgs .start (some (d, sid))], reserved := (d, sid) :: s.reserved }
      else none
  | .newSub t => some { s with ths := s.ths ++ [.sub t 0 .start] }
  | .newClose => some { s with ths := s.ths ++ [.closer .start] }
  | .cancel sid => some { s with cancelled := sid :: s.cancelled }
  | .senderDone d sid =>
    if (s.disp[d]?.getD []).contains sid && !s.reserved.contains (d, sid) then some (finishSender s d sid) else none
  | .step i =>
    match s.ths[i]? with
    | some (.pub t rest pc ao) => stepPub s i t rest pc ao
    | some (.sub t sid pc) => stepSub s i t sid pc
    | some (.td t sid pc) => stepTd s i t sid pc
    | some (.closer pc) => stepCloser s i pc
    | none => none

/-- some thread can move (environment actions not counted) -/
def someThreadEnabled (s : St) : Bool :=
  (List.range s.ths.length).any (fun i => (act s (.step i)).isSome)

end Wm.GcReg
