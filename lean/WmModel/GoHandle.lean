/-
  Deep embedding of the skeletons of `(*handler).handleMessage` and `(*handler).publishProducedMessages`
  (message/router.go) as printed by the extractor (`harness/cmd/extract/c02.go`) from the Go source of
  *this* run, with an interpreter that implements Go's `defer` / `recover` / early `return`.
  The tie theorem `handle_skeleton_eq_model` (Props/C02Tie.lean) states that interpreting what the
  source says now equals the hand-written model `Wm.Handle.handle` for every configuration, every
  behaviour of the handler chain and every behaviour of the publisher.

  Statements without influence on settlement and publishing (logger calls, hook points, the `msgFields`
  literal) are not printed; anything else the printer does not recognise is `unknown`, on which the
  interpreter gives up (`none`).
-/
import WmModel.Handle
namespace Wm.GoHandle
open Wm.Handle

/-- statements that occur inside the branches -/
inductive Simple
  | nack      -- msg.Nack()
  | ack       -- msg.Ack()
  | ret       -- return
  | addCtx    -- h.addHandlerContext(producedMessages...)
  deriving DecidableEq, Repr

/-- top-level statements of `handleMessage` -/
inductive Stmt
  | deferDone                           -- defer h.runningHandlersWg.Done()
  | deferRecover (body : List Simple)   -- defer func() { if r := recover(); r != nil { body } }()
  | callHandler                         -- producedMessages, err := handler(msg)
  | ifErr (body : List Simple)          -- if err != nil { body }
  | ifPublishErr (body : List Simple)   -- if err := h.publishProducedMessages(producedMessages, …); err != nil { body }
  | simple (s : Simple)
  | unknown (src : String)
  deriving Repr

/-- statements of `publishProducedMessages` -/
inductive PStmt
  | ifNoOutsRetNil        -- if len(producedMessages) == 0 { return nil }
  | ifNilPubRetErr        -- if h.publisher == nil { return ErrOutputInNoPublisherHandler }
  | ifPublishErrRetErr    -- if err := h.publisher.Publish(h.publishTopic, producedMessages...); err != nil { return err }
  | retNil                -- return nil
  | unknown (src : String)
  deriving Repr

/-- body of `disabledPublisher.Publish` -/
inductive DStmt
  | retErrNoPublisher     -- return ErrOutputInNoPublisherHandler
  | unknown
  deriving DecidableEq, Repr

variable {α : Type}

/-- how the call `h.publisher.Publish(…)` ends for this handler: a real publisher behaves as scripted, the
    disabled publisher as its (extracted) body says, calling a nil interface panics -/
def publishCallOutcome (d : DStmt) (c : Cfg) (p : PubOutcome) : Option PubOutcome :=
  match c.kind with
  | .withPub  => some p
  | .disabled => match d with
    | .retErrNoPublisher => some .error
    | .unknown => none
  | .nilPub   => some .panic

/-- `publishProducedMessages`: effects and the way it ends (`accept` = returned nil) -/
def execP (d : DStmt) (c : Cfg) (outs : List α) (p : PubOutcome) :
    List PStmt → List (Effect α) → Option (List (Effect α) × PubOutcome)
  | [], _ => none                                    -- a function with a result cannot fall off its end
  | .ifNoOutsRetNil :: rest, es => if outs.isEmpty then some (es, .accept) else execP d c outs p rest es
  | .ifNilPubRetErr :: rest, es => if c.kind = .nilPub then some (es, .error) else execP d c outs p rest es
  | .ifPublishErrRetErr :: rest, es =>
    match publishCallOutcome d c p with
    | none => none
    | some .panic =>
      -- a nil publisher panics before the call is made, a real one inside the call
      if c.kind = .nilPub then some (es, .panic)
      else some (es ++ [.publishCall (pubTopic c) outs, .publishRet .panic], .panic)
    | some .error => some (es ++ [.publishCall (pubTopic c) outs, .publishRet .error], .error)
    | some .accept => execP d c outs p rest (es ++ [.publishCall (pubTopic c) outs, .publishRet .accept])
  | .retNil :: _, es => some (es, .accept)
  | .unknown _ :: _, _ => none

inductive Deferred
  | done
  | recover (body : List Simple)

inductive Flow | normal | returned | panicking
  deriving DecidableEq, Repr

structure HState (α : Type) where
  effs   : List (Effect α) := []
  defers : List Deferred := []       -- most recent first
  called : Bool := false             -- `producedMessages, err` are bound
  err    : Bool := false
  outs   : List α := []

def execSimple (st : HState α) : Simple → HState α × Flow
  | .nack   => ({ st with effs := st.effs ++ [.routerNack] }, .normal)
  | .ack    => ({ st with effs := st.effs ++ [.routerAck] }, .normal)
  | .ret    => (st, .returned)
  | .addCtx => ({ st with effs := st.effs ++ [.addCtx st.outs] }, .normal)

def execSimples (st : HState α) : List Simple → HState α × Flow
  | [] => (st, .normal)
  | s :: rest =>
    match execSimple st s with
    | (st', .normal) => execSimples st' rest
    | r => r

def execStmts (pb : List PStmt) (d : DStmt) (c : Cfg) (o : Outcome α) (p : PubOutcome) :
    List Stmt → HState α → Option (HState α × Flow)
  | [], st => some (st, .normal)
  | .deferDone :: rest, st => execStmts pb d c o p rest { st with defers := .done :: st.defers }
  | .deferRecover b :: rest, st => execStmts pb d c o p rest { st with defers := .recover b :: st.defers }
  | .callHandler :: rest, st =>
    if st.called then none else
    let st1 := { st with effs := st.effs ++ (.handlerCalled :: selfEff o.selfSettle), called := true }
    match o.result with
    | .panics _ => some (st1, .panicking)
    | .returns outs e => execStmts pb d c o p rest { st1 with outs := outs, err := e }
  | .ifErr b :: rest, st =>
    if !st.called then none else
    if st.err then
      match execSimples st b with
      | (st', .normal) => execStmts pb d c o p rest st'
      | r => some r
    else execStmts pb d c o p rest st
  | .ifPublishErr b :: rest, st =>
    if !st.called then none else
    match execP d c st.outs p pb [] with
    | none => none
    | some (es, .accept) => execStmts pb d c o p rest { st with effs := st.effs ++ es }
    | some (es, .panic)  => some ({ st with effs := st.effs ++ es }, .panicking)
    | some (es, .error)  =>
      match execSimples { st with effs := st.effs ++ es } b with
      | (st', .normal) => execStmts pb d c o p rest st'
      | r => some r
  | .simple s :: rest, st =>
    match execSimple st s with
    | (st', .normal) => execStmts pb d c o p rest st'
    | r => some r
  | .unknown _ :: _, _ => none

/-- run the deferred calls, last registered first.  A panic nobody recovered would kill the process: `none`. -/
def unwind (st : HState α) : List Deferred → Flow → Option (List (Effect α))
  | [], .panicking => none
  | [], _ => some st.effs
  | .done :: rest, fl => unwind { st with effs := st.effs ++ [.done] } rest fl
  | .recover b :: rest, .panicking =>
    unwind (execSimples { st with effs := st.effs ++ [.recovered] } b).1 rest .normal
  | .recover _ :: rest, fl => unwind st rest fl

/-- interpret the extracted bodies for one message -/
def exec (hb : List Stmt) (pb : List PStmt) (d : DStmt) (c : Cfg) (o : Outcome α) (p : PubOutcome) :
    Option (List (Effect α)) :=
  match execStmts pb d c o p hb {} with
  | none => none
  | some (st, fl) => unwind st st.defers fl

end Wm.GoHandle
