/-
  RouterLife – the Router's close protocol and handler lifecycle (message/router.go, message/decorator.go,
  pubsub/sync/waitgroup.go) as a labelled transition system.  Core-only, executable.  Shared by C06 and C10.

  Atomic steps = lock-delimited regions / channel operations / `select` alternatives of the Go code.
  * `Close` takes `closedLock`, then `handlersLock`, and keeps BOTH until it returns (two `defer`s): `cl`, `hl`.
  * `handlersWg` is not stored: it is the number of registered handlers whose loop goroutine has not yet executed
    `handlersWg.Done()` (`Loop.ended`); `runningHandlersWg` is the number of messages whose `Add(1)` happened
    (`Stage.inFlight`) and whose deferred `Done()` did not.  A `Wait` is an atomic test "= 0": an `Add` that happens
    after the test succeeded is not covered by that wait (Go's rule).
  * `runningHandlersWgLock` is held non-atomically only by the waiter of `waitForHandlers` (`wB = held`); the
    receive loop's `Lock(); Add(1); Unlock()` is one step that needs the lock to be free.
  * The scripted inner subscriber may emit a message whenever its channel is not closed yet – in particular
    between the call of its `Close` and the return ("one last message already on its way").
  * Any numbers of handlers, messages, Close callers (Lists); handler outcomes, timers, Stop, cancel, emission are
    unconstrained environment steps.
  * `Fix` switches the four repaired defects; theorems are about `allFixed`, `Old` witnesses switch one off.
-/
namespace Wm.RouterLife

structure Fix where
  d5  : Bool   -- waitForHandlers: loops first, then (lock +) running handlers, in ONE goroutine
  d6  : Bool   -- handleClose: on ctx.Done still close the subscriber if the router is closing
  d7  : Bool   -- RunHandlers: stopFn/stopped assigned before close(startedCh)
  d14 : Bool   -- handlerAdded has capacity 1
  deriving DecidableEq, Repr, Hashable

def allFixed : Fix := ⟨true, true, true, true⟩

inductive Stl | none | ack | nack
  deriving DecidableEq, Repr, Hashable

/-- where a message emitted by a subscriber is on its path -/
inductive Stage
  | pump        -- in the hand of the decorator pump (`decorator.sub.before_out`)
  | dropped     -- dropped by the pump because the decorator is closing (fix D8): never handled, never settled
  | recv        -- received by the handler's loop, not yet dispatched (`router.run.received`)
  | disp        -- `Add(1)` done, `go handleMessage` – not yet started
  | inH         -- in the handler function
  | pub         -- handler returned, publishing (`router.handle.before_publish`)
  | preSettle   -- published, before `msg.Ack()` (`router.handle.before_settle`)
  | done        -- settled, `runningHandlersWg.Done()` executed
  deriving DecidableEq, Repr, Hashable

def Stage.inFlight : Stage → Bool
  | .disp | .inH | .pub | .preSettle => true
  | _ => false

structure Msg where
  h      : Nat
  stage  : Stage
  settle : Stl
  deriving DecidableEq, Repr, Hashable

inductive Pump | off | idle | hold (m : Nat) | done
  deriving DecidableEq, Repr, Hashable

/-- the handler's goroutine: `h.run` then the tail of the `go func` in RunHandlers -/
inductive Loop
  | off             -- not spawned
  | idle            -- `range h.messagesCh`
  | hold (m : Nat)  -- received m, before `runningHandlersWgLock.Lock()`
  | pubClose        -- channel closed; about to `h.publisher.Close()`
  | wgDone          -- about to `r.handlersWg.Done()`
  | delete          -- Done() executed; about to `handlersLock.Lock(); delete; Unlock(); close(h.stopped)`
  | done
  deriving DecidableEq, Repr, Hashable

def Loop.ended : Loop → Bool
  | .delete | .done => true
  | _ => false

inductive HC | off | sel | innerCall | waitPump | stop | done
  deriving DecidableEq, Repr, Hashable

structure Handler where
  preRun        : Bool    -- ghost: registered before `Run` was called
  started       : Bool
  startedCh     : Bool
  stopSet       : Bool    -- `stopFn` and `stopped` assigned
  stoppedCh     : Bool    -- `stopped` closed
  viaRun        : Bool    -- started by Run's own RunHandlers (context derives from Run's cancelable context)
  ctxDone       : Bool    -- the handler's own context cancelled (Stop, handleClose, goroutine exit)
  subCalls      : Nat     -- Subscribe calls seen by its subscriber
  subCloseCalls : Nat     -- Close calls seen by its subscriber
  pubCloseCalls : Nat     -- Close calls seen by its publisher
  innerClosed   : Bool    -- the inner subscriber's channel is closed (its Close returned / it saw ctx.Done)
  decClosing    : Bool    -- decorator's `closing` closed
  pump          : Pump
  loop          : Loop
  hc            : HC
  removed       : Bool    -- deleted from `r.handlers`
  deriving DecidableEq, Repr, Hashable

def newHandler (preRun : Bool) : Handler :=
  { preRun := preRun, started := false, startedCh := false, stopSet := false, stoppedCh := false, viaRun := false,
    ctxDone := false, subCalls := 0, subCloseCalls := 0, pubCloseCalls := 0, innerClosed := false,
    decClosing := false, pump := .off, loop := .off, hc := .off, removed := false }

inductive CPc | wantCL | wantHL | waiting | ret (err : Bool)
  deriving DecidableEq, Repr, Hashable

/-- who holds `handlersLock` (write side) over several steps -/
inductive HL
  | free
  | closer (k : Nat)
  | rh (viaRun : Bool) (cur : Option (Nat × Nat))   -- RunHandlers; cur = (handler, sub-step 0..2)
  deriving DecidableEq, Repr, Hashable

inductive WB | idle | held | done
  deriving DecidableEq, Repr, Hashable

inductive RunPc | idle | startWatch | callRh | inRh | closeRunning | waitClosing | waitClosed | ret
  | failed   -- Run returned the error of its RunHandlers call (a Subscribe failed); `isRunning` stays set
  deriving DecidableEq, Repr, Hashable

inductive WPc | off | presel | sel | wait | check | done
  deriving DecidableEq, Repr, Hashable

structure St where
  closed     : Bool
  closing    : Bool          -- closingInProgressCh closed
  closedCh   : Bool
  cl         : Option Nat    -- holder of closedLock (index of a Close call)
  hl         : HL
  closers    : List CPc
  wA         : Bool          -- waiter: `handlersWg.Wait()` returned (close.loops_wait_done)
  wB         : WB            -- waiter: runningHandlersWgLock / `runningHandlersWg.Wait()` (close.running_wait_done)
  timerFired : Bool
  closeNil   : Bool          -- the Close call that performed the close returned nil
  closeErr   : Bool          -- … returned the timeout error
  hs         : List Handler
  msgs       : List Msg
  isRunning  : Bool
  running    : Bool
  run        : RunPc
  runErrs    : Nat           -- Run calls answered "router is already running"
  extCancel  : Bool          -- the context given to Run / RunHandlers was cancelled
  runCancel  : Bool          -- Run's own `cancel()`
  watch      : WPc
  tok        : Bool          -- a token in the buffered handlerAdded
  panicked   : Bool
  deriving DecidableEq, Repr, Hashable

def init : St :=
  { closed := false, closing := false, closedCh := false, cl := none, hl := .free, closers := [], wA := false,
    wB := .idle, timerFired := false, closeNil := false, closeErr := false, hs := [], msgs := [],
    isRunning := false, running := false, run := .idle, runErrs := 0, extCancel := false, runCancel := false,
    watch := .off, tok := false, panicked := false }

inductive Action
  | addHandler
  | runCall | runWatch | runRh | runRunning | runCancelStep | runRet
  | rhCall | rhSub (i : Nat) | rhSubFail (i : Nat) | rhStep | rhSpawn | rhEnd
  | emit (i : Nat) | pumpOut (i : Nat) | pumpDrop (i : Nat) | pumpEnd (i : Nat) | innerCtx (i : Nat)
  | dispatch (i : Nat) | loopEnd (i : Nat) | pubClose (i : Nat) | wgDone (i : Nat) | loopDelete (i : Nat)
  | hStart (m : Nat) | hReturn (m : Nat) (ok : Bool) | hPublished (m : Nat) (ok : Bool) | hSettle (m : Nat)
  | hcClose (i : Nat) | hcCtx (i : Nat) | hcInnerRet (i : Nat) | hcCloseFail (i : Nat) | hcPumpWaited (i : Nat) | hcStop (i : Nat)
  | stop (i : Nat) | cancelExt
  | closeCall | closeCL (k : Nat) | closeHL (k : Nat) | closeDone (k : Nat) | closeTimeout (k : Nat) | timer
  | wLoops | wLock | wRunning
  | watchArrive | watchTok | watchClosed | watchZero | watchCheck
  deriving DecidableEq, Repr

def updH (s : St) (i : Nat) (f : Handler → Handler) : St := { s with hs := s.hs.modify i f }
def updM (s : St) (m : Nat) (f : Msg → Msg) : St := { s with msgs := s.msgs.modify m f }
def setC (s : St) (k : Nat) (pc : CPc) : St := { s with closers := s.closers.set k pc }

/-- the handler's context is done: own cancel, the caller's context, or Run's cancel for handlers Run started -/
def ctxOf (s : St) (h : Handler) : Bool := h.ctxDone || s.extCancel || (h.viaRun && s.runCancel)

def loopsEnded (s : St) : Bool := s.hs.all (fun h => h.loop.ended)      -- handlersWg = 0
def noneInFlight (s : St) : Bool := s.msgs.all (fun m => !m.stage.inFlight)   -- runningHandlersWg = 0

def markStop (h : Handler) : Handler := { h with stopSet := true }
def markStarted (h : Handler) : Handler := { h with started := true, startedCh := true }

def act (fx : Fix) (s : St) : Action → Option St
  /- AddHandler (under handlersLock; environment contract: not while/after the router shuts down) -/
  | .addHandler =>
    if s.hl = .free ∧ s.closed = false then
      let s1 := { s with hs := s.hs ++ [newHandler (!s.isRunning)] }
      if fx.d14 then some { s1 with tok := true }
      else if s.watch = .sel then some { s1 with watch := .wait }     -- unbuffered: needs the watcher in its select
      else some s1                                                     -- `default:` – the token is dropped
    else none
  /- Run -/
  | .runCall =>
    if s.isRunning then some { s with runErrs := s.runErrs + 1 }
    else if s.run = .idle then some { s with isRunning := true, run := .startWatch } else none
  | .runWatch =>
    if s.run = .startWatch ∧ s.hl = .free then
      some { s with run := .callRh, watch := if s.hs.all (·.removed) then .presel else .wait }
    else none
  | .runRh =>
    if s.run = .callRh ∧ s.hl = .free then some { s with run := .inRh, hl := .rh true none } else none
  | .runRunning =>
    if s.run = .closeRunning then some { s with running := true, run := .waitClosing } else none
  | .runCancelStep =>
    if s.run = .waitClosing ∧ s.closing then some { s with runCancel := true, run := .waitClosed } else none
  | .runRet =>
    if s.run = .waitClosed ∧ s.closedCh then some { s with run := .ret } else none
  /- RunHandlers (whole body under handlersLock) -/
  | .rhCall =>
    if s.isRunning ∧ s.hl = .free then some { s with hl := .rh false none } else none
  | .rhSub i =>
    match s.hl, s.hs[i]? with
    | .rh v none, some h =>
      if h.started = false ∧ h.removed = false then
        some { (updH s i fun h => { h with subCalls := h.subCalls + 1, pump := .idle, viaRun := v })
                 with hl := .rh v (some (i, 0)) }
      else none
    | _, _ => none
  /- a decorator or `Subscribe` fails for handler i: RunHandlers returns the error (deferred Unlock); nothing of the handler
     has been touched – `started` is still false, so the next RunHandlers call tries again.  Run's own call makes Run
     return that error. -/
  | .rhSubFail i =>
    match s.hl, s.hs[i]? with
    | .rh v none, some h =>
      if h.started = false ∧ h.removed = false then
        -- Run's `defer cancel()` fires when Run returns the error: the handlers it had already started lose their context
        some { s with hl := .free, run := if v then .failed else s.run, runCancel := if v then true else s.runCancel }
      else none
    | _, _ => none
  | .rhStep =>
    match s.hl with
    | .rh v (some (i, 0)) =>
      some { (updH s i (if fx.d7 then markStop else markStarted)) with hl := .rh v (some (i, 1)) }
    | .rh v (some (i, 1)) =>
      some { (updH s i (if fx.d7 then markStarted else markStop)) with hl := .rh v (some (i, 2)) }
    | _ => none
  | .rhSpawn =>
    match s.hl with
    | .rh v (some (i, 2)) =>
      some { (updH s i fun h => { h with loop := .idle, hc := .sel }) with hl := .rh v none }
    | _ => none
  | .rhEnd =>
    match s.hl with
    | .rh v none =>
      if s.hs.all (fun h => h.started || h.removed) then
        some { s with hl := .free, run := if v then .closeRunning else s.run }
      else none
    | _ => none
  /- inner (scripted) subscriber and the decorator pump -/
  | .emit i =>
    match s.hs[i]? with
    | some h =>
      if h.pump = .idle ∧ h.innerClosed = false then
        some { (updH s i fun h => { h with pump := .hold s.msgs.length })
                 with msgs := s.msgs ++ [⟨i, .pump, .none⟩] }
      else none
    | none => none
  | .pumpOut i =>
    match s.hs[i]? with
    | some h =>
      match h.pump, h.loop with
      | .hold m, .idle =>
        some (updM (updH s i fun h => { h with pump := .idle, loop := .hold m }) m fun x => { x with stage := .recv })
      | _, _ => none
    | none => none
  | .pumpDrop i =>
    match s.hs[i]? with
    | some h =>
      match h.pump with
      | .hold m =>
        if h.decClosing then
          some (updM (updH s i fun h => { h with pump := .idle }) m fun x => { x with stage := .dropped })
        else none
      | _ => none
    | none => none
  | .pumpEnd i =>
    match s.hs[i]? with
    | some h => if h.pump = .idle ∧ h.innerClosed then some (updH s i fun h => { h with pump := .done }) else none
    | none => none
  | .innerCtx i =>
    match s.hs[i]? with
    | some h =>
      if h.pump ≠ .off ∧ ctxOf s h ∧ h.innerClosed = false then some (updH s i fun h => { h with innerClosed := true })
      else none
    | none => none
  /- the handler's receive loop -/
  | .dispatch i =>
    match s.hs[i]? with
    | some h =>
      match h.loop with
      | .hold m =>
        if s.wB ≠ .held then
          some (updM (updH s i fun h => { h with loop := .idle }) m fun x => { x with stage := .disp })
        else none
      | _ => none
    | none => none
  | .loopEnd i =>
    match s.hs[i]? with
    | some h => if h.loop = .idle ∧ h.pump = .done then some (updH s i fun h => { h with loop := .pubClose }) else none
    | none => none
  | .pubClose i =>
    match s.hs[i]? with
    | some h =>
      if h.loop = .pubClose then
        some (updH s i fun h => { h with loop := .wgDone, pubCloseCalls := h.pubCloseCalls + 1 })
      else none
    | none => none
  | .wgDone i =>
    match s.hs[i]? with
    | some h => if h.loop = .wgDone then some (updH s i fun h => { h with loop := .delete }) else none
    | none => none
  | .loopDelete i =>
    match s.hs[i]? with
    | some h =>
      if h.loop = .delete ∧ s.hl = .free then
        some (updH s i fun h => { h with loop := .done, removed := true, stoppedCh := true, ctxDone := true })
      else none
    | none => none
  /- handleMessage -/
  | .hStart m =>
    match s.msgs[m]? with
    | some x => if x.stage = .disp then some (updM s m fun x => { x with stage := .inH }) else none
    | none => none
  | .hReturn m ok =>
    match s.msgs[m]? with
    | some x =>
      if x.stage = .inH then
        if ok then some (updM s m fun x => { x with stage := .pub })
        else some (updM s m fun x => { x with stage := .done, settle := .nack })
      else none
    | none => none
  | .hPublished m ok =>
    match s.msgs[m]? with
    | some x =>
      if x.stage = .pub then
        if ok then some (updM s m fun x => { x with stage := .preSettle })
        else some (updM s m fun x => { x with stage := .done, settle := .nack })
      else none
    | none => none
  | .hSettle m =>
    match s.msgs[m]? with
    | some x =>
      if x.stage = .preSettle then some (updM s m fun x => { x with stage := .done, settle := .ack }) else none
    | none => none
  /- handleClose -/
  | .hcClose i =>
    match s.hs[i]? with
    | some h =>
      if h.hc = .sel ∧ s.closing then
        some (updH s i fun h => { h with hc := .innerCall, subCloseCalls := h.subCloseCalls + 1 })
      else none
    | none => none
  | .hcCtx i =>
    match s.hs[i]? with
    | some h =>
      if h.hc = .sel ∧ ctxOf s h then
        if fx.d6 ∧ s.closing then
          some (updH s i fun h => { h with hc := .innerCall, subCloseCalls := h.subCloseCalls + 1 })
        else some (updH s i fun h => { h with hc := .stop })
      else none
    | none => none
  | .hcInnerRet i =>
    match s.hs[i]? with
    | some h =>
      if h.hc = .innerCall then
        some (updH s i fun h => { h with hc := .waitPump, innerClosed := true, decClosing := true })
      else none
    | none => none
  /- the subscriber's Close returns an error without having ended the subscription (e.g. an outer decorator failed before it
     reached the wrapped subscriber): handleClose logs it and goes on to `stopFn()` – the context is the second way out -/
  | .hcCloseFail i =>
    match s.hs[i]? with
    | some h => if h.hc = .innerCall then some (updH s i fun h => { h with hc := .stop }) else none
    | none => none
  | .hcPumpWaited i =>
    match s.hs[i]? with
    | some h => if h.hc = .waitPump ∧ h.pump = .done then some (updH s i fun h => { h with hc := .stop }) else none
    | none => none
  | .hcStop i =>
    match s.hs[i]? with
    | some h => if h.hc = .stop then some (updH s i fun h => { h with hc := .done, ctxDone := true }) else none
    | none => none
  /- environment: Stop (after Started() fired), cancel of the caller's context -/
  | .stop i =>
    match s.hs[i]? with
    | some h =>
      if h.startedCh then
        if h.started ∧ h.stopSet then some (updH s i fun h => { h with ctxDone := true })
        else some { s with panicked := true }       -- "handler is not started" / nil stopFn
      else none
    | none => none
  | .cancelExt => some { s with extCancel := true }
  /- Close -/
  | .closeCall => some { s with closers := s.closers ++ [.wantCL] }
  | .closeCL k =>
    match s.closers[k]?, s.cl with
    | some .wantCL, none => some { (setC s k .wantHL) with cl := some k }
    | _, _ => none
  | .closeHL k =>
    match s.closers[k]? with
    | some .wantHL =>
      if s.hl = .free then
        if s.closed then some { (setC s k (.ret false)) with cl := none }
        else some { (setC s k .waiting) with closed := true, closing := true, hl := .closer k }
      else none
    | _ => none
  | .closeDone k =>
    match s.closers[k]? with
    | some .waiting =>
      if s.wA ∧ s.wB = .done then
        some { (setC s k (.ret false)) with closedCh := true, cl := none, hl := .free, closeNil := true }
      else none
    | _ => none
  | .closeTimeout k =>
    match s.closers[k]? with
    | some .waiting =>
      if s.timerFired then
        some { (setC s k (.ret true)) with closedCh := true, cl := none, hl := .free, closeErr := true }
      else none
    | _ => none
  | .timer => if s.closed ∧ s.closedCh = false then some { s with timerFired := true } else none
  /- the waiter goroutine(s) of waitForHandlers -/
  | .wLoops => if s.closed ∧ s.wA = false ∧ loopsEnded s then some { s with wA := true } else none
  | .wLock => if s.closed ∧ s.wB = .idle ∧ (fx.d5 → s.wA) then some { s with wB := .held } else none
  | .wRunning => if s.wB = .held ∧ noneInFlight s then some { s with wB := .done } else none
  /- watchAllHandlersStopped -/
  | .watchArrive => if s.watch = .presel then some { s with watch := .sel } else none
  | .watchTok => if s.watch = .sel ∧ s.tok then some { s with watch := .wait, tok := false } else none
  | .watchClosed => if s.watch = .sel ∧ s.closedCh then some { s with watch := .done } else none
  | .watchZero => if s.watch = .wait ∧ loopsEnded s then some { s with watch := .check } else none
  | .watchCheck =>
    if s.watch = .check ∧ s.cl = none then
      if s.closed then some { s with watch := .done }
      else some { s with watch := .done, closers := s.closers ++ [.wantCL] }
    else none

/-- environment actions (callers, subscribers' emissions, handler outcomes, timer); everything else is the router's own -/
def Action.isEnv : Action → Bool
  | .addHandler | .runCall | .rhCall | .rhSubFail _ | .hcCloseFail _ | .emit _ | .hReturn _ _ | .hPublished _ _ | .stop _ | .cancelExt
  | .closeCall | .timer => true
  | _ => false

/-- candidate actions of a state (superset of the enabled ones) -/
def cands (s : St) : List Action :=
  [.addHandler, .runCall, .runWatch, .runRh, .runRunning, .runCancelStep, .runRet, .rhCall, .rhStep, .rhSpawn, .rhEnd,
   .cancelExt, .closeCall, .timer, .wLoops, .wLock, .wRunning, .watchArrive, .watchTok, .watchClosed, .watchZero,
   .watchCheck]
  ++ (List.range s.hs.length).flatMap (fun i =>
      [.rhSub i, .rhSubFail i, .emit i, .pumpOut i, .pumpDrop i, .pumpEnd i, .innerCtx i, .dispatch i, .loopEnd i, .pubClose i,
       .wgDone i, .loopDelete i, .hcClose i, .hcCtx i, .hcInnerRet i, .hcCloseFail i, .hcPumpWaited i, .hcStop i, .stop i])
  ++ (List.range s.msgs.length).flatMap (fun m =>
      [.hStart m, .hReturn m true, .hReturn m false, .hPublished m true, .hPublished m false, .hSettle m])
  ++ (List.range s.closers.length).flatMap (fun k => [.closeCL k, .closeHL k, .closeDone k, .closeTimeout k])

end Wm.RouterLife
