/-
  C19 – the simple middlewares of `message/router/middleware`:
  Timeout, CorrelationID, Recoverer, IgnoreErrors, InstantAck, Throttle, CircuitBreaker (closed),
  DelayOnError, and Retry (minimal: attempt rule + the read of the message context).
  Core-only, executable.

  A handler is a function on the mutable state of the *incoming message* (its context, metadata,
  delay metadata, settlement) returning a result `ret outs err? | panic v`.  A middleware is a function
  `Handler → Handler`.  The model describes the code as it is at the pinned commit *with* the repairs
  D2 (Timeout restores the context) and D3 (DelayOnError multiplies in float64); the unrepaired
  behaviour is kept in namespace `Old` for the witness theorems.

  Outside the model (trusted base): real time (Timeout is modelled by "the derived context has a
  deadline; it is already done iff the timeout is ≤ 0"), `time.Duration.String`/`ParseDuration` (the
  delay metadata is carried as a number of nanoseconds or as an unparseable raw string), float64
  rounding for multipliers that are not small dyadic rationals (the multiplier is `num/den`, the
  product is the exact floor), the text of a stack trace (the text of a recovered-panic error is
  "unknown": it can never equal a listed error text), gobreaker outside the closed state.
-/
namespace Wm.Mw

/-! ### metadata (a Go `map[string]string` as an association list) -/

abbrev Meta := List (String × String)

/-- `Metadata.Get`: the value, `""` when the key is missing -/
def mget : Meta → String → String
  | [], _ => ""
  | (k, v) :: rest, key => if k = key then v else mget rest key

/-- `Metadata.Set` -/
def mset : Meta → String → String → Meta
  | [], key, val => [(key, val)]
  | (k, v) :: rest, key, val => if k = key then (k, val) :: rest else (k, v) :: mset rest key val

/-! ### handler results -/

/-- value a handler panics with: a string, an error value (its text), or `nil`.  Whether `recover()` then yields `nil`
    (GODEBUG panicnil=1, programs with go < 1.21) or `*runtime.PanicNilError` is not distinguished: both are `nil` here, and
    `Recoverer` (flag `panicked`) does not depend on it. -/
inductive PVal
  | str (s : String)
  | err (s : String)
  | nil
  | list (s : String)      -- a value of a non-comparable dynamic type (`[]string{s}`): cannot be a map key or compared with ==
  deriving DecidableEq, Repr, Inhabited

/-- error values.  `pkgWrap` = `errors.Wrap(inner, msg)` of github.com/pkg/errors (has `Cause()`),
    `fmtWrap` = `fmt.Errorf(msg+": %w", inner)` (no `Cause()`), `recovered v` = what `Recoverer` builds:
    `errors.WithStack(RecoveredPanicError{V: v, Stacktrace: …})`. -/
inductive Err
  | base (txt : String)
  | ubase (txt : String)     -- an error value of a non-comparable dynamic type (`type fieldErrors []string`) with this text
  | ctxErr (deadline : Bool) -- the sentinels `context.DeadlineExceeded` (true) / `context.Canceled` (false): what a handler
                             -- that honours `msg.Context()` returns (maybe wrapped) when its per-call context is done
  | pkgWrap (msg : String) (inner : Err)
  | fmtWrap (msg : String) (inner : Err)
  | recovered (v : PVal)
  deriving DecidableEq, Repr, Inhabited

/-- `err.Error()`; `none` = contains a stack trace, not predictable, equal to no listed text -/
def Err.text : Err → Option String
  | .base t => some t
  | .ubase t => some t
  | .ctxErr d => some (if d then "context deadline exceeded" else "context canceled")
  | .pkgWrap m e => (Err.text e).map (fun t => m ++ ": " ++ t)
  | .fmtWrap m e => (Err.text e).map (fun t => m ++ ": " ++ t)
  | .recovered _ => none

/-- `errors.Cause(err)` of github.com/pkg/errors: unwraps only values that have a `Cause()` method -/
def Err.cause : Err → Err
  | .pkgWrap _ e => Err.cause e
  | e => e

/-- a produced message: uuid and metadata (the payload plays no role here) -/
structure Out where
  id : String
  md : Meta
  deriving DecidableEq, Repr, Inhabited

inductive Res
  | ret (outs : List Out) (err : Option Err)
  | panic (v : PVal)
  deriving DecidableEq, Repr, Inhabited

/-! ### the incoming message -/

/-- a `context.Context` as far as the middlewares can tell: does it carry a deadline, is it done.
    `depth` tells a derived context from its parent (object identity). -/
structure Ctx where
  depth : Nat
  deadline : Bool
  done : Bool
  far : Bool := false     -- the deadline lies beyond the horizon of every Timeout of the chain (set by the caller)
  deriving DecidableEq, Repr, Inhabited

/-- the `_watermill_delayed_for` metadata: missing, a duration in ns, or a string that
    `time.ParseDuration` rejects (the empty string included) -/
inductive Delay
  | absent
  | ns (n : Nat)
  | raw (s : String)
  deriving DecidableEq, Repr, Inhabited

/-- what the handler can see of the message when it is called -/
structure CallObs where
  deadline : Bool
  done : Bool
  acked : Bool
  delay : Delay
  far : Bool             -- the deadline it sees is later than any Timeout of the chain allows
  nacked : Bool
  deriving DecidableEq, Repr, Inhabited

/-- state of the incoming message plus the logical environment of one call of the chain -/
structure St where
  ctx : Ctx
  md : Meta              -- metadata without the two delay keys
  delay : Delay          -- `_watermill_delayed_for`
  until_ : Bool          -- `_watermill_delayed_until` present
  acked : Bool
  ticks : Nat            -- receives from the throttle ticker so far
  script : List Res      -- results the scripted handler still has to produce (the last one repeats)
  log : List CallObs     -- what the scripted handler saw, one entry per invocation
  hcid : Option String   -- the scripted handler sets the incoming message's correlation id to this value when called
  nacked : Bool          -- a Nack was sent on the message before it entered the chain (`Ack()` is then a no-op returning false)
  deriving DecidableEq, Repr, Inhabited

abbrev Handler := St → Res × St

def cidKey : String := "correlation_id"

/-- the handler of the harness: records what it sees, answers with the next scripted result -/
def scripted : Handler := fun st =>
  let md1 := match st.hcid with
    | some v => mset st.md cidKey v
    | none => st.md
  let st1 := { st with log := st.log ++ [⟨st.ctx.deadline, st.ctx.done, st.acked, st.delay, st.ctx.far, st.nacked⟩], md := md1 }
  match st.script with
  | [] => (.ret [] none, st1)
  | [r] => (r, st1)
  | r :: rest => (r, { st1 with script := rest })

/-! ### the middlewares -/

/-- `SetCorrelationID(id, msg)`: only when `Get` gives `""` -/
def setCid (id : String) (o : Out) : Out :=
  if mget o.md cidKey ≠ "" then o else { o with md := mset o.md cidKey id }

/-- configuration of `DelayOnError`; `Multiplier = num/den` -/
structure DelayCfg where
  init : Nat
  max : Nat
  num : Nat
  den : Nat
  deriving DecidableEq, Repr, Inhabited

/-- `applyDelay`: the new `_watermill_delayed_for` value in ns.
    `time.Duration(float64(d) * Multiplier)` is the floor of the exact product (d ≥ 0, exact float arithmetic). -/
def applyDelay (c : DelayCfg) : Delay → Nat
  | .ns d => let x := d * c.num / c.den; if x > c.max then c.max else x
  | _ => c.init

inductive Mw
  | timeout (expired : Bool)     -- `Timeout(d)`; `expired` = d ≤ 0: the derived context is done at once
  | correlation
  | recoverer
  | ignoreErrors (listed : List String)
  | instantAck
  | throttle
  | breaker                      -- gobreaker, closed, never trips
  | delayOnError (c : DelayCfg)
  | retry (maxRetries : Nat)
  deriving DecidableEq, Repr, Inhabited

/-- the context `Timeout` puts on the message for the call -/
def deriveCtx (c : Ctx) (expired : Bool) : Ctx := ⟨c.depth + 1, true, c.done || expired, false⟩

def timeout (expired : Bool) (h : Handler) : Handler := fun st =>
  let (r, st') := h { st with ctx := deriveCtx st.ctx expired }
  (r, { st' with ctx := st.ctx })          -- deferred: cancel(); msg.SetContext(originalCtx) – also on panic

def correlation (h : Handler) : Handler := fun st =>
  let (r, st') := h st
  match r with
  | .ret outs err => (.ret (outs.map (setCid (mget st'.md cidKey))) err, st')
  | .panic v => (.panic v, st')

def recoverer (h : Handler) : Handler := fun st =>
  let (r, st') := h st
  match r with
  | .panic v => (.ret [] (some (.recovered v)), st')
  | r => (r, st')

def ignoreErrors (listed : List String) (h : Handler) : Handler := fun st =>
  let (r, st') := h st
  match r with
  | .ret outs (some e) =>
    match e.cause.text with
    | some t => if t ∈ listed then (.ret outs none, st') else (r, st')
    | none => (r, st')
  | r => (r, st')

/-- `msg.Ack()`: acknowledges unless a Nack was sent before (then it is a no-op; its result is not looked at) -/
def ackMsg (st : St) : St := if st.nacked then st else { st with acked := true }

def instantAck (h : Handler) : Handler := fun st => h (ackMsg st)

def throttle (h : Handler) : Handler := fun st => h { st with ticks := st.ticks + 1 }

def breaker (h : Handler) : Handler := h

def delayOnError (c : DelayCfg) (h : Handler) : Handler := fun st =>
  let (r, st') := h st
  match r with
  | .ret _ (some _) => (r, { st' with delay := .ns (applyDelay c st'.delay), until_ := true })
  | r => (r, st')

/-- the retry loop after the first failed attempt.  `stop` = "the context read after the first attempt
    is done" (`ctx := msg.Context()` is evaluated once, before the loop); `rem` = retries allowed after
    this one.  Back-off waits, `MaxElapsedTime` and the hook are C12's subject and not modelled here. -/
def retryLoop (h : Handler) (stop : Bool) : Nat → List Out → Err → St → Res × St
  | rem, outs, e, st =>
    if stop then (.ret outs (some e), st)
    else
      match h st with
      | (.panic v, st2) => (.panic v, st2)
      | (.ret o2 none, st2) => (.ret o2 none, st2)
      | (.ret o2 (some e2), st2) =>
        match rem with
        | 0 => (.ret [] (some e2), st2)            -- `return nil, err`
        | r + 1 => retryLoop h stop r o2 e2 st2

/-- `Retry{MaxRetries: m}`; `checkCtx = false` is the reference semantics "Retry's own attempt rule"
    in which the message context is never consulted (it exists only in the model). -/
def retry (checkCtx : Bool) (maxRetries : Nat) (h : Handler) : Handler := fun st =>
  match h st with
  | (.ret outs (some e), st1) => retryLoop h (checkCtx && st1.ctx.done) (maxRetries - 1) outs e st1
  | x => x

def applyC (checkCtx : Bool) : Mw → Handler → Handler
  | .timeout e => timeout e
  | .correlation => correlation
  | .recoverer => recoverer
  | .ignoreErrors l => ignoreErrors l
  | .instantAck => instantAck
  | .throttle => throttle
  | .breaker => breaker
  | .delayOnError c => delayOnError c
  | .retry m => retry checkCtx m

/-- a stack of middlewares, outermost first, around `h` -/
def runC (checkCtx : Bool) : List Mw → Handler → Handler
  | [], h => h
  | m :: rest, h => applyC checkCtx m (runC checkCtx rest h)

/-- the code -/
abbrev apply := applyC true
abbrev run := runC true

def Mw.isRetry : Mw → Bool
  | .retry _ => true
  | _ => false

/-! ### Retry's own attempt rule, stated on the script of the scripted handler -/

/-- the result the scripted handler gives next, and the script it leaves (the last result repeats) -/
def headRes : List Res → Res
  | [] => .ret [] none
  | r :: _ => r
def nextScript : List Res → List Res
  | [] => []
  | [r] => [r]
  | _ :: rest => rest

def Res.isErr : Res → Bool
  | .ret _ (some _) => true
  | _ => false

/-- attempts made by the retry loop with `rem` retries allowed after the next one -/
def ownLoop : Nat → List Res → Nat
  | 0, _ => 1
  | r + 1, sc => if (headRes sc).isErr then 1 + ownLoop r (nextScript sc) else 1

/-- Retry's own rule: call once; after a failure retry until a call does not fail (success or panic),
    at most max(MaxRetries, 1) times -/
def ownAttempts (maxRetries : Nat) (sc : List Res) : Nat :=
  if (headRes sc).isErr then 1 + ownLoop (maxRetries - 1) (nextScript sc) else 1

/-! ### DelayOnError over a sequence of calls on one message -/

/-- the delay metadata after a call whose handler failed (`true`) or succeeded (`false`) -/
def delayStep (c : DelayCfg) (d : Delay) (failed : Bool) : Delay :=
  if failed then .ns (applyDelay c d) else d

/-- metadata after each call of a failure/success sequence -/
def delaySeq (c : DelayCfg) : Delay → List Bool → List Delay
  | _, [] => []
  | d, f :: rest => let d' := delayStep c d f; d' :: delaySeq c d' rest

/-- the delay written by failure number `j+1` in a row (`j` = failures before it) on a message without
    delay metadata: the k-th consecutive failure writes `delayAt c (k-1)` -/
def delayAt (c : DelayCfg) : Nat → Nat
  | 0 => applyDelay c .absent
  | j + 1 => applyDelay c (.ns (delayAt c j))

/-- the uncapped chain: `u 0 = init`, `u (j+1) = ⌊u j · num/den⌋` -/
def uncapped (c : DelayCfg) : Nat → Nat
  | 0 => c.init
  | j + 1 => uncapped c j * c.num / c.den

/-- bound on what the `j` roundings to whole nanoseconds can lose, scaled by `den^j`:
    `g 0 = 0`, `g (j+1) = num·g j + (den-1)·den^j`  (0 for integer multipliers) -/
def gapBound (c : DelayCfg) : Nat → Nat
  | 0 => 0
  | j + 1 => c.num * gapBound c j + (c.den - 1) * c.den ^ j

/-! ### Throttle: an abstract one-slot ticker

  Ticks fire at `d, 2d, 3d, …`.  The channel has one slot: a tick that fires while the slot is full is
  dropped.  A *run* lists, for every handler start, the time of the start and the index of the tick it
  consumed. -/

structure Start where
  time : Nat       -- when the receive from the ticker completed (= the handler starts)
  tick : Nat       -- index i ≥ 1 of the consumed tick (fired at i·d)
  deriving DecidableEq, Repr, Inhabited

/-- a run a one-slot ticker of period `d` admits: every start consumes a tick that has fired; starts
    are in time order and consume distinct ticks in order; the consumed tick found the slot empty, i.e. it
    fired no earlier than the previous start. -/
def validRun (d : Nat) : List Start → Bool
  | [] => true
  | [a] => decide (1 ≤ a.tick) && decide (a.tick * d ≤ a.time)
  | a :: b :: rest =>
    decide (1 ≤ a.tick) && decide (a.tick * d ≤ a.time) &&
    decide (a.time ≤ b.time) && decide (a.tick < b.tick) && decide (a.time ≤ b.tick * d) &&
    validRun d (b :: rest)

/-- the weaker description that does not assume punctual timers: ticks are consumed in strictly increasing order and
    none before its nominal time `i·d` (the runtime may deliver a tick late, never early) -/
def laxRun (d : Nat) : List Start → Bool
  | [] => true
  | [a] => decide (1 ≤ a.tick) && decide (a.tick * d ≤ a.time)
  | a :: b :: rest =>
    decide (1 ≤ a.tick) && decide (a.tick * d ≤ a.time) && decide (a.tick < b.tick) && laxRun d (b :: rest)

/-- the deterministic run for given request times (when each caller arrives at `<-ticker.C`; callers
    are served in order): the next tick that can be in the slot is the first one fired at or after
    the previous start; it is consumed when both it has fired and the caller has arrived. -/
def throttleRun (d : Nat) : (prevStart prevTick : Nat) → List Nat → List Start
  | _, _, [] => []
  | ps, pt, r :: rest =>
    let i := max (pt + 1) ((ps + d - 1) / d)       -- first tick index > pt with i·d ≥ ps
    let t := max (max r ps) (i * d)
    ⟨t, i⟩ :: throttleRun d t i rest

/-! ### the unrepaired code, kept for the witness theorems -/
namespace Old

/-- D2: `defer cancel()` only – the cancelled derived context stays on the message -/
def timeout (expired : Bool) (h : Handler) : Handler := fun st =>
  let (r, st') := h { st with ctx := deriveCtx st.ctx expired }
  (r, { st' with ctx := { st'.ctx with done := true } })

/-- D3: `delayedFor *= time.Duration(d.Multiplier)` – the factor is truncated to an integer first -/
def applyDelay (c : DelayCfg) : Delay → Nat
  | .ns d => let x := d * (c.num / c.den); if x > c.max then c.max else x
  | _ => c.init

end Old

/-! ### behaviour of third-party code in a legacy runtime mode, kept for a witness theorem -/
namespace Legacy

/-- gobreaker v1.0.0 `Execute` in a program running with GODEBUG=panicnil=1: its deferred function re-panics only when
    `recover()` is non-nil, so a `panic(nil)` of the handler ends as the zero results `(nil, nil)` -/
def breaker (h : Handler) : Handler := fun st =>
  match h st with
  | (.panic .nil, st') => (.ret [] none, st')
  | x => x

end Legacy

end Wm.Mw
