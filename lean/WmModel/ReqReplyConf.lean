/-
  Conformance instance for the request-reply listener model (ReqReply.lean): the recorded event stream of one
  request of the real code is checked for inclusion in the model by subset construction (Conf.lean).
  The model is run with one listener (index 0, operation id 0); notifications of other requests are not part of the
  stream: for this listener they are internal no-ops (`lstep … .recv` with a foreign operation id only acks them).

  Tokens (written by harness/cmd/c18, `ListenerStreams`):
    P,<res>,<err>,<bad>  a reply notification with this request's operation id is handed to the reply topic (logged before)
    S                    hook requestreply.listen.before_send fired in the listener (it holds a reply for the caller)
    R,res,<res>,<err> | R,um | R,to,<c|d|s>   the caller has read this reply (logged after the read)
    X                    the caller calls cancel() / cancels the parent context (logged before)
    Y                    from now on the context may be cancelled at any moment (SendWithReply's deferred cancel)
    G                    the reply Pub/Sub is closed (logged before): the subscription may end although the context is alive
    F                    OnListenForReplyFinished runs (logged inside the callback)
    Z                    the caller found the reply channel closed and empty
    O                    the hook ran for the whole liveness bound without the draining caller seeing the channel closed
                         (the code closes the channel before it calls the hook, so the model never accepts this after F)
  `<res>` is kept as the hex text, `<err>` is `-` (no error) or `=<hex>`.
-/
import WmModel.ReqReply
import WmModel.Conf
namespace Wm.ReqReplyConf
open Wm.ReqReply

structure W where
  st         : St
  hooked     : Bool       -- the hook of the current send has been reported
  dlv        : List Nat   -- accepted notifications already delivered (each is delivered at most once), sorted
  noted      : Nat        -- how many of the caller's reads have been reported
  mayCancel  : Bool
  gclosed    : Bool       -- the reply Pub/Sub is being closed
  hasTimeout : Bool
  deriving BEq, Hashable

inductive WA
  | m (a : Action)
  | dlv (k : Nat)
  | hook
  | note (r : Reply)
  | mayCancel
  | gclose

inductive Lbl
  | P (res : String) (err : Option String) (bad : Bool)
  | S | R (r : Reply) | X | Y | G | F | Z | O
  deriving Repr

def insertSorted (k : Nat) : List Nat → List Nat
  | [] => [k]
  | x :: xs => if k ≤ x then k :: x :: xs else x :: insertSorted k xs

def lis (w : W) : Option Listener := w.st.ls[0]?

def atSend (w : W) : Bool :=
  match lis w with
  | some l => match l.pc with | .send _ => true | _ => false
  | none => false

def wact (w : W) : WA → Option W
  | .m (.l 0 .send) => if w.hooked then (act true w.st (.l 0 .send)).map (fun s => { w with st := s, hooked := false }) else none
  | .m (.l 0 .sendCtx) => if w.hooked then (act true w.st (.l 0 .sendCtx)).map (fun s => { w with st := s, hooked := false }) else none
  | .m a => (act true w.st a).map (fun s => { w with st := s })
  | .dlv k =>
    if w.dlv.contains k then none
    else (act true w.st (.deliver 0 k)).map (fun s => { w with st := s, dlv := insertSorted k w.dlv })
  | .hook => if atSend w && !w.hooked then some { w with hooked := true } else none
  | .note r =>
    match lis w with
    | some l => if l.got[w.noted]? == some r then some { w with noted := w.noted + 1 } else none
    | none => none
  | .mayCancel => some { w with mayCancel := true }
  | .gclose => some { w with gclosed := true }

def taus (w : W) : List WA :=
  let ended : Bool := match lis w with | some l => (l.ctx != .live || w.gclosed) && !l.subClosed | none => false
  ((List.range w.st.pub.length).filter (fun k => !w.dlv.contains k)).map .dlv
  ++ [.m (.l 0 .ctx), .m (.l 0 .recv), .m (.l 0 .subClosed), .m (.l 0 .send), .m (.l 0 .sendCtx), .m (.l 0 .cancel),
      .m (.l 0 .close), .m (.c 0 .recv)]
  ++ (if w.hasTimeout then [.m (.c 0 .timeout)] else [])
  ++ (if w.mayCancel then [.m (.c 0 .cancel)] else [])
  ++ (if ended then [.m (.c 0 .closeSub)] else [])

def byLabel (w : W) : Lbl → List (List WA)
  | .P res err bad => [[.m (.process .ok 0 ⟨res, err, bad⟩ .ok)]]
  | .S => [[.hook]]
  | .R r => [[.note r]]
  | .X => [[.m (.c 0 .cancel)]]
  | .Y => [[.mayCancel]]
  | .G => [[.gclose]]
  | .F => [[.m (.l 0 .finish)]]
  | .Z =>
    match lis w with
    | some l => if l.chanClosed && l.buf.isEmpty then [[]] else []
    | none => []
  | .O =>
    match lis w with
    | some l => if l.chanClosed then [] else [[]]
    | none => []

def csys : Conf.CSys W WA Lbl := { act := wact, taus := taus, byLabel := byLabel }

def parseErr (s : String) : Option (Option String) :=
  if s = "-" then some none
  else match s.toList with
    | '=' :: rest => some (some (String.ofList rest))
    | _ => none

def parseTok (t : String) : Option Lbl :=
  match t.splitOn "," with
  | ["P", res, err, bad] => do
      let e ← parseErr err
      let b ← if bad = "1" then some true else if bad = "0" then some false else none
      pure (.P res e b)
  | ["S"] => some .S
  | ["R", "res", res, err] => do
      let e ← parseErr err
      pure (.R (.result 0 res e))
  | ["R", "um"] => some (.R (.unmarshal 0))
  | ["R", "to", "c"] => some (.R (.timeout .canceled))
  | ["R", "to", "d"] => some (.R (.timeout .deadline))
  | ["R", "to", "s"] => some (.R (.timeout .subClosed))
  | ["X"] => some .X
  | ["Y"] => some .Y
  | ["G"] => some .G
  | ["F"] => some .F
  | ["Z"] => some .Z
  | ["O"] => some .O
  | _ => none

def initW (hasTimeout : Bool) : W :=
  let s := match act true (init false) .newReq with | some s => s | none => init false
  { st := s, hooked := false, dlv := [], noted := 0, mayCancel := false, gclosed := false, hasTimeout := hasTimeout }

/-- `lst … <hasTimeout> <tok>*` → `ok` | `reject@<i>` | `bad-op` -/
def checkLst (hasTimeout : Bool) (toks : List String) : String :=
  match toks.mapM parseTok with
  | none => "bad-op"
  | some tr =>
    let r := Conf.runTrace csys 20000 (initW hasTimeout) tr
    match r.rejectedAt with
    | some i => if r.exhausted then "ok" else s!"reject@{i}"   -- a cut-off state set proves nothing
    | none => "ok"

end Wm.ReqReplyConf
