/-
  Deep embedding of the bodies of `(*Message).Ack` / `(*Message).Nack` as printed by the extractor
  (`harness/cmd/extract`) from the Go source of *this* run, with an interpreter.  The tie theorems
  `extracted_ack_eq_model` / `extracted_nack_eq_model` (Props/C03Tie.lean) state that interpreting
  what the source says now equals the hand-written model for every state.
-/
import WmModel.Ack
namespace Wm.GoAck
open Wm.Ack

inductive Fld | ack | noAck
  deriving DecidableEq, Repr

inductive Cond
  | sentEq (v : Sent)      -- m.ackSentType == v
  | sentNe (v : Sent)      -- m.ackSentType != v
  | chNil (f : Fld)        -- m.f == nil
  | chNotNil (f : Fld)     -- m.f != nil
  deriving DecidableEq, Repr

inductive Stmt
  | lockDefer                          -- m.ackMutex.Lock(); defer m.ackMutex.Unlock()
  | ifRet (c : Cond) (r : Bool)        -- if c { return r }
  | setSent (v : Sent)                 -- m.ackSentType = v
  | ifElse (c : Cond) (t e : Stmt)     -- if c { t } else { e }   (single-statement branches)
  | setClosedChan (f : Fld)            -- m.f = closedchan
  | close (f : Fld)                    -- close(m.f)
  | ret (r : Bool)                     -- return r
  | unknown (src : String)             -- anything the printer does not recognise
  deriving Repr

def getCh (s : St) : Fld → Ch
  | .ack => s.ackCh | .noAck => s.nackCh
def setCh (s : St) (f : Fld) (c : Ch) : St :=
  match f with | .ack => { s with ackCh := c } | .noAck => { s with nackCh := c }

def evalC (s : St) : Cond → Bool
  | .sentEq v => s.sent = v
  | .sentNe v => s.sent ≠ v
  | .chNil f => getCh s f = .nil
  | .chNotNil f => getCh s f ≠ .nil

inductive R | cont (s : St) | done (s : St) (r : Res) | stuck

def exec1 : Stmt → St → R
  | .lockDefer, s => .cont s
  | .ifRet c r, s => if evalC s c then .done s (.bool r) else .cont s
  | .setSent v, s => .cont { s with sent := v }
  | .ifElse c t e, s => if evalC s c then exec1 t s else exec1 e s
  | .setClosedChan f, s => .cont (setCh s f .closed)
  | .close f, s => match closeCh (getCh s f) with
      | some c => .cont (setCh s f c)
      | none => .done s .panic
  | .ret r, s => .done s (.bool r)
  | .unknown _, _ => .stuck

/-- falling off the end, or meeting an unknown statement, is `none` -/
def exec : List Stmt → St → Option (St × Res)
  | [], _ => none
  | st :: rest, s =>
    match exec1 st s with
    | .cont s' => exec rest s'
    | .done s' r => some (s', r)
    | .stuck => none

/-- the method holds the mutex for its whole body -/
def locked : List Stmt → Bool
  | .lockDefer :: _ => true
  | _ => false

end Wm.GoAck
