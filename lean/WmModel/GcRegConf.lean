/-
  Conformance instance for M_reg (GcReg.lean): the recorded stream of API calls and registry hook events of the
  real GoChannel (harness/gc/proj_reg.go, "reg <persistent> <blocking> <tok>*") must be a trace of the model.
  API calls are threads of the model (named in the tokens); every hook event pins the step(s) of *its* thread.
  Steps whose real counterpart has no hook inside the critical section it belongs to, or whose hook is logged after
  the effect (closed checks, `close(g.closing)`, final unlocks, the removal by the unsubscribe goroutine, sender
  goroutines finishing) are internal: the checker closes the state set under them, so the log order of such
  events can never cause a rejection (DESIGN.md 3.2).  Core-only; used by the correspondence check only.
-/
import WmModel.GcReg
import WmModel.Conf
namespace Wm.GcRegConf
open Wm.GcReg

structure W where
  st     : St
  names  : List (String × Nat)   -- API call name → thread index
  uuids  : List (Nat × Nat)      -- subscriber number (of the trace) → index of its unsubscribe thread
  pendTd : List (String × Nat)   -- Subscribe call name → index of the unsubscribe thread it just started
  deriving BEq, Hashable

inductive WA
  | m (a : Action)
  | bindName (n : String)                   -- the thread appended last gets this name
  | bindPend (n : String)                   -- Subscribe `n` just started the last thread (its unsubscribe goroutine)
  | bindUuid (n : String) (u : Nat)
  | chk (f : W → Bool)

def wact (w : W) : WA → Option W
  | .m a => (act w.st a).map (fun s => { w with st := s })
  | .bindName n => some { w with names := (n, w.st.ths.length - 1) :: w.names }
  | .bindPend n => some { w with pendTd := (n, w.st.ths.length - 1) :: w.pendTd }
  | .bindUuid n u => (w.pendTd.lookup n).map (fun i => { w with uuids := (u, i) :: w.uuids })
  | .chk f => if f w then some w else none

inductive Lbl
  | np (n : String) (t : Nat) (us : List Nat) | pa (n : String) | pl (n : String) | pp (n : String)
  | ps (n : String) (u : Nat) | pw (n : String) | pr (n : String) (ok : Bool)
  | ns (n : String) (t : Nat) | sa (n : String) | sl (n : String) | sc8 (n : String) (u : Nat) | sy (n : String)
  | sg (n : String) | sr (n : String) (ok : Bool)
  | cx (u : Nat) | tb (u : Nat) | tr (u : Nat)
  | nc (n : String) | cs (n : String) | cr (n : String)

def pubPc (w : W) (i : Nat) : Option PPc := match w.st.ths[i]? with | some (.pub _ _ pc _) => some pc | _ => none
def pubRest (w : W) (i : Nat) : List Nat := match w.st.ths[i]? with | some (.pub _ r _ _) => r | _ => []
def subPc (w : W) (i : Nat) : Option UPc := match w.st.ths[i]? with | some (.sub _ _ pc) => some pc | _ => none
def tdPc (w : W) (i : Nat) : Option TPc := match w.st.ths[i]? with | some (.td _ _ pc) => some pc | _ => none
def tdSid (w : W) (i : Nat) : Option Nat := match w.st.ths[i]? with | some (.td _ sid _) => some sid | _ => none
def closerPc (w : W) (i : Nat) : Option CPc := match w.st.ths[i]? with | some (.closer pc) => some pc | _ => none

def isWait : Option PPc → Bool | some (.wait _) => true | _ => false

/-- internal steps (see the header) -/
def taus (w : W) : List WA := Id.run do
  let mut out : List WA := []
  for i in [0:w.st.ths.length] do
    match w.st.ths[i]? with
    | some (.pub _ rest pc _) =>
      if pc == .start || pc == .persist || pc == .unlock || (pc == .send && rest.isEmpty) || isWait (some pc) then out := .m (.step i) :: out
    | some (.sub _ _ pc) => if pc == .start then out := .m (.step i) :: out
    | some (.td _ _ pc) => if pc == .remove then out := .m (.step i) :: out
    | some (.closer _) => out := .m (.step i) :: out
    | none => pure ()
  if w.st.cfg.blocking then    -- only a blocking Publish looks at its dispatcher
    for d in [0:w.st.disp.length] do
      for sid in w.st.disp[d]?.getD [] do
        out := .m (.senderDone d sid) :: out
  return out

/-- `k` steps of thread `i`, for k = 0 … n, each followed by the check -/
def upTo (i n : Nat) (f : W → Bool) : List (List WA) :=
  (List.range (n + 1)).map (fun k => (List.replicate k (WA.m (.step i))) ++ [.chk f])

def byLabel (w : W) : Lbl → List (List WA)
  | .np n t us => [[.m (.newPub t us none), .bindName n]]
  | .ns n t => [[.m (.newSub t), .bindName n]]
  | .nc n => [[.m .newClose, .bindName n]]
  | .pa n => match w.names.lookup n with
    | some i => [[.chk (fun w => pubPc w i != some .start && pubPc w i != some .retErr)]]
    | none => []
  | .pl n => match w.names.lookup n with
    | some i => upTo i 2 (fun w => pubPc w i == some .persist)
    | none => []
  | .pp n => match w.names.lookup n with
    -- `publish.persisted` is logged after `persistedMessagesLock` was released: the persist step itself is internal
    | some i => [[.chk (fun w => pubPc w i == some .send || isWait (pubPc w i) || pubPc w i == some .unlock || pubPc w i == some .retOk)]]
    | none => []
  | .ps n u => match w.names.lookup n with
    | some i =>
      if (pubRest w i).contains u then
        upTo i 3 (fun w => !(pubRest w i).contains u && (pubPc w i == some .send || isWait (pubPc w i)))
      else []
    | none => []
  | .pw n => match w.names.lookup n with
    | some i => [[.chk (fun w => isWait (pubPc w i))]]
    | none => []
  | .pr n ok => match w.names.lookup n with
    | some i => upTo i 4 (fun w => pubPc w i == some (if ok then .retOk else .retErr))
    | none => []
  | .sa n => match w.names.lookup n with
    | some i => [[.chk (fun w => subPc w i != some .start && subPc w i != some .retErr)]]
    | none => []
  | .sl n => match w.names.lookup n with
    | some i => (upTo i 4 (fun w => subPc w i == some .register)).map (· ++ [.bindPend n])
    | none => []
  | .sc8 n u => [[.bindUuid n u]]
  | .sy n => match w.names.lookup n with
    | some i => [[.chk (fun w => subPc w i == some .register)]]
    | none => []
  | .sg n => match w.names.lookup n with
    | some i => [[.m (.step i), .chk (fun w => subPc w i == some .retOk)]]
    | none => []
  | .sr n ok => match w.names.lookup n with
    | some i => if ok then [[]] else [[.chk (fun w => subPc w i == some .retErr)]]
    | none => []
  | .cx u => match w.uuids.lookup u with
    | some i => match tdSid w i with
      | some sid => [[.m (.cancel sid)]]
      | none => []
    | none => []
  | .tb u => match w.uuids.lookup u with
    | some i => [[.m (.step i), .chk (fun w => tdPc w i == some .subClosed)]]
    | none => []
  | .tr u => match w.uuids.lookup u with
    | some i => upTo i 4 (fun w => tdPc w i == some .remove)
    | none => []
  | .cs n => match w.names.lookup n with
    | some i => [[.chk (fun w => closerPc w i != some .start)]]
    | none => []
  | .cr n => match w.names.lookup n with
    | some i => [[.chk (fun w => closerPc w i == some .ret)]]
    | none => []

def csys : Conf.CSys W WA Lbl := { act := wact, taus := taus, byLabel := byLabel }

def parseUs (s : String) : Option (List Nat) := if s = "-" then some [] else (s.splitOn "+").mapM String.toNat?
def okOf (s : String) : Option Bool := if s = "ok" then some true else if s = "err" then some false else none

def parseTok (t : String) : Option Lbl :=
  match t.splitOn "," with
  | ["np", n, tp, us] => do pure (.np n (← tp.toNat?) (← parseUs us))
  | ["pa", n] => some (.pa n) | ["pl", n] => some (.pl n) | ["pp", n] => some (.pp n)
  | ["ps", n, u] => do pure (.ps n (← u.toNat?))
  | ["pw", n] => some (.pw n)
  | ["pr", n, r] => do pure (.pr n (← okOf r))
  | ["ns", n, tp] => do pure (.ns n (← tp.toNat?))
  | ["sa", n] => some (.sa n) | ["sl", n] => some (.sl n)
  | ["sc8", n, u] => do pure (.sc8 n (← u.toNat?))
  | ["sy", n] => some (.sy n) | ["sg", n] => some (.sg n)
  | ["sr", n, r] => do pure (.sr n (← okOf r))
  | ["cx", u] => do pure (.cx (← u.toNat?))
  | ["tb", u] => do pure (.tb (← u.toNat?))
  | ["tr", u] => do pure (.tr (← u.toNat?))
  | ["nc", n] => some (.nc n) | ["cs", n] => some (.cs n) | ["cr", n] => some (.cr n)
  | _ => none

/-- `reg <persistent> <blocking> <tok>*` → `ok` | `reject@<i>` | `panic` (a model state with `panicked`) | `bad-op` -/
def checkReg (toks : List String) : String :=
  match toks with
  | p :: b :: evs =>
    match evs.mapM parseTok with
    | none => "bad-op"
    | some tr =>
      let cfg : Cfg := { persistent := p == "1", blocking := b == "1" }
      let r := Conf.runTrace csys 20000 { st := init cfg, names := [], uuids := [], pendTd := [] } tr
      match r.rejectedAt with
      | some i => if r.exhausted then "ok" else s!"reject@{i}"   -- a cut-off state set proves nothing
      | none => if r.final.any (·.st.panicked) then "panic" else "ok"
  | _ => "bad-op"

end Wm.GcRegConf
