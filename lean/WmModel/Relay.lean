/-
  Relay components (C17).  Core-only, executable.

  * `forwarder`   – components/forwarder/forwarder.go `forwardMessage` inside the Router's settle rule
  * `fwdPublish`  – components/forwarder/publisher.go `Publisher.Publish` (+ envelope.go)
  * `passthrough` – the handler of components/fanin/fanin.go and pubsub/gochannel/fanout.go inside the Router's settle rule
  * `requeuer`    – components/requeuer/requeuer.go `handler` inside the Router's settle rule, with `strconv.Atoi`/`Itoa`
                    and Go's wrapping `int` addition modelled executably

  Every function describes what happens to ONE consumed message: the `Publish` calls made on the destination
  publisher (in order) and the settlement of the consumed message.  The components keep no state between messages
  (`stream` lifts the per-message functions to message streams).  The Router's settle rule – Nack when the handler
  returned an error, otherwise publish the outputs (if any) and Ack iff that publish was accepted – is the subject of
  C02; here it is inlined (one `if`) and exercised through the real Routers the components run internally.

  Strings are byte lists, metadata an association list (shared with `WmModel/Poison.lean`).
-/
import WmModel.Poison
namespace Wm.Relay
open Wm.Poison (Str Meta Msg mset ascii POut Settle)

/-! ### strconv.Atoi / strconv.Itoa on a 64-bit `int` -/

def isDigit (b : UInt8) : Bool := 48 ≤ b && b ≤ 57
def digitVal (b : UInt8) : Nat := b.toNat - 48
def digitsVal (ds : List UInt8) : Nat := ds.foldl (fun acc b => acc * 10 + digitVal b) 0

def maxInt : Int := 9223372036854775807
def minInt : Int := -9223372036854775808

def isNeg : Str → Bool
  | 45 :: _ => true
  | _ => false

def stripSign : Str → Str
  | 43 :: rest => rest
  | 45 :: rest => rest
  | s => s

/-- `strconv.Atoi`: one optional sign, at least one digit, nothing but ASCII digits, value within the range of
    `int`; everything else (empty, spaces, letters, `_`, out of range) is an error (`none`). -/
def atoi (s : Str) : Option Int :=
  let ds := stripSign s
  if ds.isEmpty || !ds.all isDigit then none
  else
    let n := digitsVal ds
    if isNeg s then (if n ≤ 9223372036854775808 then some (-(n : Int)) else none)
    else (if n ≤ 9223372036854775807 then some (n : Int) else none)

def digitChar (n : Nat) : UInt8 := UInt8.ofNat (48 + n % 10)

/-- decimal digits, most significant first; `fuel` only has to exceed the number (it never runs out, see
    `natDigitsF_val` in Props/C17.lean) -/
def natDigitsF : Nat → Nat → List UInt8
  | 0, _ => []
  | f + 1, n => if n < 10 then [digitChar n] else natDigitsF f (n / 10) ++ [digitChar n]

def natDigits (n : Nat) : List UInt8 := natDigitsF (n + 1) n

/-- `strconv.Itoa` -/
def itoa (i : Int) : Str := if i < 0 then 45 :: natDigits i.natAbs else natDigits i.toNat

/-- Go's `int` addition wraps around (two's complement, 64 bit) -/
def wrap64 (i : Int) : Int := (i + 9223372036854775808) % 18446744073709551616 - 9223372036854775808

/-! ### Requeuer -/

def retriesKey : Str := ascii "_watermill_requeuer_retries"

/-- `retries, err := strconv.Atoi(msg.Metadata.Get(RetriesKey)); if err != nil { retries = 0 }` -/
def priorCounter (m : Msg) : Int := (atoi ((List.lookup retriesKey m.md).getD [])).getD 0

/-- `retries++` -/
def nextCounter (m : Msg) : Int := wrap64 (priorCounter m + 1)

/-- result of `GeneratePublishTopic` -/
inductive TopicGen
  | ok (t : Str)
  | err
  deriving DecidableEq, Repr, Inhabited

structure RqOut where
  pubs   : List (Str × Msg)   -- Publish calls on the destination publisher
  settle : Settle
  msg    : Msg                -- the consumed message object afterwards (its metadata is written in place)
  deriving Repr, Inhabited

/-- `waitCancelled`: `Delay > 0` and the message context is already done (the handler returns `ctx.Err()`). -/
def requeuer (waitCancelled : Bool) (tg : TopicGen) (dest : POut) (m : Msg) : RqOut :=
  if waitCancelled then ⟨[], .nack, m⟩
  else match tg with
  | .err => ⟨[], .nack, m⟩
  | .ok t =>
    let m' : Msg := { m with md := mset m.md retriesKey (itoa (nextCounter m)) }
    ⟨[(t, m')], (if dest = .ok then .ack else .nack), m'⟩

/-- `GeneratePublishTopic` is user code that is shown the message (`params.Message`): it may route by metadata, in
    particular by the retries counter ("after k requeues → dead letter").  It is applied to the message AS CONSUMED –
    before the counter is raised and written. -/
abbrev TopicPolicy := Msg → TopicGen

def requeuerP (waitCancelled : Bool) (pol : TopicPolicy) (dest : POut) (m : Msg) : RqOut :=
  requeuer waitCancelled (pol m) dest m

/-- retry budget: a message that already went round `k` times goes to the dead-letter topic -/
def budgetPolicy (k : Int) (work dead : Str) : TopicPolicy :=
  fun m => .ok (if k ≤ priorCounter m then dead else work)

/-- the topic is named by a metadata key (error when absent or empty) -/
def metaPolicy (key : Str) : TopicPolicy :=
  fun m => match List.lookup key m.md with
    | some t => if t.isEmpty then .err else .ok t
    | none => .err

/-! ### Forwarder -/

structure Envelope where
  dest    : Str
  uuid    : Str
  payload : Str
  md      : Meta
  deriving DecidableEq, Repr, Inhabited

/-- what `json.Unmarshal(msg.Payload, &messageEnvelope{})` gives: an error, or the struct -/
inductive Parsed
  | bad
  | env (e : Envelope)
  deriving DecidableEq, Repr, Inhabited

/-- `unwrapMessageFromEnvelope` succeeds: the payload parses and names a destination -/
def Parsed.valid : Parsed → Option Envelope
  | .bad => none
  | .env e => if e.dest.isEmpty then none else some e

def Envelope.msg (e : Envelope) : Msg := ⟨e.uuid, e.payload, e.md⟩

structure Out where
  pubs   : List (Str × List Msg)   -- Publish calls on the destination publisher: topic, batch
  settle : Settle
  deriving Repr, Inhabited

def settleOf (dest : POut) : Settle := if dest = .ok then .ack else .nack

def forwarder (ackWhenCannotUnwrap : Bool) (p : Parsed) (dest : POut) : Out :=
  match p.valid with
  | none => ⟨[], if ackWhenCannotUnwrap then .ack else .nack⟩
  | some e => ⟨[(e.dest, [e.msg])], settleOf dest⟩

def defaultForwarderTopic : Str := ascii "forwarder_topic"

/-- `setDefaults` of both `Config` and `PublisherConfig` -/
def effTopic (t : Str) : Str := if t.isEmpty then defaultForwarderTopic else t

def wrap (topic : Str) (m : Msg) : Envelope := ⟨topic, m.uuid, m.payload, m.md⟩

def cont (b : UInt8) : Bool := 0x80 ≤ b && b ≤ 0xBF

/-- length of the well-formed UTF-8 sequence at the head of the string, 0 if there is none
    (RFC 3629: no overlong forms, no surrogates, nothing above U+10FFFF) -/
def seqLen : Str → Nat
  | [] => 0
  | b0 :: rest =>
    if b0 < 0x80 then 1
    else match rest with
      | [] => 0
      | b1 :: r1 =>
        if 0xC2 ≤ b0 && b0 ≤ 0xDF then (if cont b1 then 2 else 0)
        else match r1 with
          | [] => 0
          | b2 :: r2 =>
            if b0 == 0xE0 then (if 0xA0 ≤ b1 && b1 ≤ 0xBF && cont b2 then 3 else 0)
            else if (0xE1 ≤ b0 && b0 ≤ 0xEC) || b0 == 0xEE || b0 == 0xEF then (if cont b1 && cont b2 then 3 else 0)
            else if b0 == 0xED then (if 0x80 ≤ b1 && b1 ≤ 0x9F && cont b2 then 3 else 0)
            else match r2 with
              | [] => 0
              | b3 :: _ =>
                if b0 == 0xF0 then (if 0x90 ≤ b1 && b1 ≤ 0xBF && cont b2 && cont b3 then 4 else 0)
                else if 0xF1 ≤ b0 && b0 ≤ 0xF3 then (if cont b1 && cont b2 && cont b3 then 4 else 0)
                else if b0 == 0xF4 then (if 0x80 ≤ b1 && b1 ≤ 0x8F && cont b2 && cont b3 then 4 else 0)
                else 0

def validUtf8F : Nat → Str → Bool
  | 0, s => s.isEmpty
  | f + 1, s => s.isEmpty || (seqLen s != 0 && validUtf8F f (s.drop (seqLen s)))

/-- `utf8.Valid`.  The envelope travels as JSON; `encoding/json` keeps exactly the valid-UTF-8 strings unchanged
    (payload bytes travel as base64). -/
def validUtf8 (s : Str) : Bool := validUtf8F s.length s

/-- every string of the envelope is valid UTF-8 (the scope of the Forwarder clauses: JSON is the wire contract) -/
def Envelope.utf8 (e : Envelope) : Bool :=
  validUtf8 e.dest && validUtf8 e.uuid && e.md.all (fun kv => validUtf8 kv.1 && validUtf8 kv.2)

structure FPubOut where
  calls : List (Str × List Envelope)   -- Publish calls on the wrapped publisher: topic, enveloped batch
  err   : Bool
  deriving Repr, Inhabited

/-- `forwarder.Publisher.Publish(topic, msgs…)`: every message is wrapped first (an empty destination topic is
    refused before anything is published), then ONE call on the forwarder topic carries the whole batch. -/
def fwdPublish (cfgTopic : Str) (topic : Str) (msgs : List Msg) (dest : POut) : FPubOut :=
  if topic.isEmpty && !msgs.isEmpty then ⟨[], true⟩
  else ⟨[(effTopic cfgTopic, msgs.map (wrap topic))], dest != .ok⟩

/-! ### FanIn / FanOut -/

/-- the passthrough handler (`return []*message.Message{msg}, nil` / `message.PassthroughHandler`) under the
    Router: the consumed message itself is published to the handler's publish topic -/
def passthrough (target : Str) (m : Msg) (dest : POut) : Out := ⟨[(target, [m])], settleOf dest⟩

structure FanInCfg where
  sources : List Str
  target  : Str
  deriving Repr, Inhabited

/-- `fanin.Config.Validate` -/
def FanInCfg.valid (c : FanInCfg) : Bool :=
  !c.sources.isEmpty && c.sources.all (fun s => !s.isEmpty) && !c.target.isEmpty && !c.sources.contains c.target

/-- a message arriving on the `i`-th source topic -/
def fanIn (c : FanInCfg) (_i : Nat) (m : Msg) (dest : POut) : Out := passthrough c.target m dest

/-- FanOut: the handler added by `AddSubscription(topic)` publishes to the same topic name on the internal Pub/Sub;
    `subs` subscribers of that topic each obtain one copy. -/
def fanOutDeliveries (subs : Nat) (m : Msg) : List Msg := List.replicate subs m

/-! ### events of one consumed message, in order; streams -/

inductive Ev
  | publish (topic : Str) (batch : List Msg) (accepted : Bool)
  | settle (s : Settle)
  deriving DecidableEq, Repr

def trace (o : Out) (dest : POut) : List Ev :=
  o.pubs.map (fun p => .publish p.1 p.2 (dest == .ok)) ++ [.settle o.settle]

/-- a stream of consumed messages through one component instance: `f` is the per-message function applied to
    (message-specific input, destination outcome of that message) -/
def stream {α : Type} (f : α → POut → Out) : List (α × POut) → List Out
  | [] => []
  | (a, d) :: rest => f a d :: stream f rest

/-- what the destination accepted over a whole stream, in order -/
def accepted {α : Type} (f : α → POut → Out) (items : List (α × POut)) : List (Str × List Msg) :=
  (items.filter (fun it => it.2 == .ok)).flatMap (fun it => (f it.1 it.2).pubs)

end Wm.Relay
