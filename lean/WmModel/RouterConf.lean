/-
  Conformance instance for RouterLife: the event stream recorded from the real Router (harness/rl) is checked for
  inclusion in the model by subset construction with τ-closure (same algorithm as Conf.lean, plus an "exhausted" flag:
  when the closure runs out of fuel the verdict is inconclusive and counted as accepted – a rejection must only ever
  mean model ≠ code).

  Which model steps are τ and which are driven by a log entry follows DESIGN.md 3.2:
  * a log entry written BEFORE an operation whose effect only enables other steps performs that step (closeCall, cancel,
    Stop, Run call, Subscribe, hook `handle.start`, handler return, `before_settle`, publisher Close, subscriber Close call);
  * a log entry written AFTER an effect is only a check that the effect has happened (returns of Close/Run/RunHandlers,
    hooks close.signalled / loops_wait_done / running_wait_done / run.received / decorator.sub.before_out, Started(),
    Stopped(), Running() observations); the effect itself is τ;
  * AddHandler / RunHandlers take `handlersLock` somewhere between call and return: pending counters + τ.
  Handlers are numbered in the order of their AddHandler calls (the generators add them in that order).
-/
import Std.Data.HashSet
import WmModel.RouterLife
import WmModel.RouterMon
namespace Wm.RouterConf
open Wm.RouterLife

structure W where
  st      : St
  pendAdd : Nat
  pendRh  : Nat
  rhDone  : Nat
  rhFailed : Nat               -- user RunHandlers calls that ended with a Subscribe error, not yet matched with `rhr,_,err`
  pendEm  : List (Nat × Nat)   -- (handler, u): emission attempts not yet handed over, per handler in order
  uMap    : List (Nat × Nat)   -- (u, index in st.msgs)
  ck      : List (Nat × Nat)   -- (harness Close caller, index in st.closers)
  np      : List Nat           -- handlers without a (logged) publisher: their publisher Close is internal
  timerOk : Bool
  deriving BEq, Hashable

inductive WA
  | m (a : Action)
  | chk (p : W → Bool)
  | pendAdd | pendRh | rhRet | rhFail
  | pendEm (h u : Nat) | abandon (h u : Nat)
  | closeCall (k : Nat)
  | noteNp (h : Nat)

def fx : Fix := allFixed

def wact (w : W) : WA → Option W
  | .chk p => if p w then some w else none
  | .pendAdd => some { w with pendAdd := w.pendAdd + 1 }
  | .pendRh => some { w with pendRh := w.pendRh + 1 }
  | .rhRet => if w.rhDone > 0 then some { w with rhDone := w.rhDone - 1 } else none
  | .rhFail =>
    if w.rhFailed > 0 then some { w with rhFailed := w.rhFailed - 1 }
    else if w.pendRh > 0 then some { w with pendRh := w.pendRh - 1 } else none
  | .m (.rhSubFail i) =>
    match w.st.hl with
    | .rh false _ => (act fx w.st (.rhSubFail i)).map fun s => { w with st := s, rhFailed := w.rhFailed + 1 }
    | _ => (act fx w.st (.rhSubFail i)).map fun s => { w with st := s }
  | .pendEm h u => some { w with pendEm := w.pendEm ++ [(h, u)] }
  | .abandon h u => if w.pendEm.contains (h, u) then some { w with pendEm := w.pendEm.erase (h, u) } else none
  | .closeCall k => (act fx w.st .closeCall).map fun s => { w with st := s, ck := w.ck ++ [(k, w.st.closers.length)] }
  | .noteNp h => some { w with np := w.np ++ [h] }
  | .m .addHandler =>
    if w.pendAdd > 0 then (act fx w.st .addHandler).map fun s => { w with st := s, pendAdd := w.pendAdd - 1 } else none
  | .m .rhCall =>
    if w.pendRh > 0 then (act fx w.st .rhCall).map fun s => { w with st := s, pendRh := w.pendRh - 1 } else none
  | .m .rhEnd =>
    match w.st.hl with
    | .rh false _ => (act fx w.st .rhEnd).map fun s => { w with st := s, rhDone := w.rhDone + 1 }
    | _ => (act fx w.st .rhEnd).map fun s => { w with st := s }
  | .m (.emit h) =>
    match w.pendEm.find? (·.1 == h) with
    | some (_, u) =>
      (act fx w.st (.emit h)).map fun s =>
        { w with st := s, pendEm := w.pendEm.erase (h, u), uMap := w.uMap ++ [(u, w.st.msgs.length)] }
    | none => none
  | .m .timer => if w.timerOk then (act fx w.st .timer).map fun s => { w with st := s } else none
  | .m a => (act fx w.st a).map fun s => { w with st := s }

def isTau : Action → Bool
  | .addHandler | .runWatch | .runRh | .runRunning | .runCancelStep | .runRet | .rhCall | .rhStep | .rhSpawn | .rhEnd
  | .emit _ | .pumpOut _ | .pumpDrop _ | .pumpEnd _ | .innerCtx _ | .dispatch _ | .loopEnd _ | .wgDone _ | .loopDelete _
  | .hSettle _ | .hPublished _ false | .hcInnerRet _ | .hcPumpWaited _ | .hcStop _
  | .closeCL _ | .closeHL _ | .closeDone _ | .closeTimeout _ | .timer | .wLoops | .wLock | .wRunning
  | .watchArrive | .watchTok | .watchClosed | .watchZero | .watchCheck => true
  | _ => false

/-- `hcCtx` is internal only when it does not call the subscriber's Close (that call is logged: `sc`) -/
def taus (w : W) : List WA :=
  ((cands w.st).filter isTau).map .m ++ w.np.map (fun i => .m (.pubClose i)) ++
  (List.range w.st.hs.length).filterMap (fun i =>
    match act fx w.st (.hcCtx i) with
    | some s' => match s'.hs[i]? with
      | some h => if h.hc = .stop then some (.m (.hcCtx i)) else none
      | none => none
    | none => none)

def idxOf (w : W) (u : Nat) : Option Nat := (w.uMap.find? (·.1 == u)).map (·.2)

def stageIs (u : Nat) (st : Stage) : WA :=
  .chk fun w => match idxOf w u with
    | some i => match w.st.msgs[i]? with | some x => x.stage == st | none => false
    | none => false

def hChk (h : Nat) (p : Handler → Bool) : WA :=
  .chk fun w => match w.st.hs[h]? with | some x => p x | none => false

def onMsg (w : W) (u : Nat) (f : Nat → List (List WA)) : List (List WA) :=
  match idxOf w u with | some i => f i | none => []

open Wm.RouterMon in
def byLabel (w : W) (e : Ev) : List (List WA) :=
  let h := e.n0
  let u := e.n1
  match e.k with
  | "ahc" => [[.pendAdd]]
  | "ah" => [[.chk fun w => w.pendAdd == 0 && w.st.hs.length == h + 1] ++ (if e.s1 == "n" then [.noteNp h] else [])]
  | "ahp" => []
  | "rc" => [[.m .runCall]]
  | "rr" =>
    if e.s1 == "nil" then [[.chk fun w => w.st.run == .ret]]
    else if h == 0 then [[.chk fun w => w.st.run == .failed]] else [[.chk fun w => w.st.runErrs > 0]]
  | "rhc" => [[.pendRh]]
  | "rhr" => if e.s1 == "nil" then [[.rhRet]] else [[.rhFail]]
  | "sub" => [[.m (.rhSub h)]]
  | "sube" => [[.m (.rhSubFail h)]]
  | "nst" => [[hChk h fun x => !x.startedCh]]
  | "em" => [[.pendEm h u]]
  | "ea" => [[.abandon h u]]
  | "kd" => [[stageIs e.n0 .pump]]
  | "kr" => [[stageIs u .recv]]
  | "ks" => onMsg w u fun i => [[.m (.hStart i)]]
  | "hs" => [[stageIs u .inH]]
  | "hg" => [[]]
  | "he" => onMsg w u fun i => [[.m (.hReturn i (e.s2 == "ok"))]]
  | "kp" => [[stageIs u .pub]]
  | "pb" => [[]]
  | "kb" => onMsg w u fun i => [[.m (.hPublished i true)]]
  | "pc" => [[.m (.pubClose h)]]
  | "sc" => [[.m (.hcClose h)], [.m (.hcCtx h), hChk h fun x => x.hc == .innerCall]]
  | "scr" => [[hChk h fun x => x.hc != .sel && x.hc != .innerCall && x.hc != .off]]
  | "cc" => [[.closeCall h]]
  | "cr" =>
    [[.chk fun w => match w.ck.find? (·.1 == h) with
        | some (_, k) => w.st.closers[k]? == some (.ret (e.s1 == "err"))
        | none => false]]
  | "kS" => [[.chk fun w => w.st.closers.contains .waiting]]
  | "kL" => [[.chk fun w => w.st.wA]]
  | "kR" => [[.chk fun w => w.st.wB == .done]]
  | "kh" => [[hChk h fun x => x.hc != .off]]
  | "kg" => [[.chk fun w => match w.st.hl with | .rh _ (some (i, 2)) => i == h | _ => false]]
  | "kl" => [[.chk fun w => match w.st.hl with | .rh _ none => true | _ => false]]
  | "kw" => [[.chk fun w => w.st.watch == .presel || w.st.watch == .sel]]
  | "stp" => [[.m (.stop h)]]
  | "stpr" => [[.chk fun w => w.st.panicked == (e.s1 != "ok")]]
  | "st" => [[hChk h fun x => x.startedCh]]
  | "sd" => [[hChk h fun x => x.stoppedCh]]
  | "sdnil" => [[hChk h fun x => !x.stopSet]]
  | "rng" => [[.chk fun w => w.st.running]]
  | "nrng" => [[.chk fun w => !w.st.running]]
  | "cx" => [[.m .cancelExt]]
  | "wce" => [[.chk fun w => w.st.closeErr]]
  | "qs" =>
    -- no goroutine of the router is left: every spawned pump / loop / handleClose / watcher has finished, Run has returned
    [[.chk fun w => w.st.hs.all (fun x => (x.pump == .off || x.pump == .done) && (x.loop == .off || x.loop == .done) &&
                      (x.hc == .off || x.hc == .done)) &&
                    (w.st.watch == .off || w.st.watch == .done) && (w.st.run == .idle || w.st.run == .ret || w.st.run == .failed)]]
  | "go" | "rel" | "fin" | "sgo" | "crash" | "scd" | "ahd" | "ahn" | "pol" => [[]]
  | _ => []

def execSeq (w : W) : List WA → Option W
  | [] => some w
  | a :: rest => match wact w a with
    | some w' => execSeq w' rest
    | none => none

/-- τ-closure with an explicit "ran out of fuel" flag -/
def closure (fuel : Nat) (start : List W) : List W × Nat × Bool := Id.run do
  let mut seen : Std.HashSet W := {}
  let mut out : List W := []
  let mut work : List W := []
  let mut trans := 0
  for s in start do
    if !seen.contains s then
      seen := seen.insert s
      out := s :: out
      work := s :: work
  let mut n := fuel
  while !work.isEmpty && n > 0 do
    n := n - 1
    match work with
    | [] => pure ()
    | s :: rest =>
      work := rest
      for a in taus s do
        if let some s' := wact s a then
          trans := trans + 1
          if !seen.contains s' then
            seen := seen.insert s'
            out := s' :: out
            work := s' :: work
  return (out, trans, !work.isEmpty)

structure Result where
  rejectedAt : Option Nat
  exhausted  : Bool
  maxStates  : Nat
  trans      : Nat

open Wm.RouterMon in
def runTrace (fuel : Nat) (init : W) (trace : Array Ev) : Result := Id.run do
  let mut ss : List W := [init]
  let mut mx := 1
  let mut tr := 0
  for i in [0:trace.size] do
    let l := trace[i]!
    let (cl, t, ex) := closure fuel ss
    tr := tr + t
    if ex then return { rejectedAt := none, exhausted := true, maxStates := max mx cl.length, trans := tr }
    if cl.length > mx then mx := cl.length
    let mut seen : Std.HashSet W := {}
    let mut next : List W := []
    for s in cl do
      for seq in byLabel s l do
        if let some s' := execSeq s seq then
          tr := tr + 1
          if !seen.contains s' then
            seen := seen.insert s'
            next := s' :: next
    if next.isEmpty then return { rejectedAt := some i, exhausted := false, maxStates := mx, trans := tr }
    ss := next
  return { rejectedAt := none, exhausted := false, maxStates := mx, trans := tr }

open Wm.RouterMon in
def initW (evs : Array Ev) : W :=
  { st := init, pendAdd := 0, pendRh := 0, rhDone := 0, rhFailed := 0, pendEm := [], uMap := [], ck := [], np := [],
    timerOk := anyCloseErr evs }

open Wm.RouterMon in
/-- `trace …` → `ok` | `reject@<i>:<event>` | `bad-op`; traces not marked for conformance and inconclusive runs answer `ok` -/
def check (toks : List String) : String :=
  match parseTrace toks with
  | none => "bad-op"
  | some (cfg, evs) =>
    if !cfg.conf then "ok" else
    let r := runTrace 30000 (initW evs) evs
    match r.rejectedAt with
    | some i => s!"reject@{i}:{evs[i]!.k}"
    | none => "ok"

open Wm.RouterMon in
def stats (toks : List String) : String :=
  match parseTrace toks with
  | none => "bad-op"
  | some (cfg, evs) =>
    if !cfg.conf then "skipped" else
    let r := runTrace 30000 (initW evs) evs
    s!"{r.rejectedAt.isSome} exhausted={r.exhausted} states={r.maxStates} trans={r.trans}"

end Wm.RouterConf
