/-
  Small generic library for labelled transition systems given by an executable, deterministic
  `act : σ → α → Option σ` (`none` = the action is not enabled).  All nondeterminism is in the choice
  of the action, so "every reachable state" quantifies over every schedule, every number of threads
  and every environment behaviour.  Core-only.
-/
namespace Wm.Lts

structure Sys (σ α : Type) where
  init : σ
  act  : σ → α → Option σ

variable {σ α : Type}

inductive Reach (S : Sys σ α) : σ → Prop
  | init : Reach S S.init
  | step {s s' : σ} {a : α} : Reach S s → S.act s a = some s' → Reach S s'

/-- run a list of actions; `none` as soon as one is not enabled -/
def exec (S : Sys σ α) : σ → List α → Option σ
  | s, [] => some s
  | s, a :: rest => match S.act s a with
    | some s' => exec S s' rest
    | none => none

theorem reach_of_exec (S : Sys σ α) {s s' : σ} (h : Reach S s) (run : List α)
    (he : exec S s run = some s') : Reach S s' := by
  induction run generalizing s with
  | nil => simp [exec] at he; subst he; exact h
  | cons a rest ih =>
    simp only [exec] at he
    cases hact : S.act s a with
    | none => simp [hact] at he
    | some s1 => simp [hact] at he; exact ih (Reach.step h hact) he

theorem exec_append (S : Sys σ α) (s0 s1 : σ) (run : List α) (a : α) (s2 : σ)
    (hr : exec S s0 run = some s1) (ha : S.act s1 a = some s2) : exec S s0 (run ++ [a]) = some s2 := by
  induction run generalizing s0 with
  | nil => simp [exec] at hr; subst hr; simp [exec, ha]
  | cons b rest ih =>
    simp only [exec, List.cons_append] at hr ⊢
    cases hb : S.act s0 b with
    | none => simp [hb] at hr
    | some s' => simp [hb] at hr ⊢; exact ih s' hr

theorem exec_of_reach (S : Sys σ α) {s : σ} (h : Reach S s) : ∃ run, exec S S.init run = some s := by
  induction h with
  | init => exact ⟨[], rfl⟩
  | step _ hact ih =>
    obtain ⟨run, hr⟩ := ih
    exact ⟨run ++ [_], exec_append S _ _ run _ _ hr hact⟩

/-- invariant principle -/
theorem inv_of_step (S : Sys σ α) (I : σ → Prop) (h0 : I S.init)
    (hs : ∀ s a s', I s → S.act s a = some s' → I s') : ∀ s, Reach S s → I s := by
  intro s h
  induction h with
  | init => exact h0
  | step _ hact ih => exact hs _ _ _ ih hact

/-- invariant principle that may use reachability of the pre-state (for layered invariants) -/
theorem inv_of_step' (S : Sys σ α) (I : σ → Prop) (h0 : I S.init)
    (hs : ∀ s a s', Reach S s → I s → S.act s a = some s' → I s') : ∀ s, Reach S s → I s := by
  intro s h
  induction h with
  | init => exact h0
  | step hr hact ih => exact hs _ _ _ hr ih hact

/-- a measure that drops on every step of a class of actions bounds the number of such steps in any run -/
theorem steps_bounded (S : Sys σ α) (μ : σ → Nat) (P : α → Bool)
    (hdec : ∀ s a s', S.act s a = some s' → P a = true → μ s' < μ s)
    (hmono : ∀ s a s', S.act s a = some s' → P a = false → μ s' ≤ μ s) :
    ∀ (run : List α) (s s' : σ), exec S s run = some s' → (run.filter P).length + μ s' ≤ μ s := by
  intro run
  induction run with
  | nil => intro s s' h; simp [exec] at h; subst h; simp
  | cons a rest ih =>
    intro s s' h
    simp only [exec] at h
    cases hact : S.act s a with
    | none => simp [hact] at h
    | some s1 =>
      simp [hact] at h
      have := ih s1 s' h
      cases hp : P a with
      | true => have := hdec _ _ _ hact hp; simp [List.filter, hp]; omega
      | false => have := hmono _ _ _ hact hp; simp [List.filter, hp]; omega

/-- the same with reachability available in the side conditions -/
theorem steps_bounded_reach (S : Sys σ α) (μ : σ → Nat) (P : α → Bool)
    (hdec : ∀ s a s', Reach S s → S.act s a = some s' → P a = true → μ s' < μ s)
    (hmono : ∀ s a s', Reach S s → S.act s a = some s' → P a = false → μ s' ≤ μ s) :
    ∀ (run : List α) (s s' : σ), Reach S s → exec S s run = some s' → (run.filter P).length + μ s' ≤ μ s := by
  intro run
  induction run with
  | nil => intro s s' _ h; simp [exec] at h; subst h; simp
  | cons a rest ih =>
    intro s s' hr h
    simp only [exec] at h
    cases hact : S.act s a with
    | none => simp [hact] at h
    | some s1 =>
      simp [hact] at h
      have := ih s1 s' (Reach.step hr hact) h
      cases hp : P a with
      | true => have := hdec _ _ _ hr hact hp; simp [List.filter, hp]; omega
      | false => have := hmono _ _ _ hr hact hp; simp [List.filter, hp]; omega

end Wm.Lts

namespace Wm.Lts
variable {σ α : Type}

/-- potential argument with credits: internal steps (`P`) lower the potential by at least one, every other step raises
    it by at most `K`; then in any run the number of internal steps is at most the initial potential plus `K` per other
    step – internal activity is finite between environment actions (no livelock) -/
theorem steps_bounded_credit (S : Sys σ α) (Φ : σ → Nat) (P : α → Bool) (K : Nat)
    (hdec : ∀ s a s', Reach S s → S.act s a = some s' → P a = true → Φ s' + 1 ≤ Φ s)
    (hcred : ∀ s a s', Reach S s → S.act s a = some s' → P a = false → Φ s' ≤ Φ s + K) :
    ∀ (run : List α) (s s' : σ), Reach S s → exec S s run = some s' →
      (run.filter P).length + Φ s' ≤ Φ s + K * (run.filter (fun a => !P a)).length := by
  intro run
  induction run with
  | nil => intro s s' _ h; simp [exec] at h; subst h; simp
  | cons a rest ih =>
    intro s s' hr h
    simp only [exec] at h
    cases hact : S.act s a with
    | none => simp [hact] at h
    | some s1 =>
      simp [hact] at h
      have := ih s1 s' (Reach.step hr hact) h
      cases hp : P a with
      | true =>
        have := hdec _ _ _ hr hact hp
        simp [List.filter, hp]; omega
      | false =>
        have := hcred _ _ _ hr hact hp
        simp [List.filter, hp, Nat.mul_add]; omega

end Wm.Lts

namespace Wm.Lts
variable {σ α : Type}

/-- potential argument with a credit per action: internal steps (`P`) lower the potential by at least one, any other
    action `a` raises it by at most `c a` -/
theorem steps_bounded_credit_fn (S : Sys σ α) (Φ : σ → Nat) (P : α → Bool) (c : α → Nat)
    (hdec : ∀ s a s', Reach S s → S.act s a = some s' → P a = true → Φ s' + 1 ≤ Φ s)
    (hcred : ∀ s a s', Reach S s → S.act s a = some s' → P a = false → Φ s' ≤ Φ s + c a) :
    ∀ (run : List α) (s s' : σ), Reach S s → exec S s run = some s' →
      (run.filter P).length + Φ s' ≤ Φ s + ((run.filter (fun a => !P a)).map c).sum := by
  intro run
  induction run with
  | nil => intro s s' _ h; simp [exec] at h; subst h; simp
  | cons a rest ih =>
    intro s s' hr h
    simp only [exec] at h
    cases hact : S.act s a with
    | none => simp [hact] at h
    | some s1 =>
      simp [hact] at h
      have := ih s1 s' (Reach.step hr hact) h
      cases hp : P a with
      | true =>
        have := hdec _ _ _ hr hact hp
        simp [List.filter, hp]; omega
      | false =>
        have := hcred _ _ _ hr hact hp
        simp [List.filter, hp]; omega

end Wm.Lts
