/-
  Conformance instance for M_topic (GcTopic.lean): the per-topic stream of hook events of a persistent
  GoChannel must be a trace of the model, and at the end the senders really started per subscription
  (`gochannel.send.locked` events) must equal, as multisets, what the model says (`regs`).
  Tokens: PL publish.locked · PP publish.persisted · PS<u> publish.sent · SL subscribe.locked ·
  SR subscribe.replay · SG<sid> subscribe.registered · UN<sid> unsubscribe.before_remove ·
  EX<sid>:<u+u+…> senders observed for sid (end of run, only for subscriptions still registered).
-/
import WmModel.GcTopic
import WmModel.Conf
namespace Wm.GcTopicConf
open Wm.GcTopic

structure W where
  st   : St
  sids : List Nat      -- subscription ids in the order of `regs`
  deriving BEq, Hashable

inductive Lbl
  | PL (batch : List Nat) | PP | PS (u : Nat) | SL | SR | SG (sid : Nat) | UN (sid : Nat)
  | EX (sid : Nat) (us : List Nat)

inductive WA | m (a : Action) | reg (sid : Nat) | unreg (k : Nat)

def wact (w : W) : WA → Option W
  | .m a => (act w.st a).map (fun s => { w with st := s })
  | .reg sid => (act w.st .uRegister).map (fun s => { st := s, sids := w.sids ++ [sid] })
  | .unreg k => (act w.st (.unsub k)).map (fun s => { st := s, sids := w.sids.eraseIdx k })

def sorted (l : List Nat) : List Nat := l.mergeSort (· ≤ ·)

def byLabel (w : W) : Lbl → List (List WA)
  | .PL ms => [[.m (.pLock ms)]]
  | .PP => [[.m .pPersist]]
  | .PS u => match w.st.phase with
    | .pubSending (m :: _) => if m = u then [[.m .pSend]] else []
    | _ => []
  | .SL => [[.m .uLock]]
  | .SR => [[.m .uReplay]]
  | .SG sid => [[.reg sid]]
  | .UN sid => match w.sids.idxOf? sid with
    | some k => [[.unreg k]]
    | none => []
  | .EX sid us => match w.sids.idxOf? sid with
    | some k => match w.st.regs[k]? with
      | some g => if sorted g == sorted us then [[]] else []
      | none => []
    | none => []

def csys : Conf.CSys W WA Lbl :=
  { act := wact, taus := fun _ => [.m .pUnlock, .m .pAbort], byLabel := byLabel }

def parseUs (s : String) : Option (List Nat) :=
  if s = "" then some [] else (s.splitOn "+").mapM String.toNat?

/-- first pass: attach to every PL the batch announced by the PS tokens that follow it -/
def parse (toks : List String) : Option (List Lbl) := do
  let arr := toks.toArray
  let mut out : List Lbl := []
  for i in [0:arr.size] do
    let t := arr[i]!
    if t == "PL" then
      let mut batch : List Nat := []
      let mut j := i + 1
      let mut stop := false
      while j < arr.size && !stop do
        let u := arr[j]!
        if u.startsWith "PS" then
          batch := batch ++ [← (u.drop 2).toNat?]
        else if u != "PP" && !u.startsWith "EX" then
          -- (an EX token is put in by the harness where it reached its goals point; that can fall between the hook
          --  events of a Publish call of a subscription that is not part of the goals – a consumer's nested Publish)
          stop := true
        j := j + 1
      out := out ++ [.PL batch]
    else if t == "PP" then out := out ++ [.PP]
    else if t == "SL" then out := out ++ [.SL]
    else if t == "SR" then out := out ++ [.SR]
    else if t.startsWith "PS" then out := out ++ [.PS (← (t.drop 2).toNat?)]
    else if t.startsWith "SG" then out := out ++ [.SG (← (t.drop 2).toNat?)]
    else if t.startsWith "UN" then out := out ++ [.UN (← (t.drop 2).toNat?)]
    else if t.startsWith "EX" then
      match (t.drop 2).toString.splitOn ":" with
      | [sid, us] => out := out ++ [.EX (← sid.toNat?) (← parseUs us)]
      | _ => none
    else none
  return out

def checkTopic (toks : List String) : String :=
  match parse toks with
  | none => "bad-op"
  | some tr =>
    let r := Conf.runTrace csys 100 { st := init, sids := [] } tr
    match r.rejectedAt with
    | some i => if r.exhausted then "ok" else s!"reject@{i}"   -- a cut-off state set proves nothing
    | none => "ok"

/-! regression (sweep 4, C04 thorough seed 21): the goals point of the harness fell between `publish.persisted` and
    `publish.sent` of a consumer's nested Publish -/
#guard checkTopic ["SL", "SR", "SG0", "PL", "PP", "EX0:", "PS3", "UN0"] == "ok"
#guard checkTopic ["SL", "SR", "SG0", "PL", "PP", "PS3", "EX0:3", "UN0"] == "ok"
#guard checkTopic ["SL", "SR", "SG0", "PL", "PP", "PS3", "EX0:", "UN0"] != "ok"

end Wm.GcTopicConf
