/-
  C08 – the context code of `handler.addHandlerContext` BEFORE fix 5846d09, kept as a witness model:
      if h.name != "" { ctx = context.WithValue(ctx, handlerNameKey, h.name) }   … (five times)
  An empty field was skipped instead of written, so a value left on the incoming context by an upstream handler
  showed through.  `Props/C08.lean` proves `Old.stale_context_shows_through` (the defect, on a concrete input – the same
  input is in corpus/C08 and in the harness's stale cases) and that the current model does not have it.
  The generated tie (Props/C08Tie.lean) fails to prove if the source goes back to this shape.
-/
import WmModel.Route
namespace Wm.Route.Old

/-- `if v != "" { ctx = context.WithValue(ctx, k, v) }` -/
def setIf (c : Ctx) (k : Key) (v : String) : Ctx := if v ≠ "" then (k, v) :: c else c

def addHandlerContext (h : HCfg) (c : Ctx) : Ctx :=
  setIf (setIf (setIf (setIf (setIf c .handlerName h.name) .publisherName h.pubName)
    .subscriberName h.subName) .subscribeTopic h.subTopic) .publishTopic h.pubTopic

/-- what the handler function saw (the five accessors) before the fix -/
def inCtx (h : HCfg) (d : Delivery) : Ctx5 := ctx5 (addHandlerContext h d.ctx)

end Wm.Route.Old
