/-
  Conformance instance for M_sub (GcSub.lean): recorded per-subscription event streams of the real
  GoChannel are checked for inclusion in the model by subset construction (Conf.lean).
  Tokens (written by harness/gc):  L send.locked · B send.before_chan · W send.wait_settle ·
  R consumer received · A<k>/N<k> consumer acks/nacks its k-th received copy (logged before the call) ·
  X ctx cancel (logged before) · G Pub/Sub Close called (logged before) · C sub.close.before_lock ·
  K sub.close.locked · Z consumer saw the output channel closed.
-/
import WmModel.GcSub
import WmModel.Conf
namespace Wm.GcConf
open Wm.GcSub
open Wm.Ack (Sent)

structure W where
  st  : St
  rcv : List Nat        -- copies in the order the consumer received them
  deriving BEq, Hashable

inductive WA
  | m (a : Action)
  | noteRecv            -- cap = 0: the consumer logs a receipt the rendezvous already performed

inductive Lbl
  | L | B | Wt | R | A (k : Nat) | N (k : Nat) | X | G | C | K | Z
  deriving Repr

def firstUnnoted (w : W) : Option Nat :=
  (List.range w.st.copies.length).find? (fun c =>
    (match w.st.copies[c]? with | some cp => cp.received | none => false) && !w.rcv.contains c)

def wact (w : W) : WA → Option W
  | .m .recv =>
    match w.st.buf with
    | c :: _ => (act w.st .recv).map (fun s => { st := s, rcv := w.rcv ++ [c] })
    | [] => none
  | .m a => (act w.st a).map (fun s => { w with st := s })
  | .noteRecv =>
    if w.st.cap = 0 then (firstUnnoted w).map (fun c => { w with rcv := w.rcv ++ [c] }) else none

def taus (_ : W) : List WA :=
  [.m .sCheck, .m .sSend, .m .sSendClosing, .m .sObsAck, .m .sObsNack, .m .sObsClosing, .m .tdStart, .m .tdClose]

def isWait : Holder → Bool
  | .sender _ .waitSettle _ => true
  | _ => false

def byLabel (w : W) : Lbl → List (List WA)
  | .L => [[.m .spawn, .m (.sLock w.st.waiting.length)]]
  | .B => [[.m .sTop]]
  | .Wt => if isWait w.st.holder then [[]] else []
  | .R => if w.st.cap = 0 then [[.noteRecv]] else [[.m .recv]]
  | .A k => match w.rcv[k]? with | some c => [[.m (.settle c .ack)]] | none => []
  | .N k => match w.rcv[k]? with | some c => [[.m (.settle c .nack)]] | none => []
  | .X => [[.m .cancel]]
  | .G => [[.m .gClose]]
  | .C => if w.st.closing then [[]] else []
  | .K => [[.m .tdLock]]
  | .Z => if w.st.chanClosed && w.st.buf.isEmpty then [[]] else []

def csys : Conf.CSys W WA Lbl := { act := wact, taus := taus, byLabel := byLabel }

def parseTok (t : String) : Option Lbl :=
  match t.toList with
  | ['L'] => some .L | ['B'] => some .B | ['W'] => some .Wt | ['R'] => some .R
  | ['X'] => some .X | ['G'] => some .G | ['C'] => some .C | ['K'] => some .K | ['Z'] => some .Z
  | 'A' :: ds => (String.ofList ds).toNat?.map .A
  | 'N' :: ds => (String.ofList ds).toNat?.map .N
  | _ => none

/-- `sub <cap> <tok>*` → `ok` | `reject@<i>` | `bad-op`; also reports whether some final state has panicked -/
def checkSub (cap : Nat) (toks : List String) : String :=
  match toks.mapM parseTok with
  | none => "bad-op"
  | some tr =>
    let r := Conf.runTrace csys 2000 { st := init cap, rcv := [] } tr
    match r.rejectedAt with
    | some i => if r.exhausted then "ok" else s!"reject@{i}"
    | none => "ok"

def statsSub (cap : Nat) (toks : List String) : Nat × Nat :=
  match toks.mapM parseTok with
  | none => (0, 0)
  | some tr =>
    let r := Conf.runTrace csys 2000 { st := init cap, rcv := [] } tr
    (r.maxStates, r.trans)

end Wm.GcConf
