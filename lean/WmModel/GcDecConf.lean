/-
  Conformance instance for M_dec (GcDec.lean): the recorded stream of one `messageTransformSubscriberDecorator` wrapped around a
  scripted inner subscriber (harness/cmd/c07/dec.go, "dec <tok>*") must be a trace of the model.

  Visible events, each logged by the goroutine that performs it:
    ns,S<n>        decorator.Subscribe is called                     is,S<n>,<k>|err  the inner Subscribe answers (channel number k / refuses)
    sr,S<n>,ok|err decorator.Subscribe has returned                  nc,C<n>          decorator.Close is called
    ic,C<n>        the inner Close is through with its pushers and   cr,C<n>          decorator.Close has returned
                   is about to close every channel it handed out
    ik,<k>         the inner subscriber closes channel k (cancel)    rx,<k>           the pump of channel k hands a message to `transform`
    hb,<k>         the pump is in front of its select (hook)         dv,<k>           the consumer took a message from `out` of channel k
    oc,<k>         the consumer saw `out` of channel k closed
  Everything else (the lock/Add/unlock/go statements of Subscribe, Once/lock/Wait/unlock of Close, the pump seeing its channel
  closed, dropping a message once `closing` is signalled, `close(out)`, `Done()`) is internal: the checker closes the state set under
  those steps, so the log order of events of different goroutines can never cause a rejection (DESIGN.md 3.2).  One reordering needs
  help: the consumer logs `dv` after it received, by which time the pump may already have logged the next `rx`; a delivery may
  therefore be taken implicitly by `rx`/`oc` and is then owed a later `dv` (`owed`).  Core-only; used by the correspondence check only.
-/
import WmModel.GcDec
import WmModel.Conf
namespace Wm.GcDecConf
open Wm.GcDec

structure W where
  st    : St
  names : List (String × Nat)   -- API call name → thread index
  owed  : List Nat              -- channels whose consumer has received a message it has not reported yet
  deriving BEq, Hashable

inductive WA
  | m (a : Action)
  | bindName (n : String)
  | owe (k : Nat)
  | implicit (i k : Nat)      -- the consumer of channel `k` has taken the message pump `i` offers; its report is still to come
  | paid (k : Nat)
  | chk (f : W → Bool)

def wact (w : W) : WA → Option W
  | .m a => (act w.st a).map (fun s => { w with st := s })
  | .bindName n => some { w with names := (n, w.st.ths.length - 1) :: w.names }
  | .owe k => some { w with owed := k :: w.owed }
  | .implicit i k => (act w.st (.deliver i)).map (fun s => { w with st := s, owed := k :: w.owed })
  | .paid k => if w.owed.contains k then some { w with owed := w.owed.erase k } else none
  | .chk f => if f w then some w else none

inductive Lbl
  | ns (n : String) | is (n : String) (k : Option Nat) | sr (n : String) (ok : Bool)
  | nc (n : String) | ic (n : String) | cr (n : String)
  | ik (k : Nat) | rx (k : Nat) | hb (k : Nat) | dv (k : Nat) | oc (k : Nat)

def subPc (w : W) (i : Nat) : Option (Nat × SPc) := match w.st.ths[i]? with | some (.sub k pc) => some (k, pc) | _ => none
def closerPc (w : W) (i : Nat) : Option CPc := match w.st.ths[i]? with | some (.closer pc) => some pc | _ => none

/-- index and pc of the pump of channel `k` -/
def pumpOf (w : W) (k : Nat) : Option (Nat × PPc) :=
  (List.range w.st.ths.length).findSome? (fun i => match (w.st.ths[i]? : Option Th) with
    | some (Th.pump k' pc _ _ _) => if k' == k then some (i, pc) else none
    | _ => none)

/-- internal steps: every thread step except the two calls into the inner subscriber and a pump taking a message -/
def taus (w : W) : List WA := Id.run do
  let mut out : List WA := []
  for i in [0:w.st.ths.length] do
    match w.st.ths[i]? with
    | some (.sub _ pc) => if pc != .inner then out := .m (.step i) :: out
    | some (.closer pc) => if pc != .inner then out := .m (.step i) :: out
    | some (.pump k pc _ _ _) =>
      -- `recv` is internal only when it finds the channel closed and empty (a message is taken by `rx`)
      if pc != .recv || (match w.st.ins[k]? with | some c => c.pending == 0 && !c.isOpen | none => false) then
        out := .m (.step i) :: out
      -- the consumer reports a receipt after the fact: until then the delivery is assumed (at most one per channel at a time)
      if pc == .send && !w.owed.contains k then out := .implicit i k :: out
    | none => pure ()
  return out

def byLabel (w : W) : Lbl → List (List WA)
  | .ns n => [[.m .newSub, .bindName n]]
  | .nc n => [[.m .newClose, .bindName n]]
  | .is n k => match w.names.lookup n with
    | some i => match k with
      | some k => [[.m (.step i), .chk (fun w => subPc w i == some (k, .lock))]]
      | none => [[.m (.step i), .chk (fun w => (subPc w i).map (·.2) == some .retErr)], [.m (.subFail i)]]
    | none => []
  | .sr n ok => match w.names.lookup n with
    | some i => [[.chk (fun w => (subPc w i).map (·.2) == some (if ok then .retOk else .retErr))]]
    | none => []
  | .ic n => match w.names.lookup n with
    | some i => [[.m (.step i), .chk (fun w => closerPc w i == some .once)]]
    | none => []
  | .cr n => match w.names.lookup n with
    | some i => [[.chk (fun w => closerPc w i == some .ret)]]
    | none => []
  | .ik k => [[.m (.inClose k)]]
  | .rx k => match pumpOf w k with
    | some (i, .recv) => [[.m (.push k), .m (.step i), .chk (fun w => (pumpOf w k).map (·.2) == some .send)]]
    | some (i, .send) => [[.m (.deliver i), .owe k, .m (.push k), .m (.step i), .chk (fun w => (pumpOf w k).map (·.2) == some .send)]]
    | _ => []
  | .hb k => [[.chk (fun w => (pumpOf w k).map (·.2) == some .send)]]
  | .dv k => match pumpOf w k with
    | some (i, .send) => [[.m (.deliver i)], [.paid k]]
    | _ => [[.paid k]]
  | .oc k => match pumpOf w k with
    -- the consumer can see `out` closed before it has reported its last receipt
    | some (i, .send) => [[.m (.deliver i), .owe k, .m (.step i), .m (.step i), .chk (fun w => w.st.outClosed.contains k)]]
    | _ => [[.chk (fun w => w.st.outClosed.contains k)]]

def csys : Conf.CSys W WA Lbl := { act := wact, taus := taus, byLabel := byLabel }

def okOf (s : String) : Option Bool := if s = "ok" then some true else if s = "err" then some false else none

def parseTok (t : String) : Option Lbl :=
  match t.splitOn "," with
  | ["ns", n] => some (.ns n)
  | ["is", n, k] => if k = "err" then some (.is n none) else do pure (.is n (some (← k.toNat?)))
  | ["sr", n, r] => do pure (.sr n (← okOf r))
  | ["nc", n] => some (.nc n) | ["ic", n] => some (.ic n) | ["cr", n] => some (.cr n)
  | ["ik", k] => do pure (.ik (← k.toNat?))
  | ["rx", k] => do pure (.rx (← k.toNat?))
  | ["hb", k] => do pure (.hb (← k.toNat?))
  | ["dv", k] => do pure (.dv (← k.toNat?))
  | ["oc", k] => do pure (.oc (← k.toNat?))
  | _ => none

/-- `dec <tok>*` → `ok` | `reject@<i>` | `panic` (a reachable model state with `panicked`) | `bad-op` -/
def checkDec (toks : List String) : String :=
  match toks.mapM parseTok with
  | none => "bad-op"
  | some tr =>
    let r := Conf.runTrace csys 200000 { st := init, names := [], owed := [] } tr
    match r.rejectedAt with
    | some i => if r.exhausted then "ok" else s!"reject@{i}"   -- a cut-off state set proves nothing
    | none =>
      if r.final.any (·.st.panicked) then "panic"
      -- every consumer reports each receipt before the trace ends: a delivery that was only assumed must have been reported
      else if r.final.all (fun w => !w.owed.isEmpty) then "reject@end(a message went missing between the pump and the consumer)"
      else "ok"

-- regressions: Subscribe, one message delivered, Close; a delivery reported after the next receipt; a refused Subscribe after Close
#guard checkDec ["ns,S0", "is,S0,0", "sr,S0,ok", "rx,0", "hb,0", "dv,0", "nc,C0", "ic,C0", "oc,0", "cr,C0"] == "ok"
#guard checkDec ["ns,S0", "is,S0,0", "sr,S0,ok", "rx,0", "hb,0", "rx,0", "dv,0", "hb,0", "dv,0", "ik,0", "oc,0"] == "ok"
#guard checkDec ["ns,S0", "is,S0,0", "sr,S0,ok", "nc,C0", "ic,C0", "cr,C0", "ns,S1", "is,S1,err", "sr,S1,err"] == "ok"
-- a Close that returns while a pump has not closed `out` (its channel is still open) is not a behaviour of the model
#guard checkDec ["ns,S0", "is,S0,0", "sr,S0,ok", "nc,C0", "cr,C0"] == "reject@4"
-- the consumer took the last message before Close returned and reports it afterwards (false alarm of the first multi-seed run)
#guard checkDec ["ns,S0", "is,S0,0", "sr,S0,ok", "rx,0", "hb,0", "nc,C0", "ic,C0", "cr,C0", "dv,0", "oc,0"] == "ok"
-- a message dropped before the inner subscriber was closed (the next receipt can only be explained by a delivery nobody reports)
#guard checkDec ["ns,S0", "is,S0,0", "sr,S0,ok", "rx,0", "hb,0", "rx,0", "hb,0", "nc,C0", "ic,C0", "cr,C0", "oc,0"] != "ok"
-- a message taken from `out` that nobody handed to the pump
#guard checkDec ["ns,S0", "is,S0,0", "sr,S0,ok", "dv,0"] == "reject@3"

end Wm.GcDecConf
