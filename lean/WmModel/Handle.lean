/-
  `handler.handleMessage` / `handler.publishProducedMessages` (message/router.go) as an effect-list
  function.  Core-only, executable.

  One call of `handleMessage` for one consumed message is described by
    * the configuration of the handler (`Cfg`: which publisher it has, its publish topic),
    * what the handler chain does with the message (`Outcome`: settles the message itself or not, then
      returns outputs with/without an error, or panics),
    * what the publisher does with a `Publish` call (`PubOutcome`),
  and yields the ordered list of effects.  Order is part of the result ("Ack only after Publish returned").
  The settlement the subscriber finally sees is `Wm.Ack` (first-wins) run over the settle effects.

  The control flow below is tied to the Go source of every run by `Props/C02Tie.lean`
  (`handle_skeleton_eq_model`) over the body printed by `harness/cmd/extract/c02.go`.
-/
import WmModel.Ack
namespace Wm.Handle

/-- which publisher the handler has:
    `withPub`  – `AddHandler` with a real publisher;
    `disabled` – `AddNoPublisherHandler`: `disabledPublisher{}` whose `Publish` always returns
                 `ErrOutputInNoPublisherHandler` (topic `""`);
    `nilPub`   – `AddHandler` with a nil publisher: the explicit `h.publisher == nil` branch. -/
inductive Kind | withPub | disabled | nilPub
  deriving DecidableEq, Repr

structure Cfg where
  kind  : Kind
  topic : String
  deriving DecidableEq, Repr

inductive Settle | ack | nack
  deriving DecidableEq, Repr

/-- what a panicking handler passes to `panic`: a plain value, an `error`, or `nil`
    (`panic(nil)` is a `*runtime.PanicNilError` since go1.21 and is recovered like the others). -/
inductive PanicVal | value | error | nil
  deriving DecidableEq, Repr

/-- how the handler chain ends: `returns outs err` (`err = true`: a non-nil error) or a panic -/
inductive Result (α : Type) where
  | returns (outs : List α) (err : Bool)
  | panics (v : PanicVal)
  deriving DecidableEq, Repr

/-- behaviour of the handler chain on one message; `selfSettle` = it calls `msg.Ack()`/`msg.Nack()`
    itself before it ends -/
structure Outcome (α : Type) where
  selfSettle : Option Settle
  result     : Result α
  deriving DecidableEq, Repr

/-- behaviour of the publisher's `Publish` -/
inductive PubOutcome | accept | error | panic
  deriving DecidableEq, Repr

inductive Effect (α : Type) where
  | handlerCalled                                  -- the chain is invoked with the message
  | selfAck | selfNack                             -- the chain settles the message itself
  | addCtx (outs : List α)                         -- h.addHandlerContext(producedMessages...)
  | publishCall (topic : String) (outs : List α)   -- h.publisher.Publish(h.publishTopic, producedMessages...)
  | publishRet (r : PubOutcome)                    -- … and how that call ended
  | recovered                                      -- the deferred recover() caught a panic
  | routerAck | routerNack                         -- msg.Ack() / msg.Nack() issued by handleMessage
  | done                                           -- runningHandlersWg.Done()
  deriving DecidableEq, Repr

def Effect.isRouterSettle {α} : Effect α → Bool
  | .routerAck | .routerNack => true
  | _ => false

def Effect.isPublishCall {α} : Effect α → Bool
  | .publishCall _ _ => true
  | _ => false

def Effect.isPublishRet {α} : Effect α → Bool
  | .publishRet _ => true
  | _ => false

variable {α : Type}

def selfEff : Option Settle → List (Effect α)
  | none       => []
  | some .ack  => [.selfAck]
  | some .nack => [.selfNack]

/-- what `Publish` of the handler's publisher does: `disabledPublisher` never accepts -/
def effPub (c : Cfg) (p : PubOutcome) : PubOutcome :=
  match c.kind with
  | .disabled => .error
  | _         => p

/-- the topic `Publish` is called with: `AddNoPublisherHandler` registers the empty topic -/
def pubTopic (c : Cfg) : String :=
  match c.kind with
  | .disabled => ""
  | _         => c.topic

/-- `publishProducedMessages`: effects and how it ends (`accept` = returned nil, `error` = returned an
    error, `panic` = the publisher panicked) -/
def publishProduced (c : Cfg) (outs : List α) (p : PubOutcome) : List (Effect α) × PubOutcome :=
  match outs with
  | [] => ([], .accept)                                     -- len(producedMessages) == 0: no call
  | _ :: _ =>
    match c.kind with
    | .nilPub => ([], .error)                               -- ErrOutputInNoPublisherHandler, no call
    | _       => ([.publishCall (pubTopic c) outs, .publishRet (effPub c p)], effPub c p)

/-- what `handleMessage` does after `publishProducedMessages` ended -/
def settleTail : PubOutcome → List (Effect α)
  | .accept => [.routerAck, .done]
  | .error  => [.routerNack, .done]
  | .panic  => [.recovered, .routerNack, .done]

/-- `handleMessage` for one message -/
def handle (c : Cfg) (o : Outcome α) (p : PubOutcome) : List (Effect α) :=
  .handlerCalled :: (selfEff o.selfSettle ++
    match o.result with
    | .panics _          => [.recovered, .routerNack, .done]
    | .returns _ true    => [.routerNack, .done]
    | .returns outs false =>
      .addCtx outs :: ((publishProduced c outs p).1 ++ settleTail (publishProduced c outs p).2))

/-- a publisher whose verdict depends on the messages of the call (`f`): `handleMessage` makes (at most) one call,
    with all the outputs, so the verdict that matters is `f outs` -/
def handleWith (c : Cfg) (o : Outcome α) (f : List α → PubOutcome) : List (Effect α) :=
  handle c o (match o.result with
    | .returns outs _ => f outs
    | .panics _ => .accept)

/-- a settlement the handler makes from a helper goroutine, concurrently with its return: its settle call lands
    somewhere among the effects of `handleMessage` – after the first `pos` of them -/
def handleRace (c : Cfg) (r : Result α) (p : PubOutcome) (s : Settle) (pos : Nat) : List (Effect α) :=
  (handle c ⟨none, r⟩ p).take pos ++ selfEff (some s) ++ (handle c ⟨none, r⟩ p).drop pos

/-! ### settlement seen by the subscriber: `Wm.Ack` over the settle effects -/

def settleOp : Effect α → Option Ack.Op
  | .selfAck         => some .ack
  | .routerAck       => some .ack
  | .selfNack        => some .nack
  | .routerNack      => some .nack
  | .handlerCalled   => none
  | .addCtx _        => none
  | .publishCall _ _ => none
  | .publishRet _    => none
  | .recovered       => none
  | .done            => none

def settleOps (es : List (Effect α)) : List Ack.Op := es.filterMap settleOp

/-- settlement state of a message built the `k` way after the effects `es` -/
def stateAfter (k : Ack.Kind) (es : List (Effect α)) : Ack.St :=
  (Ack.run (Ack.initSt k) (settleOps es)).1

def sentAfter (k : Ack.Kind) (es : List (Effect α)) : Ack.Sent := (stateAfter k es).sent

def Settle.toSent : Settle → Ack.Sent
  | .ack => .ack | .nack => .nack

def selfSent : Option Settle → Ack.Sent
  | none => .none
  | some s => s.toSent

/-! ### middleware prefix used by the harness (a chain outcome is computed from the handler's outcome) -/

/-- `pass` calls the next handler and returns its result unchanged; `addOut x` appends one more output
    (also next to an error); `rebuild` copies the outputs into a fresh slice (in Go: an empty but non-nil slice
    when there are none – the same list here); a panic of the inner handler passes through all of them. -/
inductive Mw (α : Type) | pass | addOut (x : α) | rebuild
  deriving DecidableEq, Repr

def applyMw : Mw α → Outcome α → Outcome α
  | .pass, o => o
  | .addOut x, ⟨s, .returns outs e⟩ => ⟨s, .returns (outs ++ [x]) e⟩
  | .addOut _, o => o
  | .rebuild, o => o

/-- middlewares in registration order: the first is outermost -/
def chain (mws : List (Mw α)) (o : Outcome α) : Outcome α := mws.foldr applyMw o

end Wm.Handle
