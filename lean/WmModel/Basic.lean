/-
  Shared small utilities for the executable models and line-protocol drivers (core-only).
-/
namespace Wm

def hexDigit (n : Nat) : Char :=
  if n < 10 then Char.ofNat (48 + n) else Char.ofNat (87 + n)

def hexVal (c : Char) : Option Nat :=
  if '0' ≤ c ∧ c ≤ '9' then some (c.toNat - 48)
  else if 'a' ≤ c ∧ c ≤ 'f' then some (c.toNat - 87)
  else none

/-- bytes → lowercase hex; the empty list is written `-` so that it stays one token -/
def hexEnc (bs : List UInt8) : String :=
  if bs.isEmpty then "-" else
  String.ofList (bs.foldr (fun b acc => hexDigit (b.toNat / 16) :: hexDigit (b.toNat % 16) :: acc) [])

def hexDecAux : List Char → Option (List UInt8)
  | [] => some []
  | a :: b :: rest => do
      let x ← hexVal a
      let y ← hexVal b
      let r ← hexDecAux rest
      pure (UInt8.ofNat (16 * x + y) :: r)
  | _ => none

def hexDec (s : String) : Option (List UInt8) :=
  if s = "-" then some [] else hexDecAux s.toList

/-- generic line loop: one request line in, one response line out -/
partial def lineLoop (h : IO.FS.Stream) (out : IO.FS.Stream) (f : String → String) : IO Unit := do
  let line ← h.getLine
  if line.isEmpty then
    out.flush
    return ()
  let l := String.ofList (line.toList.filter (fun c => c != '\n' && c != '\r'))
  out.putStrLn (f l)
  lineLoop h out f

def driverMain (f : String → String) : IO Unit := do
  lineLoop (← IO.getStdin) (← IO.getStdout) f

end Wm
