/-
  Trace conformance by subset construction (DESIGN.md 3.2).  The recorded trace of the implementation
  is a list of visible labels; the checker keeps the *set* of model states reachable after the prefix
  (closing under internal actions) and rejects only when that set becomes empty – so a rejection can
  only mean "the model has no run with this visible behaviour", never an unlucky log order.
  Used by the correspondence check only; no theorem depends on it.  Core-only.
-/
import Std.Data.HashSet
namespace Wm.Conf

structure CSys (σ α ℓ : Type) where
  act     : σ → α → Option σ
  taus    : σ → List α                -- internal actions (closed under before every visible label)
  byLabel : σ → ℓ → List (List α)     -- action sequences that realise a visible label in this state

variable {σ α ℓ : Type} [BEq σ] [Hashable σ]

def execSeq (C : CSys σ α ℓ) (s : σ) : List α → Option σ
  | [] => some s
  | a :: rest => match C.act s a with
    | some s' => execSeq C s' rest
    | none => none

/-- τ-closure (worklist, bounded by `fuel` expansions); returns states and the number of transitions taken -/
def closure (C : CSys σ α ℓ) (fuel : Nat) (start : List σ) : List σ × Nat × Bool := Id.run do
  let mut seen : Std.HashSet σ := {}
  let mut out : List σ := []
  let mut work : List σ := []
  let mut trans := 0
  for s in start do
    if !seen.contains s then
      seen := seen.insert s
      out := s :: out
      work := s :: work
  let mut n := fuel
  while !work.isEmpty && n > 0 do
    n := n - 1
    match work with
    | [] => pure ()
    | s :: rest =>
      work := rest
      for a in C.taus s do
        if let some s' := C.act s a then
          trans := trans + 1
          if !seen.contains s' then
            seen := seen.insert s'
            out := s' :: out
            work := s' :: work
  -- `true`: the fuel ran out before the worklist was empty – the set is incomplete and nothing may be concluded from it
  return (out, trans, !work.isEmpty)

def stepLabel (C : CSys σ α ℓ) (fuel : Nat) (ss : List σ) (l : ℓ) : List σ × Nat × Bool := Id.run do
  let (cl, t0, ex) := closure C fuel ss
  let mut seen : Std.HashSet σ := {}
  let mut out : List σ := []
  let mut trans := t0
  for s in cl do
    for seq in C.byLabel s l do
      if let some s' := execSeq C s seq then
        trans := trans + 1
        if !seen.contains s' then
          seen := seen.insert s'
          out := s' :: out
  return (out, trans, ex)

structure Result (σ : Type) where
  rejectedAt : Option Nat     -- index of the first label no model state can perform
  final      : List σ          -- τ-closed set of states after the whole trace
  maxStates  : Nat
  trans      : Nat
  exhausted  : Bool := false   -- some τ-closure was cut off by the fuel bound: a rejection is then inconclusive

def runTrace (C : CSys σ α ℓ) (fuel : Nat) (init : σ) (trace : List ℓ) : Result σ := Id.run do
  let mut ss : List σ := [init]
  let mut mx := 1
  let mut tr := 0
  let mut i := 0
  let mut exh := false
  for l in trace do
    let (ss', t, ex) := stepLabel C fuel ss l
    tr := tr + t
    exh := exh || ex
    if ss'.isEmpty then
      return { rejectedAt := some i, final := ss, maxStates := mx, trans := tr, exhausted := exh }
    ss := ss'
    if ss.length > mx then mx := ss.length
    i := i + 1
  let (cl, t, ex) := closure C fuel ss
  return { rejectedAt := none, final := cl, maxStates := max mx cl.length, trans := tr + t, exhausted := exh || ex }

end Wm.Conf
