/-
  Deep embedding of the *shape* of the three loops C09 is about, as printed by the extractor
  (`harness/cmd/extract/c09.go`) from message/router.go of this run:
    - `handler.run`:               the middleware wrap loop (direction, filter condition, body)
    - `decorateHandlerPublisher`:  the publisher-decorator loop
    - `decorateHandlerSubscriber`: the subscriber-decorator loop (+ whether the context decorator is applied before it)
  with an interpreter.  The tie theorems (Props/C09Tie.lean) state that interpreting what the source says now
  equals the hand-written model (`Wm.Chain.wrap`, `decoratePublisher`, `decorateSubscriber`) for ALL lists.
-/
import WmModel.Chain
namespace Wm.ChainGo
open Wm.Chain

/-- `for i := len(xs)-1; i >= 0; i--`  |  `for i := 0; i < len(xs); i++` / `for _, x := range xs`  |  anything else -/
inductive Dir
  | down | up | other (src : String)
  deriving Repr

/-- filter condition over the current element `cur` and the handler -/
inductive FCond
  | tt                         -- no `if` around the body
  | isRouterLevel              -- cur.IsRouterLevel
  | nameEq                     -- cur.HandlerName == h.name
  | nameNe                     -- cur.HandlerName != h.name
  | not (c : FCond)
  | or (a b : FCond)
  | and (a b : FCond)
  | unknown (src : String)
  deriving Repr

inductive Body
  | wrapAcc                    -- acc = cur(acc)  /  acc = cur.Handler(acc)  /  acc, err = cur(acc)
  | unknown (src : String)
  deriving Repr

structure Loop where
  dir    : Dir
  filter : FCond
  body   : Body
  deriving Repr

def FCond.known : FCond → Bool
  | .unknown _ => false
  | .not c => c.known
  | .or a b => a.known && b.known
  | .and a b => a.known && b.known
  | _ => true

def evalF (name : String) (m : Mw α) : FCond → Bool
  | .tt => true
  | .isRouterLevel => m.isRouterLevel
  | .nameEq => m.handlerName == name
  | .nameNe => m.handlerName != name
  | .not c => !evalF name m c
  | .or a b => evalF name m a || evalF name m b
  | .and a b => evalF name m a && evalF name m b
  | .unknown _ => false

/-- index loop counting down, `i` indices still to visit, with an element filter -/
def idxDown (p : β → Bool) (app : β → α → α) (xs : List β) : Nat → α → α
  | 0, acc => acc
  | i + 1, acc =>
    match xs[i]? with
    | some x => idxDown p app xs i (if p x then app x acc else acc)
    | none => idxDown p app xs i acc

/-- loop counting up / range loop -/
def idxUp (p : β → Bool) (app : β → α → α) : List β → α → α
  | [], acc => acc
  | x :: rest, acc => idxUp p app rest (if p x then app x acc else acc)

def runLoop (l : Loop) (p : FCond → Option (β → Bool)) (app : β → α → α) (xs : List β) (acc : α) : Option α :=
  match l.body with
  | .unknown _ => none
  | .wrapAcc =>
    match p l.filter with
    | none => none
    | some f =>
      match l.dir with
      | .down => some (idxDown f app xs xs.length acc)
      | .up => some (idxUp f app xs acc)
      | .other _ => none

/-- the middleware loop of `handler.run` -/
def runMwLoop (l : Loop) (name : String) (mws : List (Mw α)) (h : α) : Option α :=
  runLoop l (fun c => if c.known then some (fun m => evalF name m c) else none) (fun m a => m.fn a) mws h

/-- a decorator loop: no filter is allowed -/
def runDecLoop (l : Loop) (decs : List (α → α)) (x : α) : Option α :=
  runLoop l (fun c => match c with | .tt => some (fun _ => true) | _ => none) (fun f a => f a) decs x

/-- `decorateHandlerPublisher` as a whole: `nilGuard` = the function begins with `if h.publisher == nil { return nil }`;
    without the guard the loop runs on the nil publisher too (the decorators are handed `nil`: here `onNil`, whatever a
    decorator makes of it) -/
def runPubDecorate (nilGuard : Bool) (l : Loop) (decs : List (α → α)) (onNil : Option α) : Option α → Option (Option α)
  | some pub => (runDecLoop l decs pub).map some
  | none => if nilGuard then some none else match onNil with
    | some x => (runDecLoop l decs x).map some
    | none => none

end Wm.ChainGo
