/-
  Deep embedding of the bodies of `(*Message).Equals` and `(*Message).Copy` as printed by the extractor
  (`harness/cmd/extract/c16.go`, go/ast only) from the Go source of *this* run, with interpreters.
  The tie theorems of `Props/C16Tie.lean` state that interpreting what the source says now equals the
  hand-written model (`Value.equals`, `Heap.copy`) on every input.  A statement the printer does not
  recognise becomes `unknown`, the interpreter gets stuck on it, and the tie theorem no longer checks.
-/
import WmModel.Value
import WmModel.ValueCodec
namespace Wm.Value.Go

/-- which of the two messages: the receiver `m` or the argument `toCompare` -/
inductive Side | recv | other
  deriving DecidableEq, Repr

/-- string-valued expressions -/
inductive SExpr
  | uuid (s : Side)                 -- m.UUID / toCompare.UUID
  | key | val                       -- the loop variables of `for key, value := range …`
  | otherVal                        -- the first result of the two-valued map lookup
  | index (s : Side) (k : SExpr)    -- <s>.Metadata[k]  (one-valued: the zero value "" when absent)
  | getCall (s : Side) (k : SExpr)  -- <s>.Metadata.Get(k)
  deriving Repr

inductive Cond
  | strNe (a b : SExpr)             -- a != b
  | strEq (a b : SExpr)             -- a == b
  | lenNe (a b : Side)              -- len(a.Metadata) != len(b.Metadata)
  | lenEq (a b : Side)
  | ok                              -- the second result of the two-valued map lookup
  | not (c : Cond)
  | or (a b : Cond)
  | and (a b : Cond)
  deriving Repr

/-- statements of the loop body -/
inductive LStmt
  | lookup (s : Side) (k : SExpr)   -- otherValue, ok := <s>.Metadata[k]
  | ifRet (c : Cond) (r : Bool)     -- if c { return r }
  | unknown (src : String)
  deriving Repr

inductive Stmt
  | ifRet (c : Cond) (r : Bool)                 -- if c { return r }
  | range (s : Side) (body : List LStmt)        -- for key, value := range <s>.Metadata { body }
  | retBytesEqual (a b : Side)                  -- return bytes.Equal(a.Payload, b.Payload)
  | ret (r : Bool)                              -- return r
  | unknown (src : String)
  deriving Repr

/-- loop-local variables -/
structure Loc where
  key : String := ""
  val : String := ""
  otherVal : String := ""
  ok : Bool := false
  deriving Repr

def pick (a b : Msg) : Side → Msg
  | .recv => a
  | .other => b

def evalS (a b : Msg) (l : Loc) : SExpr → String
  | .uuid s => (pick a b s).uuid
  | .key => l.key
  | .val => l.val
  | .otherVal => l.otherVal
  | .index s k => (lookup (pick a b s).md (evalS a b l k)).getD ""
  | .getCall s k => get (pick a b s).md (evalS a b l k)

def evalC (a b : Msg) (l : Loc) : Cond → Bool
  | .strNe x y => evalS a b l x != evalS a b l y
  | .strEq x y => evalS a b l x == evalS a b l y
  | .lenNe x y => (pick a b x).md.length != (pick a b y).md.length
  | .lenEq x y => (pick a b x).md.length == (pick a b y).md.length
  | .ok => l.ok
  | .not c => !evalC a b l c
  | .or x y => evalC a b l x || evalC a b l y
  | .and x y => evalC a b l x && evalC a b l y

inductive LR | cont (l : Loc) | ret (r : Bool) | stuck

def execL (a b : Msg) : List LStmt → Loc → LR
  | [], l => .cont l
  | .lookup s k :: rest, l =>
    match lookup (pick a b s).md (evalS a b l k) with
    | some v => execL a b rest { l with otherVal := v, ok := true }
    | none => execL a b rest { l with otherVal := "", ok := false }
  | .ifRet c r :: rest, l => if evalC a b l c then .ret r else execL a b rest l
  | .unknown _ :: _, _ => .stuck

/-- the loop: entries in list order (Go's order is unspecified; `equalsLoop_perm` shows it does not matter) -/
def execRange (a b : Msg) (body : List LStmt) : Meta → LR
  | [] => .cont {}
  | (k, v) :: rest =>
    match execL a b body { key := k, val := v } with
    | .cont _ => execRange a b body rest
    | .ret r => .ret r
    | .stuck => .stuck

/-- falling off the end, or meeting an unknown statement, is `none` -/
def exec (a b : Msg) : List Stmt → Option Bool
  | [] => none
  | .ifRet c r :: rest => if evalC a b {} c then some r else exec a b rest
  | .range s body :: rest =>
    match execRange a b body (pick a b s).md with
    | .cont _ => exec a b rest
    | .ret r => some r
    | .stuck => none
  | .retBytesEqual x y :: _ => some ((pick a b x).bytes == (pick a b y).bytes)
  | .ret r :: _ => some r
  | .unknown _ :: _ => none

/-! ### Copy -/

inductive LVar | key | val
  deriving DecidableEq, Repr

inductive CStmt
  | newFromRecv                     -- msg := NewMessage(m.UUID, m.Payload)
  | rangeSet (k v : LVar)           -- for k, v := range m.Metadata { msg.Metadata.Set(<k>, <v>) }
  | retNew                          -- return msg
  | unknown (src : String)
  deriving Repr

def sel (k v : String) : LVar → String
  | .key => k
  | .val => v

/-- `Set` through the new object `j`, entry by entry; `none` = a panic or a missing object -/
def setEach (h : Heap) (j : Nat) (x y : LVar) : Meta → Option Heap
  | [] => some h
  | (k, v) :: rest =>
    match h.setMeta j (sel k v x) (sel k v y) with
    | .ok h' => setEach h' j x y rest
    | _ => none

/-- state: the heap, the receiver `i`, the new object once it exists; result: heap and index of the returned object -/
def execCopy (i : Nat) : List CStmt → Heap → Option Nat → Option (Heap × Nat)
  | [], _, _ => none
  | .newFromRecv :: rest, h, _ =>
    match h.view i with
    | none => none
    | some m => execCopy i rest (h.alloc m.uuid m.payload) (some h.objs.length)
  | .rangeSet x y :: rest, h, some j =>
    match h.view i with
    | none => none
    | some m =>
      match setEach h j x y m.md with
      | none => none
      | some h' => execCopy i rest h' (some j)
  | .rangeSet _ _ :: _, _, none => none
  | .retNew :: _, h, some j => some (h, j)
  | .retNew :: _, _, none => none
  | .unknown _ :: _, _, _ => none

/-! ### the watermill-side glue around the library codecs, as data read off the source

  The extractor resolves constants (`ErrorMetadataKey` …) to their string values, so the key strings the Go code
  uses *now* are what the tie theorems of `Props/C16Tie.lean` compare with the model's. -/

/-- what a `Metadata.Set` of `MarshalReply` writes -/
inductive RVal
  | errText                 -- params.HandleErr.Error()
  | lit (s : String)        -- a string literal
  | unknown (src : String)
  deriving DecidableEq, Repr

inductive RCond
  | errNotNil               -- params.HandleErr != nil
  | unknown (src : String)
  deriving DecidableEq, Repr

/-- the metadata logic of `BackendPubsubJSONMarshaler` -/
structure ReplyGlue where
  cond : RCond
  thenSets : List (String × RVal)      -- `Metadata.Set` calls of the branch, in order, keys resolved
  elseSets : List (String × RVal)
  straySets : Nat                      -- `Metadata.Set` calls outside that branch
  readCondKey : String                 -- UnmarshalReply: `msg.Metadata.Get(<key>) == <lit>`
  readCondVal : String
  readErrKey : String                  -- … then `errors.New(msg.Metadata.Get(<key>))`
  encodes : String                     -- argument of json.Marshal, positional form
  decodes : String                     -- first argument of json.Unmarshal, positional form
  deriving DecidableEq, Repr

def applySets (err : Option String) : List (String × RVal) → Meta → Option Meta
  | [], m => some m
  | (k, .errText) :: rest, m =>
    match err with
    | some e => applySets err rest (set m k e)
    | none => none                     -- `nil.Error()` would panic
  | (k, .lit s) :: rest, m => applySets err rest (set m k s)
  | (_, .unknown _) :: _, _ => none

/-- the metadata `MarshalReply` leaves on the fresh message; `none` = something the printer did not recognise -/
def ReplyGlue.metaOf (g : ReplyGlue) (err : Option String) : Option Meta :=
  if g.straySets ≠ 0 then none else
  match g.cond with
  | .unknown _ => none
  | .errNotNil => applySets err (if err.isSome then g.thenSets else g.elseSets) []

def ReplyGlue.errOf (g : ReplyGlue) (md : Meta) : Option String :=
  if get md g.readCondKey = g.readCondVal then some (get md g.readErrKey) else none

/-- a CQRS marshaler's glue -/
structure CqrsGlue where
  setKey : String           -- Marshal: msg.Metadata.Set(<key>, …)
  setVal : String           -- … the value, positional form (`R.Name(A0)`)
  newMessage : String       -- arguments of NewMessage, positional form (`R.newUUID(), ENC`)
  getKey : String           -- NameFromMessage: msg.Metadata.Get(<key>)
  decodes : String          -- first argument of the library's Unmarshal (`A0.Payload`)
  deriving DecidableEq, Repr

/-- where a field of the envelope comes from / where a field of the unwrapped message comes from -/
inductive EnvSrc
  | destArg | msgUUID | msgPayload | msgMetadata      -- newMessageEnvelope(destTopic, msg)
  | unknown (src : String)
  deriving DecidableEq, Repr

structure EnvGlue where
  jsonFields : List (String × String)      -- json tag ↦ Go type, sorted by tag
  sources : List (String × EnvSrc)         -- json tag ↦ what newMessageEnvelope stores there
  validateRejects : List String            -- conditions under which validate() fails, positional form
  wrapValidates : Bool                     -- newMessageEnvelope calls validate
  unwrapValidates : Bool                   -- unwrap: json.Unmarshal, then validate, then NewMessage
  uuidFrom : String                        -- json tag of the envelope field each output is read from
  payloadFrom : String
  metadataFrom : String
  destFrom : String
  decodes : String                         -- first argument of json.Unmarshal, positional form
  wrapperArgs : String                     -- arguments of the wrapper's NewMessage, positional form
  publisherWrapsFor : String               -- Publisher.Publish: first argument of wrapMessageInEnvelope
  publisherPublishesTo : String            -- … and of the wrapped publisher's Publish
  defaultForwarderTopic : String
  deriving DecidableEq, Repr

def evalSrc (dest : String) (m : Msg) : EnvSrc → Option (String ⊕ Option Bytes ⊕ Option Meta)
  | .destArg => some (.inl dest)
  | .msgUUID => some (.inl m.uuid)
  | .msgPayload => some (.inr (.inl m.payload))
  | .msgMetadata => some (.inr (.inr m.metadata))
  | .unknown _ => none

def lookupSrc (l : List (String × EnvSrc)) (tag : String) : Option EnvSrc :=
  (l.find? (·.1 = tag)).map (·.2)

/-- the envelope `newMessageEnvelope` builds, field by JSON tag; `none` = a field is missing, of the wrong kind or unknown -/
def EnvGlue.build (g : EnvGlue) (dest : String) (m : Msg) : Option Envelope :=
  match (lookupSrc g.sources "destination_topic").bind (evalSrc dest m),
        (lookupSrc g.sources "uuid").bind (evalSrc dest m),
        (lookupSrc g.sources "payload").bind (evalSrc dest m),
        (lookupSrc g.sources "metadata").bind (evalSrc dest m) with
  | some (.inl d), some (.inl u), some (.inr (.inl p)), some (.inr (.inr md)) =>
    if g.sources.length = 4 then some ⟨d, u, p, md⟩ else none
  | _, _, _, _ => none

def strField (e : Envelope) : String → Option String
  | "destination_topic" => some e.dest
  | "uuid" => some e.uuid
  | _ => none

/-- the destination and message `unwrapMessageFromEnvelope` returns for a decoded envelope -/
def EnvGlue.unbuild (g : EnvGlue) (e : Envelope) : Option (String × Msg) :=
  match strField e g.destFrom, strField e g.uuidFrom with
  | some d, some u =>
    if g.payloadFrom = "payload" ∧ g.metadataFrom = "metadata" then some (d, ⟨u, e.payload, e.metadata⟩) else none
  | _, _ => none

end Wm.Value.Go
