/-
  Deep embedding of the context code C08 is about, as printed by the extractor (`harness/cmd/extract/c08.go`) from
  message/router.go and message/router_context.go of this run:
    - `handler.addHandlerContext`: the sequence of `ctx = context.WithValue(ctx, <key>, h.<field>)` statements, each
      with the `if h.<field> != ""` guard around it when the source has one (the code before fix 5846d09 had)
    - the five accessors `…FromCtx`: which key constant each one reads
    - the string value of every key constant (two constants with the same value would be the same context key)
  with an interpreter over a Go-like context (list of key-string/value pairs, innermost first).  The tie theorem
  (Props/C08Tie.lean) states that reading accessor `a` after `addHandlerContext` gives the handler's field `a` when
  – for every previous context – which is what `Wm.Route.addHandlerContext`/`ctx5` model.
-/
import WmModel.Route
namespace Wm.RouteGo
open Wm.Route

/-- fields of `handler` that can be written to a context -/
inductive Fld | name | publisherName | subscriberName | subscribeTopic | publishTopic | other (src : String)
  deriving DecidableEq, Repr

/-- one statement of `addHandlerContext`'s loop body -/
structure SetStmt where
  fld     : Fld        -- h.<fld> is the value
  guardBy : Option Fld -- `some g`: `if h.<g> != ""` around it; `none`: unconditional
  key     : String     -- string value of the key constant used
  deriving Repr

structure CtxCode where
  sets      : List SetStmt
  accessors : List (Key × String)   -- accessor (identified with the model key it stands for) ↦ value of the key constant it reads
  deriving Repr

def fldVal (h : HCfg) : Fld → String
  | .name => h.name | .publisherName => h.pubName | .subscriberName => h.subName
  | .subscribeTopic => h.subTopic | .publishTopic => h.pubTopic | .other _ => ""

/-- a Go context restricted to string keys of type `ctxKey`: innermost first -/
abbrev GoCtx := List (String × String)

def GoCtx.lookup : GoCtx → String → String
  | [], _ => ""
  | (k', v) :: rest, k => if k' = k then v else GoCtx.lookup rest k

def applySets (h : HCfg) : List SetStmt → GoCtx → GoCtx
  | [], c => c
  | s :: rest, c =>
    applySets h rest (match s.guardBy with
      | none => (s.key, fldVal h s.fld) :: c
      | some g => if fldVal h g ≠ "" then (s.key, fldVal h s.fld) :: c else c)

def keyOfAcc (code : CtxCode) (a : Key) : Option String :=
  match code.accessors.find? (·.1 = a) with
  | some (_, k) => some k
  | none => none

/-- what accessor `a` returns on context `c` (`none`: the accessor was not found in the source) -/
def readAcc (code : CtxCode) (a : Key) (c : GoCtx) : Option String :=
  (keyOfAcc code a).map c.lookup

/-- the model's field for accessor `a` -/
def modelField (h : HCfg) : Key → String
  | .handlerName => h.name | .publisherName => h.pubName | .subscriberName => h.subName
  | .subscribeTopic => h.subTopic | .publishTopic => h.pubTopic

end Wm.RouteGo
