/-
  M_sub – one GoChannel subscription (pubsub/gochannel/pubsub.go: `subscriber`, `sendMessageToSubscriber`,
  `subscriber.Close`, the unsubscribe goroutine up to `s.Close()`), as a labelled transition system.
  Core-only, executable.

  Atomic steps = lock-delimited regions / channel operations / `select` alternatives of the Go code.
  Every statement of `sendMessageToSubscriber` lies between `s.sending.Lock()` and the deferred `Unlock()`
  (structural fact, re-checked on every run), so a sender that does not hold the lock is either queued at
  `Lock()` (`waiting`) or finished (`exits`); the lock holder carries the program counter.
  Senders arrive from outside at any time (`spawn`): this over-approximates what Publish and the
  persistent replay of M_topic do, so every invariant proved here holds in the composition.
  The consumer and the callers of cancel/Close are unconstrained environment actions.
-/
import WmModel.Ack
namespace Wm.GcSub
open Wm.Ack (Sent)

/-- program counter of the sender that holds `sending` -/
inductive SPc
  | check       -- just locked (l.350): about to test `closing` (fix D10)
  | top         -- loop head (l.364): about to copy the message and read `s.closed`
  | sendSel     -- first select: `outputChannel <- copy` | `<-closing`
  | waitSettle  -- second select: `Acked` | `Nacked` | `<-closing`
  deriving DecidableEq, Repr, Hashable

inductive Holder
  | free
  | closer
  | sender (pub : Nat) (pc : SPc) (cur : Nat)   -- publication id, pc, index of the current copy
  deriving DecidableEq, Repr, Hashable

/-- the goroutine started by Subscribe that waits for ctx.Done / pub-sub closing and then runs `s.Close()` -/
inductive TdPc | waiting | wantLock | locked | done
  deriving DecidableEq, Repr, Hashable

inductive Exit | acked | closing | closed
  deriving DecidableEq, Repr, Hashable

structure Copy where
  pub       : Nat
  delivered : Bool     -- put into the output channel (or handed to a receiving consumer)
  received  : Bool
  settle    : Sent
  deriving DecidableEq, Repr, Hashable

structure St where
  cap        : Nat      -- OutputChannelBuffer
  ctxDone    : Bool
  gClosing   : Bool     -- `g.closing` closed
  closing    : Bool     -- `s.closing` closed
  closed     : Bool     -- `s.closed`
  chanClosed : Bool     -- `s.outputChannel` closed
  holder     : Holder   -- who holds `s.sending`
  buf        : List Nat -- copies in the output channel (indices into `copies`)
  waiting    : List Nat -- publications whose sender is queued at `s.sending.Lock()`
  nextPub    : Nat
  copies     : List Copy
  td         : TdPc
  exits      : List (Nat × Exit)
  panicked   : Bool
  deriving DecidableEq, Repr, Hashable

def init (cap : Nat) : St :=
  { cap := cap, ctxDone := false, gClosing := false, closing := false, closed := false, chanClosed := false,
    holder := .free, buf := [], waiting := [], nextPub := 0, copies := [], td := .waiting, exits := [],
    panicked := false }

inductive Action
  | spawn                         -- a sender goroutine for a new publication arrives (Publish / persistent replay)
  | sLock (k : Nat)               -- the k-th queued sender obtains the lock
  | sCheck                        -- `select { case <-s.closing: return; default: }` (fix D10)
  | sTop                          -- copy the message; `if s.closed return`
  | sSend                         -- first select: channel send (buffer space, or rendezvous when cap = 0)
  | sSendClosing                  -- first select: `<-s.closing`
  | sObsAck | sObsNack | sObsClosing   -- second select
  | recv                          -- consumer takes the head of the buffer
  | settle (c : Nat) (v : Sent)   -- consumer Acks/Nacks a received copy (first wins, Ack.lean)
  | cancel | gClose               -- environment: ctx cancelled / Pub/Sub Close signalled
  | tdStart                       -- unsubscribe goroutine wakes up; `s.Close()` up to `close(s.closing)`
  | tdLock                        -- `s.sending.Lock()` in `s.Close()`
  | tdClose                       -- `s.closed = true; close(s.outputChannel)`; unlock
  deriving DecidableEq, Repr

def exitSender (s : St) (p : Nat) (r : Exit) : St :=
  { s with holder := .free, exits := s.exits ++ [(p, r)] }

def act (s : St) : Action → Option St
  | .spawn => some { s with waiting := s.waiting ++ [s.nextPub], nextPub := s.nextPub + 1 }
  | .sLock k =>
    match s.holder, s.waiting[k]? with
    | .free, some p => some { s with waiting := s.waiting.eraseIdx k, holder := .sender p .check 0 }
    | _, _ => none
  | .sCheck =>
    match s.holder with
    | .sender p .check _ =>
      if s.closing then some (exitSender s p .closing) else some { s with holder := .sender p .top 0 }
    | _ => none
  | .sTop =>
    match s.holder with
    | .sender p .top _ =>
      if s.closed then some (exitSender s p .closed)
      else some { s with copies := s.copies ++ [⟨p, false, false, .none⟩],
                         holder := .sender p .sendSel s.copies.length }
    | _ => none
  | .sSend =>
    match s.holder with
    | .sender p .sendSel c =>
      if s.cap = 0 then
        -- unbuffered: rendezvous with a receiving consumer
        if s.chanClosed then some { s with panicked := true }
        else some { s with copies := s.copies.modify c (fun cp => { cp with delivered := true, received := true }),
                           holder := .sender p .waitSettle c }
      else if s.buf.length < s.cap then
        if s.chanClosed then some { s with panicked := true }
        else some { s with buf := s.buf ++ [c],
                           copies := s.copies.modify c (fun cp => { cp with delivered := true }),
                           holder := .sender p .waitSettle c }
      else none
    | _ => none
  | .sSendClosing =>
    match s.holder with
    | .sender p .sendSel _ => if s.closing then some (exitSender s p .closing) else none
    | _ => none
  | .sObsAck =>
    match s.holder with
    | .sender p .waitSettle c =>
      match s.copies[c]? with
      | some cp => if cp.settle = .ack then some (exitSender s p .acked) else none
      | none => none
    | _ => none
  | .sObsNack =>
    match s.holder with
    | .sender p .waitSettle c =>
      match s.copies[c]? with
      | some cp => if cp.settle = .nack then some { s with holder := .sender p .top c } else none
      | none => none
    | _ => none
  | .sObsClosing =>
    match s.holder with
    | .sender p .waitSettle _ => if s.closing then some (exitSender s p .closing) else none
    | _ => none
  | .recv =>
    match s.buf with
    | c :: rest => some { s with buf := rest, copies := s.copies.modify c (fun cp => { cp with received := true }) }
    | [] => none
  | .settle c v =>
    match s.copies[c]? with
    | some cp =>
      if cp.received && v != .none then
        some { s with copies := s.copies.modify c (fun cp => { cp with settle := if cp.settle = .none then v else cp.settle }) }
      else none
    | none => none
  | .cancel => some { s with ctxDone := true }
  | .gClose => some { s with gClosing := true }
  | .tdStart =>
    if s.td = .waiting ∧ (s.ctxDone ∨ s.gClosing) then
      if s.closed then some { s with td := .done }
      else if s.closing then some { s with panicked := true }       -- close of a closed channel
      else some { s with closing := true, td := .wantLock }
    else none
  | .tdLock =>
    if s.td = .wantLock then
      match s.holder with
      | .free => some { s with holder := .closer, td := .locked }
      | _ => none
    else none
  | .tdClose =>
    if s.td = .locked then
      if s.chanClosed then some { s with panicked := true }          -- close of a closed channel
      else some { s with closed := true, chanClosed := true, holder := .free, td := .done }
    else none

/-- a copy the consumer can obtain or has obtained and that is neither acked nor nacked -/
def UnsC (cs : List Copy) (c : Nat) : Prop :=
  ∃ cp, cs[c]? = some cp ∧ cp.delivered = true ∧ cp.settle = .none

def Unsettled (s : St) (c : Nat) : Prop := UnsC s.copies c

/-- candidate actions of a state (superset of the enabled ones) – used by the conformance driver only -/
def cands (s : St) : List Action :=
  [.spawn, .sCheck, .sTop, .sSend, .sSendClosing, .sObsAck, .sObsNack, .sObsClosing, .recv, .cancel, .gClose,
   .tdStart, .tdLock, .tdClose]
  ++ (List.range s.waiting.length).map .sLock
  ++ (List.range s.copies.length).flatMap (fun c => [.settle c .ack, .settle c .nack])

end Wm.GcSub
