/-
  Poison-queue middleware (message/router/middleware/poison.go).  Core-only, executable.

  `middleware` is the function `poisonQueue.Middleware(h)(msg)` with everything it depends on made an argument:
  the poison topic, the filter `shouldGoToPoisonQueue`, the outcome of the poison publisher, the values the
  Router stored in the message context (subscribe topic, handler name, subscriber name), the consumed message
  and the result of the wrapped handler `h` (metadata writes it did on the message, outputs, error).
  It returns the `Publish` calls made on the poison publisher (topic + the message as it was at that moment),
  the returned `(events, err)` and the consumed message afterwards (the code mutates *that* object's metadata
  and publishes *that* object, so "afterwards" = "as published").

  Strings are byte lists (Go strings are arbitrary bytes); metadata is an association list read through
  `List.lookup` (= Go map read), written through `mset` (= Go map write).
-/
import WmModel.Basic
namespace Wm.Poison

abbrev Str := List UInt8
abbrev Meta := List (Str × Str)

def ascii (s : String) : Str := s.toList.map (fun c => UInt8.ofNat c.toNat)

/-- Go `m[k] = v` -/
def mset (m : Meta) (k v : Str) : Meta := (k, v) :: m.filter (fun p => p.1 != k)

def msets (m : Meta) (kvs : List (Str × Str)) : Meta := kvs.foldl (fun m kv => mset m kv.1 kv.2) m

structure Msg where
  uuid    : Str
  payload : Str
  md      : Meta
  deriving DecidableEq, Repr, Inhabited

/-- what `message.SubscribeTopicFromCtx / HandlerNameFromCtx / SubscriberNameFromCtx` return on `msg.Context()` -/
structure Ctx where
  topic      : Str
  handler    : Str
  subscriber : Str
  deriving DecidableEq, Repr, Inhabited

-- the constants of poison.go l.13-18
def reasonKey     : Str := ascii "reason_poisoned"
def topicKey      : Str := ascii "topic_poisoned"
def handlerKey    : Str := ascii "handler_poisoned"
def subscriberKey : Str := ascii "subscriber_poisoned"

def poisonKeys : List Str := [reasonKey, topicKey, handlerKey, subscriberKey]

/-- an error returned by the wrapped handler.  `multi` = a `*multierror.Error` (the one error type
    `multierror.Append` treats specially); `isS` = "`errors.Is(err, sentinel)` holds" (what filters built on
    `errors.Is` see). -/
inductive HErr
  | plain (text : Str) (isS : Bool)
  | multi (parts : List Str) (isS : Bool)
  deriving DecidableEq, Repr, Inhabited

def natStr (n : Nat) : Str := (Nat.toDigits 10 n).map (fun c => UInt8.ofNat c.toNat)

def joinWith (sep : Str) : List Str → Str
  | [] => []
  | [a] => a
  | a :: rest => a ++ sep ++ joinWith sep rest

/-- `multierror.ListFormatFunc` (go-multierror v1.1.1 format.go) -/
def listFormat (ps : List Str) : Str :=
  match ps with
  | [p] => ascii "1 error occurred:\n\t* " ++ p ++ ascii "\n\n"
  | _ => natStr ps.length ++ ascii " errors occurred:\n\t" ++
         joinWith (ascii "\n\t") (ps.map (fun p => ascii "* " ++ p)) ++ ascii "\n\n"

def HErr.parts : HErr → List Str
  | .plain t _ => [t]
  | .multi ps _ => ps

/-- `err.Error()` -/
def HErr.text : HErr → Str
  | .plain t _ => t
  | .multi ps _ => listFormat ps

/-- outcome of `pq.pub.Publish(pq.topic, msg)` -/
inductive POut
  | ok
  | fail (text : Str)
  | panic (text : Str)    -- the publisher panics with this value
  deriving DecidableEq, Repr, Inhabited

/-- result of the wrapped handler: metadata writes on the consumed message (in order), outputs, error -/
structure HRes where
  sets : List (Str × Str)
  outs : List Msg
  err  : Option HErr
  deriving Repr, Inhabited

/-- the error the middleware returns: the handler's own error value, or
    `multierror.Append(err, errors.Wrap(publishErr, "cannot publish message to poison queue"))` -/
inductive RErr
  | same (e : HErr)
  | both (e : HErr) (pubText : Str)
  | panicked (pubText : Str)   -- the call does not return: the poison publisher's panic propagates to the caller
                               -- (inside a Router `handleMessage` recovers it and Nacks the message)
  deriving DecidableEq, Repr, Inhabited

def wrapPrefix : Str := ascii "cannot publish message to poison queue: "

/-- the list `Errors` of the returned multierror: the handler's error (flattened one level when it is itself
    a multierror) followed by the wrapped publish error -/
def RErr.causes : RErr → List Str
  | .same e => e.parts
  | .both e p => e.parts ++ [wrapPrefix ++ p]
  | .panicked p => [p]

def RErr.text : RErr → Str
  | .same e => e.text
  | .both e p => listFormat (e.parts ++ [wrapPrefix ++ p])
  | .panicked p => p

/-- `publishPoisonMessage` l.68-71: four map writes, in this order -/
def stamp (m : Meta) (reason : Str) (c : Ctx) : Meta :=
  mset (mset (mset (mset m reasonKey reason) topicKey c.topic) handlerKey c.handler) subscriberKey c.subscriber

structure Out where
  pubs : List (Str × Msg)     -- Publish calls on the poison publisher: (topic, message as published)
  outs : List Msg             -- returned events
  err  : Option RErr          -- returned error
  msg  : Msg                  -- the consumed message object afterwards
  deriving Repr, Inhabited

def middleware (ptopic : Str) (filter : HErr → Bool) (pub : POut) (c : Ctx) (msg : Msg) (h : HRes) : Out :=
  let msg1 : Msg := { msg with md := msets msg.md h.sets }        -- the handler ran
  match h.err with
  | none => ⟨[], h.outs, none, msg1⟩
  | some e =>
    if filter e = false then ⟨[], h.outs, some (.same e), msg1⟩
    else
      let msg2 : Msg := { msg1 with md := stamp msg1.md e.text c }
      match pub with
      | .ok     => ⟨[(ptopic, msg2)], h.outs, none, msg2⟩
      | .fail t => ⟨[(ptopic, msg2)], h.outs, some (.both e t), msg2⟩
      | .panic t => ⟨[(ptopic, msg2)], [], some (.panicked t), msg2⟩    -- nothing is returned

inductive Settle | ack | nack
  deriving DecidableEq, Repr, Inhabited

/-- the Router's settle rule (`handler.handleMessage`, verified separately as C02): Nack when the handler
    chain returned an error, otherwise publish the outputs (if any) and Ack iff that publish was accepted. -/
def routerSettle (o : Out) (outsPublishOk : Bool) : Settle :=
  if o.err.isSome then .nack
  else if o.outs.isEmpty || outsPublishOk then .ack else .nack

/-- what happens to one consumed message inside a Router, in order -/
inductive Ev
  | poisonPublish (topic : Str) (m : Msg)
  | outsPublish (n : Nat)
  | settle (s : Settle)
  deriving DecidableEq, Repr

def routerTrace (o : Out) (outsPublishOk : Bool) : List Ev :=
  o.pubs.map (fun p => .poisonPublish p.1 p.2) ++
  (if o.err.isNone && !o.outs.isEmpty then [.outsPublish o.outs.length] else []) ++
  [.settle (routerSettle o outsPublishOk)]

/-- the constructors: an empty topic is refused -/
def ctorOk (ptopic : Str) : Bool := !ptopic.isEmpty

/-- a stream of consumed messages through one middleware instance (it keeps no state between messages) -/
structure Item where
  pub : POut
  ctx : Ctx
  msg : Msg
  res : HRes

def stream (ptopic : Str) (filter : HErr → Bool) : List Item → List Out
  | [] => []
  | it :: rest => middleware ptopic filter it.pub it.ctx it.msg it.res :: stream ptopic filter rest

/-! ### stateful filters

  `shouldGoToPoisonQueue` is user code and need not be a function of the error: a budget, a rate limit, "only the first
  occurrence" answer differently from one consultation to the next.  Such a filter is scripted as the list of answers
  it will give (none left = it refuses).  The middleware consults it exactly once for a failed message and not at
  all for a handled one; the answer it got is the verdict. -/

def middlewareS (ptopic : Str) (answers : List Bool) (pub : POut) (c : Ctx) (msg : Msg) (h : HRes) : Out × List Bool :=
  match h.err with
  | none => (middleware ptopic (fun _ => false) pub c msg h, answers)
  | some _ => (middleware ptopic (fun _ => answers.headD false) pub c msg h, answers.tail)

/-- number of consultations of the filter for one message -/
def consultations (h : HRes) : Nat := if h.err.isSome then 1 else 0

def streamS (ptopic : Str) : List Bool → List Item → List Out
  | _, [] => []
  | ans, it :: rest =>
    (middlewareS ptopic ans it.pub it.ctx it.msg it.res).1 ::
      streamS ptopic (middlewareS ptopic ans it.pub it.ctx it.msg it.res).2 rest

end Wm.Poison
