/-
  Deep embedding of the body of the closure returned by `(Retry).Middleware` (message/router/middleware/retry.go) as
  printed by the extractor (`harness/cmd/extract/c12.go`) from the Go source of *this* run, with an interpreter over
  the same scripts as the hand-written model.  The tie theorem `extracted_retry_eq_model` (Props/C12Tie.lean) states
  that interpreting what the source says now equals `Wm.Retry.retry` for every configuration and every script.

  The printer splits the body at the `for` loop: statements before it, the loop body, statements after it.
-/
import WmModel.Retry
namespace Wm.GoRetry
open Wm.Retry

/-- first result of a `return`: `producedMessages` | `nil` -/
inductive MsgsE | prod | nil
  deriving DecidableEq, Repr
/-- second result of a `return`: `err` | `nil` -/
inductive ErrE | err | nil
  deriving DecidableEq, Repr
/-- integer expressions: `retryNum` | `r.MaxRetries` | literal -/
inductive IntE | retryNum | maxRetries | lit (n : Nat)
  deriving DecidableEq, Repr
/-- duration expressions: `waitTime` -/
inductive DurE | wait
  deriving DecidableEq, Repr
inductive Cmp | gt | ge | lt | le | eq | ne
  deriving DecidableEq, Repr
/-- the fields `Retry` and `backoff.ExponentialBackOff` share -/
inductive Fld | initialInterval | maxInterval | multiplier | maxElapsedTime | randomizationFactor
  deriving DecidableEq, Repr

inductive Stmt
  | callH                                 -- producedMessages, err :=/= h(msg)
  | ifErrNilRet (m : MsgsE) (e : ErrE)    -- if err == nil { return m, e }
  | newBackoff                            -- expBackoff := backoff.NewExponentialBackOff()
  | setBo (f src : Fld)                   -- expBackoff.f = r.src
  | ctxFromMsg                            -- ctx := msg.Context()
  | ctxTimeoutIfElapsed                   -- if r.MaxElapsedTime > 0 { ctx, cancel = context.WithTimeout(ctx, r.MaxElapsedTime); defer cancel() }
  | setRetryNum (n : Nat)                 -- retryNum := n
  | reset                                 -- expBackoff.Reset()
  | nextBackOff                           -- waitTime := expBackoff.NextBackOff()
  | ifStopRet (m : MsgsE) (e : ErrE)      -- if waitTime == backoff.Stop { return m, e }
  | selectCtxTimer (m : MsgsE) (e : ErrE) (d : DurE)  -- select { case <-ctx.Done(): return m, e; case <-time.After(d): }
  | logIfLogger                           -- if r.Logger != nil { r.Logger.Error(…) }
  | hookIfSet (n : IntE) (d : DurE)       -- if r.OnRetryHook != nil { r.OnRetryHook(n, d) }
  | incRetryNum                           -- retryNum++
  | ifBreak (c : Cmp) (l r : IntE)        -- if l c r { break retryLoop }
  | ret (m : MsgsE) (e : ErrE)            -- return m, e
  | unknown (src : String)                -- anything the printer does not recognise
  deriving Repr

/-- variables of the Go function, the back-off object, the clock, and what has been observed so far -/
structure St where
  prod        : List Nat := []
  err         : Option Nat := none
  wait        : Option Nat := none     -- `waitTime`; `none` = `backoff.Stop` (−1 ns: a timer with it is due at once)
  retryNum    : Nat := 0
  bo          : Option Cfg := none     -- parameters of `expBackoff` (only the back-off fields of `Cfg` are used)
  cur         : Nat := 0               -- expBackoff.currentInterval
  t0          : Nat := 0               -- expBackoff.startTime
  now         : Nat := 0
  pass        : Nat := 0               -- number of times the loop body has been entered
  calls       : Nat := 0               -- number of handler calls so far
  ctxBound    : Bool := false          -- `ctx` is the message's context
  ctxDeadline : Bool := false          -- … wrapped by WithTimeout(MaxElapsedTime)
  attempts    : List Attempt := []
  hooks       : List (Nat × Nat) := []

inductive R
  | cont (s : St)
  | ret (s : St) (msgs : List Nat) (err : Option Nat) (why : Why)
  | brk (s : St)
  | stuck

/-- `backoff.NewExponentialBackOff()`: the library's defaults -/
def defaultBo (cfg : Cfg) : Cfg :=
  { cfg with init := 500000000, maxInt := 60000000000, mulN := 3, mulD := 2, rfN := 1, rfD := 2, maxElapsed := 900000000000 }

def setFld (cfg bo : Cfg) : Fld → Fld → Option Cfg
  | .initialInterval, .initialInterval => some { bo with init := cfg.init }
  | .initialInterval, .maxInterval => some { bo with init := cfg.maxInt }
  | .initialInterval, .maxElapsedTime => some { bo with init := cfg.maxElapsed }
  | .maxInterval, .initialInterval => some { bo with maxInt := cfg.init }
  | .maxInterval, .maxInterval => some { bo with maxInt := cfg.maxInt }
  | .maxInterval, .maxElapsedTime => some { bo with maxInt := cfg.maxElapsed }
  | .maxElapsedTime, .initialInterval => some { bo with maxElapsed := cfg.init }
  | .maxElapsedTime, .maxInterval => some { bo with maxElapsed := cfg.maxInt }
  | .maxElapsedTime, .maxElapsedTime => some { bo with maxElapsed := cfg.maxElapsed }
  | .multiplier, .multiplier => some { bo with mulN := cfg.mulN, mulD := cfg.mulD }
  | .multiplier, .randomizationFactor => some { bo with mulN := cfg.rfN, mulD := cfg.rfD }
  | .randomizationFactor, .multiplier => some { bo with rfN := cfg.mulN, rfD := cfg.mulD }
  | .randomizationFactor, .randomizationFactor => some { bo with rfN := cfg.rfN, rfD := cfg.rfD }
  | _, _ => none                          -- a duration assigned to a float field or vice versa does not compile

def evalM (s : St) : MsgsE → List Nat
  | .prod => s.prod
  | .nil => []
def evalE (s : St) : ErrE → Option Nat
  | .err => s.err
  | .nil => none
def evalI (cfg : Cfg) (s : St) : IntE → Int
  | .retryNum => s.retryNum
  | .maxRetries => cfg.maxRetries
  | .lit n => n
def evalD (s : St) : DurE → Nat
  | .wait => s.wait.getD 0
def evalC : Cmp → Int → Int → Bool
  | .gt, a, b => decide (a > b)
  | .ge, a, b => decide (a ≥ b)
  | .lt, a, b => decide (a < b)
  | .le, a, b => decide (a ≤ b)
  | .eq, a, b => decide (a = b)
  | .ne, a, b => decide (a ≠ b)

def step (cfg : Cfg) (sc : Script) : Stmt → St → R
  | .callH, s =>
    let dur := if s.calls = 0 then sc.firstDur else (sc.iter s.pass).dur
    let out := if s.calls = 0 then sc.first else (sc.iter s.pass).out
    .cont { s with prod := out.outs, err := out.err, now := s.now + dur, calls := s.calls + 1,
                   attempts := s.attempts ++ [⟨s.now, s.now + dur, out⟩] }
  | .ifErrNilRet m e, s => if s.err = none then .ret s (evalM s m) (evalE s e) .success else .cont s
  | .newBackoff, s => .cont { s with bo := some (defaultBo cfg), cur := (defaultBo cfg).init, t0 := s.now }
  | .setBo f src, s =>
    match s.bo with
    | some b => match setFld cfg b f src with
      | some b' => .cont { s with bo := some b' }
      | none => .stuck
    | none => .stuck
  | .ctxFromMsg, s => .cont { s with ctxBound := true }
  | .ctxTimeoutIfElapsed, s => if s.ctxBound then .cont { s with ctxDeadline := decide (cfg.maxElapsed > 0) } else .stuck
  | .setRetryNum n, s => .cont { s with retryNum := n }
  | .reset, s =>
    match s.bo with
    | some b => .cont { s with now := s.now + sc.resetLag, t0 := s.now + sc.resetLag, cur := b.init }
    | none => .stuck
  | .nextBackOff, s =>
    match s.bo with
    | some b =>
      let it := sc.iter s.pass
      let now' := s.now + it.lag
      if stops b (now' - s.t0) then .cont { s with now := now', wait := none }
      else .cont { s with now := now', wait := some (randomized b s.cur it.draw), cur := nextCur b s.cur }
    | none => .stuck
  | .ifStopRet m e, s => if s.wait = none then .ret s (evalM s m) (evalE s e) .backoffStop else .cont s
  | .selectCtxTimer m e d, s =>
    if s.ctxBound then
      match (sc.iter s.pass).pick with
      | .ctxDone => .ret s (evalM s m) (evalE s e) .ctxDone
      | .timer late => .cont { s with now := s.now + evalD s d + late }
    else .stuck
  | .logIfLogger, s => .cont s
  | .hookIfSet n d, s =>
    if cfg.hook then .cont { s with hooks := s.hooks ++ [((evalI cfg s n).toNat, evalD s d)] } else .cont s
  | .incRetryNum, s => .cont { s with retryNum := s.retryNum + 1 }
  | .ifBreak c l r, s => if evalC c (evalI cfg s l) (evalI cfg s r) then .brk s else .cont s
  | .ret m e, s => .ret s (evalM s m) (evalE s e) .exhausted
  | .unknown _, _ => .stuck

def execList (cfg : Cfg) (sc : Script) : List Stmt → St → R
  | [], s => .cont s
  | st :: rest, s =>
    match step cfg sc st s with
    | .cont s' => execList cfg sc rest s'
    | r => r

def runOf (s : St) (m : List Nat) (e : Option Nat) (w : Why) : Run := ⟨s.attempts, s.hooks, m, e, w⟩

/-- `for { body }` followed by `after`; falling off the end of `after` is not a result -/
def execLoop (cfg : Cfg) (sc : Script) (body after : List Stmt) : Nat → St → Option Run
  | 0, s => some (runOf s s.prod s.err .outOfFuel)
  | fuel + 1, s =>
    match execList cfg sc body { s with pass := s.pass + 1 } with
    | .cont s' => execLoop cfg sc body after fuel s'
    | .brk s' =>
      match execList cfg sc after s' with
      | .ret s'' m e w => some (runOf s'' m e w)
      | _ => none
    | .ret s' m e w => some (runOf s' m e w)
    | .stuck => none

def execRetry (cfg : Cfg) (sc : Script) (before body after : List Stmt) : Option Run :=
  match execList cfg sc before {} with
  | .ret s m e w => some (runOf s m e w)
  | .cont s => execLoop cfg sc body after (fuelFor cfg) s
  | _ => none

end Wm.GoRetry
