/-
  Retry middleware (message/router/middleware/retry.go) with the exponential back-off of
  `github.com/cenkalti/backoff/v3` (exponential.go), modelled from their sources.  Core-only, executable.

  Time and randomness are INPUTS: a `Script` supplies, for the first call and for every pass `k = 1, 2, …`
  through the retry loop,
    * the outcome of the handler call (outputs, error or none) and how long it took,
    * the random draw of the back-off (`rand.Float64()` = `draw / 2^53`, as the Go library computes it),
    * what the `select` after the back-off computation picks (timer fired – possibly late – or `ctx.Done()`),
    * scheduling lags (time that passes before the back-off reads its clock).
  Durations are `Nat` nanoseconds; `Multiplier` and `RandomizationFactor` are fractions `mulN/mulD`, `rfN/rfD`
  (no `Float` anywhere).  The model keeps a clock so that "waited at least …" and "MaxElapsedTime passed" are
  statements about time stamps of the attempts.
-/
namespace Wm.Retry

/-- the fields of `middleware.Retry` -/
structure Cfg where
  maxRetries : Int        -- MaxRetries (Go int; the property speaks about ≥ 1)
  init       : Nat        -- InitialInterval, ns
  maxInt     : Nat        -- MaxInterval, ns
  mulN       : Nat        -- Multiplier = mulN / mulD
  mulD       : Nat
  rfN        : Nat        -- RandomizationFactor = rfN / rfD   (0 ≤ rf ≤ 1)
  rfD        : Nat
  maxElapsed : Nat        -- MaxElapsedTime, ns; 0 = disabled
  hook       : Bool       -- OnRetryHook != nil
  deriving Repr, DecidableEq

/-- what one handler call returns: produced messages (ids) and the error (`none` = nil) -/
structure Outcome where
  outs : List Nat
  err  : Option Nat
  deriving Repr, DecidableEq

/-- the two alternatives of the `select`: `<-time.After(waitTime)` (fires `late` ns after it is due,
    never early) or `<-ctx.Done()` -/
inductive Pick
  | timer (late : Nat)
  | ctxDone
  deriving Repr, DecidableEq

/-- inputs of one pass through the retry loop -/
structure Iter where
  lag   : Nat       -- time between the end of the previous attempt (incl. hook) and the clock read of NextBackOff
  draw  : Nat       -- rand.Float64() = draw / 2^53  ∈ [0,1)  (math/rand: float64(Int63n(1<<53)) / (1<<53))
  pick  : Pick
  dur   : Nat       -- duration of the handler call of this pass
  out   : Outcome   -- its outcome
  deriving Repr

structure Script where
  first    : Outcome        -- outcome of the first call (before any retry)
  firstDur : Nat
  resetLag : Nat            -- time between the end of the first call and `expBackoff.Reset()`
  iter     : Nat → Iter     -- `iter k`: inputs of the k-th pass, k = 1, 2, … (k = Go's `retryNum`)

/-! ### the back-off library -/

/-- `incrementCurrentInterval`: `if float64(cur) >= float64(max)/mult { cur = max } else { cur = Duration(float64(cur)*mult) }` -/
def nextCur (cfg : Cfg) (cur : Nat) : Nat :=
  if cur * cfg.mulN ≥ cfg.maxInt * cfg.mulD then cfg.maxInt else cur * cfg.mulN / cfg.mulD

/-- `currentInterval` seen by the (i+1)-th `NextBackOff` after `Reset` -/
def curAt (cfg : Cfg) : Nat → Nat
  | 0     => cfg.init
  | i + 1 => nextCur cfg (curAt cfg i)

/-- denominator of `rand.Float64()` -/
def drawDen : Nat := 2 ^ 53

/-- `getRandomValueFromInterval(rf, random, cur)` = ⌊cur(1−rf) + random·(2·cur·rf + 1)⌋ with random = draw/2^53 -/
def randomized (cfg : Cfg) (cur draw : Nat) : Nat :=
  (cur * (cfg.rfD - cfg.rfN) * drawDen + draw * (2 * cur * cfg.rfN + cfg.rfD)) / (cfg.rfD * drawDen)

/-- ⌊cur·(1−rf)⌋ – the lower end of the jitter interval (what `randomized` gives for draw 0) -/
def lowEnd (cfg : Cfg) (cur : Nat) : Nat := cur * (cfg.rfD - cfg.rfN) / cfg.rfD

/-- ⌊cur·(1+rf)⌋ + 1 – an upper end of the jitter interval (draws are < 1) -/
def highEnd (cfg : Cfg) (cur : Nat) : Nat := cur * (cfg.rfD + cfg.rfN) / cfg.rfD + 1

/-- `NextBackOff` returns `Stop`: `MaxElapsedTime != 0 && GetElapsedTime() > MaxElapsedTime` -/
def stops (cfg : Cfg) (elapsed : Nat) : Bool :=
  cfg.maxElapsed != 0 && decide (elapsed > cfg.maxElapsed)

/-! ### the middleware -/

structure Attempt where
  start : Nat
  stop  : Nat
  out   : Outcome
  deriving Repr, DecidableEq

/-- which `return` ended the call -/
inductive Why
  | success       -- `return producedMessages, nil`
  | exhausted     -- `break retryLoop` … `return nil, err`
  | ctxDone       -- `case <-ctx.Done(): return producedMessages, err`
  | backoffStop   -- `if waitTime == backoff.Stop { return producedMessages, err }`
  | outOfFuel     -- never happens (`never_out_of_fuel`); the loop is written with fuel to be structurally recursive
  deriving Repr, DecidableEq

structure Run where
  attempts : List Attempt        -- handler calls in order
  hooks    : List (Nat × Nat)    -- OnRetryHook(retryNum, delay) calls in order
  msgs     : List Nat            -- returned messages
  err      : Option Nat          -- returned error
  why      : Why
  deriving Repr, DecidableEq

/-- loop variables of the Go function plus the clock -/
structure LoopSt where
  retryNum : Nat         -- `retryNum`
  cur      : Nat         -- `expBackoff.currentInterval`
  now      : Nat         -- clock: end of the previous attempt
  prod     : List Nat    -- `producedMessages`
  err      : Nat         -- `err` (non-nil inside the loop)
  deriving Repr

def Run.push (a : Attempt) (hk : List (Nat × Nat)) (r : Run) : Run :=
  { r with attempts := a :: r.attempts, hooks := hk ++ r.hooks }

/-- the `retryLoop`; `t0` is the back-off's `startTime` -/
def loop (cfg : Cfg) (sc : Script) (t0 : Nat) : Nat → LoopSt → Run
  | 0, s => ⟨[], [], s.prod, some s.err, .outOfFuel⟩
  | fuel + 1, s =>
    let it := sc.iter s.retryNum
    let tNb := s.now + it.lag                                    -- clock read inside NextBackOff
    if stops cfg (tNb - t0) then
      ⟨[], [], s.prod, some s.err, .backoffStop⟩                 -- waitTime == backoff.Stop
    else
      let w := randomized cfg s.cur it.draw             -- waitTime
      match it.pick with
      | .ctxDone => ⟨[], [], s.prod, some s.err, .ctxDone⟩
      | .timer late =>
        let st := tNb + w + late
        let a : Attempt := ⟨st, st + it.dur, it.out⟩              -- producedMessages, err = h(msg)
        match it.out.err with
        | none => ⟨[a], [], it.out.outs, none, .success⟩
        | some e =>
          let hk := if cfg.hook then [(s.retryNum, w)] else []    -- OnRetryHook(retryNum, waitTime)
          if ((s.retryNum + 1 : Nat) : Int) > cfg.maxRetries then -- retryNum++; if retryNum > r.MaxRetries { break }
            ⟨[a], hk, [], some e, .exhausted⟩                     -- return nil, err
          else
            (loop cfg sc t0 fuel ⟨s.retryNum + 1, nextCur cfg s.cur, st + it.dur, it.out.outs, e⟩).push a hk

/-- enough fuel for every configuration (`never_out_of_fuel`) -/
def fuelFor (cfg : Cfg) : Nat := cfg.maxRetries.toNat + 1

/-- `Retry.Middleware(h)(msg)` -/
def retry (cfg : Cfg) (sc : Script) : Run :=
  let a0 : Attempt := ⟨0, sc.firstDur, sc.first⟩
  match sc.first.err with
  | none => ⟨[a0], [], sc.first.outs, none, .success⟩
  | some e =>
    let t0 := sc.firstDur + sc.resetLag
    (loop cfg sc t0 (fuelFor cfg) ⟨1, cfg.init, t0, sc.first.outs, e⟩).push a0 []

/-! ### the unrepaired loop (before the fix "Retry stops on backoff.Stop"), kept for the witness theorem -/

/-- as `loop`, but without `if waitTime == backoff.Stop { return }`: `time.After(-1ns)` is ready at once and the
    `select` may pick it although the context has expired as well (both ready ⇒ either) -/
def loopOld (cfg : Cfg) (sc : Script) (t0 : Nat) : Nat → LoopSt → Run
  | 0, s => ⟨[], [], s.prod, some s.err, .outOfFuel⟩
  | fuel + 1, s =>
    let it := sc.iter s.retryNum
    let tNb := s.now + it.lag
    let stopped := stops cfg (tNb - t0)
    let w := if stopped then 0 else randomized cfg s.cur it.draw
    match it.pick with
    | .ctxDone => ⟨[], [], s.prod, some s.err, .ctxDone⟩
    | .timer late =>
      let st := tNb + w + late
      let a : Attempt := ⟨st, st + it.dur, it.out⟩
      match it.out.err with
      | none => ⟨[a], [], it.out.outs, none, .success⟩
      | some e =>
        let hk := if cfg.hook then [(s.retryNum, w)] else []
        if ((s.retryNum + 1 : Nat) : Int) > cfg.maxRetries then
          ⟨[a], hk, [], some e, .exhausted⟩
        else
          (loopOld cfg sc t0 fuel ⟨s.retryNum + 1, if stopped then s.cur else nextCur cfg s.cur, st + it.dur, it.out.outs, e⟩).push a hk

def retryOld (cfg : Cfg) (sc : Script) : Run :=
  let a0 : Attempt := ⟨0, sc.firstDur, sc.first⟩
  match sc.first.err with
  | none => ⟨[a0], [], sc.first.outs, none, .success⟩
  | some e =>
    let t0 := sc.firstDur + sc.resetLag
    (loopOld cfg sc t0 (fuelFor cfg) ⟨1, cfg.init, t0, sc.first.outs, e⟩).push a0 []

end Wm.Retry
