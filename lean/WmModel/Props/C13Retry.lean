/-
  C13 × C12 × C02 – the usual stack `PoisonQueue(Retry(h))` inside a Router, composed from the three tied models
  (`Wm.Poison.middleware`, `Wm.Retry.retry`, `Wm.Handle.handle`) and the settlement model of C03:
    * `poison_only_after_retries_failed`: a message is published to the poison topic only if the LAST call of the retry
      sequence failed (so, with `last_error_returned`/`exhausts_all_retries` of C12, only after the retries were used up or
      given up for a reason) – and it carries that last error as its reason;
    * `acked_under_poison_retry`: the subscriber sees an Ack only if the last call succeeded, or the message – same uuid,
      same payload – was accepted by the poison publisher on the poison topic after the last call failed.
-/
import WmModel.Props.C13Router
import WmModel.Props.C12
namespace Wm.Poison
open Wm.Handle (Cfg handle sentAfter)

/-- an error of the retried handler as the poison middleware sees it (the text is the error's identity here) -/
def errOf (n : Nat) : HErr := .plain (natStr n) false

/-- a produced message (identity `n`) -/
def msgOf (n : Nat) : Msg := ⟨natStr n, [], []⟩

/-- what `Retry.Middleware(h)(msg)` returned, as the result of the handler the poison middleware wraps -/
def ofRun (r : Retry.Run) : HRes := ⟨[], r.msgs.map msgOf, r.err.map errOf⟩

theorem poison_only_after_retries_failed (ptopic : Str) (filter : HErr → Bool) (pub : POut) (c : Ctx) (msg : Msg)
    (cfg : Retry.Cfg) (sc : Retry.Script)
    (hp : (middleware ptopic filter pub c msg (ofRun (Retry.retry cfg sc))).pubs ≠ []) :
    ∃ a e, (Retry.retry cfg sc).attempts.getLast? = some a ∧ a.out.err = some e ∧ (Retry.retry cfg sc).err = some e ∧
      filter (errOf e) = true ∧
      ∃ m', (middleware ptopic filter pub c msg (ofRun (Retry.retry cfg sc))).pubs = [(ptopic, m')] ∧
        m'.uuid = msg.uuid ∧ m'.payload = msg.payload ∧ List.lookup reasonKey m'.md = some (errOf e).text := by
  obtain ⟨a, h1, h2⟩ := Retry.result_is_last_attempts cfg sc
  cases he : (Retry.retry cfg sc).err with
  | none => simp [middleware, ofRun, he] at hp
  | some e =>
    have hfe : (ofRun (Retry.retry cfg sc)).err = some (errOf e) := by simp [ofRun, he]
    cases hf : filter (errOf e) with
    | false => simp [middleware, hfe, hf] at hp
    | true =>
      obtain ⟨m', p1, p2, p3, p4⟩ := poison_once_same_identity ptopic filter pub c msg _ (errOf e) hfe hf
      exact ⟨a, e, h1, by rw [← h2, he], rfl, hf, m', p1, p2, p3, p4.1⟩

theorem acked_under_poison_retry (ptopic : Str) (filter : HErr → Bool) (pub : POut) (c : Ctx) (msg : Msg)
    (cfg : Retry.Cfg) (sc : Retry.Script) (k : Ack.Kind) (hc : Cfg) (hwp : hc.kind = .withPub) (okp : Bool)
    (hack : sentAfter k (handle hc (toOutcome (middleware ptopic filter pub c msg (ofRun (Retry.retry cfg sc)))) (pubOf okp)) = .ack) :
    (∃ a, (Retry.retry cfg sc).attempts.getLast? = some a ∧ a.out.err = none) ∨
    (∃ a e m', (Retry.retry cfg sc).attempts.getLast? = some a ∧ a.out.err = some e ∧ pub = .ok ∧
      (middleware ptopic filter pub c msg (ofRun (Retry.retry cfg sc))).pubs = [(ptopic, m')] ∧
      m'.uuid = msg.uuid ∧ m'.payload = msg.payload) := by
  obtain ⟨a, h1, h2⟩ := Retry.result_is_last_attempts cfg sc
  rcases acked_by_handleMessage_implies_handled_or_poisoned ptopic filter pub c msg _ k hc hwp okp hack with h | h
  · left
    refine ⟨a, h1, ?_⟩
    rw [← h2]
    simp [ofRun] at h
    exact h
  · right
    obtain ⟨e, m', he, _, hpub, hp, hu, hpl⟩ := h
    cases her : (Retry.retry cfg sc).err with
    | none => simp [ofRun, her] at he
    | some n => exact ⟨a, n, m', h1, by rw [← h2, her], hpub, hp, hu, hpl⟩

end Wm.Poison
