/-
  C17 – Relay components (Forwarder, FanIn, FanOut, Requeuer) neither lose nor invent.
  Property theorems only.  Model: `WmModel/Relay.lean`; helper lemmas: `Lemmas/RelayDigits.lean`, `Lemmas/PoisonMeta.lean`.
  All statements quantify over every message (any uuid/payload/metadata, any prior counter string), every
  destination outcome, every configuration flag/topic, and – by induction – every stream of messages with
  destination failures at any positions.
-/
import WmModel.Lemmas.RelayDigits
import WmModel.Lemmas.PoisonMeta
namespace Wm.Relay
open Wm.Poison (Str Meta Msg mset ascii POut Settle lookup_mset)

/-! ### Requeuer -/

/-- **relay_preserves (Requeuer)**: when a destination topic could be computed, exactly one `Publish` goes to it,
    carrying the consumed message (the same object: `o.msg`) with uuid and payload intact and every metadata key
    other than `RetriesKey` unchanged; `RetriesKey` holds `Itoa(counter)`. -/
theorem requeuer_relays (t : Str) (dest : POut) (m : Msg) :
    ∃ m', (requeuer false (.ok t) dest m).pubs = [(t, m')] ∧ (requeuer false (.ok t) dest m).msg = m' ∧
      m'.uuid = m.uuid ∧ m'.payload = m.payload ∧
      List.lookup retriesKey m'.md = some (itoa (nextCounter m)) ∧
      (∀ k, k ≠ retriesKey → List.lookup k m'.md = List.lookup k m.md) := by
  refine ⟨{ m with md := mset m.md retriesKey (itoa (nextCounter m)) }, rfl, rfl, rfl, rfl, ?_, ?_⟩
  · simp [lookup_mset]
  · intro k hk; simp [lookup_mset, hk]

/-- the counter read from the message is always a 64-bit value -/
theorem priorCounter_range (m : Msg) : minInt ≤ priorCounter m ∧ priorCounter m ≤ maxInt := by
  unfold priorCounter
  cases h : atoi ((List.lookup retriesKey m.md).getD []) with
  | none => simp [minInt, maxInt]
  | some i => simpa using atoi_range _ i h

/-- **requeuer_counter_partial**: the counter is raised by exactly one – `atoi-or-0(old) + 1` – and what is written
    reads back as that number.
    Full statement (without the guard `priorCounter m < maxInt`) is FALSE for the code: see
    `requeuer_counter_overflow_witness` (known finding D16, pattern `retries=MaxInt64`). -/
theorem requeuer_counter_partial (m : Msg) (h : priorCounter m < maxInt) :
    nextCounter m = priorCounter m + 1 ∧ atoi (itoa (nextCounter m)) = some (priorCounter m + 1) := by
  have hr := priorCounter_range m
  have h1 : nextCounter m = priorCounter m + 1 := by
    unfold nextCounter wrap64
    unfold minInt at hr; unfold maxInt at h
    omega
  refine ⟨h1, ?_⟩
  rw [h1]
  apply atoi_itoa
  · unfold minInt at *; omega
  · unfold maxInt at *; omega

/-- what "atoi-or-0" means: a counter string that `strconv.Atoi` refuses counts as 0, an absent key likewise -/
theorem priorCounter_cases (m : Msg) :
    (List.lookup retriesKey m.md = none → priorCounter m = 0) ∧
    (∀ s, List.lookup retriesKey m.md = some s → atoi s = none → priorCounter m = 0) ∧
    (∀ s i, List.lookup retriesKey m.md = some s → atoi s = some i → priorCounter m = i) := by
  refine ⟨?_, ?_, ?_⟩
  · intro h; simp only [priorCounter, h]; rfl
  · intro s h ha; simp [priorCounter, h, ha]
  · intro s i h ha; simp [priorCounter, h, ha]

private def mMax : Msg := ⟨ascii "u", ascii "p", [(retriesKey, ascii "9223372036854775807")]⟩

/-- **witness of D16**: with the prior counter `9223372036854775807` the code writes `-9223372036854775808`,
    which is not the prior counter plus one. -/
theorem requeuer_counter_overflow_witness :
    priorCounter mMax = 9223372036854775807 ∧
    itoa (nextCounter mMax) = ascii "-9223372036854775808" ∧
    nextCounter mMax ≠ priorCounter mMax + 1 := by decide

theorem priorCounter_of_lookup (m : Msg) (s : Str) (h : List.lookup retriesKey m.md = some s) :
    priorCounter m = (atoi s).getD 0 := by
  simp [priorCounter, h]

/-- repeated requeueing of the same message object (the handler writes into it) -/
def requeueN (t : Str) : Nat → Msg → Msg
  | 0, m => m
  | n + 1, m => (requeuer false (.ok t) .ok (requeueN t n m)).msg

/-- **the counter counts**: a message without a (numeric) counter that is requeued `n` times carries the counter `n` -/
theorem requeuer_counts_up (t : Str) (m : Msg) (h0 : priorCounter m = 0) (n : Nat) (hn : (n : Int) ≤ maxInt) :
    priorCounter (requeueN t n m) = n := by
  induction n with
  | zero => simpa [requeueN] using h0
  | succ k ih =>
    have hk : priorCounter (requeueN t k m) = k := ih (by unfold maxInt at *; omega)
    have hlt : priorCounter (requeueN t k m) < maxInt := by rw [hk]; unfold maxInt at *; omega
    obtain ⟨_, h2⟩ := requeuer_counter_partial (requeueN t k m) hlt
    obtain ⟨m', _, hmsg, _, _, hl, _⟩ := requeuer_relays t .ok (requeueN t k m)
    simp only [requeueN]
    rw [hmsg, priorCounter_of_lookup m' _ hl, h2, Option.getD_some, hk]
    omega

/-- **ack / nack (Requeuer)**: acked iff a topic was computed, the wait was not cancelled and the destination accepted -/
theorem requeuer_settle (w : Bool) (tg : TopicGen) (dest : POut) (m : Msg) :
    (requeuer w tg dest m).settle = .ack ↔ (w = false ∧ (∃ t, tg = .ok t) ∧ dest = .ok) := by
  unfold requeuer
  cases w <;> cases tg <;> simp

/-- nothing is published when no topic could be computed or the wait was cancelled, and then the message is nacked
    with its metadata untouched -/
theorem requeuer_no_topic (w : Bool) (tg : TopicGen) (dest : POut) (m : Msg) (h : w = true ∨ tg = .err) :
    (requeuer w tg dest m).pubs = [] ∧ (requeuer w tg dest m).settle = .nack ∧ (requeuer w tg dest m).msg = m := by
  rcases h with h | h
  · subst h; simp [requeuer]
  · subst h; cases w <;> simp [requeuer]

/-- **the topic function is applied to the message as consumed**: whatever `GeneratePublishTopic` computes from the
    message it is shown (in particular from its retries header), the message is published to the topic computed
    from the consumed message – counter not yet raised – while the published message carries the raised counter. -/
theorem requeuer_topic_from_consumed (pol : TopicPolicy) (dest : POut) (m : Msg) (t : Str) (ht : pol m = .ok t) :
    ∃ m', (requeuerP false pol dest m).pubs = [(t, m')] ∧
      List.lookup retriesKey m'.md = some (itoa (nextCounter m)) ∧ m'.uuid = m.uuid ∧ m'.payload = m.payload := by
  obtain ⟨m', h1, _, h3, h4, h5, _⟩ := requeuer_relays t dest m
  exact ⟨m', by simp [requeuerP, ht, h1], h5, h3, h4⟩

/-- a retry budget of `k`: a message that arrives with counter `< k` goes to the work topic (its published counter
    may then equal `k`), one that arrives with counter `≥ k` goes to the dead-letter topic -/
theorem budget_applies_to_consumed (k : Int) (work dead : Str) (dest : POut) (m : Msg) :
    (priorCounter m < k → ∃ m', (requeuerP false (budgetPolicy k work dead) dest m).pubs = [(work, m')]) ∧
    (k ≤ priorCounter m → ∃ m', (requeuerP false (budgetPolicy k work dead) dest m).pubs = [(dead, m')]) := by
  constructor
  · intro h
    have hp : budgetPolicy k work dead m = .ok work := by
      have : ¬ k ≤ priorCounter m := by omega
      simp [budgetPolicy, this]
    obtain ⟨m', h1, _⟩ := requeuer_topic_from_consumed _ dest m work hp
    exact ⟨m', h1⟩
  · intro h
    have hp : budgetPolicy k work dead m = .ok dead := by simp [budgetPolicy, h]
    obtain ⟨m', h1, _⟩ := requeuer_topic_from_consumed _ dest m dead hp
    exact ⟨m', h1⟩

/-! ### Forwarder -/

theorem valid_iff (p : Parsed) (e : Envelope) : p.valid = some e ↔ (p = .env e ∧ e.dest ≠ []) := by
  cases p with
  | bad => simp [Parsed.valid]
  | env e' =>
    simp only [Parsed.valid]
    cases hd : e'.dest with
    | nil => simp; intro h; subst h; exact hd
    | cons c r => simp; intro h; subst h; simp [hd]

/-- **relay_preserves (Forwarder)**: a valid envelope yields exactly one `Publish`, to the topic embedded in it,
    of a message with the embedded uuid, payload and metadata; acked iff the destination accepted. -/
theorem forwarder_relays (ack : Bool) (p : Parsed) (e : Envelope) (dest : POut) (h : p.valid = some e) :
    (forwarder ack p dest).pubs = [(e.dest, [⟨e.uuid, e.payload, e.md⟩])] ∧
    ((forwarder ack p dest).settle = .ack ↔ dest = .ok) := by
  simp only [forwarder, h, Envelope.msg, settleOf, true_and]
  split <;> simp_all

/-- **invalid_envelope_never_forwarded**: a payload that does not parse, or names no destination, is never
    published anywhere and is acked exactly when `AckWhenCannotUnwrap` is set, whatever the destination would do. -/
theorem invalid_envelope_never_forwarded (ack : Bool) (p : Parsed) (dest : POut) (h : p.valid = none) :
    (forwarder ack p dest).pubs = [] ∧
    (forwarder ack p dest).settle = (if ack then .ack else .nack) := by
  simp [forwarder, h]

/-! ### FanIn / FanOut -/

/-- **relay_preserves (FanIn, FanOut)**: the consumed message itself goes to the target topic, once; acked iff accepted -/
theorem passthrough_relays (target : Str) (m : Msg) (dest : POut) :
    (passthrough target m dest).pubs = [(target, [m])] ∧
    ((passthrough target m dest).settle = .ack ↔ dest = .ok) := by
  simp only [passthrough, settleOf, true_and]
  split <;> simp_all

/-- a FanIn that `Validate` accepts publishes every message of every source topic to the target topic, which is
    non-empty and none of the source topics (no loop) -/
theorem fanin_targets (c : FanInCfg) (hv : c.valid = true) (i : Nat) (m : Msg) (dest : POut) :
    (fanIn c i m dest).pubs = [(c.target, [m])] ∧ c.target ≠ [] ∧ c.target ∉ c.sources ∧ c.sources ≠ [] ∧
    ((fanIn c i m dest).settle = .ack ↔ dest = .ok) := by
  have hp := passthrough_relays c.target m dest
  simp only [FanInCfg.valid, Bool.and_eq_true, Bool.not_eq_true', List.isEmpty_eq_false_iff,
    List.contains_eq_mem, decide_eq_false_iff_not] at hv
  obtain ⟨⟨⟨h1, _⟩, h3⟩, h4⟩ := hv
  exact ⟨hp.1, h3, h4, h1, hp.2⟩

/-- FanOut: every subscriber of the topic obtains the message, nobody obtains anything else -/
theorem fanout_copies (subs : Nat) (m : Msg) :
    (fanOutDeliveries subs m).length = subs ∧ ∀ x ∈ fanOutDeliveries subs m, x = m := by
  simp only [fanOutDeliveries, List.length_replicate, true_and]
  intro x hx; exact (List.mem_replicate.mp hx).2

/-! ### forwarder.Publisher and end to end -/

theorem wrap_intact (topic : Str) (m : Msg) : (wrap topic m).dest = topic ∧ (wrap topic m).msg = m := ⟨rfl, rfl⟩

/-- the Publisher makes ONE call, on the forwarder topic, with one envelope per message, each naming the topic the
    message was published to and holding the message intact; it reports success iff the wrapped publisher accepted -/
theorem fwdPublish_once (cfg topic : Str) (msgs : List Msg) (dest : POut) (ht : topic ≠ []) :
    (fwdPublish cfg topic msgs dest).calls = [(effTopic cfg, msgs.map (wrap topic))] ∧
    ((fwdPublish cfg topic msgs dest).err = false ↔ dest = .ok) := by
  have : topic.isEmpty = false := by cases topic <;> simp_all
  simp [fwdPublish, this]

/-- an empty destination topic is refused before anything is published -/
theorem fwdPublish_refuses_empty_topic (cfg : Str) (msgs : List Msg) (dest : POut) (hm : msgs ≠ []) :
    (fwdPublish cfg [] msgs dest).calls = [] ∧ (fwdPublish cfg [] msgs dest).err = true := by
  have : msgs.isEmpty = false := by cases msgs <;> simp_all
  simp [fwdPublish, this]

theorem effTopic_ne_nil (t : Str) : effTopic t ≠ [] ∧ (t ≠ [] → effTopic t = t) := by
  constructor
  · unfold effTopic; split
    · decide
    · cases t <;> simp_all
  · intro h; unfold effTopic; cases t <;> simp_all

/-- **forwarder_end_to_end**: a message published through the Publisher to `topic` and consumed by the Forwarder is
    published to exactly `topic` with uuid, payload and metadata intact, and the enveloped message is acked iff the
    destination accepted.  `enc`/`dec` stand for `json.Marshal`/`json.Unmarshal` on the envelope struct; that
    decoding inverts encoding on envelopes whose strings are valid UTF-8 (`hrt`) is the one fact about
    `encoding/json` the statement rests on (tested by the harness on every run, not proved).  Scope: topic, uuid
    and metadata are valid UTF-8 (`hu`; payload bytes are arbitrary) – JSON is the wire contract of the Forwarder. -/
theorem forwarder_end_to_end (enc : Envelope → Str) (dec : Str → Parsed)
    (hrt : ∀ e, e.utf8 = true → dec (enc e) = .env e)
    (cfg topic : Str) (m : Msg) (ack : Bool) (dest : POut) (ht : topic ≠ []) (hu : (wrap topic m).utf8 = true) :
    ∃ e, (fwdPublish cfg topic [m] .ok).calls = [(effTopic cfg, [e])] ∧
      (fwdPublish cfg topic [m] .ok).err = false ∧
      (forwarder ack (dec (enc e)) dest).pubs = [(topic, [m])] ∧
      ((forwarder ack (dec (enc e)) dest).settle = .ack ↔ dest = .ok) := by
  refine ⟨wrap topic m, ?_, ?_, ?_⟩
  · simpa using (fwdPublish_once cfg topic [m] .ok ht).1
  · exact (fwdPublish_once cfg topic [m] .ok ht).2.mpr rfl
  · have hv : (dec (enc (wrap topic m))).valid = some (wrap topic m) := by
      rw [hrt _ hu, valid_iff]; exact ⟨rfl, ht⟩
    have := forwarder_relays ack _ _ dest hv
    simpa [wrap] using this

/-! ### acknowledge only after the destination accepted; Nack when it fails -/

/-- what every relaying component guarantees for one consumed message -/
def Sound (o : Out) (dest : POut) : Prop :=
  (o.settle = .ack → o.pubs ≠ [] → dest = .ok) ∧ (dest ≠ .ok → o.pubs ≠ [] → o.settle = .nack) ∧ o.pubs.length ≤ 1

/-- **ack_after_destination / nack_on_destination_failure** for Forwarder, FanIn and FanOut handlers -/
theorem ack_after_destination (ack : Bool) (p : Parsed) (target : Str) (c : FanInCfg) (i : Nat) (m : Msg) (dest : POut) :
    Sound (forwarder ack p dest) dest ∧ Sound (passthrough target m dest) dest ∧ Sound (fanIn c i m dest) dest := by
  refine ⟨?_, ?_, ?_⟩
  · unfold forwarder Sound settleOf
    cases p.valid <;> cases hd : dest <;> simp
  · unfold passthrough Sound settleOf
    cases hd : dest <;> simp
  · unfold fanIn passthrough Sound settleOf
    cases hd : dest <;> simp

/-- the same for the Requeuer -/
theorem nack_on_destination_failure_requeuer (w : Bool) (tg : TopicGen) (dest : POut) (m : Msg) :
    ((requeuer w tg dest m).settle = .ack → dest = .ok ∧ (requeuer w tg dest m).pubs.length = 1) ∧
    (dest ≠ .ok → (requeuer w tg dest m).settle = .nack) ∧ (requeuer w tg dest m).pubs.length ≤ 1 := by
  unfold requeuer
  cases w <;> cases tg <;> cases hd : dest <;> simp

/-- in the order of events of one consumed message the settlement is last: every publish precedes it -/
theorem settle_last (o : Out) (dest : POut) :
    ∃ pre, trace o dest = pre ++ [.settle o.settle] ∧ ∀ ev ∈ pre, ∀ s, ev ≠ .settle s := by
  refine ⟨_, rfl, ?_⟩
  intro ev hev s
  rcases List.mem_map.mp hev with ⟨p, _, rfl⟩
  simp

/-! ### message streams: neither lose nor invent -/

theorem stream_eq_map {α : Type} (f : α → POut → Out) (items : List (α × POut)) :
    stream f items = items.map (fun it => f it.1 it.2) := by
  induction items with
  | nil => rfl
  | cons it rest ih => rcases it with ⟨a, d⟩; simp [stream, ih]

/-- **for every stream, with destination failures at any positions**: what the destination accepted is, in order,
    exactly what was published for the acked messages – for any per-message function that is `Sound`-like:
    an accepted publish is acked, an ack with a publish means it was accepted. -/
theorem stream_accepted_eq_acked {α : Type} (f : α → POut → Out)
    (h1 : ∀ a d, d = .ok → (f a d).settle ≠ .ack → (f a d).pubs = [])
    (h2 : ∀ a d, d ≠ .ok → (f a d).settle = .ack → (f a d).pubs = [])
    (items : List (α × POut)) :
    accepted f items =
      (items.filter (fun it => (f it.1 it.2).settle == .ack)).flatMap (fun it => (f it.1 it.2).pubs) := by
  induction items with
  | nil => rfl
  | cons it rest ih =>
    rcases it with ⟨a, d⟩
    unfold accepted at ih ⊢
    simp only [List.filter_cons]
    by_cases hd : d = .ok
    · subst hd
      by_cases hs : (f a .ok).settle = .ack
      · simp [hs, ih]
      · have := h1 a .ok rfl hs
        simp [hs, ih, this]
    · have hb : (d == POut.ok) = false := by simpa using hd
      by_cases hs : (f a d).settle = .ack
      · have := h2 a d hd hs
        simp [hb, hs, ih, this]
      · simp [hb, hs, ih]

/-- instantiated: Forwarder (any flag, any mix of valid and invalid envelopes) and FanIn/FanOut handlers -/
theorem relay_streams (ack : Bool) (target : Str) :
    (∀ items : List (Parsed × POut), accepted (forwarder ack) items =
      (items.filter (fun it => (forwarder ack it.1 it.2).settle == .ack)).flatMap (fun it => (forwarder ack it.1 it.2).pubs)) ∧
    (∀ items : List (Msg × POut), accepted (passthrough target) items =
      (items.filter (fun it => (passthrough target it.1 it.2).settle == .ack)).flatMap (fun it => (passthrough target it.1 it.2).pubs)) := by
  constructor
  · intro items
    apply stream_accepted_eq_acked
    · intro p d hd hs
      cases hv : p.valid with
      | none => exact (invalid_envelope_never_forwarded ack p d hv).1
      | some e => exact absurd ((forwarder_relays ack p e d hv).2.mpr hd) hs
    · intro p d hd hs
      cases hv : p.valid with
      | none => exact (invalid_envelope_never_forwarded ack p d hv).1
      | some e => exact absurd ((forwarder_relays ack p e d hv).2.mp hs) hd
  · intro items
    apply stream_accepted_eq_acked
    · intro m d hd hs; exact absurd ((passthrough_relays target m d).2.mpr hd) hs
    · intro m d hd hs; exact absurd ((passthrough_relays target m d).2.mp hs) hd

/-- the Requeuer seen as a per-message relay function (input: wait-cancelled flag, topic generator result, message) -/
def rqRelay (a : Bool × TopicGen × Msg) (dest : POut) : Out :=
  ⟨(requeuer a.1 a.2.1 dest a.2.2).pubs.map (fun p => (p.1, [p.2])), (requeuer a.1 a.2.1 dest a.2.2).settle⟩

/-- the same for Requeuer streams (any mix of topic errors, cancelled waits, prior counters and destination failures) -/
theorem requeuer_streams (items : List ((Bool × TopicGen × Msg) × POut)) :
    accepted rqRelay items =
      (items.filter (fun it => (rqRelay it.1 it.2).settle == .ack)).flatMap (fun it => (rqRelay it.1 it.2).pubs) := by
  apply stream_accepted_eq_acked
  · intro a d hd hs
    rcases a with ⟨w, tg, m⟩
    cases w with
    | true => simp [rqRelay, requeuer]
    | false =>
      cases tg with
      | err => simp [rqRelay, requeuer]
      | ok t => exact absurd ((requeuer_settle false (.ok t) d m).mpr ⟨rfl, ⟨t, rfl⟩, hd⟩) hs
  · intro a d hd hs
    rcases a with ⟨w, tg, m⟩
    exact absurd ((requeuer_settle w tg d m).mp hs).2.2 hd

/-! ### non-vacuity -/

private def m1 : Msg := ⟨ascii "u1", ascii "data", [(ascii "k", ascii "v"), (retriesKey, ascii "+5")]⟩
private def e1 : Envelope := ⟨ascii "orders", ascii "u1", ascii "data", [(ascii "k", ascii "v")]⟩

example : priorCounter m1 = 5 ∧ priorCounter m1 < maxInt := by decide
example : (requeuer false (.ok (ascii "retry")) .ok m1).pubs =
    [(ascii "retry", ⟨ascii "u1", ascii "data", [(retriesKey, ascii "6"), (ascii "k", ascii "v")]⟩)] := by decide
example : (requeuer false (.ok (ascii "retry")) (.fail []) m1).settle = .nack := by decide
example : priorCounter ⟨[], [], [(retriesKey, ascii " 5")]⟩ = 0 ∧ priorCounter ⟨[], [], [(retriesKey, ascii "x")]⟩ = 0 ∧
    priorCounter ⟨[], [], [(retriesKey, ascii "9223372036854775808")]⟩ = 0 ∧ priorCounter ⟨[], [], []⟩ = 0 := by decide
example : priorCounter (requeueN (ascii "t") 3 ⟨[], [], []⟩) = 3 := by decide
example : (requeuerP false (budgetPolicy 3 (ascii "work") (ascii "dead")) .ok ⟨[], [], [(retriesKey, ascii "2")]⟩).pubs =
    [(ascii "work", ⟨[], [], [(retriesKey, ascii "3")]⟩)] := by decide
example : (requeuerP false (metaPolicy retriesKey) .ok ⟨[], [], [(retriesKey, ascii "7")]⟩).pubs =
    [(ascii "7", ⟨[], [], [(retriesKey, ascii "8")]⟩)] := by decide
example : (Parsed.env e1).valid = some e1 := by decide
example : (forwarder false (.env e1) .ok).pubs = [(ascii "orders", [⟨ascii "u1", ascii "data", [(ascii "k", ascii "v")]⟩])] := by decide
example : (Parsed.env { e1 with dest := [] }).valid = none ∧ Parsed.bad.valid = none := by decide
example : (forwarder true .bad (.fail [])).settle = .ack ∧ (forwarder false .bad .ok).settle = .nack := by decide
example : (FanInCfg.mk [ascii "a", ascii "b"] (ascii "t")).valid = true ∧ (FanInCfg.mk [ascii "a", ascii "t"] (ascii "t")).valid = false := by decide
example : (wrap (ascii "orders") m1).utf8 = true ∧ validUtf8 [0xE2, 0x82, 0xAC] = true ∧ validUtf8 [0xFF] = false ∧
    validUtf8 [0xED, 0xA0, 0x80] = false ∧ validUtf8 [0xC0, 0x80] = false := by decide
example : (fwdPublish [] (ascii "orders") [m1] .ok).calls = [(ascii "forwarder_topic", [wrap (ascii "orders") m1])] := by decide
example : accepted rqRelay [((false, .ok (ascii "t"), m1), .ok), ((false, .err, m1), .ok), ((false, .ok (ascii "t"), m1), .fail [])] =
    [(ascii "t", [⟨ascii "u1", ascii "data", [(retriesKey, ascii "6"), (ascii "k", ascii "v")]⟩])] := by decide
example : accepted (passthrough (ascii "t")) [(m1, .ok), (m1, .fail []), (m1, .ok)] = [(ascii "t", [m1]), (ascii "t", [m1])] := by decide

end Wm.Relay
