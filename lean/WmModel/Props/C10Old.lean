/-
  C10 – witnesses that the UNREPAIRED code violated the property (one repair of `Fix` switched off), as concrete runs
  checked by evaluation, next to the same schedule on the repaired model.
-/
import WmModel.Props.C10
namespace Wm.RouterLife
open Wm.Lts

/-- D7 (`close(startedCh)` preceded the assignment of `stopFn` / `stopped`): RunHandlers is between the two statements,
    Started() is closed, the caller's Stop() dereferences the nil `stopFn`: panic.  `Stopped()` is still nil. -/
def oldD7 : Fix := { allFixed with d7 := false }

theorem Old.started_before_stopfn_witness :
    ∃ s, exec (sys oldD7) init [.addHandler, .runCall, .runWatch, .runRh, .rhSub 0, .rhStep] = some s ∧
      (∃ y, s.hs[0]? = some y ∧ y.startedCh = true ∧ y.stopSet = false) ∧
      (∃ s', act oldD7 s (.stop 0) = some s' ∧ s'.panicked = true) :=
  ⟨_, rfl, ⟨_, rfl, by decide, by decide⟩, ⟨_, rfl, by decide⟩⟩

/-- the repaired order: after the first assignment step Started() is not closed yet (Stop is not offered); after the
    second, Stop works -/
example : ∃ s, exec (sys allFixed) init [.addHandler, .runCall, .runWatch, .runRh, .rhSub 0, .rhStep] = some s ∧
    act allFixed s (.stop 0) = none ∧
    (∃ s', exec (sys allFixed) s [.rhStep, .stop 0] = some s' ∧ s'.panicked = false) :=
  ⟨_, rfl, by decide, ⟨_, rfl, by decide⟩⟩

/-- D14 (`handlerAdded` unbuffered): Run on a router without handlers; the watcher goroutine has not reached its select
    when AddHandler does its non-blocking send – the token is dropped.  The handler runs, is stopped, ends; now every
    goroutine of the router is blocked: no step of the router is enabled, Run never returns. -/
def oldD14 : Fix := { allFixed with d14 := false }

def d14Run : List Action :=
  [.runCall, .runWatch, .runRh, .rhEnd, .runRunning, .addHandler, .watchArrive, .rhCall, .rhSub 0, .rhStep, .rhStep,
   .rhSpawn, .rhEnd, .stop 0, .hcCtx 0, .hcStop 0, .innerCtx 0, .pumpEnd 0, .loopEnd 0, .pubClose 0, .wgDone 0, .loopDelete 0]

theorem Old.watcher_lost_wakeup_witness :
    ∃ s, exec (sys oldD14) init d14Run = some s ∧ s.run = .waitClosing ∧ s.closed = false ∧ s.watch = .sel ∧
      s.hs.all (fun y => y.loop == .done) = true ∧
      (cands s).all (fun a => a.isEnv || (act oldD14 s a).isNone) = true :=
  ⟨_, rfl, by decide, by decide, by decide, by decide, by decide⟩

/-- with the buffered channel the same schedule goes on: the watcher takes the token, sees all handlers stopped, closes
    the router, Run returns nil -/
example : ∃ s, exec (sys allFixed) init (d14Run ++ [.watchTok, .watchZero, .watchCheck, .closeCL 0, .closeHL 0,
    .runCancelStep, .wLoops, .wLock, .wRunning, .closeDone 0, .runRet]) = some s ∧ s.run = .ret ∧ s.closeNil = true :=
  ⟨_, rfl, by decide, by decide⟩

/-- handlers registered BEFORE Run: the last one ends (its subscription closed by itself after Stop) and the router closes itself -/
example : ∃ s, exec (sys allFixed) init ([.addHandler, .runCall, .runWatch, .runRh, .rhSub 0, .rhStep, .rhStep, .rhSpawn,
    .rhEnd, .runRunning, .stop 0, .hcCtx 0, .hcStop 0, .innerCtx 0, .pumpEnd 0, .loopEnd 0, .pubClose 0, .wgDone 0,
    .loopDelete 0, .watchZero, .watchCheck, .closeCL 0, .closeHL 0, .runCancelStep, .wLoops, .wLock, .wRunning,
    .closeDone 0, .runRet]) = some s ∧ s.run = .ret ∧ s.closeNil = true ∧ s.closers = [.ret false] :=
  ⟨_, rfl, by decide, by decide, by decide⟩

/-- the Run context is cancelled: subscriptions end, loops end, the watcher closes the router, Run returns nil -/
example : ∃ s, exec (sys allFixed) init ([.addHandler, .runCall, .runWatch, .runRh, .rhSub 0, .rhStep, .rhStep, .rhSpawn,
    .rhEnd, .runRunning, .cancelExt, .innerCtx 0, .pumpEnd 0, .loopEnd 0, .pubClose 0, .wgDone 0, .hcCtx 0, .hcStop 0,
    .loopDelete 0, .watchZero, .watchCheck, .closeCL 0, .closeHL 0, .runCancelStep, .wLoops, .wLock, .wRunning,
    .closeDone 0, .runRet]) = some s ∧ s.run = .ret ∧ s.closeNil = true :=
  ⟨_, rfl, by decide, by decide⟩

end Wm.RouterLife
