/-
  C07 end to end on the composition M_prod (GcProd.lean): "after Close has returned every output channel is closed".
  For an arbitrary subscription `me`: once any Close call has returned, the subscription's M_sub instance (if the
  subscriber object was ever created) is closed and its output channel is closed – because Close waits for the
  unsubscribe goroutine of `me` (M_reg: `after_close_returned`), and that goroutine goes on to `removeSubscriber` only after
  `s.Close()` is through in M_sub (`TdLink`).  Exactly once and without panic are M_sub's `outchan_closed_at_most_once` /
  `never_panics`, which hold in the product by the composition lemma.
-/
import WmModel.Lemmas.GcProdTdStep
import WmModel.Props.C07Close
import WmModel.Props.C05Prod
namespace Wm.GcProd
open Wm Wm.Lts

theorem reach_tdlink (me cap : Nat) (cfg : GcReg.Cfg) : ∀ s, Reach (sys me cap cfg) s → TdLink me s :=
  inv_of_step' (sys me cap cfg) (TdLink me) (tl_init me cfg)
    (fun s a s' hr h ha => tdlink_step me cap cfg s s' a hr (reach_link me cap cfg s hr) h ha)

/-- **after Close has returned every output channel is closed** -/
theorem after_close_channel_closed (me cap : Nat) (cfg : GcReg.Cfg) (s : St) (h : Reach (sys me cap cfg) s)
    (i : Nat) (hi : s.reg.ths[i]? = some (.closer .ret)) (q : GcSub.St) (hq : s.sub = some q) :
    q.closed = true ∧ q.chanClosed = true ∧ q.td = .done ∧ q.panicked = false := by
  have hr := reach_reg me cap cfg s h
  have hsubr := reach_sub me cap cfg s h q hq
  obtain ⟨_, _, _, _, hnd, _⟩ := GcReg.after_close_returned cfg s.reg hr i hi
  obtain ⟨j, t, pc, hj⟩ := (reach_tdlink me cap cfg s h).1 (by rw [hq]; rfl)
  have hdone : pc = .done := by
    have := hnd j _ hj
    cases pc <;> simp [GcReg.needsDone] at this
    rfl
  subst hdone
  obtain ⟨q2, hq2, hc⟩ := (reach_tdlink me cap cfg s h).2 j t .done hj rfl
  rw [hq] at hq2; injection hq2 with hq2; subst hq2
  have hctl := GcSub.reach_ctl cap q hsubr
  exact ⟨hc, by rw [hctl.2.2.2.1]; exact hc, hctl.2.2.1.mp hc, hctl.1⟩

/-- non-vacuity: subscribe, close the Pub/Sub, the unsubscribe goroutine closes the subscription in M_sub and removes it,
    Close returns – the hypotheses of `after_close_channel_closed` are met and the channel is closed -/
def closeRun : List Action :=
  [.reg (.newSub 0), .reg (.step 0), .reg (.step 0), .reg (.step 0), .reg (.step 0), .reg (.step 0), .reg (.step 0),
   .reg .newClose, .reg (.step 2),
   .reg (.step 1), .sub .tdStart, .sub .tdLock, .sub .tdClose,
   .reg (.step 1), .reg (.step 1), .reg (.step 1), .reg (.step 1), .reg (.step 1), .reg (.step 2)]

theorem close_witness :
    ∃ s q, exec (sys 0 1 ⟨false, false⟩) (init ⟨false, false⟩) closeRun = some s ∧ s.sub = some q ∧
      s.reg.ths[2]? = some (.closer .ret) ∧ q.chanClosed = true ∧ s.reg.subs = [] := by
  refine ⟨_, _, rfl, rfl, ?_, ?_, ?_⟩ <;> decide

/-- … and the unsubscribe goroutine cannot get past `s.Close()` while M_sub has not closed the subscription -/
theorem close_waits_for_msub :
    ∃ s, exec (sys 0 1 ⟨false, false⟩) (init ⟨false, false⟩) (closeRun.take 10) = some s ∧
      act 0 1 s (.reg (.step 1)) = none ∧ (GcReg.act s.reg (.step 1)).isSome = true := by
  refine ⟨_, rfl, ?_, ?_⟩ <;> decide

end Wm.GcProd
