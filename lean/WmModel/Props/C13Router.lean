/-
  C13 – the Router's settle rule used by the poison-queue theorems (`Wm.Poison.routerSettle`, a hand-written restatement
  of C02) is *derived* from the model of `handler.handleMessage` (WmModel/Handle.lean, tied to the Go source by
  `Props/C02Tie.lean`) and the first-wins settlement model of C03: for every result `o` of the poison middleware,
  every handler configuration with a publisher, every verdict of the handler's publisher on the outputs and every
  kind of message, the settlement the subscriber sees after `handleMessage` is `routerSettle o okp`
  (`routerSettle_eq_handle`).  So `acked_implies_handled_or_poisoned` and its companions speak about the settlement
  the tied `handleMessage` really produces (`acked_by_handleMessage_implies_handled_or_poisoned`).
-/
import WmModel.Poison
import WmModel.Props.C13
import WmModel.Props.C02
namespace Wm.Poison
open Wm.Handle (Cfg Outcome Result PubOutcome handle sentAfter AckCond final_settlement)

/-- how the middleware's result looks to `handleMessage`: a panic of the poison publisher propagates (the chain panics),
    a returned error is an error, otherwise the outputs are returned -/
def toOutcome (o : Out) : Outcome Msg :=
  match o.err with
  | some (.panicked _) => ⟨none, .panics .value⟩
  | some _             => ⟨none, .returns o.outs true⟩
  | none               => ⟨none, .returns o.outs false⟩

/-- the verdict of the handler's own publisher on the outputs -/
def pubOf (okp : Bool) : PubOutcome := if okp then .accept else .error

def Settle.toSent : Settle → Ack.Sent
  | .ack => .ack
  | .nack => .nack

/-- **the settle rule is the one of `handleMessage`** (also when the handler's publisher panics instead of refusing:
    `routerSettle_eq_handle_panic`) -/
theorem routerSettle_eq_handle (k : Ack.Kind) (c : Cfg) (hc : c.kind = .withPub) (o : Out) (okp : Bool) :
    sentAfter k (handle c (toOutcome o) (pubOf okp)) = (routerSettle o okp).toSent := by
  have hfs := final_settlement k c (toOutcome o).result (pubOf okp)
  have hoc : toOutcome o = ⟨none, (toOutcome o).result⟩ := by
    unfold toOutcome; split <;> rfl
  rw [hoc]
  by_cases hA : AckCond c ⟨none, (toOutcome o).result⟩ (pubOf okp)
  · rw [hfs.1.2 hA]
    obtain ⟨outs, h1, h2⟩ := hA
    unfold toOutcome at h1
    unfold routerSettle
    cases he : o.err with
    | some e => cases e <;> simp [he] at h1
    | none =>
      simp [he] at h1
      subst h1
      rcases h2 with h2 | ⟨_, h2⟩
      · simp [h2, Settle.toSent]
      · have : okp = true := by cases okp <;> simp [pubOf] at h2 ⊢
        simp [this, Settle.toSent]
  · rw [hfs.2.2 hA]
    unfold routerSettle
    cases he : o.err with
    | some e => simp [Settle.toSent]
    | none =>
      have hne : ¬ (o.outs = [] ∨ (c.kind = .withPub ∧ pubOf okp = .accept)) := by
        intro h
        apply hA
        refine ⟨o.outs, ?_, h⟩
        simp [toOutcome, he]
      have h1 : o.outs ≠ [] := fun h => hne (Or.inl h)
      have h2 : okp = false := by
        cases okp with
        | false => rfl
        | true => exact absurd (Or.inr ⟨hc, rfl⟩) hne
      simp [h1, h2, Settle.toSent]

/-- a handler's publisher that panics on the outputs: Nack, as when it refuses them -/
theorem routerSettle_eq_handle_panic (k : Ack.Kind) (c : Cfg) (o : Out) (hne : o.outs ≠ []) :
    sentAfter k (handle c (toOutcome o) .panic) = .nack := by
  have hfs := final_settlement k c (toOutcome o).result .panic
  have hoc : toOutcome o = ⟨none, (toOutcome o).result⟩ := by
    unfold toOutcome; split <;> rfl
  rw [hoc]
  apply hfs.2.2
  rintro ⟨outs, h1, h2⟩
  unfold toOutcome at h1
  cases he : o.err with
  | some e => cases e <;> simp [he] at h1
  | none =>
    simp [he] at h1
    subst h1
    rcases h2 with h2 | ⟨_, h2⟩
    · exact hne h2
    · cases h2

/-- **C13's central clause on the tied `handleMessage` model**: if the subscriber sees an Ack after `handleMessage` ran
    the poison middleware's result, the handler succeeded or the message (same uuid and payload) was accepted by the
    poison publisher on the poison topic -/
theorem acked_by_handleMessage_implies_handled_or_poisoned (ptopic : Str) (filter : HErr → Bool) (pub : POut) (c : Ctx)
    (msg : Msg) (h : HRes) (k : Ack.Kind) (cfg : Cfg) (hc : cfg.kind = .withPub) (okp : Bool)
    (hack : sentAfter k (handle cfg (toOutcome (middleware ptopic filter pub c msg h)) (pubOf okp)) = .ack) :
    h.err = none ∨
    ∃ e m', h.err = some e ∧ filter e = true ∧ pub = .ok ∧
      (middleware ptopic filter pub c msg h).pubs = [(ptopic, m')] ∧ m'.uuid = msg.uuid ∧ m'.payload = msg.payload := by
  apply acked_implies_handled_or_poisoned ptopic filter pub c msg h okp
  rw [routerSettle_eq_handle k cfg hc] at hack
  cases hs : routerSettle (middleware ptopic filter pub c msg h) okp with
  | ack => rfl
  | nack => rw [hs] at hack; cases hack

/-! ### non-vacuity -/
example : sentAfter .new (handle ⟨.withPub, "out"⟩
    (toOutcome (middleware (ascii "poison") (fun _ => true) .ok default default ⟨[], [], some (.plain (ascii "boom") false)⟩))
    (pubOf true)) = .ack := by decide
example : sentAfter .new (handle ⟨.withPub, "out"⟩
    (toOutcome (middleware (ascii "poison") (fun _ => true) (.fail (ascii "down")) default default
      ⟨[], [], some (.plain (ascii "boom") false)⟩)) (pubOf true)) = .nack := by decide

end Wm.Poison
