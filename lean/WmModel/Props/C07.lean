/-
  C07 – GoChannel Close and subscription cancel always terminate safely: the per-subscription clauses as theorems
  over every reachable state of M_sub (an unread channel, an unsettled message, a Nack in progress, any number of
  queued senders, cancel and Pub/Sub close at any point, every interleaving).
  `never_panics`, `close_flags_consistent`, `holder_can_leave_when_closing` are in Props/C05.lean (same model).
  Data-race freedom and "no goroutine remains" are runtime facts: race detector + goroutine census in the harness.
-/
import WmModel.Props.C05
namespace Wm.GcSub
open Wm.Lts

/-- the steps of the close protocol that need no consumer and no publisher -/
def closeStep (a : Action) : Bool :=
  a == .tdStart || a == .tdLock || a == .tdClose || a == .sCheck || a == .sTop || a == .sSendClosing || a == .sObsClosing

/-- **cancel / Close never gets stuck**: once the context is cancelled or the Pub/Sub is closing, as long as the
    subscription's teardown has not finished, one of its own steps is enabled – whatever the consumer does or does
    not do (unread channel, unsettled message), whatever senders are queued -/
theorem close_progress (cap : Nat) (s : St) (h : Reach (sys cap) s) (hsig : s.ctxDone = true ∨ s.gClosing = true)
    (hnd : s.td ≠ .done) : ∃ a, closeStep a = true ∧ (act s a).isSome = true := by
  have hc := reach_ctl cap s h
  obtain ⟨_, h2, h3, h4, h5, _⟩ := hc
  cases htd : s.td with
  | done => exact absurd htd hnd
  | waiting =>
    have hcl : s.closing = false := by
      cases hx : s.closing with
      | false => rfl
      | true => exact absurd htd (h2.mp hx)
    have hcd : s.closed = false := by
      cases hx : s.closed with
      | false => rfl
      | true => rw [h3.mp hx] at htd; cases htd
    refine ⟨.tdStart, rfl, ?_⟩
    rcases hsig with hs | hs <;> simp [act, htd, hs, hcl, hcd]
  | wantLock =>
    have hcl : s.closing = true := h2.mpr (by rw [htd]; decide)
    cases hh : s.holder with
    | free => exact ⟨.tdLock, rfl, by simp [act, htd, hh]⟩
    | closer => rw [h5.mp hh] at htd; cases htd
    | sender p pc c =>
      obtain ⟨a, ha, hen⟩ := holder_can_leave_when_closing cap s h hcl p c pc hh
      refine ⟨a, ?_, hen⟩
      rcases ha with ha | ha | ha | ha <;> subst ha <;> rfl
  | locked =>
    have hcc : s.chanClosed = false := by
      rw [h4]
      cases hx : s.closed with
      | false => rfl
      | true => rw [h3.mp hx] at htd; cases htd
    exact ⟨.tdClose, rfl, by simp [act, htd, hcc]⟩

/-- **the output channel is closed exactly once**: in every run the closing step happens at most once
    (a second one would be a panic, which `never_panics` excludes; this bounds the step itself) -/
theorem outchan_closed_at_most_once (cap : Nat) (run : List Action) (s' : St)
    (h : exec (sys cap) (init cap) run = some s') : (run.filter (· == .tdClose)).length ≤ 1 := by
  have := steps_bounded_reach (sys cap) (fun s => if s.td = .done then 0 else 1) (· == .tdClose)
    (by
      intro s a s' hr ha hp
      simp at hp; subst hp
      obtain ⟨_, _, h3, h4, _, _⟩ := reach_ctl cap s hr
      simp only [sys, act] at ha
      split at ha
      · rename_i htd
        have hcc : s.chanClosed = false := by
          rw [h4]
          cases hx : s.closed with
          | false => rfl
          | true => rw [h3.mp hx] at htd; cases htd
        simp [hcc] at ha; subst ha; simp [htd]
      · simp at ha)
    (by
      intro s a s' _ ha _
      cases a <;> simp only [sys, act] at ha
      all_goals (repeat' split at ha)
      all_goals (try (simp at ha))
      all_goals (try subst ha)
      all_goals (simp_all [exitSender])
      all_goals (try (split <;> simp_all)))
    run (init cap) s' Reach.init h
  simp [init] at this
  omega

/-- after the teardown finished the channel is closed and stays closed; nothing is sent on it any more -/
theorem closed_is_final (cap : Nat) (s : St) (h : Reach (sys cap) s) (hd : s.td = .done) :
    s.chanClosed = true ∧ act s .sSend = none := by
  obtain ⟨_, _, h3, h4, _, h6⟩ := reach_ctl cap s h
  have hcl : s.closed = true := h3.mpr hd
  refine ⟨by rw [h4]; exact hcl, ?_⟩
  have hp := h6 hd
  cases hh : s.holder with
  | free => simp [act, hh]
  | closer => simp [act, hh]
  | sender p pc c =>
    rw [hh] at hp
    cases pc <;> simp [pastCheck] at hp
    simp [act, hh]

/-! non-vacuity: cancel while a message is unsettled and another sender is queued; the teardown completes without the consumer -/
example : ∃ s, exec (sys 1) (init 1) [.spawn, .spawn, .sLock 0, .sCheck, .sTop, .sSend, .recv, .cancel, .tdStart,
    .sObsClosing, .sLock 0, .sCheck, .tdLock, .tdClose] = some s ∧ s.td = .done ∧ s.chanClosed = true ∧
    Unsettled s 0 ∧ s.exits = [(0, .closing), (1, .closing)] :=
  ⟨_, rfl, by decide, by decide, ⟨⟨0, true, true, .none⟩, by decide, rfl, rfl⟩, by decide⟩

end Wm.GcSub
