/-
  C04 – GoChannel delivers every published message to every current subscriber: the per-subscription
  clauses, as theorems over every reachable state of M_sub (WmModel/GcSub.lean): redelivery only after a
  Nack, each delivery a new copy, the copy's context alive while it is unsettled.
  The registry-level clauses (which subscriptions get a sender; no cross-topic delivery) are in Props/C11.lean
  (M_topic) and in the monitors run on recorded executions.
-/
import WmModel.Lemmas.GcSubRedInv
import WmModel.Props.C05
namespace Wm.GcSub
open Wm.Lts

theorem reach_red (cap : Nat) : ∀ s, Reach (sys cap) s → RedOk s :=
  inv_of_step (sys cap) RedOk (red_init cap) (fun s a s' h ha => red_step s a s' h ha)

/-- **a subscription sees a published message again only after it nacked the previous delivery of it**:
    of any two copies made for one publication, the earlier one is nacked (in every reachable state, so in
    particular at the moment the later copy is created, before it can be delivered) -/
theorem redelivery_only_after_nack (cap : Nat) (s : St) (h : Reach (sys cap) s) (i j : Nat) (ci cj : Copy)
    (hij : i < j) (hi : s.copies[i]? = some ci) (hj : s.copies[j]? = some cj) (hp : ci.pub = cj.pub) :
    ci.settle = .nack :=
  (reach_red cap s h).1 i j ci cj hij hi hj hp

/-- at most one copy of a publication is not nacked (so at most one can ever be acked) -/
theorem at_most_one_live_copy (cap : Nat) (s : St) (h : Reach (sys cap) s) (i j : Nat) (ci cj : Copy)
    (hi : s.copies[i]? = some ci) (hj : s.copies[j]? = some cj) (hp : ci.pub = cj.pub)
    (hni : ci.settle ≠ .nack) (hnj : cj.settle ≠ .nack) : i = j := by
  rcases Nat.lt_trichotomy i j with hlt | heq | hgt
  · exact absurd (redelivery_only_after_nack cap s h i j ci cj hlt hi hj hp) hni
  · exact heq
  · exact absurd (redelivery_only_after_nack cap s h j i cj ci hgt hj hi hp.symm) hnj

/-- **each delivery is a separate copy**: the step that prepares a delivery appends a new copy object
    (unsettled, undelivered) and never reuses an earlier one -/
theorem delivery_uses_fresh_copy (s s' : St) (p c0 : Nat) (hh : s.holder = .sender p .top c0)
    (hc : s.closed = false) (ha : act s .sTop = some s') :
    s'.copies = s.copies ++ [⟨p, false, false, .none⟩] ∧ s'.holder = .sender p .sendSel s.copies.length := by
  simp [act, hh, hc] at ha
  subst ha
  exact ⟨rfl, rfl⟩

/-- **the copy's context is live on receipt and cancelled only after the sender saw the settlement**:
    while a delivered copy is unsettled and the subscription is not closing, the sender that made it is still
    inside `sendMessageToSubscriber` waiting for exactly this copy – its deferred `cancelCtx` has not run -/
theorem unsettled_copy_has_live_sender (cap : Nat) (s : St) (h : Reach (sys cap) s) (c : Nat)
    (hu : Unsettled s c) (hcl : s.closing = false) : ∃ p, s.holder = .sender p .waitSettle c := by
  rcases unsettled_is_owned cap s h c hu with hh | ⟨h1, _⟩
  · exact hh
  · rw [hcl] at h1; cases h1

/-- **keeps receiving it after every Nack until it Acks**: a sender that observes a Nack goes back to the loop
    head (it does not leave), and from the loop head the only way out is a closed subscription -/
theorem nack_means_resend (s s' : St) (ha : act s .sObsNack = some s') :
    ∃ p c, s.holder = .sender p .waitSettle c ∧ s'.holder = .sender p .top c ∧ s'.exits = s.exits := by
  simp only [act] at ha
  split at ha
  · rename_i p c hh
    split at ha
    · split at ha
      · simp at ha; subst ha; exact ⟨p, c, hh, rfl, rfl⟩
      · simp at ha
    · simp at ha
  · simp at ha

/-! non-vacuity: nack, then a second copy of the same publication, then ack -/
example : ∃ s, exec (sys 0) (init 0) [.spawn, .sLock 0, .sCheck, .sTop, .sSend, .settle 0 .nack, .sObsNack, .sTop, .sSend,
    .settle 1 .ack, .sObsAck] = some s ∧ s.copies.length = 2 ∧ s.exits = [(0, .acked)] := ⟨_, rfl, by decide, by decide⟩

end Wm.GcSub
