/-
  C01 – the safety half of the per-stage hypothesis H2 of the pipeline model ("a token leaves a subscription only by the
  Ack of a copy the consumer received; a Nack puts it back to pending") is *derived* from M_sub (WmModel/GcSub.lean), the
  model of one GoChannel subscription that is tied to the code by trace conformance (GcConf.lean) on every run.

  For a publication `p` handed to the subscription, its token in the pipeline model is read off the M_sub state:
     gone      – some copy of `p` is acked                                   (`Acked s p`)
     handling  – no copy acked, some copy received and not yet settled       (`InHand s p`)
     pending   – neither: the sender is queued / preparing a copy / the copy sits in the channel / the last copy was
                 nacked and the sender is on its way back to the loop head
  `sub_step_refines_token`: EVERY step of M_sub (all 16 actions, from ANY state – no reachability needed) moves that token
  only along the edges the pipeline model has: pending → handling (`deliver`), handling → pending (`fault`, and only by the
  consumer's Nack), handling → gone (`publishOk; ack`, and only by the consumer's Ack), or not at all.  In particular a
  token never disappears without having been handled, and never comes back once acked.
  The liveness half (after a Nack a new copy really is delivered) is `nack_means_resend` + `always has an enabled step`
  (Props/C04.lean, Props/C07.lean).
-/
import WmModel.GcSub
import WmModel.Pipeline
namespace Wm.GcSub
open Wm.Ack (Sent)
open Wm.Pipeline (Phase)

def Acked (s : St) (p : Nat) : Prop := ∃ (i : Nat) (cp : Copy), s.copies[i]? = some cp ∧ cp.pub = p ∧ cp.settle = Sent.ack
def InHand (s : St) (p : Nat) : Prop :=
  ∃ (i : Nat) (cp : Copy), s.copies[i]? = some cp ∧ cp.pub = p ∧ cp.received = true ∧ cp.settle = Sent.none

/-- the token of publication `p` at this subscription, as the pipeline model sees it (`none` = removed) -/
def TokIs (s : St) (p : Nat) : Option Phase → Prop
  | none             => Acked s p
  | some .handling   => ¬ Acked s p ∧ InHand s p
  | some .pending    => ¬ Acked s p ∧ ¬ InHand s p
  | some .published  => False      -- a subscription of GoChannel has no such phase: `published` belongs to the Router stage

/-- the moves of one token in `Wm.Pipeline.act`, seen from one subscription -/
inductive TokMove : Option Phase → Option Phase → Prop
  | same (a) : TokMove a a
  | deliver  : TokMove (some .pending) (some .handling)
  | nack     : TokMove (some .handling) (some .pending)
  | ack      : TokMove (some .handling) none

theorem tokIs_total (s : St) (p : Nat) : ∃ a, TokIs s p a := by
  by_cases h1 : Acked s p
  · exact ⟨none, h1⟩
  · by_cases h2 : InHand s p
    · exact ⟨some .handling, h1, h2⟩
    · exact ⟨some .pending, h1, h2⟩

theorem tokIs_unique (s : St) (p : Nat) (a b : Option Phase) (ha : TokIs s p a) (hb : TokIs s p b) : a = b := by
  cases a with
  | none => cases b with
    | none => rfl
    | some y => cases y <;> simp [TokIs] at ha hb <;> exact absurd ha hb.1
  | some x => cases b with
    | none => cases x <;> simp [TokIs] at ha hb <;> exact absurd hb ha.1
    | some y => cases x <;> cases y <;> simp_all [TokIs]

/-- how one step changes the list of copies -/
inductive CopiesStep (s s' : St) (a : Action) : Prop
  | unchanged (h : s'.copies = s.copies)
  | fresh (p : Nat) (h : s'.copies = s.copies ++ [⟨p, false, false, .none⟩])
  | handedOver (c : Nat) (f : Copy → Copy) (hf : ∀ cp, (f cp).pub = cp.pub ∧ (f cp).settle = cp.settle ∧
        (cp.received = true → (f cp).received = true)) (ha : a = .sSend ∨ a = .recv)
      (h : s'.copies = s.copies.modify c f)
  | settled (c : Nat) (v : Sent) (cp : Copy) (ha : a = .settle c v) (hv : v ≠ .none) (hc : s.copies[c]? = some cp)
      (hr : cp.received = true)
      (h : s'.copies = s.copies.modify c (fun cp => { cp with settle := if cp.settle = .none then v else cp.settle }))

theorem copies_step (s s' : St) (a : Action) (h : act s a = some s') : CopiesStep s s' a := by
  cases a with
  | spawn => simp [act] at h; subst h; exact .unchanged rfl
  | sLock k =>
    simp only [act] at h
    split at h
    · simp at h; subst h; exact .unchanged rfl
    · simp at h
  | sCheck =>
    simp only [act] at h
    split at h
    · split at h <;> (simp [exitSender] at h; subst h; exact .unchanged rfl)
    · simp at h
  | sTop =>
    simp only [act] at h
    split at h
    · rename_i p _ _
      split at h
      · simp [exitSender] at h; subst h; exact .unchanged rfl
      · simp at h; subst h; exact .fresh p rfl
    · simp at h
  | sSend =>
    simp only [act] at h
    split at h
    · rename_i p c _
      split at h
      · split at h
        · simp at h; subst h; exact .unchanged rfl
        · simp at h; subst h
          exact .handedOver c (fun cp => { cp with delivered := true, received := true })
            (fun cp => ⟨rfl, rfl, fun _ => rfl⟩) (Or.inl rfl) rfl
      · split at h
        · split at h
          · simp at h; subst h; exact .unchanged rfl
          · simp at h; subst h
            exact .handedOver c (fun cp => { cp with delivered := true })
              (fun cp => ⟨rfl, rfl, fun hr => hr⟩) (Or.inl rfl) rfl
        · simp at h
    · simp at h
  | sSendClosing =>
    simp only [act] at h
    split at h
    · split at h
      · simp [exitSender] at h; subst h; exact .unchanged rfl
      · simp at h
    · simp at h
  | sObsAck =>
    simp only [act] at h
    split at h
    · split at h
      · split at h
        · simp [exitSender] at h; subst h; exact .unchanged rfl
        · simp at h
      · simp at h
    · simp at h
  | sObsNack =>
    simp only [act] at h
    split at h
    · split at h
      · split at h
        · simp at h; subst h; exact .unchanged rfl
        · simp at h
      · simp at h
    · simp at h
  | sObsClosing =>
    simp only [act] at h
    split at h
    · split at h
      · simp [exitSender] at h; subst h; exact .unchanged rfl
      · simp at h
    · simp at h
  | recv =>
    simp only [act] at h
    split at h
    · rename_i c rest _
      simp at h; subst h
      exact .handedOver c (fun cp => { cp with received := true }) (fun cp => ⟨rfl, rfl, fun _ => rfl⟩) (Or.inr rfl) rfl
    · simp at h
  | settle c v =>
    simp only [act] at h
    split at h
    · rename_i cp hc
      split at h
      · rename_i hg
        simp at h; subst h
        simp at hg
        exact .settled c v cp rfl (by intro hv; exact hg.2 hv) hc hg.1 rfl
      · simp at h
    · simp at h
  | cancel => simp [act] at h; subst h; exact .unchanged rfl
  | gClose => simp [act] at h; subst h; exact .unchanged rfl
  | tdStart =>
    simp only [act] at h
    split at h
    · split at h
      · simp at h; subst h; exact .unchanged rfl
      · split at h <;> (simp at h; subst h; exact .unchanged rfl)
    · simp at h
  | tdLock =>
    simp only [act] at h
    split at h
    · split at h
      · simp at h; subst h; exact .unchanged rfl
      · simp at h
    · simp at h
  | tdClose =>
    simp only [act] at h
    split at h
    · split at h <;> (simp at h; subst h; exact .unchanged rfl)
    · simp at h

private theorem get_modify {f : Copy → Copy} (l : List Copy) (c i : Nat) (x : Copy)
    (h : (l.modify c f)[i]? = some x) : ∃ y, l[i]? = some y ∧ x = (if c = i then f y else y) := by
  rw [List.getElem?_modify] at h
  cases hl : l[i]? with
  | none => rw [hl] at h; simp at h
  | some y => rw [hl] at h; simp at h; exact ⟨y, rfl, h.symm⟩

private theorem modify_get {f : Copy → Copy} (l : List Copy) (c i : Nat) (y : Copy) (h : l[i]? = some y) :
    (l.modify c f)[i]? = some (if c = i then f y else y) := by
  rw [List.getElem?_modify, h]; rfl

/-- **acked stays acked** -/
theorem acked_mono (s s' : St) (a : Action) (h : act s a = some s') (p : Nat) (hp : Acked s p) : Acked s' p := by
  obtain ⟨i, cp, hi, h1, h2⟩ := hp
  cases copies_step s s' a h with
  | unchanged hc => exact ⟨i, cp, by rw [hc]; exact hi, h1, h2⟩
  | fresh q hc =>
    refine ⟨i, cp, ?_, h1, h2⟩
    rw [hc, List.getElem?_append_left]; exact hi
    rcases Nat.lt_or_ge i s.copies.length with hl | hl
    · exact hl
    · rw [List.getElem?_eq_none hl] at hi; cases hi
  | handedOver c f hf _ hc =>
    refine ⟨i, _, by rw [hc]; exact modify_get _ c i cp hi, ?_, ?_⟩
    · split
      · rw [(hf cp).1]; exact h1
      · exact h1
    · split
      · rw [(hf cp).2.1]; exact h2
      · exact h2
  | settled c v cp0 _ _ _ _ hc =>
    refine ⟨i, _, by rw [hc]; exact modify_get _ c i cp hi, ?_, ?_⟩
    · split <;> exact h1
    · split
      · simp [h2]
      · exact h2

/-- **a token is removed only out of `handling`, and only by the consumer's Ack of a received copy** -/
theorem ack_only_from_hand (s s' : St) (a : Action) (h : act s a = some s') (p : Nat)
    (hn : ¬ Acked s p) (hp : Acked s' p) : InHand s p ∧ ∃ c, a = .settle c .ack := by
  obtain ⟨i, x, hi, h1, h2⟩ := hp
  cases copies_step s s' a h with
  | unchanged hc => exact absurd ⟨i, x, by rw [← hc]; exact hi, h1, h2⟩ hn
  | fresh q hc =>
    rw [hc] at hi
    rcases Nat.lt_or_ge i s.copies.length with hl | hl
    · rw [List.getElem?_append_left hl] at hi
      exact absurd ⟨i, x, hi, h1, h2⟩ hn
    · rw [List.getElem?_append_right hl] at hi
      cases hk : i - s.copies.length with
      | zero => rw [hk] at hi; simp at hi; subst hi; cases h2
      | succ k => rw [hk] at hi; simp at hi
  | handedOver c f hf _ hc =>
    rw [hc] at hi
    obtain ⟨y, hy, hx⟩ := get_modify _ c i x hi
    refine absurd ⟨i, y, hy, ?_, ?_⟩ hn
    · rw [← h1, hx]; split
      · exact ((hf y).1).symm
      · rfl
    · rw [← h2, hx]; split
      · exact ((hf y).2.1).symm
      · rfl
  | settled c v cp0 ha hv hc0 hr hc =>
    rw [hc] at hi
    obtain ⟨y, hy, hx⟩ := get_modify _ c i x hi
    by_cases hci : c = i
    · subst hci
      rw [hc0] at hy; cases hy
      simp at hx
      by_cases hs : cp0.settle = .none
      · simp [hs] at hx
        have hv' : v = .ack := by rw [hx] at h2; exact h2
        refine ⟨⟨c, cp0, hc0, ?_, hr, hs⟩, c, by rw [ha, hv']⟩
        rw [hx] at h1; exact h1
      · simp [hs] at hx
        subst hx
        exact absurd ⟨c, _, hc0, h1, h2⟩ hn
    · simp [hci] at hx
      subst hx
      exact absurd ⟨i, _, hy, h1, h2⟩ hn

/-- **a token leaves `handling` only by a settlement of the consumer** (Ack: gone; Nack: pending again) -/
theorem hand_left_only_by_settle (s s' : St) (a : Action) (h : act s a = some s') (p : Nat)
    (hp : InHand s p) (hn : ¬ InHand s' p) : ∃ c v, a = .settle c v ∧ v ≠ .none := by
  obtain ⟨i, x, hi, h1, h2, h3⟩ := hp
  cases copies_step s s' a h with
  | unchanged hc => exact absurd ⟨i, x, by rw [hc]; exact hi, h1, h2, h3⟩ hn
  | fresh q hc =>
    refine absurd ⟨i, x, ?_, h1, h2, h3⟩ hn
    rw [hc, List.getElem?_append_left]; exact hi
    rcases Nat.lt_or_ge i s.copies.length with hl | hl
    · exact hl
    · rw [List.getElem?_eq_none hl] at hi; cases hi
  | handedOver c f hf _ hc =>
    refine absurd ⟨i, _, by rw [hc]; exact modify_get _ c i x hi, ?_, ?_, ?_⟩ hn
    · split
      · rw [(hf x).1]; exact h1
      · exact h1
    · split
      · exact (hf x).2.2 h2
      · exact h2
    · split
      · rw [(hf x).2.1]; exact h3
      · exact h3
  | settled c v cp0 ha hv _ _ _ => exact ⟨c, v, ha, hv⟩

/-- **a token enters `handling` only by a delivery**: the consumer took a copy from the channel (`recv`) or the sender
    handed it over directly (`sSend`, unbuffered channel) -/
theorem hand_entered_only_by_delivery (s s' : St) (a : Action) (h : act s a = some s') (p : Nat)
    (hn : ¬ InHand s p) (hp : InHand s' p) : a = .sSend ∨ a = .recv := by
  obtain ⟨i, x, hi, h1, h2, h3⟩ := hp
  cases copies_step s s' a h with
  | unchanged hc => exact absurd ⟨i, x, by rw [← hc]; exact hi, h1, h2, h3⟩ hn
  | fresh q hc =>
    rw [hc] at hi
    rcases Nat.lt_or_ge i s.copies.length with hl | hl
    · rw [List.getElem?_append_left hl] at hi
      exact absurd ⟨i, x, hi, h1, h2, h3⟩ hn
    · rw [List.getElem?_append_right hl] at hi
      cases hk : i - s.copies.length with
      | zero => rw [hk] at hi; simp at hi; subst hi; cases h2
      | succ k => rw [hk] at hi; simp at hi
  | handedOver c f hf ha hc => exact ha
  | settled c v cp0 ha hv hc0 hr hc =>
    rw [hc] at hi
    obtain ⟨y, hy, hx⟩ := get_modify _ c i x hi
    by_cases hci : c = i
    · subst hci
      rw [hc0] at hy; cases hy
      simp at hx
      by_cases hs : cp0.settle = .none
      · simp [hs] at hx; rw [hx] at h3; simp at h3; exact absurd h3 hv
      · simp [hs] at hx; subst hx; exact absurd h3 hs
    · simp [hci] at hx
      subst hx
      exact absurd ⟨i, _, hy, h1, h2, h3⟩ hn

/-- **H2 (safety) derived: every step of a GoChannel subscription moves the token of every publication only along the
    edges of the pipeline model** – for all 16 actions, all buffer sizes, all states -/
theorem sub_step_refines_token (s s' : St) (a : Action) (h : act s a = some s') (p : Nat)
    (x y : Option Phase) (hx : TokIs s p x) (hy : TokIs s' p y) : TokMove x y := by
  cases x with
  | none =>
    have := acked_mono s s' a h p hx
    cases y with
    | none => exact .same _
    | some y => cases y <;> simp [TokIs] at hy <;> exact absurd this hy.1
  | some x =>
    cases x with
    | published => cases hx
    | handling =>
      cases y with
      | none => exact .ack
      | some y => cases y with
        | published => cases hy
        | handling => exact .same _
        | pending => exact .nack
    | pending =>
      cases y with
      | none => exact absurd (ack_only_from_hand s s' a h p hx.1 hy).1 hx.2
      | some y => cases y with
        | published => cases hy
        | handling => exact .deliver
        | pending => exact .same _

def runFrom (s : St) : List Action → Option St
  | [] => some s
  | a :: r => (act s a).bind (fun s1 => runFrom s1 r)

/-- along any execution: once a copy of `p` is acked the token never comes back -/
theorem sub_run_acked_stays (s : St) (acts : List Action) (s' : St) (h : runFrom s acts = some s') (p : Nat) :
    Acked s p → Acked s' p := by
  induction acts generalizing s with
  | nil => simp [runFrom] at h; subst h; exact id
  | cons a rest ih =>
    simp only [runFrom] at h
    cases ha : act s a with
    | none => simp [ha] at h
    | some s1 =>
      simp [ha] at h
      intro hp
      exact ih s1 h (acked_mono s s1 a ha p hp)

/-! ### non-vacuity: a concrete run through all three phases and back (buffer 1): spawn, lock, check, top, send, recv,
    nack, observe, top, send, recv, ack -/

def exActs : List Action :=
  [.spawn, .sLock 0, .sCheck, .sTop, .sSend, .recv, .settle 0 .nack, .sObsNack, .sTop, .sSend, .recv, .settle 1 .ack]

example : ((runFrom (init 1) (exActs.take 5)).map (fun s => s.copies)) = some [⟨0, true, false, .none⟩] := by decide
example : ((runFrom (init 1) (exActs.take 6)).map (fun s => s.copies)) = some [⟨0, true, true, .none⟩] := by decide
example : ((runFrom (init 1) (exActs.take 7)).map (fun s => s.copies)) = some [⟨0, true, true, .nack⟩] := by decide
example : ((runFrom (init 1) exActs).map (fun s => s.copies)) =
    some [⟨0, true, true, .nack⟩, ⟨0, true, true, .ack⟩] := by decide

/-- after `recv` the token is in `handling` … -/
example (s : St) (h : s.copies = [⟨0, true, true, .none⟩]) : TokIs s 0 (some .handling) := by
  refine ⟨?_, 0, _, by rw [h]; rfl, rfl, rfl, rfl⟩
  rintro ⟨i, cp, hi, _, h2⟩
  rw [h] at hi
  match i with
  | 0 => simp at hi; subst hi; cases h2
  | i + 1 => simp at hi
/-- … after the Nack it is `pending` again … -/
example (s : St) (h : s.copies = [⟨0, true, true, .nack⟩]) : TokIs s 0 (some .pending) := by
  refine ⟨?_, ?_⟩
  · rintro ⟨i, cp, hi, _, h2⟩
    rw [h] at hi
    match i with
    | 0 => simp at hi; subst hi; cases h2
    | i + 1 => simp at hi
  · rintro ⟨i, cp, hi, _, _, h3⟩
    rw [h] at hi
    match i with
    | 0 => simp at hi; subst hi; cases h3
    | i + 1 => simp at hi
/-- … and after the Ack of the second copy it is gone -/
example (s : St) (h : s.copies = [⟨0, true, true, .nack⟩, ⟨0, true, true, .ack⟩]) : TokIs s 0 none :=
  ⟨1, _, by rw [h]; rfl, rfl, rfl⟩

end Wm.GcSub
