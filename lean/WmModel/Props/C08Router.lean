/-
  C08 – `Wm.Route.handleOne` (what the Router does with one consumed message in one handler: whether it publishes, on which
  topic, which objects in which order, how it settles) is *derived* from the model of `handler.handleMessage` /
  `publishProducedMessages` (WmModel/Handle.lean, tied to the Go source by `Props/C02Tie.lean`) and the settlement model
  of C03, instead of being a second, independent description of the same Go function:
    * the settlement of `handleOne` is the one the subscriber sees after the effect list of `handleMessage`
      (`handleOne_settle_eq_handle`);
    * the `Publish` calls of `handleOne` – topic and returned objects, unmodified and in order – are exactly the
      `publishCall` effects of `handleMessage` that reach a real publisher (`handleOne_calls_eq_handle`): one call with the
      whole slice on the handler's own publish topic, or none.
  for every handler configuration, every delivery, every kind of message.  (The publisher accepts: that is the case
  `handleOne` describes; refusals and panics of the publisher are C02's subject.)
-/
import WmModel.Route
import WmModel.Props.C02
namespace Wm.Route
open Wm.Handle (Cfg Kind PubOutcome handle sentAfter AckCond final_settlement)

/-- the handler's configuration as `handleMessage` sees it -/
def HCfg.toCfg (h : HCfg) : Cfg :=
  ⟨match h.pub with
   | some _ => .withPub
   | none => if h.nilPub then .nilPub else .disabled,
   h.pubTopic⟩

/-- what the middleware-wrapped function returned, as `handleMessage` sees it -/
def toResult (h : HCfg) (s : Shape) : Handle.Result Ref :=
  match produced h s with
  | none => .returns [] true
  | some rs => .returns rs false

def Settle.toSent : Settle → Ack.Sent
  | .ack => .ack
  | .nack => .nack

/-- the `Publish` calls of an effect list: topic and objects -/
def pubCallsOf : List (Handle.Effect Ref) → List (String × List Ref)
  | [] => []
  | .publishCall t ms :: rest => (t, ms) :: pubCallsOf rest
  | _ :: rest => pubCallsOf rest

/-- **settlement**: `handleOne` settles as `handleMessage` does -/
theorem handleOne_settle_eq_handle (k : Ack.Kind) (h : HCfg) (d : Delivery) :
    sentAfter k (handle h.toCfg ⟨none, toResult h d.shape⟩ .accept) = (handleOne h d).settle.toSent := by
  have hfs := final_settlement k h.toCfg (toResult h d.shape) .accept
  unfold handleOne toResult at *
  cases hp : produced h d.shape with
  | none =>
    simp only [hp] at hfs ⊢
    apply hfs.2.2
    rintro ⟨outs, h1, _⟩
    simp at h1
  | some rs =>
    simp only [hp] at hfs ⊢
    cases rs with
    | nil => exact hfs.1.2 ⟨[], rfl, Or.inl rfl⟩
    | cons r rs =>
      cases hpub : h.pub with
      | none =>
        simp only [Settle.toSent]
        apply hfs.2.2
        rintro ⟨outs, h1, h2⟩
        simp at h1
        subst h1
        rcases h2 with h2 | ⟨h2, _⟩
        · cases h2
        · simp [HCfg.toCfg, hpub] at h2
          split at h2 <;> cases h2
      | some p =>
        simp only [Settle.toSent]
        apply hfs.1.2
        exact ⟨r :: rs, rfl, Or.inr ⟨by simp [HCfg.toCfg, hpub], rfl⟩⟩

/-- **right topic, unmodified outputs, in order, one call or none**: the calls of `handleOne` on the handler's publisher
    are the `publishCall` effects of `handleMessage` (for a handler that has a publisher object of its own; the
    `disabledPublisher` of AddNoPublisherHandler is no publisher of anybody's) -/
theorem handleOne_calls_eq_handle (h : HCfg) (d : Delivery) (hk : h.toCfg.kind ≠ .disabled) :
    (handleOne h d).calls.map (fun c => (c.topic, c.items.map (·.1))) =
      pubCallsOf (handle h.toCfg ⟨none, toResult h d.shape⟩ .accept) := by
  unfold handleOne toResult
  cases hp : produced h d.shape with
  | none => simp [handle, Handle.selfEff, pubCallsOf]
  | some rs =>
    cases rs with
    | nil => simp [handle, Handle.selfEff, Handle.publishProduced, Handle.settleTail, pubCallsOf]
    | cons r rs =>
      cases hpub : h.pub with
      | none =>
        have hn : h.toCfg.kind = .nilPub := by
          simp [HCfg.toCfg, hpub] at hk ⊢
          cases hb : h.nilPub <;> simp [hb] at hk ⊢
        simp [handle, Handle.selfEff, Handle.publishProduced, hn, Handle.settleTail, pubCallsOf]
      | some p =>
        have hw : h.toCfg.kind = .withPub := by simp [HCfg.toCfg, hpub]
        have ht : Handle.pubTopic h.toCfg = h.pubTopic := by
          unfold Handle.pubTopic; rw [hw]; rfl
        simp [handle, Handle.selfEff, Handle.publishProduced, hw, Handle.settleTail, pubCallsOf, Handle.effPub, ht,
          List.map_map, Function.comp_def]

/-- AddNoPublisherHandler whose chain nevertheless returns messages: `handleMessage` asks only the `disabledPublisher`
    (topic ""), which refuses – Nack, nothing reaches a real publisher (the clause of the statement) -/
theorem disabled_outputs_nack (k : Ack.Kind) (h : HCfg) (d : Delivery) (hk : h.toCfg.kind = .disabled) (r : Ref) (rs : List Ref)
    (hp : produced h d.shape = some (r :: rs)) (pb : PubOutcome) :
    sentAfter k (handle h.toCfg ⟨none, toResult h d.shape⟩ pb) = .nack ∧ (handleOne h d).settle = .nack ∧
      (handleOne h d).calls = [] := by
  have hnone : h.pub = none := by
    cases hpub : h.pub with
    | none => rfl
    | some p => simp [HCfg.toCfg, hpub] at hk
  refine ⟨?_, ?_, ?_⟩
  · have hfs := final_settlement k h.toCfg (toResult h d.shape) pb
    apply hfs.2.2
    rintro ⟨outs, h1, h2⟩
    simp [toResult, hp] at h1
    subst h1
    rcases h2 with h2 | ⟨h2, _⟩
    · cases h2
    · rw [hk] at h2; cases h2
  · simp [handleOne, hp, hnone]
  · simp [handleOne, hp, hnone]

/-! ### non-vacuity -/
def exH : HCfg := ⟨"h", 1, "in", "sub", some 7, "out", "pub", 1, false, false⟩
example : (handleOne exH ⟨1, "in", 3, .outs [.consumed, .fresh 0], [], .live⟩).calls.map (fun c => (c.topic, c.items.map (·.1)))
    = [("out", [.consumed, .fresh 0, .mw 0])] := by decide
example : pubCallsOf (handle exH.toCfg ⟨none, toResult exH (.outs [.consumed, .fresh 0])⟩ .accept)
    = [("out", [.consumed, .fresh 0, .mw 0])] := by decide

end Wm.Route
